#!/usr/bin/env python3
"""Regenerate /verif/MANIFEST.json from the table below (single source of truth)."""
import json, os
from pathlib import Path

V = Path(__file__).resolve().parent.parent
BASE = json.load(open("/root/.vp/BASELINE.json")) if os.path.exists("/root/.vp/BASELINE.json") else {}

# id -> (level, technique, text, note, design_ref)
CHECKS = {}
def add(pid, level, technique, text, note, ref):
    CHECKS[pid] = dict(level=level, technique=technique, text=text, note=note, ref=ref)

exec(open(V / "tools" / "claims.py").read())

props = [json.loads(l)["id"] for l in open(V / "properties.jsonl")]
checks = []
for pid in props:
    if pid not in CHECKS:
        continue
    c = CHECKS[pid]
    checks.append({
        "property_id": pid,
        "quick_cmd": f"./check {pid} --tier quick",
        "thorough_cmd": f"./check {pid} --tier thorough",
        "evidence_file": f"/verif/evidence/{pid}.json",
        "replay_cmd_template": f"./check {pid} --replay {{path}}",
        "engine": "tlc+conformance",
        "level_claimed": {"category": c["level"], "text": c["text"], "design_ref": c["ref"]},
        "level_note": c["note"],
        "technique": c["technique"],
    })
na = [{"property_id": p, "reason": NOT_APPLICABLE.get(p, "check not built yet in this round; see DESIGN.md section 5 for the planned specification")}
      for p in props if p not in CHECKS]
man = {
    "version": 1,
    "setup_cmd": "./setup.sh",
    "hooks": {
        "guard": "HITEN_VERIF",
        "enable": "HITEN_VERIF=1 is exported by ./check; the machinery binds from outside (scripted collaborators, py_func with patched module globals, recorder subclasses), so no source hook exists in /repo",
        "baseline_off_cmd": "cd /repo && env -u HITEN_VERIF /venv/bin/python -m pytest -ra -q -p no:cacheprovider --timeout=900 --continue-on-collection-errors",
        "source_commits": [],
        "add_only": True,
    },
    "engines": [{
        "name": "tlc+conformance",
        "path": "/verif/check",
        "serves_properties": [c["property_id"] for c in checks],
        "kind_free_text": "explicit TLA+ specifications under /verif/spec checked with TLC; bound to hiten by spec->code replay of TLC-generated behaviours/instances and code->spec validation of recorded traces (harness/*.py)",
    }],
    "checks": checks,
    "notes": "See DESIGN.md. known_findings.json lists genuine defects recorded rather than repaired, and the fix: commits.",
    "not_applicable": na,
}
(V / "MANIFEST.json").write_text(json.dumps(man, indent=1) + "\n")
print("checks:", [c["property_id"] for c in checks], "not_applicable:", [n["property_id"] for n in na])
