#!/usr/bin/env python3
"""Merge a seedcheck verdict (JSON on stdin or file) into seeded/<id>/meta.json."""
import json, sys
verdict = json.load(open(sys.argv[1]))
meta_path = verdict["seed"] + "/meta.json"
try:
    meta = json.load(open(meta_path))
except Exception:
    meta = {}
meta["confirmation_by_main_session"] = {
    "what_was_run": "tools/seedcheck.py: scratch worktree of /repo HEAD; demo.py on the clean tree, then with patch.diff applied; then ./check %s --tier %s against the patched tree" % (verdict["property"], verdict["tier"]),
    "demo_clean_rc": verdict.get("demo_clean_rc"), "demo_patched_rc": verdict.get("demo_patched_rc"),
    "confirmed": verdict.get("confirmed"),
}
_k = verdict["property"] + ":" + verdict["tier"]
if _k in meta.setdefault("checks", {}) and meta["checks"][_k].get("caught") != verdict.get("caught"):
    meta.setdefault("earlier_runs", []).append({_k: meta["checks"][_k]})
meta["checks"][_k] = {
    "exit_code": verdict.get("check_rc"), "caught": verdict.get("caught"), "seconds": verdict.get("check_s"),
    "lines": verdict.get("check_lines"),
}
json.dump(meta, open(meta_path, "w"), indent=1)
print(meta_path, "caught" if verdict.get("caught") else "MISSED", "confirmed" if verdict.get("confirmed") else "UNCONFIRMED")
