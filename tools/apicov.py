#!/venv/bin/python
"""Analysis aid: which Python-level functions of the property's anchor files does its check never execute?

usage: tools/apicov.py C01 [C02 ...]      (runs ./check <ID> --tier quick under coverage.py; slow: ~2x)
Output: .work/apicov/<ID>.json (coverage report) and a table of functions in the anchor files (properties.jsonl ->
anchors.files) whose body has no executed line.  @njit functions are listed separately (their bodies run compiled, which
coverage cannot see).  Nothing here is part of a verdict; it tells the builder where a check has no eyes.
"""
import ast
import json
import os
import subprocess
import sys

VERIF = os.path.dirname(os.path.dirname(os.path.abspath(__file__)))
REPO = os.environ.get("HITEN_REPO", "/repo")


def functions(path):
    tree = ast.parse(open(path).read())
    out = []

    def visit(node, prefix=""):
        for ch in ast.iter_child_nodes(node):
            if isinstance(ch, (ast.FunctionDef, ast.AsyncFunctionDef)):
                decos = [ast.unparse(d) for d in ch.decorator_list]
                body = [n for n in ch.body if not (isinstance(n, ast.Expr) and isinstance(getattr(n, "value", None), ast.Constant)
                                                   and isinstance(n.value.value, str))]
                lines = set()
                for n in body:
                    for sub in ast.walk(n):
                        if hasattr(sub, "lineno"):
                            lines.add(sub.lineno)
                out.append((prefix + ch.name, ch.lineno, lines, any("njit" in d or "jit" in d for d in decos),
                            any("abstractmethod" in d for d in decos)))
                visit(ch, prefix + ch.name + ".")
            elif isinstance(ch, ast.ClassDef):
                visit(ch, prefix + ch.name + ".")
    visit(tree)
    return out


def main():
    props = {json.loads(l)["id"]: json.loads(l) for l in open(os.path.join(VERIF, "properties.jsonl"))}
    os.makedirs(os.path.join(VERIF, ".work", "apicov"), exist_ok=True)
    for pid in sys.argv[1:]:
        rep = os.path.join(VERIF, ".work", "apicov", pid + ".json")
        if not os.environ.get("APICOV_REUSE") or not os.path.exists(rep):
            env = dict(os.environ, VERIF_APICOV=rep)
            p = subprocess.run(["./check", pid, "--tier", "quick"], cwd=VERIF, env=env, capture_output=True, text=True)
            print(f"# {pid}: check rc={p.returncode}")
        data = json.load(open(rep))["files"]
        executed = {os.path.abspath(k if os.path.isabs(k) else os.path.join(REPO, k)): set(v["executed_lines"]) for k, v in data.items()}
        print(f"## {pid}: functions of the anchor files never executed by the quick check")
        for rel in props[pid]["anchors"]["files"]:
            path = os.path.join(REPO, rel)
            if not os.path.exists(path):
                continue
            ex = executed.get(os.path.abspath(path), set())
            never, jit = [], []
            for name, ln, lines, isjit, isabs in functions(path):
                if isabs or not lines:
                    continue
                if lines & ex:
                    continue
                (jit if isjit else never).append(f"{name}:{ln}")
            print(f"  {rel}: {len(never)} python-level never executed" + (f" (+{len(jit)} @njit: unknown)" if jit else ""))
            for n in never:
                print(f"      {n}")


if __name__ == "__main__":
    main()
