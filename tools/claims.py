# executed by gen_manifest.py; one add(...) per claimed property
NOT_APPLICABLE = {}

add("C13", "model_checking",
    "TLA+ state machine of the predictor-corrector loop (Continuation.tla), TLC exhaustive over corrector outcome scripts; replay of every TLC behaviour into the real backend with scripted collaborators; TLC trace validation of the recorded runs",
    "Continuation.tla transcribes pc.py/stepping one action per loop branch; TLC checks algorithm => every clause of C13 (member bound, only-last-outside-target, prediction offset, step within min/max, shrink on reject, give-up after retries, counts equal events, termination) for all corrector accept/reject/raise scripts within the constants; every terminal behaviour is replayed into _PredictorCorrectorContinuationBackend.run and the recorded event trace is validated by TLC against ContinuationTrace.tla.",
    "Trusted: TLC, the 1-D integer lattice abstraction of parameters (power-of-two steps, exact in binary64), scripted corrector/predictor/parameter getter. Not decided here: member periodicity with its own period (C05 contract).",
    "DESIGN.md section 5, C13")
