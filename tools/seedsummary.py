#!/usr/bin/env python3
"""Write seeded/SUMMARY.md from seeded/*/meta.json."""
import glob, json, os
rows = []
for d in sorted(glob.glob("/verif/seeded/*/")):
    mp = os.path.join(d, "meta.json")
    if not os.path.exists(mp):
        continue
    m = json.load(open(mp))
    name = os.path.basename(d.rstrip("/"))
    checks = m.get("checks", {})
    caught = [k for k, v in checks.items() if v.get("caught")]
    missed = [k for k, v in checks.items() if not v.get("caught")]
    keys = []
    for v in checks.values():
        for l in v.get("lines") or []:
            if l.strip().startswith("key="):
                keys.append(l.strip().split(" :: ")[0][4:])
    rows.append((name, m.get("property", "?"), (m.get("clause") or "")[:110], (m.get("needs") or "")[:140],
                 ", ".join(m.get("files_touched", []))[:90], "yes" if m.get("confirmation_by_main_session", {}).get("confirmed") else "NO",
                 ", ".join(caught) or "-", ", ".join(missed) or "-", "; ".join(sorted(set(keys)))[:120]))
with open("/verif/seeded/SUMMARY.md", "w") as f:
    f.write("# Seeded changes\n\nEach directory holds patch.diff, demo.py, meta.json (property, clause, what it needs to manifest, what was run).\n"
            "Produced by fresh sub-agents that saw only the property text and a scratch worktree; confirmed by the main session "
            "(demo passes on the clean tree, fails with the patch) with tools/seedcheck.py.\n\n")
    f.write("| seed | property | clause broken | needs | files | confirmed | caught by | missed by | violation key |\n|---|---|---|---|---|---|---|---|---|\n")
    for r in rows:
        f.write("| " + " | ".join(x.replace("|", "/").replace("\n", " ") for x in r) + " |\n")
    n = len(rows)
    c = sum(1 for r in rows if r[6] != "-")
    f.write(f"\n{c} of {n} seeded changes are caught by at least one registered check.\n")
print(open("/verif/seeded/SUMMARY.md").read()[-600:])
