#!/usr/bin/env python3
"""Print a python file with docstrings and blank lines stripped (reading aid)."""
import ast, sys
src = open(sys.argv[1]).read()
tree = ast.parse(src)
drop = set()
for node in ast.walk(tree):
    if isinstance(node, (ast.FunctionDef, ast.ClassDef, ast.AsyncFunctionDef, ast.Module)):
        b = node.body
        if b and isinstance(b[0], ast.Expr) and isinstance(getattr(b[0], 'value', None), ast.Constant) and isinstance(b[0].value.value, str):
            for ln in range(b[0].lineno, b[0].end_lineno + 1):
                drop.add(ln)
for i, line in enumerate(src.splitlines(), 1):
    if i in drop or not line.strip():
        continue
    print(f"{i:5d} {line}")
