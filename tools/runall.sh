#!/bin/bash
# Run every registered check once (tier from $1, default quick) and print a one-line verdict per property.
cd "$(dirname "$0")/.."
tier=${1:-quick}
for p in C01 C02 C03 C04 C05 C06 C07 C08 C09 C10 C11 C12 C13 C14 C15 C16 C17 C18 C19 C20; do
  s=$(date +%s)
  out=$(./check $p --tier $tier 2>&1); rc=$?
  echo "$p rc=$rc $(( $(date +%s) - s ))s $(echo "$out" | grep '^\[C' | tail -1)"
  echo "$out" | grep "^VIOLATION\|^MACHINERY\|^KNOWN-FINDING" | cut -c1-200
done
