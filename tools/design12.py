#!/usr/bin/env python3
"""Regenerate DESIGN.md section 12 (and seeded/SUMMARY.md) from seeded/*/meta.json.

The notes below record, for every seeded change a first version of a check MISSED, what was added to the
check so that it is caught (the history the brief asks for: "strengthen your checks where they miss one").
"""
import glob
import json
import os
import re
import subprocess

STRENGTHENED = {
    "C01-1": "several `System.from_mu` systems alive in one process (the change keyed a module-level memo by body names)",
    "C02-1": "add-on `c02acc.py`: tolerance contract with rtol != atol at amplitudes 1e-3 / 1e3 on a fine output grid",
    "C02-2": "same add-on (scale exchange atol<->rtol only shows when |y| is far from 1); C17's twin run sees it too",
    "C03-2": "history part: period preset to a 5-digit value, then `correct()`; observable `period_is_twice_half_period`",
    "C05-2": "end-to-end closure contract on families whose control indices are not ascending (vertical default, halo re-ordered)",
    "C07-2": "object-level history: `hamiltonian_system` of another form first, then `physical`, on one LibrationPoint object",
    "C08-1": "pipeline history: full normal form requested, then the cached `complex_modal` compared with a fresh one (aliasing)",
    "C08-2": "`LieDriver.tla`: degree schedules with identically-zero homogeneous blocks replayed through the real driver",
    "C09-1": "history on one CenterManifold: convert at degree 3, raise the degree to 4, convert again; compare with a fresh object",
    "C10-2": "non-uniform ascending / descending grids (`ascnu`, `descnu`) in Propagate.tla and its replay",
    "C11-1": "add-on `c11back.py`: backward time and explicitly time-dependent events through the public integrators",
    "C12-1": "`history_contracts`: orbit A, orbit B, then A again with a changed argument on one Manifold service",
    "C12-2": "same history part: `compute(displacement=d1)` then `compute(displacement=d2)` on one object",
    "C14-1": "real executor runs with more workers than numba kernel threads (W=5, threads=2) compared with the single-worker run",
    "C15-1": "cubic-interpolation bound checked on every grid shape, not only the uniform one",
    "C16-2": "add-on `c16long.py`: long-time energy boundedness on the event path as well as the plain one",
    "C18-1": "real<->complex pairs executed on L3/L4/L5 with dense random polynomials + point-wise agreement with `_solve_real`",
    "C19-1": "closest-point routine re-run on copies of every segment pair scaled by 2^-10 and 2^-14 (scale invariance)",
    "C20-1": "`spec/objects/probe/MCCMProbe.tla` (transition cover x read battery) incl. save/load and to_synodic in the quick tier",
    "C01-4": "`EnergyDecomposition` in Field.tla; the split API (kinetic_energy, effective_potential, gravitational_potential, distances) bound at the exact witness points",
    "C04-3": "normal-form reduction `C^T Hess(H2) C` for all five points with the Hessian taken from the field's Jacobian at the point (L4/L5 had only symplecticity)",
    "C08-3": "served history on one pipeline: inverse expansions first, forward next, full normal form requested, everything fetched again (generators / expansions unchanged, laws hold)",
    "C08-4": "same served history (`generators_unchanged_by_expansion`, inverse-then-forward order)",
    "C09-3": "history on one CenterManifold: `compute('real_full_normal')` detour between conversions; compare with a fresh object",
    "C10-4": "add-on `c10ev.py`: `_propagate_dynsys(forward=+-1, event_fn=...)` for every method: stamp sign, monotone, hit time, state on the flow at the stamp",
    "C11-3": "add-on `c11hist.py`: plain-Python closures from one `def` with different captured constants, one call after the other",
    "C11-4": "same add-on: event never fires, user `min_step`, span not a multiple of it: end time and end state",
    "C12-3": "method sweep (adaptive 8/5, fixed 8/4) with `end_state_on_signed_flow`: the end of each trajectory is the flow of its seed over its signed span",
    "C13-4": "target interval written four ways ((2,1) / 1-D, ascending / descending): normalisation and spelling invariance of the run",
    "C14-4": "history on one CenterManifoldMap: section p3, config re-assigned, p3 again with new options, sections alternated; compare with fresh maps",
    "C15-3": "`_SynodicEngine.solve` on three arcs, serial vs thread pool, duplicate tolerances chosen so that each one matters (min point distance < time tol < min time gap)",
    "C16-4": "Hamiltonian with linear part and energy offset (two shifted oscillators) against its exact flow",
    "C17-3": "the twin stage not returning within a generous limit is a violation (`twin-integrations|do-not-return`) instead of a machinery failure",
    "C18-4": "per-edge history: default call, call with `tol=1e-2`, default call again (identical coefficients, registry defaults unchanged)",
    "C19-4": "ballistic tolerance larger than the delta-v limit (`bal2 = 11`) and such runs routed through engine + interface",
    "C01-5": "caught by C10 after `c10ev.py` gained short spans on fine grids (tf = 1e-5 on 2001 nodes): stamps are the grid, samples on the flow",
    "C02-6": "`c02acc.py`: two oscillators of amplitude 1e3 and 1e-3, error of every component against its OWN tolerance",
    "C03-5": "short-span STM contract: tf = 1.5e-5 on the default 2000-node grid, Phi against I + A tf with the C01-verified Jacobian, near the secondary too",
    "C03-7": "not a new input family but a harness defect: the mutant (mu/mu2 slip in the out-of-plane Hessian entry) makes the halo fixture uncorrectable, and the exception aborted the run (exit 2) before the spatial fd_column/tangent contracts, which do see it, were decided; fixture failures are now collected, the STM contracts decide, and the run is inconclusive (exit 2) only when nothing else failed",
    "C04-5": "orbits of every family with an analytic seed are built FROM the point between the two rounds of memoised reads (LibrationObject.tla: a re-read returns the value first returned)",
    "C05-5": "history: orbit rebuilt from a converged state (zero Newton iterations) carrying a rounded period; closure with the period the object reports",
    "C05-6": "the scripted-solver replay hands the stepper to the backend three ways in rotation (constructor, per call, per call over a different constructor stepper)",
    "C06-6": "exhaustive sweep of LOCALLY built tables (`_init_index_tables(30)` + `_create_encode_dict_from_clmo`) to degree 30, not only of the global ones",
    "C10-6": "`c10ev.py`: non-zero epoch (t0 = 0.75): stamps = forward * grid, states on the flow over the elapsed time, zero-span call at the same epoch",
    "C11-5": "`c11hist.py`: fixed-step drivers on a non-uniform grid (dt 0.01 then 0.02), with a crossing and with an event that never fires",
    "C12-5": "manifold objects sent through save / load and computed AFTER loading, both stabilities and sides: times, Floquet angle, same side as the unsaved object",
    "C12-6": "displacement 1e-9 (edge of the range), phase 0 included: seed = orbit point + displacement * eigenvector",
    "C13-5": "continuation state selection written four ways (tuple, scalar enum member of value 0, int, list): same family, only the selected component stepped",
    "C13-6": "fine-step family (1e-6) and a period-less seed: every member's period against an independent re-correction",
    "C14-6": "`get_states` / `get_points` with every pair of axes against the columns of `compute().states`",
    "C15-5": "one-sided patterns with on-surface samples realised as residuals below the tolerance (5e-13) instead of exact zeros",
    "C15-6": "public pipeline on a CLOSED trajectory (corrected Lyapunov orbit over one period), sections crossed in the first / last sample interval",
    "C16-5": "`c16long.py`: the same grid shifted to clock values 1000 and 2000 must give the same states (autonomous Hamiltonian)",
    "C19-5": "scale-invariance re-runs extended to 2^-20 and 2^-24 of the unit scale",
    "C09-5": "C08: generator list with an empty block below a populated one; C09 thorough: mu = 1/2 at L1, degree 6",
    "C17-5": "twin configurations with an explicitly time-dependent event (moving section); a value-level difference at a trace event is a violation even when the decisions coincide",
    "C17-6": "TLC's Hamiltonians rescaled to large units by powers of two (coefficients down to 2^-60): S * rhs_s(S z) = rhs(z) bit for bit",
    "C18-5": "direct `_substitute_coordinates(x, M)` with non-symmetric integer / Gaussian-integer matrices against M x (the same change is C06-5, caught by C06)",
    "C20-3": "deep probe family behind the save/load prefix (two more writers, a re-load, every read) and a read battery that reads the ATTRIBUTES before any computing read refreshes them",
    "C20-6": "two user periods that differ by 4e-6 relative, and absolute checks next to the twin comparison (the twin runs the same code): an assigned period is the period; the period after `correct()` is the one the correction found",
    "C20-2": "`spec/objects/probe/MCOrbitProbe.tla`: every writer out of every core state followed by every read",
}


def main():
    rows = []
    for d in sorted(glob.glob("/verif/seeded/*/")):
        mp = os.path.join(d, "meta.json")
        if not os.path.exists(mp):
            continue
        m = json.load(open(mp))
        name = os.path.basename(d.rstrip("/"))
        if name in STRENGTHENED and m.get("strengthened") != STRENGTHENED[name]:
            m["strengthened"] = STRENGTHENED[name]
            json.dump(m, open(mp, "w"), indent=1)
        checks = m.get("checks", {})
        caught = sorted(k.split(":")[0] for k, v in checks.items() if v.get("caught"))
        keys = []
        for k, v in checks.items():
            if not v.get("caught"):
                continue
            for l in v.get("lines") or []:
                if l.strip().startswith("key="):
                    keys.append(l.strip().split(" :: ")[0][4:])
        clause = re.sub(r"\s+", " ", (m.get("clause") or ""))[:150]
        files = ", ".join(os.path.basename(f) for f in m.get("files_touched", []))
        rows.append((name, clause, files, ", ".join(caught) or "**none**", "; ".join(sorted(set(keys))[:2])[:150],
                     STRENGTHENED.get(name, "")))
    n, c, s = len(rows), sum(1 for r in rows if r[3] != "**none**"), sum(1 for r in rows if r[5])
    own = sum(1 for r in rows if r[0].split("-")[0] in r[3].split(", "))
    out = ["## 12. Seeded changes: which checks catch which", "",
           "Generated by `tools/design12.py` from `/verif/seeded/*/meta.json` (do not edit by hand).", "",
           "The seeded changes (three rounds of 40: two per property and round, plus a short fourth round of one change each for C03, C04, C08, C16: ids ending in -7) were written by fresh sub-agents that were given only the text of one property and a",
           "scratch git worktree (nothing from /verif).  Each change compiles, passes the repository's tests that cover the",
           "files it touches, and needs something specific to manifest (a particular argument, history, parameter region or",
           "schedule: column *needs* of `seeded/SUMMARY.md`).  Each directory `seeded/<id>/` holds `patch.diff`, `demo.py`",
           "(exit 0 on the clean tree, 1 with the patch) and `meta.json`.  `tools/seedcheck.py <dir> <ID>` confirms the demo",
           "in a scratch worktree and runs the registered quick check against the patched tree; `--inplace` does the same",
           "with `git -C /repo apply` / `git -C /repo checkout -- .`.  None of these changes was ever committed to /repo.", "",
           f"Result: **{c} of {n}** are caught by at least one registered check ({own} by the property's own check, the others by a",
           "neighbouring property's check: column *caught by*; C09-5 also by C09's thorough tier); " + f"{s} of them were missed by the",
           "first version of that check and are caught after the check was strengthened (last column: what was added —",
           "always a new family of inputs / histories generated from the specification, never a special case for the seed).",
           "", "| seed | clause broken | file(s) | caught by (quick) | violation key | what had to be added |", "|---|---|---|---|---|---|"]
    for r in rows:
        out.append("| " + " | ".join(x.replace("|", "/").replace("\n", " ") for x in r) + " |")
    out += ["", "Lessons that changed the machinery as a whole:", "",
            "* *State coverage is not enough for cache state machines.*  One shortest history per model state never exercises a",
            "  setter that skips its invalidation on a longer path to the same state; the probe modules add the transition",
            "  cover followed by a full battery of reads (W-method) for every object model of C20.",
            "* *Histories, not fresh objects.*  Most missed changes kept something from an earlier call (module memo, cached",
            "  eigen-decomposition, lower-degree tables).  Every object-level check now has a part that reuses one object",
            "  across several logical states, with other objects in between.",
            "* *One-sided laws.*  Two-sided windows for decay ratios were both too strict on the clean tree (rounding floors)",
            "  and too lax for sign errors; they became one-sided bounds with explicit floors plus exact-instance replays.",
            "* *Scale and direction families.*  Absolute thresholds, swapped rtol/atol and time-direction bugs only show away",
            "  from O(1) magnitudes / forward time: every numeric contract is now run at several magnitudes and both directions.",
            "* A check that hangs is a broken check: `harness/main.py` has a watchdog (see 11.5).",
            "* *Rounds matter.*  The share of changes missed at first was 50 % in round 1, 32 % in round 2 and about 50 % in round 3 (whose",
            "  prompt excluded the kinds of change used before): each round exposed input families, not single cases, and one remark of a",
            "  seeding agent led to a genuine defect of the library (11.5).  Every one of the 120 changes of rounds 1-3 is caught by the final checks",
            "  (re-verified after the last change to any check; three are caught by a neighbouring property's check only: C03-4, C03-6 by",
            "  C13, C09-5 by C08 and by C09's thorough tier).  The fourth round (4 changes, ids -7) was caught 3 of 4 at once; the fourth (C03-7)",
            "  exposed a harness weakness rather than a missing input family: an uncorrectable fixture orbit ended the C03 run with exit 2",
            "  before the contracts that see the change were decided.  For C16-7 the seeding agent's own demonstration did not discriminate",
            "  (it failed on the clean tree too); the change was kept with the demonstration the agent proposed, written by the main session",
            "  (seeded/C16-7/meta.json: demo_note).", ""]
    text = open("/verif/DESIGN.md").read()
    i = text.index("## 12. Seeded changes: which checks catch which")
    open("/verif/DESIGN.md", "w").write(text[:i] + "\n".join(out))
    subprocess.run(["/verif/tools/seedsummary.py"], capture_output=True)
    print(f"{c}/{n} caught, {s} after strengthening")


if __name__ == "__main__":
    main()
