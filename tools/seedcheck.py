#!/usr/bin/env python3
"""Confirm a seeded change and run a check against it.

usage: tools/seedcheck.py <seed_dir> <PROPERTY> [--tier quick] [--inplace]

<seed_dir> holds patch.diff, demo.py, meta.json (from a mutation agent).
1. scratch worktree of /repo HEAD: demo must exit 0; with patch applied demo must exit non-zero.
2. the check is run against the patched tree: by default through HITEN_REPO=<scratch worktree>
   (safe while other jobs use /repo); with --inplace the patch is applied to /repo itself
   (git -C /repo apply), the check is run and the change is undone (git -C /repo checkout -- .).
3. prints a JSON verdict; removes the scratch worktree.
"""
import json
import os
import shutil
import subprocess
import sys
import tempfile
import time

ENV = dict(os.environ, OMP_WAIT_POLICY="passive", PYTHONHASHSEED="0")


def sh(cmd, cwd=None, env=None, timeout=3600):
    p = subprocess.run(cmd, shell=True, cwd=cwd, env=env or ENV, capture_output=True, text=True, timeout=timeout)
    return p.returncode, (p.stdout + p.stderr)


def main():
    seed, pid = sys.argv[1], sys.argv[2]
    tier = sys.argv[sys.argv.index("--tier") + 1] if "--tier" in sys.argv else "quick"
    inplace = "--inplace" in sys.argv
    seed = os.path.abspath(seed)
    patch, demo = os.path.join(seed, "patch.diff"), os.path.join(seed, "demo.py")
    wt = tempfile.mkdtemp(prefix="seedwt-", dir="/tmp")
    os.rmdir(wt)
    out = {"seed": seed, "property": pid, "tier": tier}
    try:
        rc, o = sh(f"git -C /repo worktree add -q --detach {wt} HEAD")
        if rc:
            raise SystemExit("worktree add failed: " + o)
        env = dict(ENV, PYTHONPATH=f"{wt}/src")
        t0 = time.time()
        rc0, o0 = sh(f"/venv/bin/python {demo}", cwd=wt, env=env, timeout=1800)
        out["demo_clean_rc"] = rc0
        rc, o = sh(f"git apply {patch}", cwd=wt)
        if rc:
            out["patch_applies"] = False
            out["error"] = o[-500:]
            print(json.dumps(out, indent=1))
            return 2
        out["patch_applies"] = True
        rc1, o1 = sh(f"/venv/bin/python {demo}", cwd=wt, env=env, timeout=1800)
        out["demo_patched_rc"] = rc1
        out["demo_patched_tail"] = o1[-400:]
        out["demo_s"] = round(time.time() - t0, 1)
        out["confirmed"] = (rc0 == 0 and rc1 != 0)
        t0 = time.time()
        if inplace:
            rc, o = sh(f"git -C /repo apply {patch}")
            try:
                rcc, oc = sh(f"./check {pid} --tier {tier}", cwd="/verif", timeout=7200)
            finally:
                sh("git -C /repo checkout -- .")
        else:
            rcc, oc = sh(f"./check {pid} --tier {tier}", cwd="/verif", env=dict(ENV, HITEN_REPO=wt), timeout=7200)
        out["check_rc"] = rcc
        out["check_s"] = round(time.time() - t0, 1)
        lines = [l for l in oc.splitlines() if l.startswith("VIOLATION") or l.startswith("  key=") or l.startswith("MACHINERY") or l.startswith("[C")]
        out["check_lines"] = [l[:400] for l in lines[:12]]
        out["caught"] = rcc == 1
    finally:
        sh(f"git -C /repo worktree remove --force {wt}")
        shutil.rmtree(wt, ignore_errors=True)
    print(json.dumps(out, indent=1))
    return 0


if __name__ == "__main__":
    sys.exit(main())
