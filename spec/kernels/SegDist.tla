------------------------------ MODULE SegDist ------------------------------
(***************************************************************************)
(* Closest points of two planar segments                                   *)
(*   src/hiten/algorithms/connections/backends.py                          *)
(*     _closest_points_on_segments_2d  (used by _refine_pairs_on_section)  *)
(*                                                                         *)
(* Property C19: "... the refined meeting point is the midpoint of the     *)
(* truly closest points of the two local section segments."                *)
(*                                                                         *)
(* Segments A = a0 + s u, B = b0 + t v (s, t in [0,1]) with integer end    *)
(* points.  REQUIREMENT: the exact minimum of the squared distance, from   *)
(* the geometric definition (0 if the segments cross properly, else the    *)
(* smallest of the four end-point-to-segment distances) -- a rational.     *)
(* ALGORITHM: transcription of the routine over exact rationals.           *)
(* TLC checks  D2(algorithm) = TrueMinD2  for every pair of segments with  *)
(* end points on a (GridMax+1)^2 grid, and laws of the requirement itself  *)
(* (symmetries; no pair of points on a parameter lattice is closer).       *)
(***************************************************************************)
EXTENDS Integers, Sequences, FiniteSets, TLC

CONSTANTS GridMax,        \* end-point coordinates range over 0 .. GridMax
          ParallelRule    \* "asis": den = 0 leaves s = t = 0 (unchanged tree)
                          \* "project": den = 0 projects a0 on B / b0 on A first (proposed repair C19-fix1)

VARIABLE seg              \* <<a0x, a0y, a1x, a1y, b0x, b0y, b1x, b1y>>

---------------------------------------------------------------------------
SgAbs(x) == IF x < 0 THEN -x ELSE x
RECURSIVE SgGcd(_, _)
SgGcd(a, b) == IF b = 0 THEN a ELSE SgGcd(b, a % b)
Q(n, d) ==                      \* rational n/d in lowest terms, d # 0
    LET s == IF d < 0 THEN -1 ELSE 1
        k == SgGcd(SgAbs(n), SgAbs(d))
    IN  <<(s * n) \div k, (s * d) \div k>>
QZero == <<0, 1>>
QOne == <<1, 1>>
QLess(a, b) == a[1] * b[2] < b[1] * a[2]
QLe(a, b) == a[1] * b[2] <= b[1] * a[2]
QMin(a, b) == IF QLe(a, b) THEN a ELSE b
QClamp01(a) == IF a[1] < 0 THEN QZero ELSE IF a[1] > a[2] THEN QOne ELSE a

Dot(ax, ay, bx, by) == ax * bx + ay * by
Cross(ax, ay, bx, by) == ax * by - ay * bx

---------------------------------------------------------------------------
(***************************************************************************)
(* REQUIREMENT                                                             *)
(***************************************************************************)
\* squared distance from point p to segment q0 q1
PointSegD2(px, py, q0x, q0y, q1x, q1y) ==
    LET vx == q1x - q0x  vy == q1y - q0y
        wx == px - q0x   wy == py - q0y
        c == Dot(wx, wy, vx, vy)
        CC == Dot(vx, vy, vx, vy)
    IN  IF CC = 0 \/ c <= 0 THEN Q(Dot(wx, wy, wx, wy), 1)
        ELSE IF c >= CC THEN Q(Dot(px - q1x, py - q1y, px - q1x, py - q1y), 1)
        ELSE Q(Dot(wx, wy, wx, wy) * CC - c * c, CC)

Orient(px, py, qx, qy, rx, ry) == Cross(qx - px, qy - py, rx - px, ry - py)
\* the open segments cross in a single interior point
ProperCross(sg) ==
    LET o1 == Orient(sg[1], sg[2], sg[3], sg[4], sg[5], sg[6])
        o2 == Orient(sg[1], sg[2], sg[3], sg[4], sg[7], sg[8])
        o3 == Orient(sg[5], sg[6], sg[7], sg[8], sg[1], sg[2])
        o4 == Orient(sg[5], sg[6], sg[7], sg[8], sg[3], sg[4])
    IN  o1 * o2 < 0 /\ o3 * o4 < 0

TrueMinD2(sg) ==
    IF ProperCross(sg) THEN QZero
    ELSE QMin(QMin(PointSegD2(sg[1], sg[2], sg[5], sg[6], sg[7], sg[8]),
                   PointSegD2(sg[3], sg[4], sg[5], sg[6], sg[7], sg[8])),
              QMin(PointSegD2(sg[5], sg[6], sg[1], sg[2], sg[3], sg[4]),
                   PointSegD2(sg[7], sg[8], sg[1], sg[2], sg[3], sg[4])))

\* squared distance of the points with parameters s, t (rationals in lowest terms)
D2At(sg, s, t) ==
    LET ux == sg[3] - sg[1]  uy == sg[4] - sg[2]
        vx == sg[7] - sg[5]  vy == sg[8] - sg[6]
        wx == sg[1] - sg[5]  wy == sg[2] - sg[6]
        den == s[2] * t[2]
        nx == wx * den + s[1] * t[2] * ux - t[1] * s[2] * vx
        ny == wy * den + s[1] * t[2] * uy - t[1] * s[2] * vy
    IN  Q(nx * nx + ny * ny, den * den)

InUnit(a) == 0 <= a[1] /\ a[1] <= a[2]

\* what C19 demands of a reported parameter pair
IsClosestPair(sg, s, t) == InUnit(s) /\ InUnit(t) /\ D2At(sg, s, t) = TrueMinD2(sg)

SegClass(sg) ==
    LET ux == sg[3] - sg[1]  uy == sg[4] - sg[2]
        vx == sg[7] - sg[5]  vy == sg[8] - sg[6]
    IN  IF (ux = 0 /\ uy = 0) \/ (vx = 0 /\ vy = 0) THEN "degenerate-segment"
        ELSE IF Cross(ux, uy, vx, vy) = 0 THEN "parallel-segments"
        ELSE "skew-segments"

---------------------------------------------------------------------------
(***************************************************************************)
(* ALGORITHM -- transcription of _closest_points_on_segments_2d            *)
(***************************************************************************)
AlgST(sg) ==
    LET ux == sg[3] - sg[1]  uy == sg[4] - sg[2]
        vx == sg[7] - sg[5]  vy == sg[8] - sg[6]
        wx == sg[1] - sg[5]  wy == sg[2] - sg[6]
        A == Dot(ux, uy, ux, uy)
        B == Dot(ux, uy, vx, vy)
        C == Dot(vx, vy, vx, vy)
        D == Dot(ux, uy, wx, wy)
        E == Dot(vx, vy, wx, wy)
        den == A * C - B * B
        \* s = t = 0.0;  if den > 0: interior critical point
        s0 == IF den > 0 THEN Q(B * E - C * D, den)
              ELSE IF ParallelRule = "project" /\ ~(C > 0) /\ A > 0 THEN Q(-D, A)      \* B is a point
              ELSE QZero
        t0 == IF den > 0 THEN Q(A * E - B * D, den)
              ELSE IF ParallelRule = "project" /\ C > 0 THEN Q(E, C)                   \* parallel: a0 projected on B
              ELSE QZero
        \* clamp s, recompute t
        s1 == QClamp01(s0)
        t1 == IF QLess(s0, QZero) THEN (IF C > 0 THEN Q(E, C) ELSE t0)
              ELSE IF QLess(QOne, s0) THEN (IF C > 0 THEN Q(E + B, C) ELSE t0)
              ELSE t0
        \* clamp t, recompute s
        t2 == QClamp01(t1)
        s2 == IF QLess(t1, QZero) THEN (IF A > 0 THEN QClamp01(Q(-D, A)) ELSE s1)
              ELSE IF QLess(QOne, t1) THEN (IF A > 0 THEN QClamp01(Q(B - D, A)) ELSE s1)
              ELSE s1
    IN  <<s2, t2>>

AlgD2(sg) == D2At(sg, AlgST(sg)[1], AlgST(sg)[2])

---------------------------------------------------------------------------
Coords == 0 .. GridMax
Init == seg \in [1 .. 8 -> Coords]
Next == UNCHANGED seg
Spec == Init /\ [][Next]_seg

Swap(sg) == <<sg[5], sg[6], sg[7], sg[8], sg[1], sg[2], sg[3], sg[4]>>
RevA(sg) == <<sg[3], sg[4], sg[1], sg[2], sg[5], sg[6], sg[7], sg[8]>>

AlgorithmDistanceIsTrueMinimum == IsClosestPair(seg, AlgST(seg)[1], AlgST(seg)[2])

\* laws of the requirement itself
TrueMinSymmetric == TrueMinD2(seg) = TrueMinD2(Swap(seg)) /\ TrueMinD2(seg) = TrueMinD2(RevA(seg))
Lattice == 0 .. 6
TrueMinIsLowerBound ==          \* no pair of points on the 7 x 7 parameter lattice is closer
    \A i \in Lattice, j \in Lattice : QLe(TrueMinD2(seg), D2At(seg, Q(i, 6), Q(j, 6)))
TrueMinZeroIffTouching ==
    (TrueMinD2(seg) = QZero) <=>
        \/ ProperCross(seg)
        \/ PointSegD2(seg[1], seg[2], seg[5], seg[6], seg[7], seg[8]) = QZero
        \/ PointSegD2(seg[3], seg[4], seg[5], seg[6], seg[7], seg[8]) = QZero
        \/ PointSegD2(seg[5], seg[6], seg[1], seg[2], seg[3], seg[4]) = QZero
        \/ PointSegD2(seg[7], seg[8], seg[1], seg[2], seg[3], seg[4]) = QZero
=============================================================================
