------------------------------- MODULE HamRhs -------------------------------
(***************************************************************************)
(* Hamilton's equations of a polynomial Hamiltonian (property C17, first   *)
(* sentence).                                                              *)
(*                                                                         *)
(*   src/hiten/algorithms/dynamics/hamiltonian.py  _hamiltonian_rhs,       *)
(*        _HamiltonianSystem.rhs / dH_dQ / dH_dP / jac_H                   *)
(*   src/hiten/algorithms/integrators/symplectic.py _eval_dH_dQ,           *)
(*        _eval_dH_dP, _eval_hamiltonian_derivative                        *)
(*   src/hiten/algorithms/polynomial/operations.py _polynomial_jacobian    *)
(*                                                                         *)
(* REQUIREMENT.  For H a polynomial in (q1 q2 q3 p1 p2 p3) and a state x:  *)
(*      rhs(t, x) = ( dH/dp (x),  - dH/dq (x) )                            *)
(* and the separate evaluators return dH/dq (x) and dH/dp (x).  "The       *)
(* right-hand side can be evaluated" is part of the requirement: the only  *)
(* admissible outcome of evaluating rhs is this value (see Outcome).       *)
(*                                                                         *)
(* VALIDATION OF THE SPECIFICATION: the laws below tie Rhs to the Poisson  *)
(* bracket of IPoly (q_i' = {q_i, H}, p_i' = {p_i, H}), to conservation    *)
(* of H along its own flow (grad H . Rhs = 0), to linearity in H, and to   *)
(* the harmonic oscillator as a sign anchor.                               *)
(***************************************************************************)
EXTENDS IPoly

Jac(H)      == [v \in Vars |-> Diff(H, v)]
DHDQ(H, x)  == [i \in 1 .. NDOF |-> Eval(Diff(H, i), x)]
DHDP(H, x)  == [i \in 1 .. NDOF |-> Eval(Diff(H, i + NDOF), x)]
Rhs(H, x)   == [i \in Vars |-> IF i <= NDOF THEN DHDP(H, x)[i] ELSE GNeg(DHDQ(H, x)[i - NDOF])]

\* the outcomes an evaluation of the public rhs may have; the requirement admits only "value"
Outcome(kind) == kind \in {"value"}

(********************************** laws ***********************************)
LawPoissonForm(H, x) == \A i \in Vars : Rhs(H, x)[i] = Eval(Poisson(Var(i), H), x)
LawEnergy(H, x) ==
    GSumOver(Vars, LAMBDA i : GMul(Eval(Diff(H, i), x), Rhs(H, x)[i])) = GZero
LawLinear(H, K, x) ==
    /\ \A i \in Vars : Rhs(Add(H, K), x)[i] = GAdd(Rhs(H, x)[i], Rhs(K, x)[i])
    /\ \A i \in Vars : Rhs(Scale(GInt(-3), H), x)[i] = GScale(-3, Rhs(H, x)[i])
LawOscillator(x) ==      \* H = q1^2 + p1^2 :  q1' = 2 p1,  p1' = -2 q1, everything else at rest
    LET H == Add(Mono([KZero EXCEPT ![1] = 2], GOne), Mono([KZero EXCEPT ![1 + NDOF] = 2], GOne))
    IN  Rhs(H, x) = [i \in Vars |-> IF i = 1 THEN GScale(2, x[1 + NDOF])
                                     ELSE IF i = 1 + NDOF THEN GScale(-2, x[1]) ELSE GZero]
LawJacobianBlocks(H) ==  \* differentiation acts degree by degree (the packed Jacobian is built per block)
    \A v \in Vars : \A d \in 0 .. Deg(H) : Diff(HomPart(H, d), v) = HomPart(Diff(H, v), d - 1)
=============================================================================
