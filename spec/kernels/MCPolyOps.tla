------------------------------ MODULE MCPolyOps ------------------------------
(***************************************************************************)
(* Model-checking instance of PolyOps: generates instances (p, q, r),      *)
(* checks the laws of PolyOps on each, and prints one JSON record per      *)
(* instance with the required result of every library operation.           *)
(*                                                                         *)
(* Family "mono"  (exhaustive model checking): p = cp x^a, q = cq x^b for  *)
(*   ALL exponent tuples a, b of degree <= MonoDeg -- every variable slot  *)
(*   and every pair of slots of the product / bracket is exercised.        *)
(* Family "walk"  (-simulate, seeded): polynomials of up to MaxTerms terms *)
(*   built term by term (choose degree, distribute it over the variables   *)
(*   one unit at a time, choose a Gaussian-integer coefficient);           *)
(*   shape "hom" keeps every polynomial homogeneous (kernel level),        *)
(*   shape "mixed" does not (list level, truncation).                      *)
(* Family "dense" (exhaustive): (x1+...+x6)^a (x1+...+x6)^b, every slot    *)
(*   of both factors occupied -- the contention instances for the          *)
(*   schedule-independence runs, with the multinomial closed form as law.  *)
(***************************************************************************)
EXTENDS PolyOps, TLC, Json

CONSTANTS Family,       \* "mono" | "walk" | "dense"
          MonoDeg,      \* family mono: maximal degree of a and of b
          MaxTerms,     \* family walk: terms per polynomial
          MaxDegP, MaxDegQ, MaxDegR,
          DenseDeg      \* family dense: a, b <= DenseDeg

VARIABLES P,        \* <<p, q, r>>
          tgt,      \* polynomial under construction (1..3), 4 = instance complete
          cur,      \* exponent tuple under construction
          want,     \* degree chosen for the current term, -1 = none
          shape,    \* "hom" | "mixed" | "mono" | "dense"
          aux       \* family mono: the tuple a chosen in Init;  family dense: <<a, b>>
vars == <<P, tgt, cur, want, shape, aux>>

(****************************** fixed parameters ****************************)
G(a, b) == <<a, b>>
Coefs == {G(1, 0), G(-1, 0), G(2, 0), G(-3, 0), G(5, 0), G(-7, 0), G(9, 0),
          G(0, 1), G(0, -2), G(1, 1), G(2, -1), G(-3, 2), G(-1, -4), G(4, 3)}
RealCoefs == {c \in Coefs : c[2] = 0}
ScaleC == G(-3, 2)
IntegM == 2520                     \* lcm(1..9): clears the denominators up to exponent 8
Points == << <<G(2, 0), G(-1, 0), G(3, 0), G(1, 0), G(-2, 0), G(2, 0)>>,
             <<G(1, 1), G(2, 0), G(0, -1), G(1, -2), G(-1, 0), G(0, 1)>> >>
Row(a, b, c, d, e, f) == <<a, b, c, d, e, f>>
Z == GZero
\* signed permutation (q1 <-> p2 etc.), not symmetric
Mat1 == << Row(Z, Z, Z, Z, G(1, 0), Z), Row(Z, Z, G(-1, 0), Z, Z, Z), Row(G(1, 0), Z, Z, Z, Z, Z),
           Row(Z, Z, Z, Z, Z, G(-1, 0)), Row(Z, G(1, 0), Z, Z, Z, Z), Row(Z, Z, Z, G(1, 0), Z, Z) >>
\* integer image of the complexification mixing q_i and p_i with the unit i
Mat2 == << Row(G(1, 0), Z, Z, G(0, 1), Z, Z), Row(Z, G(1, 0), Z, Z, G(0, 1), Z), Row(Z, Z, G(1, 0), Z, Z, G(0, 1)),
           Row(G(0, 1), Z, Z, G(1, 0), Z, Z), Row(Z, G(0, 1), Z, Z, G(1, 0), Z), Row(Z, Z, G(0, 1), Z, Z, G(1, 0)) >>
\* real, two entries per row, not symmetric, not a permutation
Mat3 == << Row(G(1, 0), G(2, 0), Z, Z, Z, Z), Row(Z, G(-1, 0), Z, G(1, 0), Z, Z), Row(Z, Z, G(2, 0), Z, Z, G(-1, 0)),
           Row(G(1, 0), Z, Z, G(-2, 0), Z, Z), Row(Z, Z, G(1, 0), Z, G(1, 0), Z), Row(Z, G(2, 0), Z, Z, Z, G(1, 0)) >>
Mats == <<Mat1, Mat2, Mat3>>
Shifts == << <<G(1, 0), Z, G(-2, 0), Z, G(0, 1), G(3, 0)>>,
             <<Z, G(1, 1), Z, G(-1, 0), Z, Z>>,
             <<G(2, 0), G(-1, 0), G(1, 0), G(1, 0), G(-2, 0), G(3, 0)>> >>
SubstMaxDeg == 4
PowMaxDeg == 8

MonosUpTo(m) == {k \in [Vars -> 0 .. m] : KDeg(k) <= m}
MaxDegOf(t) == IF t = 1 THEN MaxDegP ELSE IF t = 2 THEN MaxDegQ ELSE MaxDegR
NTerms(f) == Cardinality(DOMAIN f)

(******************************* the generator ******************************)
Init ==
    /\ cur = KZero /\ want = -1
    /\ CASE Family = "mono" ->
              /\ shape = "mono" /\ tgt = 0 /\ P = <<PZero, PZero, PZero>>
              /\ aux \in MonosUpTo(MonoDeg)
         [] Family = "dense" ->
              /\ shape = "dense" /\ tgt = 0 /\ P = <<PZero, PZero, PZero>>
              /\ aux \in {<<a, b>> : a \in 0 .. DenseDeg, b \in 0 .. DenseDeg}
         [] OTHER ->
              /\ shape \in {"hom", "mixed"} /\ tgt = 1 /\ P = <<PZero, PZero, PZero>> /\ aux = 0

\* family mono: second factor, coefficients, and a third polynomial for the three-argument laws
RMono == {Add(Mono(KUnit(1), G(1, 0)), Mono(KUnit(5), G(2, -1))),
          Add(Mono(KInc(KUnit(2), 4), G(-1, 0)), Mono(KInc(KUnit(3), 6), G(1, 1)))}
PickMono ==
    /\ Family = "mono" /\ tgt = 0
    /\ \E b \in MonosUpTo(MonoDeg), cc \in {<<G(2, 0), G(-3, 0)>>, <<G(1, 2), G(3, -1)>>}, rr \in RMono :
          P' = <<Mono(aux, cc[1]), Mono(b, cc[2]), rr>>
    /\ tgt' = 4
    /\ UNCHANGED <<cur, want, shape, aux>>

PickDense ==
    /\ Family = "dense" /\ tgt = 0
    /\ P' = <<Pow(SumVars, aux[1]), Pow(SumVars, aux[2]), PZero>>
    /\ tgt' = 4
    /\ UNCHANGED <<cur, want, shape, aux>>

StartTerm(d) ==
    /\ Family = "walk" /\ tgt \in 1 .. 3 /\ want = -1
    /\ NTerms(P[tgt]) < MaxTerms
    /\ d \in 0 .. MaxDegOf(tgt)
    /\ (shape = "hom" /\ P[tgt] # PZero) => d = Deg(P[tgt])
    /\ want' = d
    /\ UNCHANGED <<P, tgt, cur, shape, aux>>
Inc(v) ==
    /\ want >= 0 /\ KDeg(cur) < want
    /\ cur' = KInc(cur, v)
    /\ UNCHANGED <<P, tgt, want, shape, aux>>
SetCoef(c) ==
    /\ want >= 0 /\ KDeg(cur) = want
    /\ P' = [P EXCEPT ![tgt] = Add(@, Mono(cur, c))]
    /\ cur' = KZero /\ want' = -1
    /\ UNCHANGED <<tgt, shape, aux>>
NextPoly ==
    /\ Family = "walk" /\ tgt \in 1 .. 3 /\ want = -1
    /\ tgt' = tgt + 1
    /\ UNCHANGED <<P, cur, want, shape, aux>>

Next ==
    \/ PickMono
    \/ PickDense
    \/ \E d \in 0 .. 8 : StartTerm(d)
    \/ \E v \in Vars : Inc(v)
    \/ \E c \in Coefs : SetCoef(c)
    \/ NextPoly

Spec == Init /\ [][Next]_vars

Complete == tgt = 4
p == P[1]
q == P[2]
r == P[3]

(***************** laws, checked on every completed instance *****************)
Small == shape # "dense"
InvAddRing    == (Complete /\ Small) => LawAddRing(p, q, r)
InvMulRing    == (Complete /\ Small) => LawMulRing(p, q, r)
InvScale      == (Complete /\ Small) => LawScale(p, q, ScaleC)
InvDiff       == (Complete /\ Small) => LawDiff(p, q)
InvIntegrate  == (Complete /\ Small) => LawIntegrate(p, IntegM)
InvPoisson    == (Complete /\ Small) => LawPoisson(p, q, r)
InvCanonical  == LawCanonical
InvEval       == (Complete /\ Small) => \A i \in 1 .. Len(Points) : LawEval(p, q, Points[i])
InvSubst      == (Complete /\ Small /\ Deg(p) <= SubstMaxDeg /\ Deg(q) <= 2) =>
                     \A i \in 1 .. Len(Mats) : LawSubst(p, q, Mats[i], Shifts[i], Points[1 + (i % 2)])
InvMultinomial == (Complete /\ shape = "dense") => LawMultinomial(aux[1], aux[2])
InvBlock      == (Complete /\ Small) => LawBlock(p) /\ LawBlock(Mul(p, q))

(******************* required results of the library calls *******************)
MatToSeq(C) == C
Results ==
    [shape |-> shape,
     p |-> PolyToSeq(p), q |-> PolyToSeq(q), r |-> PolyToSeq(r),
     add |-> PolyToSeq(Add(p, q)),
     sub |-> PolyToSeq(Sub(p, q)),
     scalec |-> ScaleC,
     scale |-> PolyToSeq(Scale(ScaleC, p)),
     axpy |-> PolyToSeq(Add(p, Scale(ScaleC, q))),
     mul |-> PolyToSeq(Mul(p, q)),
     trdeg |-> IF Deg(p) > Deg(q) THEN Deg(p) ELSE Deg(q),
     multr |-> PolyToSeq(Trunc(Mul(p, q), IF Deg(p) > Deg(q) THEN Deg(p) ELSE Deg(q))),
     pow |-> [e \in 1 .. 4 |-> IF Small /\ (e - 1) * Deg(p) <= PowMaxDeg THEN PolyToSeq(Pow(p, e - 1)) ELSE <<"skip">>],
     powtrdeg |-> IF Deg(p) < 1 THEN 0 ELSE 2 * Deg(p) - 1,
     powtr |-> IF Small /\ 3 * Deg(p) <= PowMaxDeg + 4
               THEN PolyToSeq(Trunc(Pow(p, 3), IF Deg(p) < 1 THEN 0 ELSE 2 * Deg(p) - 1)) ELSE <<"skip">>,
     diff |-> [v \in Vars |-> PolyToSeq(Diff(p, v))],
     integm |-> IntegM,
     integin |-> PolyToSeq(Scale(GInt(IntegM), p)),
     integ |-> [v \in Vars |-> PolyToSeq(Integrate(Scale(GInt(IntegM), p), v))],
     poisson |-> PolyToSeq(Poisson(p, q)),
     points |-> Points,
     evalp |-> [i \in 1 .. Len(Points) |-> Eval(p, Points[i])],
     evalq |-> [i \in 1 .. Len(Points) |-> Eval(q, Points[i])],
     mats |-> Mats, shifts |-> Shifts,
     matvec |-> [i \in 1 .. Len(Mats) |-> MatVec(Mats[i], Points[1 + (i % 2)])],
     subst |-> [i \in 1 .. Len(Mats) |->
                   IF Small /\ Deg(p) <= SubstMaxDeg THEN PolyToSeq(SubstLinear(p, Mats[i])) ELSE <<"skip">>],
     affine |-> [i \in 1 .. Len(Mats) |->
                   IF Small /\ Deg(p) <= SubstMaxDeg THEN PolyToSeq(SubstAffine(p, Mats[i], Shifts[i])) ELSE <<"skip">>]]

DenseResults ==
    [shape |-> shape, a |-> aux[1], b |-> aux[2],
     p |-> PolyToSeq(p), q |-> PolyToSeq(q),
     mul |-> PolyToSeq(Mul(p, q)),
     diff |-> [v \in Vars |-> PolyToSeq(Diff(Mul(p, q), v))],
     poisson |-> PolyToSeq(Poisson(Mul(p, Var(1)), Mul(q, Var(NDOF + 1))))]

Emit == Complete => PrintT(ToJson(IF shape = "dense" THEN DenseResults ELSE Results))
=============================================================================
