---------------------------- MODULE MCLibration ----------------------------
EXTENDS Libration, Json
MCPrimes == {46337, 46327, 46309, 46307, 46301}
MCPoints == {1, 2, 3}
QuickQs == 2 .. 40
ThoroughQs == 2 .. 400
P0 == 46337
Emit ==
    done => PrintT(ToJson([i |-> i, q |-> q, usable |-> Usable(P0),
                           mu |-> IF Usable(P0) THEN MuOf(i, q, P0) ELSE -1,
                           x |-> IF Usable(P0) THEN XOf(i, q, P0) ELSE -1,
                           cn |-> IF Usable(P0) THEN [n \in 2 .. 6 |-> Cn(i, n, q, P0)] ELSE <<>>]))
=============================================================================
