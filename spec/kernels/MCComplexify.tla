---------------------------- MODULE MCComplexify ----------------------------
EXTENDS Complexify, Json
MCMixSets == {{2, 3}, {1, 2, 3}}       \* collinear points mix pairs (1,2) (0-based), triangular points all three
Emit == PrintT(ToJson(Instance))
=============================================================================
