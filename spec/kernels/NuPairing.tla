------------------------------ MODULE NuPairing ------------------------------
(***************************************************************************)
(* Stability-index pairing (growth beyond the listed properties; relates   *)
(* to C03's "eigenvalues in reciprocal pairs")                             *)
(*   src/hiten/algorithms/linalg/backend.py  _compute_nu_from_eigvals      *)
(*                                                                         *)
(* Symbolic spectrum of a symplectic 6x6 monodromy matrix: six symbols     *)
(*   "L" (lambda > 1), "l" (1/lambda), "A", "B" (the trivial pair 1, 1),   *)
(*   "u", "v" (a unit-modulus conjugate pair e^{+-i theta})                *)
(* with the exact relations Recip and Unit.  The transcription pairs the   *)
(* FIRST TWO unit-modulus entries it meets as the "trivial pair" and then  *)
(* looks for reciprocals among the rest.  Requirement: three indices, one  *)
(* per reciprocal pair {L,l}, {A,B}, {u,v}, for every ordering.            *)
(***************************************************************************)
EXTENDS Integers, Sequences, FiniteSets, TLC

Symbols == {"L", "l", "A", "B", "u", "v"}
Unit(s) == s \in {"A", "B", "u", "v"}
Recip(a, b) == {a, b} \in {{"L", "l"}, {"A", "B"}, {"u", "v"}, {"A"}, {"B"}}    \* 1 is its own reciprocal
PairOf(s) == CASE s \in {"L", "l"} -> "hyp" [] s \in {"A", "B"} -> "triv" [] OTHER -> "ell"

CONSTANT SortedOnly      \* TRUE: only orderings the caller can produce (sorted by decreasing modulus: L first, l last)
VARIABLE order
Init == order \in {p \in [1 .. 6 -> Symbols] : /\ \A i, j \in 1 .. 6 : i # j => p[i] # p[j]
                                             /\ (SortedOnly => p[1] = "L" /\ p[6] = "l")}
Next == UNCHANGED order
Spec == Init /\ [][Next]_order

\* transcription: returns the sequence of (pair class | "nan") of length 3
UnitIdx == {i \in 1 .. 6 : Unit(order[i])}
First2 == LET a == CHOOSE i \in UnitIdx : \A j \in UnitIdx : i <= j
              b == CHOOSE i \in UnitIdx \ {a} : \A j \in UnitIdx \ {a} : i <= j
          IN <<a, b>>
RECURSIVE Scan(_, _, _)
Scan(i, used, acc) ==
    IF i > 6 \/ Len(acc) >= 3 THEN acc
    ELSE IF i \in used THEN Scan(i + 1, used, acc)
    ELSE LET cands == {j \in (i + 1) .. 6 : j \notin used /\ Recip(order[i], order[j]) /\ order[i] # order[j]}
         IN  IF cands = {} THEN Scan(i + 1, used \cup {i}, acc)
             ELSE LET j == CHOOSE x \in cands : \A y \in cands : x <= y
                  IN  Scan(i + 1, used \cup {i, j}, Append(acc, PairOf(order[i])))
\* the index reported for the "trivial" slot is that of the first unit-modulus entry, whatever it is
Reported ==
    LET f == First2
        acc == Scan(1, {f[1], f[2]}, <<PairOf(order[f[1]])>>)
    IN  acc \o [k \in 1 .. (3 - Len(acc)) |-> "nan"]

Emit == PrintT(<<"NU", order, Reported>>)

(* REQUIREMENT *)
OneIndexPerPair == {Reported[k] : k \in 1 .. 3} = {"hyp", "triv", "ell"}
=============================================================================
