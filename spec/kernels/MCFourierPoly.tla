---------------------------- MODULE MCFourierPoly ----------------------------
(***************************************************************************)
(* Model-checking instance of FourierPoly (growth check X01).              *)
(*                                                                         *)
(* Family "pack"   one state: R1 on the whole boundary box of the six bit  *)
(*                 fields and on complete per-field sweeps; the probes are *)
(*                 emitted with their words for the replay into            *)
(*                 _pack_fourier_index / _decode_fourier_index.            *)
(* Family "index"  one state per (d, K): R2-R4 for the table of (d, K);    *)
(*                 the table row and the encoder probes are emitted.       *)
(* Family "mono"   exhaustive: p = c x^a, q = c' x^b over a set of         *)
(*                 Fourier-Taylor monomials touching every action slot,    *)
(*                 every angle slot, both signs of k.                      *)
(* Family "walk"   -simulate, seeded: polynomials of up to MaxTerms terms  *)
(*                 built term by term; shape "hom" (block kernels) or      *)
(*                 "mixed" (list-level evaluation).                        *)
(* Family "nfmono" exhaustive: f = c x^a over ALL (q,p) monomials up to    *)
(*                 NfMonoDeg, g over the even monomials of degree <= 2.    *)
(* Family "nfwalk" -simulate: homogeneous (q,p) polynomials f, g.          *)
(* On every completed instance TLC checks the laws and the                 *)
(* transcription = requirement invariants, and prints one JSON record with *)
(* what each library call must return.                                     *)
(***************************************************************************)
EXTENDS FourierPoly, TLC, Json
LOCAL INSTANCE SequencesExt

CONSTANTS Family,
          KMax, MaxD,            \* algebra families: tables for degrees 0..MaxD, Fourier range -KMax..KMax
          KTerm,                 \* largest |k_j| of a generated term (products may leave the table: DevTrunc)
          IdxMaxD, IdxMaxK,      \* family index
          MaxTerms, MaxDegP, MaxDegQ, MaxDegR,
          NfMonoDeg, NfMaxDeg

VARIABLES P,        \* <<p, q, r>>
          tgt,      \* polynomial under construction (1..3), 4 = instance complete, 0 = not started
          cur,      \* index tuple under construction
          want,     \* degree chosen for the current term, -1 = none
          shape,    \* "hom" | "mixed" | "mono" | "nf" | "index" | "pack"
          aux,      \* family mono / nfmono: the tuple chosen in Init; family index: <<d, K>>
          dg        \* declared degrees <<dp, dq, dr>> of homogeneous polynomials
vars == <<P, tgt, cur, want, shape, aux, dg>>

(****************************** fixed parameters ****************************)
G(a, b) == <<a, b>>
Coefs == {G(1, 0), G(-1, 0), G(2, 0), G(-3, 0), G(5, 0), G(0, 1), G(0, -2), G(1, 1), G(2, -1), G(-3, 2)}
ScaleC == G(-3, 2)
Pt(m, t) == [m |-> m, t |-> t, b |-> 4]
\* I = m / 4, theta = t quarter turns.  1-2: powers of two; 3-4: odd numerators; 5-7: a vanishing action
Points == << Pt(<<2, 8, -1>>, <<0, 0, 0>>), Pt(<<-4, 1, 2>>, <<1, 2, 3>>),
             Pt(<<3, -6, 5>>, <<0, 0, 0>>), Pt(<<6, 2, -3>>, <<3, 1, 2>>),
             Pt(<<0, 4, 2>>, <<0, 0, 0>>), Pt(<<2, 0, 0>>, <<1, 0, 2>>), Pt(<<0, 0, 0>>, <<0, 0, 0>>) >>
EvalD == MaxD
\* sqrt(I) = m, theta = t quarter turns
NfPoints == << [m |-> <<1, 2, 3>>, t |-> <<0, 0, 0>>, b |-> 1], [m |-> <<2, 1, 1>>, t |-> <<1, 2, 3>>, b |-> 1],
               [m |-> <<3, 1, 2>>, t |-> <<3, 1, 0>>, b |-> 1] >>

Tabs == TablesF(MaxD, KMax)                                      \* constant: evaluated once
E6 == [d \in 0 .. NfMaxDeg |-> Enum(6, d)]                        \* constant: evaluated once
Zero6 == <<0, 0, 0, 0, 0, 0>>
NTerms(f) == Cardinality(DOMAIN f)
MaxDegOf(t) == IF t = 1 THEN MaxDegP ELSE IF t = 2 THEN MaxDegQ ELSE MaxDegR
IsAlg == Family \in {"mono", "walk"}
IsNf  == Family \in {"nfmono", "nfwalk"}

\* family mono: the index set
MonoN == {<<0, 0, 0>>, <<1, 0, 0>>, <<0, 1, 0>>, <<0, 0, 1>>, <<1, 1, 0>>, <<0, 0, 2>>}
MonoK == {<<0, 0, 0>>, <<1, 0, 0>>, <<-1, 0, 0>>, <<0, 1, 0>>, <<0, 0, -1>>, <<1, -1, 0>>, <<0, 1, 1>>}
MonoIdx == {<<n[1], n[2], n[3], k[1], k[2], k[3]>> : n \in MonoN, k \in MonoK}
MonoIdxSmall == {t \in MonoIdx : FDeg(t) <= 1}
RMono == {Add(ActionVar(1), Scale(G(2, -1), Mul(ActionVar(3), Harmonic(2, 1)))),
          Add(Mul(ActionVar(2), Harmonic(1, -1)), Scale(G(1, 1), Harmonic(3, 1)))}
\* family nfmono
QPMonos(m) == {k \in [1 .. 6 -> 0 .. m] : KDeg(k) <= m}
QPEven(m) == {k \in QPMonos(m) : EvenMono(k)}

(******************************* the generator ******************************)
Init ==
    /\ cur = Zero6 /\ want = -1 /\ P = <<PZero, PZero, PZero>> /\ dg = <<0, 0, 0>>
    /\ CASE Family = "pack"   -> shape = "pack" /\ tgt = 4 /\ aux = 0
         [] Family = "index"  -> /\ shape = "index" /\ tgt = 4
                                 /\ aux \in {<<d, K>> : d \in 0 .. IdxMaxD, K \in 0 .. IdxMaxK}
         [] Family = "mono"   -> shape = "mono" /\ tgt = 0 /\ aux \in (IF MaxDegP >= 2 THEN MonoIdx ELSE MonoIdxSmall)
         [] Family = "nfmono" -> shape = "nf" /\ tgt = 0 /\ aux \in QPMonos(NfMonoDeg)
         [] Family = "nfwalk" -> shape = "nf" /\ tgt = 1 /\ aux = 0
         [] OTHER             -> shape \in {"hom", "mixed"} /\ tgt = 1 /\ aux = 0

PickMono ==
    /\ Family = "mono" /\ tgt = 0
    /\ \E b \in MonoIdxSmall, cc \in {<<G(2, 0), G(-3, 0)>>, <<G(1, 2), G(3, -1)>>}, rr \in RMono :
          /\ P' = <<Mono(aux, cc[1]), Mono(b, cc[2]), rr>>
          /\ dg' = <<FDeg(aux), FDeg(b), 1>>
    /\ tgt' = 4
    /\ UNCHANGED <<cur, want, shape, aux>>

PickNfMono ==
    /\ Family = "nfmono" /\ tgt = 0
    /\ \E b \in QPEven(2), cc \in {<<G(2, 0), G(-3, 0)>>, <<G(1, 2), G(3, -1)>>} :
          /\ P' = <<Mono(aux, cc[1]), Mono(b, cc[2]), PZero>>
          /\ dg' = <<KDeg(aux), KDeg(b), 0>>
    /\ tgt' = 4
    /\ UNCHANGED <<cur, want, shape, aux>>

NPolys == IF IsNf THEN 2 ELSE 3
StartTerm(d) ==
    /\ Family \in {"walk", "nfwalk"} /\ tgt \in 1 .. NPolys /\ want = -1
    /\ NTerms(P[tgt]) < MaxTerms
    /\ d \in 0 .. MaxDegOf(tgt)
    /\ (shape \in {"hom", "nf"} /\ P[tgt] # PZero) => d = dg[tgt]
    /\ want' = d
    /\ dg' = [dg EXCEPT ![tgt] = IF shape \in {"hom", "nf"} THEN d ELSE (IF d > @ THEN d ELSE @)]
    /\ UNCHANGED <<P, tgt, cur, shape, aux>>
CurDeg == IF IsNf THEN KDeg(cur) ELSE FDeg(cur)
Inc(v) ==
    /\ want >= 0 /\ CurDeg < want
    /\ (~IsNf) => v <= 3
    /\ cur' = KInc(cur, v)
    /\ UNCHANGED <<P, tgt, want, shape, aux, dg>>
\* (q,p) side: two units into one canonical pair keep the pair degree even (so that even monomials are frequent)
Inc2(j, a, b) ==
    /\ IsNf /\ want >= 0 /\ CurDeg + 2 <= want
    /\ cur' = KInc(KInc(cur, j + a), j + b)
    /\ UNCHANGED <<P, tgt, want, shape, aux, dg>>
IncK(v, s) ==
    /\ Family = "walk" /\ want >= 0 /\ CurDeg = want
    /\ AbsI(cur[3 + v] + s) <= KTerm
    /\ cur' = [cur EXCEPT ![3 + v] = @ + s]
    /\ UNCHANGED <<P, tgt, want, shape, aux, dg>>
SetCoef(c) ==
    /\ want >= 0 /\ CurDeg = want
    /\ P' = [P EXCEPT ![tgt] = Add(@, Mono(cur, c))]
    /\ cur' = Zero6 /\ want' = -1
    /\ UNCHANGED <<tgt, shape, aux, dg>>
NextPoly ==
    /\ Family \in {"walk", "nfwalk"} /\ tgt \in 1 .. NPolys /\ want = -1
    /\ tgt' = IF tgt = NPolys THEN 4 ELSE tgt + 1
    /\ UNCHANGED <<P, cur, want, shape, aux, dg>>

Next ==
    \/ PickMono
    \/ PickNfMono
    \/ \E d \in 0 .. 8 : StartTerm(d)
    \/ \E v \in 1 .. 6 : Inc(v)
    \/ \E j \in 1 .. 3, ab \in {<<0, 0>>, <<0, 3>>, <<3, 3>>} : Inc2(j, ab[1], ab[2])
    \/ \E v \in 1 .. 3, s \in {-1, 1} : IncK(v, s)
    \/ \E c \in Coefs : SetCoef(c)
    \/ NextPoly

Spec == Init /\ [][Next]_vars

Complete == tgt = 4
p == P[1]
q == P[2]
r == P[3]
HomAlg == Complete /\ IsAlg /\ shape \in {"hom", "mono"}
AnyAlg == Complete /\ IsAlg
NfDone == Complete /\ IsNf

(************************ state-independent requirements *********************)
ASSUME FLawCanonical
ASSUME TLawGenerators
ASSUME IsAlg => TruncNotAssociative(KMax)
ASSUME \A K \in 64 .. 70 : EffK(K) = KMaxHard /\ PsiFCode(1, K) = PsiFCode(1, KMaxHard)
ASSUME DecodeF(Sentinel) = <<63, 63, 63, 63, 63, 63>>

(***************************** family pack / index ***************************)
NEdge == {-1, 0, 1, 62, 63, 64}
KEdge == {-65, -64, -63, 0, 62, 63, 64}
BoxProbes == {<<a, b, c, x, y, z>> : a \in NEdge, b \in NEdge, c \in NEdge, x \in KEdge, y \in KEdge, z \in KEdge}
Bases == {<<0, 0, 0, 0, 0, 0>>, <<5, 17, 41, -9, 30, -50>>, <<63, 0, 63, 63, -64, 63>>}
SweepProbes == {[bs EXCEPT ![j] = v] : bs \in Bases, j \in 1 .. 3, v \in -2 .. 66}
               \cup {[bs EXCEPT ![j] = v] : bs \in Bases, j \in 4 .. 6, v \in -67 .. 66}
PackProbes == BoxProbes \cup SweepProbes
InvPack == (Family = "pack") => /\ \A t \in PackProbes : ReqPack(t)
                                /\ ReqPackInjective(PackProbes)
EmitPack == (Family = "pack") =>
    PrintT(ToJson([kind |-> "pack",
                   probes |-> LET s == SetToSeq(SweepProbes \cup {t \in BoxProbes : \A j \in 1 .. 6 : t[j] \notin {1, 62, -63}})
                              IN  [i \in 1 .. Len(s) |-> <<s[i], IF ValidPack(s[i]) THEN PackF(s[i]) ELSE <<-1>> >>]]))

IdxD == aux[1]
IdxK == aux[2]
IdxTabs == TablesF(IdxMaxD, IdxK)
Corners(d, K) == LET A == Enum(3, d)
                 IN  {<<A[i][1], A[i][2], A[i][3], k[1], k[2], k[3]>> : i \in 1 .. Len(A),
                        k \in {<<0, 0, 0>>} \cup {<<x, y, z>> : x \in {-K, K}, y \in {-K, K}, z \in {-K, K}}}
EncProbes(d, K) == Corners(d, K) \cup {[t EXCEPT ![j] = @ + s] : t \in Corners(d, K), j \in 1 .. 6, s \in {-1, 1}}
EncDegrees(d) == {d - 1, d, d + 1, IdxMaxD + 1, -1}
InvIndex == (Family = "index") =>
    LET tabs == IdxTabs
    IN  /\ ReqTableComplete(IdxD, IdxK)
        /\ EnumIsComplete(3, IdxD) /\ RankAgreesWithEnum(3, IdxD)
        /\ ReqEncodeInverse(IdxD, tabs, IdxK)
        /\ \A t \in EncProbes(IdxD, IdxK), e \in EncDegrees(IdxD) :
              ReqEncodeRejects(t, e, tabs, IdxK) /\ ReqEncodeAccepts(t, e, tabs, IdxK)
EmitIndex == (Family = "index") =>
    LET tabs == IdxTabs
        tab  == tabs[IdxD + 1]
    IN  PrintT(ToJson([kind |-> "table", d |-> IdxD, K |-> IdxK, D |-> IdxMaxD,
                   psi |-> PsiFCode(IdxD, IdxK),
                   words |-> tab,
                   tuples |-> [pos \in 1 .. Len(tab) |-> DecodeF(tab[pos])],
                   probes |-> LET s == SetToSeq(EncProbes(IdxD, IdxK) \X EncDegrees(IdxD))
                              IN  [i \in 1 .. Len(s) |-> <<s[i][1], s[i][2], EncodeF(s[i][1], s[i][2], tabs)>>]]))

(**************************** algebra families *******************************)
InvGenerated == AnyAlg => \A i \in 1 .. 3 : \A t \in DOMAIN P[i] : InTable(t, FDeg(t), KMax) /\ FDeg(t) <= MaxD
InvRing     == AnyAlg => FLawRing(p, q, r)
InvScale    == AnyAlg => FLawScale(p, q, ScaleC)
InvDiff     == AnyAlg => FLawDiff(p, q)
InvPoisson  == AnyAlg => FLawPoisson(p, q, r)
InvBlock    == HomAlg => /\ FitsTable(p, dg[1], KMax) /\ FitsTable(q, dg[2], KMax)
                         /\ ReqBlockAlgebra(p, dg[1], q, dg[2], ScaleC, Tabs, KMax)
InvEval     == AnyAlg => \A i \in 1 .. Len(Points) : FLawEval(p, q, Points[i], EvalD)
InvDerivAwayFromZero == AnyAlg => \A i \in 1 .. Len(Points) : ReqDerivAwayFromZero(p, Points[i], EvalD)
\* checked only by FourierPoly.zeroaction.cfg, where TLC is expected to refute it (DevZeroI)
InvDerivEverywhere   == AnyAlg => \A i \in 1 .. Len(Points) : ReqDerivEverywhere(p, Points[i], EvalD)

TermsSeq(f) == LET s == SetToSeq(DOMAIN f)
               IN  [i \in 1 .. Len(s) |-> <<s[i], f[s[i]][1], f[s[i]][2], RankF(s[i], KMax)>>]
BlockSeq(b) == LET s == SetToSeq(DOMAIN b) IN [i \in 1 .. Len(s) |-> <<s[i], b[s[i]][1], b[s[i]][2]>>]
Blk(f, d) == [len |-> PsiFCode(d, KMax), c |-> BlockSeq(ToBlock(f, KMax))]
Skip == [len |-> -1, c |-> <<>>]
AlgResults ==
    LET dp == dg[1]
        dq == dg[2]
        hom == shape \in {"hom", "mono"}
        poi == CodePoisson(ToBlock(p, KMax), dp, ToBlock(q, KMax), dq, Tabs)
    IN  [kind |-> "alg", shape |-> shape, K |-> KMax, D |-> MaxD, dp |-> dp, dq |-> dq,
         p |-> TermsSeq(p), q |-> TermsSeq(q),
         trunc |-> ~MulFits(p, q, KMax),
         scalec |-> ScaleC,
         add   |-> IF hom /\ dp = dq THEN Blk(Add(p, q), dp) ELSE Skip,
         scale |-> IF hom THEN Blk(Scale(ScaleC, p), dp) ELSE Skip,
         mul   |-> IF hom /\ dp + dq <= MaxD THEN Blk(FTrunc(Mul(p, q), KMax), dp + dq) ELSE Skip,
         diffI |-> [a \in 1 .. 3 |-> IF hom THEN [len |-> DiffActionLen(dp, Tabs), c |-> BlockSeq(ToBlock(FDiffI(p, a), KMax))] ELSE Skip],
         diffT |-> [b \in 1 .. 3 |-> IF hom THEN Blk(FDiffT(p, b), dp) ELSE Skip],
         poisson |-> IF ~hom THEN Skip
                     ELSE IF dp + dq - 1 <= MaxD THEN [len |-> poi.len, c |-> BlockSeq(ToBlock(FTrunc(FPoisson(p, q), KMax), KMax))]
                     ELSE [len |-> poi.len, c |-> BlockSeq(poi.c)],
         poissonoot |-> hom /\ dp + dq - 1 > MaxD,
         pts  |-> Points, evald |-> EvalD,
         val  |-> [i \in 1 .. Len(Points) |-> FEvalN(p, Points[i], EvalD)],
         grad |-> [i \in 1 .. Len(Points) |-> ReqGradN(p, Points[i], EvalD)],
         hess |-> [i \in 1 .. Len(Points) |-> ReqHessN(p, Points[i], EvalD)],
         gradasis |-> [i \in 1 .. Len(Points) |-> IF NoZeroAction(Points[i]) THEN <<>> ELSE CodeGradN(p, Points[i], EvalD)],
         hessasis |-> [i \in 1 .. Len(Points) |-> IF NoZeroAction(Points[i]) THEN <<>> ELSE CodeHessN(p, Points[i], EvalD)]]
EmitAlg == AnyAlg => PrintT(ToJson(AlgResults))

(****************************** nf2aa families *******************************)
f == P[1]
g == P[2]
InvNfGenerated == NfDone => (\A k \in DOMAIN f : KDeg(k) = dg[1]) /\ (\A k \in DOMAIN g : KDeg(k) = dg[2])
InvNf2aa   == NfDone => ReqNf2aa(f, dg[1], E6[dg[1]]) /\ ReqNf2aa(g, dg[2], E6[dg[2]])
InvNfLaws  == NfDone => /\ TLawBijective(f) /\ TLawBijective(g)
                        /\ TLawHomomorphism(f, g)
                        /\ \A i \in 1 .. Len(NfPoints) : TLawSubstitution(f, NfPoints[i], 0)
Terms6(h) == LET s == SetToSeq(DOMAIN h) IN [i \in 1 .. Len(s) |-> <<s[i], h[s[i]][1], h[s[i]][2], Rank(s[i])>>]
NfOut(h, d) ==
    LET out == CodeNf2aa(ToBlock6(h), d, E6[d])
        t   == TSubst(h)
        s   == SetToSeq(DOMAIN t)
    IN  [deg |-> d, src |-> Terms6(h), len |-> out.len, K |-> out.K, srclen |-> Psi(6, d),
         c |-> [i \in 1 .. Len(s) |-> <<RankF(s[i], out.K), t[s[i]][1], t[s[i]][2], s[i]>>],
         dropped |-> Cardinality(DOMAIN h) - Cardinality(DOMAIN EvenPart(h)),
         pts |-> NfPoints,
         val |-> [i \in 1 .. Len(NfPoints) |-> Eval(EvenPart(h), QPPoint(NfPoints[i]))]]
EmitNf == NfDone => PrintT(ToJson([kind |-> "nf", f |-> NfOut(f, dg[1]), g |-> NfOut(g, dg[2])]))
=============================================================================
