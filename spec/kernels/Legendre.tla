------------------------------ MODULE Legendre ------------------------------
(***************************************************************************)
(* Legendre-type homogeneous polynomials and the assembly of the collinear *)
(* CR3BP Hamiltonian (property C07).                                       *)
(*   src/hiten/algorithms/hamiltonian/hamiltonian.py                       *)
(*     _build_T_polynomials, _build_A_polynomials, _build_kinetic_energy_  *)
(*     terms, _build_rotational_terms, _build_potential_U,                 *)
(*     _build_physical_hamiltonian_collinear                               *)
(*                                                                         *)
(* T_n = rho^n P_n(x/rho).  The code builds it with the three-term         *)
(* recurrence  T_n = ((2n-1)/n) x T_(n-1) - ((n-1)/n) rho^2 T_(n-2).       *)
(* Scaled by n! the recurrence is integral:                                *)
(*     S_n = n! T_n = (2n-1) x S_(n-1) - (n-1)^2 rho^2 S_(n-2).            *)
(* Independently of the recurrence, T_n is characterised by: homogeneous   *)
(* of degree n, harmonic, invariant under rotations about the x axis, and  *)
(* equal to x^n on the axis.  TLC checks these laws on the transcription,  *)
(* so the specification is validated against mathematics and not only      *)
(* against the code.  Variables: 1..3 = x y z, 4..6 = px py pz (hiten).    *)
(***************************************************************************)
EXTENDS IPoly, TLC

X == Var(1)   Y == Var(2)   Zv == Var(3)
PX == Var(4)  PY == Var(5)  PZ == Var(6)
Rho2 == Add(Add(Mul(X, X), Mul(Y, Y)), Mul(Zv, Zv))

RECURSIVE Fact(_)
Fact(n) == IF n = 0 THEN 1 ELSE n * Fact(n - 1)

\* general direction form: Dot is a linear form, DD = |d|^2 scaling of rho^2 (for a unit vector
\* d = (a, b, 0)/c  use Dot = a x + b y and DD = c^2, the polynomial is then c^n n! A_n)
RECURSIVE SGen(_, _, _)
SGen(n, Dot, DD) ==
    IF n = 0 THEN Const(GOne)
    ELSE IF n = 1 THEN Dot
    ELSE Sub(Scale(GInt(2 * n - 1), Mul(Dot, SGen(n - 1, Dot, DD))),
             Scale(GInt((n - 1) * (n - 1) * DD), Mul(Rho2, SGen(n - 2, Dot, DD))))

S(n) == SGen(n, X, 1)                       \* n! T_n

Laplacian(p) == Add(Add(Diff(Diff(p, 1), 1), Diff(Diff(p, 2), 2)), Diff(Diff(p, 3), 3))
AxialRot(p) == Sub(Mul(Y, Diff(p, 3)), Mul(Zv, Diff(p, 2)))     \* (y d/dz - z d/dy) p
OnAxis(p, n) == Coef(p, [i \in Vars |-> IF i = 1 THEN n ELSE 0])

TLaws(n) ==
    /\ IsHom(S(n)) /\ (n > 0 => Deg(S(n)) = n)
    /\ Laplacian(S(n)) = PZero
    /\ AxialRot(S(n)) = PZero
    /\ OnAxis(S(n), n) = GInt(Fact(n))
    /\ \A k \in DOMAIN S(n) : k[4] = 0 /\ k[5] = 0 /\ k[6] = 0

\* direction (3, 4, 0)/5: harmonic, value (5 t)^n n! on the axis r = t d  <=>  coefficient check through
\* the rotated axis; we check harmonicity, homogeneity, and the restriction to the line r = (3, 4, 0) s:
\* A_n(r) = |r|^n P_n(1) = (5 s)^n, hence 5^n n! A_n = n! 25^n s^n
Dot34 == Add(Scale(GInt(3), X), Scale(GInt(4), Y))
B(n) == SGen(n, Dot34, 25)
Line34 == <<GInt(3), GInt(4), GZero, GZero, GZero, GZero>>
RECURSIVE IPw(_, _)
IPw(b, e) == IF e = 0 THEN 1 ELSE b * IPw(b, e - 1)
ALaws(n) ==
    /\ IsHom(B(n))
    /\ Laplacian(B(n)) = PZero
    /\ Eval(B(n), Line34) = GInt(Fact(n) * IPw(25, n))

(* ------------------ assembly of the collinear Hamiltonian ------------------ *)
\* H = 1/2 (px^2 + py^2 + pz^2) + y px - x py - sum_{n=2..N} c_n T_n ; with integer c_n and the common
\* factor K = 2 N! the polynomial K H is integral
HamScaled(N, c) ==
    LET K == 2 * Fact(N)
        kin == Scale(GInt(Fact(N)), Add(Add(Mul(PX, PX), Mul(PY, PY)), Mul(PZ, PZ)))
        rot == Scale(GInt(K), Sub(Mul(Y, PX), Mul(X, PY)))
        RECURSIVE U(_)
        U(n) == IF n < 2 THEN PZero
                ELSE Add(U(n - 1), Scale(GInt(c[n] * (K \div Fact(n))), S(n)))
    IN  Sub(Add(kin, rot), U(N))

\* Hamilton's equations of the quadratic part reproduce the linearised CR3BP:
\* xdd - 2 ydd ... is checked at the value level by the harness; here the structural law
\* {x, H} = px + y, {y, H} = py - x, {z, H} = pz  (velocity relations used by the local -> synodic map)
VelocityRelations(N, c) ==
    LET H == HamScaled(N, c)  K == 2 * Fact(N) IN
    /\ Poisson(X, H) = Scale(GInt(K), Add(PX, Y))
    /\ Poisson(Y, H) = Scale(GInt(K), Sub(PY, X))
    /\ Poisson(Zv, H) = Scale(GInt(K), PZ)
=============================================================================
