------------------------------ MODULE MCHamRhs ------------------------------
(* Model-checking instance of HamRhs: real integer Hamiltonians             *)
(*   Family "mono": every monomial c x^a of degree <= MonoDeg (all slots),  *)
(*   Family "walk" (-simulate): up to MaxTerms terms of degree <= MaxDeg,   *)
(* integer states; laws checked on each; one JSON record per instance.      *)
EXTENDS HamRhs, TLC, Json

CONSTANTS Family, MonoDeg, MaxTerms, MaxDeg

VARIABLES H, K, cur, want, tgt
vars == <<H, K, cur, want, tgt>>

Coefs == {1, -1, 2, -3, 4, 5, -6, 7}
Pt(a, b, c, d, e, f) == <<GInt(a), GInt(b), GInt(c), GInt(d), GInt(e), GInt(f)>>
Points == <<Pt(1, 2, 3, 4, 5, 6), Pt(2, -1, 3, 1, -2, 2), Pt(-1, 0, 2, -3, 1, 0), Pt(0, 0, 0, 0, 0, 0)>>
MonosUpTo(m) == {k \in [Vars -> 0 .. m] : KDeg(k) <= m}
NTerms(f) == Cardinality(DOMAIN f)

\* Hamiltonians for the twin integrations (family "twin"): bounded motion near the origin,
\* every variable coupled, degrees 3 and 4 present
X(a, b, c, d, e, f, co) == Mono(<<a, b, c, d, e, f>>, GInt(co))
RECURSIVE SumSeq(_, _)
SumSeq(s, n) == IF n = 0 THEN PZero ELSE Add(s[n], SumSeq(s, n - 1))
Osc == <<X(2, 0, 0, 0, 0, 0, 1), X(0, 0, 0, 2, 0, 0, 1), X(0, 2, 0, 0, 0, 0, 2), X(0, 0, 0, 0, 2, 0, 1),
         X(0, 0, 2, 0, 0, 0, 1), X(0, 0, 0, 0, 0, 2, 3)>>
Twin1 == Add(SumSeq(Osc, 6),
             SumSeq(<<X(2, 1, 0, 0, 0, 0, 1), X(0, 3, 0, 0, 0, 0, -1), X(1, 0, 1, 0, 1, 0, 2), X(0, 0, 0, 1, 1, 1, -1),
                      X(2, 0, 0, 2, 0, 0, 1), X(0, 1, 0, 0, 0, 3, 1)>>, 6))
\* saddle x centre x centre (the shape of the collinear-point normal forms) with cubic and quartic coupling
Twin2 == SumSeq(<<X(1, 0, 0, 1, 0, 0, 2), X(0, 2, 0, 0, 0, 0, 1), X(0, 0, 0, 0, 2, 0, 1), X(0, 0, 2, 0, 0, 0, 2),
                  X(0, 0, 0, 0, 0, 2, 1), X(1, 1, 0, 0, 0, 1, 1), X(0, 0, 1, 1, 1, 0, -2), X(1, 0, 0, 1, 2, 0, 1),
                  X(0, 2, 2, 0, 0, 0, -1)>>, 9)
Twin3 == Add(Twin1, SumSeq(<<X(1, 1, 1, 1, 1, 0, 1), X(0, 0, 0, 2, 2, 2, -1), X(3, 0, 0, 0, 0, 3, 1)>>, 3))
Twins == <<Twin1, Twin2, Twin3>>

Init ==
    /\ cur = KZero /\ want = -1 /\ K = PZero
    /\ CASE Family = "mono" -> tgt = 3 /\ H \in {Mono(a, GInt(c)) : a \in MonosUpTo(MonoDeg), c \in {2, -3}}
         [] Family = "twin" -> tgt = 3 /\ H \in {Twins[i] : i \in 1 .. Len(Twins)}
         [] OTHER -> tgt = 1 /\ H = PZero

Poly(t) == IF t = 1 THEN H ELSE K
StartTerm(d) ==
    /\ tgt \in 1 .. 2 /\ want = -1 /\ NTerms(Poly(tgt)) < MaxTerms /\ d \in 0 .. MaxDeg
    /\ want' = d /\ UNCHANGED <<H, K, cur, tgt>>
Inc(v) ==
    /\ want >= 0 /\ KDeg(cur) < want
    /\ cur' = KInc(cur, v) /\ UNCHANGED <<H, K, want, tgt>>
SetCoef(c) ==
    /\ want >= 0 /\ KDeg(cur) = want
    /\ IF tgt = 1 THEN H' = Add(H, Mono(cur, GInt(c))) /\ K' = K
                  ELSE K' = Add(K, Mono(cur, GInt(c))) /\ H' = H
    /\ cur' = KZero /\ want' = -1 /\ UNCHANGED tgt
NextPoly ==
    /\ tgt \in 1 .. 2 /\ want = -1 /\ tgt' = tgt + 1 /\ UNCHANGED <<H, K, cur, want>>
Next ==
    \/ \E d \in 0 .. 8 : StartTerm(d)
    \/ \E v \in Vars : Inc(v)
    \/ \E c \in Coefs : SetCoef(c)
    \/ NextPoly
Spec == Init /\ [][Next]_vars

Complete == tgt = 3
InvPoissonForm == Complete => \A i \in 1 .. Len(Points) : LawPoissonForm(H, Points[i])
\* small points and degree <= 6 keep grad H . Rhs inside 32-bit integers
EPoints == <<Pt(1, -1, 2, -2, 1, 1), Pt(-1, 2, 0, 1, -1, 2), Pt(2, 1, -1, 0, 2, -2)>>
InvEnergy      == (Complete /\ Deg(H) <= 6) => \A i \in 1 .. Len(EPoints) : LawEnergy(H, EPoints[i])
InvLinear      == Complete => LawLinear(H, K, Points[2])
InvOscillator  == \A i \in 1 .. Len(Points) : LawOscillator(Points[i])
InvJacobianBlocks == Complete => LawJacobianBlocks(H)
InvReal        == Complete => IsRealPoly(H)

Re(seq) == [i \in DOMAIN seq |-> seq[i][1]]
Emit ==
    Complete =>
        PrintT(ToJson([H |-> PolyToSeq(H), deg |-> Deg(H),
                       twin |-> IF Family = "twin" THEN CHOOSE i \in 1 .. Len(Twins) : Twins[i] = H ELSE 0,
                       jac |-> [v \in Vars |-> PolyToSeq(Diff(H, v))],
                       pts |-> [i \in 1 .. Len(Points) |-> Re(Points[i])],
                       dHdQ |-> [i \in 1 .. Len(Points) |-> Re(DHDQ(H, Points[i]))],
                       dHdP |-> [i \in 1 .. Len(Points) |-> Re(DHDP(H, Points[i]))],
                       rhs |-> [i \in 1 .. Len(Points) |-> Re(Rhs(H, Points[i]))]]))
=============================================================================
