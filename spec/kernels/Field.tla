------------------------------- MODULE Field -------------------------------
(***************************************************************************)
(* CR3BP vector field, its Jacobian and its energy integral (property C01) *)
(*   src/hiten/algorithms/dynamics/rtbp.py   _crtbp_accel, _jacobian_crtbp, *)
(*                                           _var_equations                *)
(*   src/hiten/algorithms/common/energy.py   crtbp_energy, _jacobi          *)
(*                                                                         *)
(* The formulas of the code are transcribed as rational functions of       *)
(* (x, y, z, vx, vy, vz, mu, r1, r2) where r1, r2 are the two distances.   *)
(* They are evaluated on a family of rational witness points at which both *)
(* distances are rational (parametrised below), in the prime fields Z_p.   *)
(*                                                                         *)
(* Independent of those transcriptions, the module implements forward-mode *)
(* differentiation with dual numbers <<value, derivative>> (sum, product   *)
(* and the rule d r^-k = -k/2 r^-(k+2) d(r^2)).  TLC checks                *)
(*    JacobianIsDerivative :  d F_i / d x_j  (dual numbers) = J[i][j]      *)
(*    EnergyIsFirstIntegral:  grad E . F = 0                               *)
(*    VarEqIsJPhiAndF      :  the variational right-hand side is (J Phi, F)*)
(* Two rational functions that agree on this many generic points are equal *)
(* (Schwartz-Zippel), so this decides the analytic clause of C01 for the   *)
(* transcribed formulas; the harness binds the transcription to the code   *)
(* by exact evaluation at the same witness points.                         *)
(***************************************************************************)
EXTENDS Integers, Sequences, FiniteSets, TLC

CONSTANTS Primes, Params      \* Params: set of witness parameter records

(* ------------------------- arithmetic in Z_p --------------------------- *)
Md(x, p) == ((x % p) + p) % p
Ad(x, y, p) == (x + y) % p
Sb(x, y, p) == (((x - y) % p) + p) % p
Ml(x, y, p) == (x * y) % p
RECURSIVE Pw(_, _, _)
Pw(x, n, p) == IF n = 0 THEN 1
               ELSE IF n % 2 = 0 THEN LET h == Pw(x, n \div 2, p) IN Ml(h, h, p)
               ELSE Ml(x, Pw(x, n - 1, p), p)
Inv(x, p) == Pw(x, p - 2, p)
Dv(x, y, p) == Ml(x, Inv(y, p), p)
Neg(x, p) == Sb(0, x, p)
Q(n, d, p) == Dv(Md(n, p), Md(d, p), p)          \* the rational n/d
Half(p) == Inv(2, p)

(* --------------------------- witness points ---------------------------- *)
\* parameters: s = sn/sd, t = tn/td (stereographic coordinates of the unit direction from the
\* primary), k = kn/kd (conic parameter), mu = 1/mq, velocity (v1, v2, v3) integers.
\*   u = (1 - s^2 - t^2, 2 s, 2 t) / (1 + s^2 + t^2)            rational unit vector
\*   r1 = c + ((1 - c^2)/k - k)/2 ,  r2 = ((1 - c^2)/k + k)/2    with c = u_1
\*   (x + mu, y, z) = r1 * u      =>  r1^2 = (x+mu)^2 + y^2 + z^2,  r2^2 = (x+mu-1)^2 + y^2 + z^2
Pt(w, p) ==
    LET s == Q(w.sn, w.sd, p)   t == Q(w.tn, w.td, p)   k == Q(w.kn, w.kd, p)
        den == Ad(1, Ad(Ml(s, s, p), Ml(t, t, p), p), p)
        u1 == Dv(Sb(1, Ad(Ml(s, s, p), Ml(t, t, p), p), p), den, p)
        u2 == Dv(Ml(2, s, p), den, p)
        u3 == Dv(Ml(2, t, p), den, p)
        omc2 == Sb(1, Ml(u1, u1, p), p)
        r1 == Ad(u1, Ml(Half(p), Sb(Dv(omc2, k, p), k, p), p), p)
        r2 == Ml(Half(p), Ad(Dv(omc2, k, p), k, p), p)
        mu == Q(1, w.mq, p)
    IN  [x |-> Sb(Ml(r1, u1, p), mu, p), y |-> Ml(r1, u2, p), z |-> Ml(r1, u3, p),
         vx |-> Md(w.v1, p), vy |-> Md(w.v2, p), vz |-> Md(w.v3, p),
         mu |-> mu, r1 |-> r1, r2 |-> r2, ok |-> (den # 0 /\ k # 0 /\ r1 # 0 /\ r2 # 0)]

\* sanity of the parametrisation itself
DistancesConsistent(P, p) ==
    LET a == Ad(P.x, P.mu, p)  b == Sb(a, 1, p)
        rho2 == Ad(Ml(P.y, P.y, p), Ml(P.z, P.z, p), p)
    IN  /\ Ml(P.r1, P.r1, p) = Ad(Ml(a, a, p), rho2, p)
        /\ Ml(P.r2, P.r2, p) = Ad(Ml(b, b, p), rho2, p)

(* ---------------- transcription of the code's formulas ----------------- *)
\* _crtbp_accel: (vx, vy, vz, ax, ay, az)
FieldOf(P, p) ==
    LET mu == P.mu  m1 == Sb(1, mu, p)
        a == Ad(P.x, mu, p)  b == Sb(Ad(P.x, mu, p), 1, p)       \* x + mu,  x - 1 + mu
        i13 == Inv(Pw(P.r1, 3, p), p)  i23 == Inv(Pw(P.r2, 3, p), p)
        ax == Sb(Sb(Ad(Ml(2, P.vy, p), P.x, p), Ml(Ml(m1, a, p), i13, p), p), Ml(Ml(mu, b, p), i23, p), p)
        ay == Sb(Sb(Ad(Neg(Ml(2, P.vx, p), p), P.y, p), Ml(Ml(m1, P.y, p), i13, p), p), Ml(Ml(mu, P.y, p), i23, p), p)
        az == Sb(Neg(Ml(Ml(m1, P.z, p), i13, p), p), Ml(Ml(mu, P.z, p), i23, p), p)
    IN  <<P.vx, P.vy, P.vz, ax, ay, az>>

\* _jacobian_crtbp: 6x6 matrix as a sequence of rows
JacOf(P, p) ==
    LET mu == P.mu  mu2 == Sb(1, mu, p)
        a == Ad(P.x, mu, p)  b == Sb(P.x, mu2, p)
        r3 == Inv(Pw(P.r1, 3, p), p)  r5 == Inv(Pw(P.r1, 5, p), p)
        R3 == Inv(Pw(P.r2, 3, p), p)  R5 == Inv(Pw(P.r2, 5, p), p)
        common == Ad(Ml(mu2, r3, p), Ml(mu, R3, p), p)
        dd(c1, c2) == Ad(Ml(Ml(mu2, r5, p), Ml(3, c1, p), p), Ml(Ml(mu, R5, p), Ml(3, c2, p), p), p)
        oxx == Sb(Ad(1, dd(Ml(a, a, p), Ml(b, b, p)), p), common, p)
        oyy == Sb(Ad(1, dd(Ml(P.y, P.y, p), Ml(P.y, P.y, p)), p), common, p)
        ozz == Sb(dd(Ml(P.z, P.z, p), Ml(P.z, P.z, p)), common, p)
        mix == Ad(Ml(Ml(mu2, a, p), r5, p), Ml(Ml(mu, b, p), R5, p), p)
        oxy == Ml(Ml(3, P.y, p), mix, p)
        oxz == Ml(Ml(3, P.z, p), mix, p)
        oyz == Ml(Ml(Ml(3, P.y, p), P.z, p), Ad(Ml(mu2, r5, p), Ml(mu, R5, p), p), p)
    IN  << <<0, 0, 0, 1, 0, 0>>,
           <<0, 0, 0, 0, 1, 0>>,
           <<0, 0, 0, 0, 0, 1>>,
           <<oxx, oxy, oxz, 0, 2, 0>>,
           <<oxy, oyy, oyz, Neg(2, p), 0, 0>>,
           <<oxz, oyz, ozz, 0, 0, 0>> >>

(* ------------------------ dual-number calculus ------------------------- *)
DC(c) == <<c, 0>>
DAdd(u, v, p) == <<Ad(u[1], v[1], p), Ad(u[2], v[2], p)>>
DSub(u, v, p) == <<Sb(u[1], v[1], p), Sb(u[2], v[2], p)>>
DMul(u, v, p) == <<Ml(u[1], v[1], p), Ad(Ml(u[1], v[2], p), Ml(u[2], v[1], p), p)>>
\* r^-k as a dual number, given the dual of r^2 and the value of r:  d r^-k = -k/2 r^-(k+2) d(r^2)
DRPow(R2, r, k, p) == <<Inv(Pw(r, k, p), p),
                        Ml(Ml(Neg(Ml(k % p, Half(p), p), p), Inv(Pw(r, k + 2, p), p), p), R2[2], p)>>

\* the six state variables as duals seeded in direction j
Seeded(P, j) == [x |-> <<P.x, IF j = 1 THEN 1 ELSE 0>>, y |-> <<P.y, IF j = 2 THEN 1 ELSE 0>>,
                 z |-> <<P.z, IF j = 3 THEN 1 ELSE 0>>, vx |-> <<P.vx, IF j = 4 THEN 1 ELSE 0>>,
                 vy |-> <<P.vy, IF j = 5 THEN 1 ELSE 0>>, vz |-> <<P.vz, IF j = 6 THEN 1 ELSE 0>>]

\* the CR3BP equations of motion written from the textbook definition
\*   ddot r = -2 Omega x v + grad( (x^2 + y^2)/2 + (1-mu)/r1 + mu/r2 ),  on dual numbers
DualField(P, j, p) ==
    LET S == Seeded(P, j)
        mu == DC(P.mu)  m1 == DC(Sb(1, P.mu, p))
        a == DAdd(S.x, mu, p)  b == DSub(DAdd(S.x, mu, p), DC(1), p)
        rho2 == DAdd(DMul(S.y, S.y, p), DMul(S.z, S.z, p), p)
        R1sq == DAdd(DMul(a, a, p), rho2, p)   R2sq == DAdd(DMul(b, b, p), rho2, p)
        i1 == DRPow(R1sq, P.r1, 3, p)   i2 == DRPow(R2sq, P.r2, 3, p)
        grav(c1, c2) == DAdd(DMul(DMul(m1, c1, p), i1, p), DMul(DMul(mu, c2, p), i2, p), p)
        ax == DSub(DAdd(DMul(DC(2), S.vy, p), S.x, p), grav(a, b), p)
        ay == DSub(DSub(S.y, DMul(DC(2), S.vx, p), p), grav(S.y, S.y), p)
        az == DSub(DC(0), grav(S.z, S.z), p)
    IN  <<S.vx, S.vy, S.vz, ax, ay, az>>

\* energy  E = v^2/2 - (1-mu)/r1 - mu/r2 - (x^2 + y^2)/2 - mu(1-mu)/2   (crtbp_energy), on duals
DualEnergy(P, j, p) ==
    LET S == Seeded(P, j)
        mu == DC(P.mu)  m1 == DC(Sb(1, P.mu, p))  h == DC(Half(p))
        a == DAdd(S.x, mu, p)  b == DSub(DAdd(S.x, mu, p), DC(1), p)
        rho2 == DAdd(DMul(S.y, S.y, p), DMul(S.z, S.z, p), p)
        R1sq == DAdd(DMul(a, a, p), rho2, p)   R2sq == DAdd(DMul(b, b, p), rho2, p)
        kin == DMul(h, DAdd(DAdd(DMul(S.vx, S.vx, p), DMul(S.vy, S.vy, p), p), DMul(S.vz, S.vz, p), p), p)
        pot == DAdd(DAdd(DMul(m1, DRPow(R1sq, P.r1, 1, p), p), DMul(mu, DRPow(R2sq, P.r2, 1, p), p), p),
                    DAdd(DMul(h, DAdd(DMul(S.x, S.x, p), DMul(S.y, S.y, p), p), p), DMul(h, DMul(mu, m1, p), p), p), p)
    IN  DSub(kin, pot, p)

EnergyOf(P, p) == DualEnergy(P, 1, p)[1]
\* Jacobi constant as used by _max_rel_energy_error: x^2 + y^2 + 2((1-mu)/r1 + mu/r2) - v^2
JacobiOf(P, p) ==
    LET m1 == Sb(1, P.mu, p) IN
    Sb(Ad(Ad(Ml(P.x, P.x, p), Ml(P.y, P.y, p), p),
          Ml(2, Ad(Dv(m1, P.r1, p), Dv(P.mu, P.r2, p), p), p), p),
       Ad(Ad(Ml(P.vx, P.vx, p), Ml(P.vy, P.vy, p), p), Ml(P.vz, P.vz, p), p), p)

\* The documented split of the energy (common/energy.py: kinetic_energy, gravitational_potential,
\* effective_potential):  T = v^2/2,  U_grav = -(1-mu)/r1 - mu/r2 - mu(1-mu)/2,  U_eff = -(x^2+y^2)/2 + U_grav
KineticOf(P, p) == Ml(Half(p), Ad(Ad(Ml(P.vx, P.vx, p), Ml(P.vy, P.vy, p), p), Ml(P.vz, P.vz, p), p), p)
GravOf(P, p) ==
    LET m1 == Sb(1, P.mu, p) IN
    Sb(Sb(Neg(Dv(m1, P.r1, p), p), Dv(P.mu, P.r2, p), p), Ml(Half(p), Ml(P.mu, m1, p), p), p)
UeffOf(P, p) == Ad(Neg(Ml(Half(p), Ad(Ml(P.x, P.x, p), Ml(P.y, P.y, p), p), p), p), GravOf(P, p), p)

\* pseudo-potential Omega = (x^2+y^2)/2 + (1-mu)/r1 + mu/r2 (pseudo_potential_at_point, hill_region: Z = Omega - C/2)
OmegaOf(P, p) ==
    LET m1 == Sb(1, P.mu, p) IN
    Ad(Ml(Half(p), Ad(Ml(P.x, P.x, p), Ml(P.y, P.y, p), p), p), Ad(Dv(m1, P.r1, p), Dv(P.mu, P.r2, p), p), p)

(* ------------------------------ checking ------------------------------- *)
VARIABLES w, done
vars == <<w, done>>
NoParam == [sn |-> 0, sd |-> 1, tn |-> 0, td |-> 1, kn |-> 1, kd |-> 1, mq |-> 2, v1 |-> 0, v2 |-> 0, v3 |-> 0]
Init == w = NoParam /\ done = FALSE
Next == done = FALSE /\ w' \in Params /\ done' = TRUE
Spec == Init /\ [][Next]_vars

Usable(p) == done /\ Md(w.sd, p) # 0 /\ Md(w.td, p) # 0 /\ Md(w.kd, p) # 0 /\ Md(w.kn, p) # 0
             /\ Md(w.mq, p) # 0 /\ Pt(w, p).ok

ParametrisationSound == \A p \in Primes : Usable(p) => DistancesConsistent(Pt(w, p), p)

\* the transcribed field is the textbook field
FieldIsTextbook ==
    \A p \in Primes : Usable(p) =>
        LET P == Pt(w, p) IN \A i \in 1 .. 6 : FieldOf(P, p)[i] = DualField(P, 1, p)[i][1]

\* "the Jacobian matrix the library exposes equals the derivative of the vector field it integrates"
JacobianIsDerivative ==
    \A p \in Primes : Usable(p) =>
        LET P == Pt(w, p)  J == JacOf(P, p) IN
        \A i \in 1 .. 6, j \in 1 .. 6 : DualField(P, j, p)[i][2] = J[i][j]

\* "the energy ... has zero time derivative along that field"
EnergyIsFirstIntegral ==
    \A p \in Primes : Usable(p) =>
        LET P == Pt(w, p)  F == FieldOf(P, p)
            RECURSIVE Dot(_)
            Dot(j) == IF j = 0 THEN 0 ELSE Ad(Ml(DualEnergy(P, j, p)[2], F[j], p), Dot(j - 1), p)
        IN  Dot(6) = 0

\* Jacobi constant (both variants in the code) = -2 E up to the constant mu(1-mu)
JacobiIsMinusTwoEnergy ==
    \A p \in Primes : Usable(p) =>
        LET P == Pt(w, p) IN
        JacobiOf(P, p) = Sb(Neg(Ml(2, EnergyOf(P, p), p), p), Ml(P.mu, Sb(1, P.mu, p), p), p)

\* "the energy reported for a state": the documented decomposition T + U_eff IS the first integral checked above
EnergyDecomposition ==
    \A p \in Primes : Usable(p) =>
        LET P == Pt(w, p) IN Ad(KineticOf(P, p), UeffOf(P, p), p) = EnergyOf(P, p)

\* Omega = -U_eff - mu(1-mu)/2, and the zero-velocity surface of hill_region: Omega - C/2 = v^2/2 with the
\* Jacobi constant C of _max_rel_energy_error (so Z = Omega - C/2 <= 0 exactly where motion with that C is possible)
PseudoPotentialConsistent ==
    \A p \in Primes : Usable(p) =>
        LET P == Pt(w, p) IN
        /\ OmegaOf(P, p) = Sb(Neg(UeffOf(P, p), p), Ml(Half(p), Ml(P.mu, Sb(1, P.mu, p), p), p), p)
        /\ Sb(OmegaOf(P, p), Ml(Half(p), JacobiOf(P, p), p), p) = KineticOf(P, p)

\* the Jacobian's potential block is symmetric and (for the gravitational part) the field is
\* a gradient: trace-free Hessian of the Newtonian potential, i.e. oxx + oyy + ozz = 2
LaplaceIdentity ==
    \A p \in Primes : Usable(p) =>
        LET J == JacOf(Pt(w, p), p) IN
        /\ Ad(Ad(J[4][1], J[5][2], p), J[6][3], p) = 2
        /\ J[4][2] = J[5][1] /\ J[4][3] = J[6][1] /\ J[5][3] = J[6][2]
=============================================================================
