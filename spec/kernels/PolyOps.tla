------------------------------- MODULE PolyOps -------------------------------
(***************************************************************************)
(* Property C06, second sentence: hiten's add, multiply, power,            *)
(* differentiate, integrate, Poisson bracket, evaluate and linear/affine   *)
(* substitution return the coefficients of the mathematically defined      *)
(* result.                                                                 *)
(*                                                                         *)
(* REQUIREMENT.  The mathematically defined results are the operators of   *)
(* IPoly; `Results` below collects, for one instance (p, q, r), what each  *)
(* library entry point must return.  The harness replays these records     *)
(* into                                                                    *)
(*   polynomial/algebra.py     _poly_add _poly_scale _poly_mul _poly_diff  *)
(*                             _poly_integrate _poly_poisson _poly_evaluate*)
(*   polynomial/operations.py  _polynomial_add_inplace _polynomial_multiply*)
(*        _polynomial_power _polynomial_poisson_bracket                    *)
(*        _polynomial_differentiate _polynomial_jacobian                   *)
(*        _polynomial_integrate _polynomial_evaluate _polynomial_variable  *)
(*        _linear_variable_polys _substitute_linear _substitute_affine     *)
(*   polynomial/coordinates.py _substitute_coordinates                     *)
(* and compares exactly.                                                   *)
(*                                                                         *)
(* VALIDATION OF THE SPECIFICATION.  So that IPoly is not merely a second  *)
(* copy of the same mistakes, TLC checks the algebraic laws below on every *)
(* instance it generates (ring axioms, Leibniz, antisymmetry, Jacobi,      *)
(* canonical brackets, d/dx of the antiderivative, evaluation and          *)
(* substitution are ring homomorphisms, multinomial closed form).          *)
(***************************************************************************)
EXTENDS IPoly, PolyIndex

(******************************** the laws *********************************)
LawAddRing(p, q, r) ==
    /\ Add(p, q) = Add(q, p)
    /\ Add(Add(p, q), r) = Add(p, Add(q, r))
    /\ Add(p, PZero) = p
    /\ Sub(p, p) = PZero
LawMulRing(p, q, r) ==
    /\ Mul(p, q) = Mul(q, p)
    /\ Mul(Mul(p, q), r) = Mul(p, Mul(q, r))
    /\ Mul(p, Add(q, r)) = Add(Mul(p, q), Mul(p, r))
    /\ Mul(p, Const(GOne)) = p
    /\ Mul(p, PZero) = PZero
    /\ (p # PZero /\ q # PZero) => Deg(Mul(p, q)) = Deg(p) + Deg(q)      \* no zero divisors
LawScale(p, q, c) ==
    /\ Scale(c, Add(p, q)) = Add(Scale(c, p), Scale(c, q))
    /\ Scale(c, p) = Mul(Const(c), p)
LawDiff(p, q) ==
    /\ \A v \in Vars : Diff(Mul(p, q), v) = Add(Mul(Diff(p, v), q), Mul(p, Diff(q, v)))   \* Leibniz
    /\ \A v \in Vars : Diff(Add(p, q), v) = Add(Diff(p, v), Diff(q, v))
    /\ \A v, w \in Vars : Diff(Diff(p, v), w) = Diff(Diff(p, w), v)
    /\ \A v, w \in Vars : Diff(Var(v), w) = IF v = w THEN Const(GOne) ELSE PZero
LawIntegrate(p, m) ==                       \* m clears the denominators
    LET s == Scale(GInt(m), p)
    IN  \A v \in Vars : /\ Integrable(s, v)
                        /\ Diff(Integrate(s, v), v) = s
                        /\ \A k \in DOMAIN Integrate(s, v) : k[v] >= 1
LawPoisson(p, q, r) ==
    /\ Poisson(p, q) = Neg(Poisson(q, p))                                                \* antisymmetry
    /\ Poisson(p, Mul(q, r)) = Add(Mul(Poisson(p, q), r), Mul(q, Poisson(p, r)))         \* derivation
    /\ Add(Add(Poisson(p, Poisson(q, r)), Poisson(q, Poisson(r, p))), Poisson(r, Poisson(p, q))) = PZero   \* Jacobi
LawCanonical ==
    \A i, j \in Vars :
        Poisson(Var(i), Var(j)) = IF j = i + NDOF THEN Const(GOne)
                                  ELSE IF i = j + NDOF THEN Const(GInt(-1)) ELSE PZero
LawEval(p, q, x) ==
    /\ Eval(Add(p, q), x) = GAdd(Eval(p, x), Eval(q, x))
    /\ Eval(Mul(p, q), x) = GMul(Eval(p, x), Eval(q, x))
    /\ \A v \in Vars : Eval(Var(v), x) = x[v]
LawSubst(p, q, C, s, x) ==
    /\ Eval(SubstLinear(p, C), x) = Eval(p, MatVec(C, x))
    /\ Eval(SubstAffine(p, C, s), x) = Eval(p, VecAdd(MatVec(C, x), s))
    /\ SubstLinear(Mul(p, q), C) = Mul(SubstLinear(p, C), SubstLinear(q, C))
    /\ SubstLinear(p, [i \in Vars |-> [j \in Vars |-> IF i = j THEN GOne ELSE GZero]]) = p

(* closed form: (x_1 + ... + x_NV)^a has coefficient a! / (k_1! ... k_NV!) at x^k *)
RECURSIVE MultinomTo(_, _)
MultinomTo(k, n) == IF n = 0 THEN 1 ELSE Binom(KSumTo(k, n), k[n]) * MultinomTo(k, n - 1)
Multinom(k) == MultinomTo(k, NV)
RECURSIVE SumVarsTo(_)
SumVarsTo(n) == IF n = 0 THEN PZero ELSE Add(Var(n), SumVarsTo(n - 1))
SumVars == SumVarsTo(NV)
IsMultinomial(p, a) ==
    /\ Cardinality(DOMAIN p) = Psi(NV, a)
    /\ \A k \in DOMAIN p : KDeg(k) = a /\ p[k] = GInt(Multinom(k))
LawMultinomial(a, b) ==
    /\ IsMultinomial(Pow(SumVars, a), a)
    /\ IsMultinomial(Mul(Pow(SumVars, a), Pow(SumVars, b)), a + b)

(* link with the packed layout: slot Rank(k) of the degree-d block holds the coefficient of x^k *)
Block(p, d) == [i \in 1 .. Psi(NV, d) |-> Coef(p, Enum(NV, d)[i])]
LawBlock(p) ==
    \A k \in DOMAIN p : Block(p, KDeg(k))[Rank(k) + 1] = p[k]
=============================================================================
