----------------------------- MODULE FourierPoly -----------------------------
(***************************************************************************)
(* Growth check X01: the Fourier-Taylor kernels of hiten                   *)
(*   src/hiten/algorithms/fourier/base.py        index scheme              *)
(*   src/hiten/algorithms/fourier/algebra.py     block algebra             *)
(*   src/hiten/algorithms/fourier/operations.py  list-level evaluation     *)
(*   src/hiten/algorithms/bifurcation/transforms.py   _nf2aa_ee/_nf2aa_sc  *)
(* No listed property anchors this code.                                   *)
(*                                                                         *)
(* A Fourier-Taylor polynomial is a finite sum                             *)
(*     sum  c[n,k]  I1^n1 I2^n2 I3^n3  exp(i (k1 th1 + k2 th2 + k3 th3))   *)
(* It is represented here exactly as a sparse IPoly value with NV = 6 whose*)
(* "exponent tuple" is t = <<n1,n2,n3,k1,k2,k3>> (n >= 0, k any integer):  *)
(* a Laurent polynomial in (I, z = e^{i th}).  IPoly.Add / Scale / Mul are *)
(* therefore the mathematical sum / scalar multiple / product, and IPoly   *)
(* itself (validated by the laws of PolyOps in check C06) is the           *)
(* requirement side for the canonical (q,p) polynomials _nf2aa reads.      *)
(*                                                                         *)
(* LAYOUT OF THIS MODULE                                                   *)
(*   1. TRANSCRIPTION of the index scheme (bit fields, tables, encoder)    *)
(*   2. REQUIREMENTS on the index scheme                                   *)
(*   3. REQUIREMENT side of the algebra (mathematical definitions) + laws  *)
(*   4. TRANSCRIPTION of the block kernels through tables/decoder/encoder  *)
(*      and the requirement linking 4 to 3                                 *)
(*   5. evaluation / gradient / Hessian: requirement (value of the symbolic*)
(*      derivative) and transcription (the code's divide-by-I formulas)    *)
(*   6. _nf2aa: requirement (the substitution q = sqrt(I) e^{i th},        *)
(*      p = -i sqrt(I) e^{-i th}) and transcription                        *)
(*                                                                         *)
(* NAMED DEVIATIONS of the code from the naive mathematical reading        *)
(* (modelled, not required away):                                          *)
(*   DevTrunc   _fpoly_mul drops every product term whose Fourier index    *)
(*              leaves -K..K (encoder returns -1): the kernel computes the *)
(*              K-truncation of the product; truncated products are not    *)
(*              associative (witness: TruncNotAssociative).                *)
(*   DevOutTab  _fpoly_poisson returns a one-element zero array when the   *)
(*              result degree has no table (the comment promises           *)
(*              allocation); _fpoly_mul has no such guard (precondition).  *)
(*   DevOddDrop _nf2aa discards monomials with an odd (q_j,p_j) pair       *)
(*              degree (half-integer action power) and maps an odd total   *)
(*              degree to a zero block of degree floor(d/2), K = 0.        *)
(*   DevSC      _nf2aa_sc is _nf2aa_ee (the hyperbolic pair is treated like*)
(*              a centre pair, including its harmonics and (-i) factors).  *)
(*   DevKTrunc  _init_fourier_tables silently replaces k_max > 63 by 63;   *)
(*              it does NOT reject degree > 63 (sentinel words enter the   *)
(*              table) -- degrees <= 63 are the admissible domain.         *)
(*   DevZeroI   (AS FOUND at a9d94a7, contradicts the requirement) the     *)
(*              gradient / Hessian kernels obtain d/dI_a by dividing the   *)
(*              term value by I_a and return 0 when I_a = 0; the derivative*)
(*              of a term linear (quadratic) in I_a does not vanish there. *)
(*              Transcribed as CodeGrad / CodeHess; ReqGrad / ReqHess are  *)
(*              the requirement; they agree iff no needed action is zero.  *)
(***************************************************************************)
EXTENDS IPoly, PolyIndex
LOCAL INSTANCE FiniteSetsExt
LOCAL INSTANCE SequencesExt

(***************************************************************************)
(* 1. TRANSCRIPTION: packed words, decoder, tables, encoder                *)
(*                                                                         *)
(* The code packs into one uint64; TLC integers are 32 bit, so a word is   *)
(* held as three limbs  <<lo, mid, top>> = bits 0-24, 25-38, 39-63:        *)
(*    value = lo + 2^25 mid + 2^39 top.                                    *)
(*    lo  = n1 | n2 << 6 | n3 << 12 | (k1+64) << 18        (< 2^25)        *)
(*    mid = (k2+64) | (k3+64) << 7                         (< 2^14)        *)
(*    top = 0 for every valid word; the invalid sentinel 0xFFFF...F has    *)
(*          every bit set.                                                 *)
(***************************************************************************)
W25 == 33554432
W14 == 16384
NMaxHard == 63          \* _MAX_N
KOff     == 64          \* _K_OFFSET
KMaxHard == 63          \* _MAX_K
Sentinel == <<W25 - 1, W14 - 1, W25 - 1>>

ValidPack(t) ==
    /\ \A j \in 1 .. 3 : t[j] >= 0 /\ t[j] <= NMaxHard
    /\ \A j \in 4 .. 6 : t[j] >= -KOff /\ t[j] <= KMaxHard

\* _pack_fourier_index (the masks are transcribed; they are no-ops on the valid range)
PackF(t) ==
    IF ~ValidPack(t) THEN Sentinel
    ELSE LET e1 == (t[4] + KOff) % 128
             e2 == (t[5] + KOff) % 128
             e3 == (t[6] + KOff) % 128
         IN  << (t[1] % 64) + 64 * (t[2] % 64) + 4096 * (t[3] % 64) + 262144 * e1,
                e2 + 128 * e3,
                0 >>

\* _decode_fourier_index: reads the bit fields of any word (bits >= 39 are ignored)
DecodeF(w) ==
    << w[1] % 64, (w[1] \div 64) % 64, (w[1] \div 4096) % 64, ((w[1] \div 262144) % 128) - KOff,
       (w[2] % 128) - KOff, ((w[2] \div 128) % 128) - KOff >>

\* _init_fourier_tables: k_max above the hard limit is silently truncated (DevKTrunc)
EffK(K) == IF K > KMaxHard THEN KMaxHard ELSE K
PsiFCode(d, K) == LET M == 2 * EffK(K) + 1 IN (((d + 2) * (d + 1)) \div 2) * (M * M * M)

(* The loop nest  n1 = d..0, n2 = d-n1..0, n3 determined; k1, k2, k3 = -K..K ascending  *)
(* with idx += 1 is row-major: entry r (0-based) has action triple number                *)
(* r div M^3 of the enumeration (first entry descending, then second: PolyIndex.Enum(3,d)*)
(* is exactly that recursion) and Fourier digits (r div M^2) % M, (r div M) % M, r % M.  *)
TableF(d, K) ==
    LET k == EffK(K)
        M == 2 * k + 1
        A == Enum(3, d)
    IN  [pos \in 1 .. PsiFCode(d, K) |->
            LET r  == pos - 1
                ia == r \div (M * M * M)
            IN  PackF(<<A[ia + 1][1], A[ia + 1][2], A[ia + 1][3],
                        ((r \div (M * M)) % M) - k, ((r \div M) % M) - k, (r % M) - k>>)] \o <<>>   \* (\o forces TLC to build the array once)
\* psiF, clmoF for degrees 0..D  (sequence index d+1)
TablesF(D, K) == [i \in 1 .. D + 1 |-> TableF(i - 1, K)] \o <<>>

SetMax(S) == CHOOSE x \in S : \A y \in S : y <= x
\* _create_encode_dict_fourier + _encode_fourier_index: dictionary word -> position, a later
\* entry with the same word overwrites an earlier one; -1 for the sentinel, for a degree
\* without table, for a word that is not in the table of that degree
EncodeF(t, d, tabs) ==
    LET w == PackF(t)
    IN  IF w = Sentinel THEN -1
        ELSE IF d < 0 \/ d >= Len(tabs) THEN -1
        ELSE LET tab  == tabs[d + 1]
                 hits == {pos \in 1 .. Len(tab) : tab[pos] = w}
             IN  IF hits = {} THEN -1 ELSE SetMax(hits) - 1

(***************************************************************************)
(* 2. REQUIREMENTS on the index scheme                                     *)
(***************************************************************************)
FDeg(t) == t[1] + t[2] + t[3]
AbsI(x) == IF x < 0 THEN -x ELSE x
InTable(t, d, K) ==
    /\ \A j \in 1 .. 3 : t[j] >= 0
    /\ FDeg(t) = d
    /\ \A j \in 4 .. 6 : AbsI(t[j]) <= K
Admissible(d, K) ==
    LET A == Enum(3, d)
    IN  {<<A[i][1], A[i][2], A[i][3], k1, k2, k3>> : i \in 1 .. Len(A), k1 \in -K .. K, k2 \in -K .. K, k3 \in -K .. K}

(* closed form of the slot (0-based): PolyIndex.Rank of the action triple times M^3 plus *)
(* the base-M number of the shifted Fourier indices.  The harness places and reads        *)
(* coefficients with this, never with the library's encoder.                              *)
RankF(t, K) ==
    LET M == 2 * K + 1
    IN  Rank(<<t[1], t[2], t[3]>>) * (M * M * M) + ((t[4] + K) * M + (t[5] + K)) * M + (t[6] + K)

\* R1  pack/decode are mutually inverse on the valid box, pack rejects everything else,
\*     limbs fit, the sentinel is no valid word
ReqPack(t) ==
    IF ValidPack(t)
    THEN LET w == PackF(t)
         IN  /\ DecodeF(w) = t
             /\ w[1] >= 0 /\ w[1] < W25 /\ w[2] >= 0 /\ w[2] < W14 /\ w[3] = 0
             /\ w # Sentinel
    ELSE PackF(t) = Sentinel
ReqPackInjective(S) ==
    LET V == {t \in S : ValidPack(t)} IN Cardinality({PackF(t) : t \in V}) = Cardinality(V)
\* R2  the table of (d, K) lists every admissible index exactly once, and nothing else
ReqTableComplete(d, K) ==
    LET T == TableF(d, K)
        S == {DecodeF(T[pos]) : pos \in 1 .. Len(T)}
    IN  /\ Len(T) = Psi(3, d) * (2 * K + 1) * (2 * K + 1) * (2 * K + 1)
        /\ Len(T) = Cardinality(Admissible(d, K))
        /\ S = Admissible(d, K)
        /\ Cardinality({T[pos] : pos \in 1 .. Len(T)}) = Len(T)
        /\ \A pos \in 1 .. Len(T) : T[pos] # Sentinel /\ PackF(DecodeF(T[pos])) = T[pos]
\* R3  encoder and table are mutually inverse; the closed form is the slot
ReqEncodeInverse(d, tabs, K) ==
    LET T == tabs[d + 1]
    IN  \A pos \in 1 .. Len(T) :
            /\ EncodeF(DecodeF(T[pos]), d, tabs) = pos - 1
            /\ RankF(DecodeF(T[pos]), K) = pos - 1
\* R4  everything that is not an admissible index of degree d is rejected
ReqEncodeRejects(t, d, tabs, K) ==
    (~(d >= 0 /\ d < Len(tabs) /\ InTable(t, d, K))) => EncodeF(t, d, tabs) = -1
ReqEncodeAccepts(t, d, tabs, K) ==
    (d >= 0 /\ d < Len(tabs) /\ InTable(t, d, K)) =>
        /\ EncodeF(t, d, tabs) = RankF(t, K)
        /\ DecodeF(tabs[d + 1][EncodeF(t, d, tabs) + 1]) = t
\* DevKTrunc
ReqKTruncation(d) == TableF(d, KMaxHard + 1) = TableF(d, KMaxHard) /\ PsiFCode(d, 70) = PsiFCode(d, 63)

(***************************************************************************)
(* 3. REQUIREMENT side of the algebra: the mathematical definitions        *)
(***************************************************************************)
FHomPart(p, d) == [t \in {x \in DOMAIN p : FDeg(x) = d} |-> p[t]]
FIsHom(p)      == \A a, b \in DOMAIN p : FDeg(a) = FDeg(b)
FMaxDeg(p)     == IF DOMAIN p = {} THEN -1 ELSE SetMax({FDeg(t) : t \in DOMAIN p})
FTrunc(p, K)   == [t \in {x \in DOMAIN p : \A j \in 4 .. 6 : AbsI(x[j]) <= K} |-> p[t]]
FKMax(p)       == IF DOMAIN p = {} THEN 0 ELSE SetMax({AbsI(t[j]) : t \in DOMAIN p, j \in 4 .. 6})
\* d/dI_a : c I^n e^{ik.th} |-> n_a c I^(n - e_a) e^{ik.th}        (a in 1..3; IPoly.Diff on slot a)
FDiffI(p, a) == Diff(p, a)
\* d/dth_b : c I^n e^{ik.th} |-> i k_b c I^n e^{ik.th}
FDiffT(p, b) == Norm([t \in DOMAIN p |-> GMul(<<0, t[3 + b]>>, p[t])])
\* derivative with respect to coordinate x of (I1,I2,I3,th1,th2,th3)
FDiffX(p, x) == IF x <= 3 THEN FDiffI(p, x) ELSE FDiffT(p, x - 3)
(* canonical bracket with th the coordinate and I the momentum ({th_j, I_j} = 1), the     *)
(* convention of the code and of its tests ({I_j, e^{i th_j}} = -i e^{i th_j}):           *)
(*   {p, q} = sum_j  dp/dth_j dq/dI_j - dp/dI_j dq/dth_j                                  *)
RECURSIVE FPoissonTo(_, _, _)
FPoissonTo(p, q, n) ==
    IF n = 0 THEN PZero
    ELSE Add(FPoissonTo(p, q, n - 1),
             Sub(Mul(FDiffT(p, n), FDiffI(q, n)), Mul(FDiffI(p, n), FDiffT(q, n))))
FPoisson(p, q) == FPoissonTo(p, q, 3)

ActionVar(a) == Mono([i \in 1 .. 6 |-> IF i = a THEN 1 ELSE 0], GOne)          \* I_a
Harmonic(b, k) == Mono([i \in 1 .. 6 |-> IF i = 3 + b THEN k ELSE 0], GOne)    \* e^{i k th_b}

(* laws validating the definitions (Laurent exponents: k may be negative) *)
FLawRing(p, q, r) ==
    /\ Add(p, q) = Add(q, p)
    /\ Add(Add(p, q), r) = Add(p, Add(q, r))
    /\ Sub(p, p) = PZero
    /\ Mul(p, q) = Mul(q, p)
    /\ Mul(Mul(p, q), r) = Mul(p, Mul(q, r))
    /\ Mul(p, Add(q, r)) = Add(Mul(p, q), Mul(p, r))
    /\ Mul(p, Const(GOne)) = p
    /\ (p # PZero /\ q # PZero) => Mul(p, q) # PZero
FLawScale(p, q, c) ==
    /\ Scale(c, Add(p, q)) = Add(Scale(c, p), Scale(c, q))
    /\ Scale(c, p) = Mul(Const(c), p)
FLawDiff(p, q) ==
    /\ \A x \in 1 .. 6 : FDiffX(Mul(p, q), x) = Add(Mul(FDiffX(p, x), q), Mul(p, FDiffX(q, x)))   \* Leibniz
    /\ \A x \in 1 .. 6 : FDiffX(Add(p, q), x) = Add(FDiffX(p, x), FDiffX(q, x))
    /\ \A x, y \in 1 .. 6 : FDiffX(FDiffX(p, x), y) = FDiffX(FDiffX(p, y), x)
FLawPoisson(p, q, r) ==
    /\ FPoisson(p, q) = Neg(FPoisson(q, p))                                                          \* antisymmetry
    /\ FPoisson(p, Mul(q, r)) = Add(Mul(FPoisson(p, q), r), Mul(q, FPoisson(p, r)))                  \* derivation
    /\ FPoisson(Add(p, q), r) = Add(FPoisson(p, r), FPoisson(q, r))                                  \* linearity
    /\ Add(Add(FPoisson(p, FPoisson(q, r)), FPoisson(q, FPoisson(r, p))), FPoisson(r, FPoisson(p, q))) = PZero   \* Jacobi
FLawCanonical ==
    \A a, b \in 1 .. 3 : \A k \in {-2, -1, 1, 3} :
        /\ FPoisson(ActionVar(a), ActionVar(b)) = PZero
        /\ FPoisson(Harmonic(a, k), Harmonic(b, 1)) = PZero
        /\ FPoisson(ActionVar(a), Harmonic(b, k)) = IF a = b THEN Scale(<<0, -k>>, Harmonic(b, k)) ELSE PZero
        /\ FPoisson(Harmonic(b, k), ActionVar(a)) = IF a = b THEN Scale(<<0, k>>, Harmonic(b, k)) ELSE PZero
\* DevTrunc is a real deviation: e^{iK th} * (e^{i th} * e^{-i th}) differs from (e^{iK th} * e^{i th}) * e^{-i th}
TruncNotAssociative(K) ==
    LET a == Harmonic(1, K)
        b == Harmonic(1, 1)
        c == Harmonic(1, -1)
    IN  FTrunc(Mul(FTrunc(Mul(a, b), K), c), K) # FTrunc(Mul(a, FTrunc(Mul(b, c), K)), K)

(***************************************************************************)
(* 4. TRANSCRIPTION of the block kernels.  A block of degree d is the      *)
(* array of length Len(tabs[d+1]); it is held as the sparse function       *)
(* position (0-based) -> non-zero coefficient (the kernels skip zeros).    *)
(***************************************************************************)
BZero == [x \in {} |-> GZero]
BNorm(f) == [x \in {y \in DOMAIN f : f[y] # GZero} |-> f[x]]
BCoef(b, x) == IF x \in DOMAIN b THEN b[x] ELSE GZero
BAdd(a, b) == BNorm([x \in DOMAIN a \cup DOMAIN b |-> GAdd(BCoef(a, x), BCoef(b, x))])
BSub(a, b) == BNorm([x \in DOMAIN a \cup DOMAIN b |-> GSub(BCoef(a, x), BCoef(b, x))])
BScale(c, a) == BNorm([x \in DOMAIN a |-> GMul(c, a[x])])
IdxAt(tabs, d, pos) == DecodeF(tabs[d + 1][pos + 1])

\* _fpoly_add / _fpoly_scale: slot-wise
CodeAdd(bp, bq) == BAdd(bp, bq)
CodeScale(bp, alpha) == BScale(alpha, bp)

\* _fpoly_mul: every pair of non-zero slots; product index = sum of the decoded indices;
\* slot from the encoder for degree deg_p + deg_q; -1 => the term is dropped (DevTrunc)
CodeMul(bp, dp, bq, dq, tabs) ==
    LET dr    == dp + dq
        pairs == (DOMAIN bp) \X (DOMAIN bq)
        PP    == [ij \in pairs |-> EncodeF(KAdd(IdxAt(tabs, dp, ij[1]), IdxAt(tabs, dq, ij[2])), dr, tabs)]
        hit   == {PP[ij] : ij \in pairs} \ {-1}
    IN  BNorm([pos \in hit |-> GSumOver({ij \in pairs : PP[ij] = pos}, LAMBDA ij : GMul(bp[ij[1]], bq[ij[2]]))])

\* _fpoly_diff_action: deg 0 -> zeros_like(p); else n_a c at the slot of n - e_a in degree deg - 1
CodeDiffAction(bp, dp, a, tabs) ==
    IF dp = 0 THEN BZero
    ELSE LET src == {i \in DOMAIN bp : IdxAt(tabs, dp, i)[a] # 0}
             PP  == [i \in src |-> EncodeF(KDec(IdxAt(tabs, dp, i), a), dp - 1, tabs)]
             hit == {PP[i] : i \in src} \ {-1}
         IN  BNorm([pos \in hit |-> GSumOver({i \in src : PP[i] = pos},
                                             LAMBDA i : GScale(IdxAt(tabs, dp, i)[a], bp[i]))])
DiffActionLen(dp, tabs) == IF dp = 0 THEN Len(tabs[1]) ELSE Len(tabs[dp])

\* _fpoly_diff_angle: same slot, coefficient i k_b c
CodeDiffAngle(bp, dp, b, tabs) ==
    BNorm([i \in {j \in DOMAIN bp : IdxAt(tabs, dp, j)[3 + b] # 0} |-> GMul(<<0, IdxAt(tabs, dp, i)[3 + b]>>, bp[i])])

\* _fpoly_poisson: result [len |-> array length, c |-> block]
RECURSIVE CodePoissonTo(_, _, _, _, _, _)
CodePoissonTo(bp, dp, bq, dq, tabs, j) ==
    IF j = 0 THEN BZero
    ELSE LET t1 == IF dq > 0 THEN CodeMul(CodeDiffAngle(bp, dp, j, tabs), dp, CodeDiffAction(bq, dq, j, tabs), dq - 1, tabs)
                   ELSE BZero
             t2 == IF dp > 0 THEN CodeMul(CodeDiffAction(bp, dp, j, tabs), dp - 1, CodeDiffAngle(bq, dq, j, tabs), dq, tabs)
                   ELSE BZero
         IN  BAdd(CodePoissonTo(bp, dp, bq, dq, tabs, j - 1), BSub(t1, t2))
CodePoisson(bp, dp, bq, dq, tabs) ==
    IF dp = 0 /\ dq = 0 THEN [len |-> Len(tabs[1]), c |-> BZero]
    ELSE IF dp + dq - 1 >= Len(tabs) THEN [len |-> 1, c |-> BZero]                \* DevOutTab
    ELSE [len |-> Len(tabs[dp + dq]), c |-> CodePoissonTo(bp, dp, bq, dq, tabs, 3)]

(* link 4 <-> 3.  Requirement-side placement: slot RankF(t) of the degree-d block holds  *)
(* the coefficient of index t (p homogeneous of degree d with |k| <= K).                  *)
ToBlock(p, K) ==
    LET R == [t \in DOMAIN p |-> RankF(t, K)]
    IN  [pos \in {R[t] : t \in DOMAIN p} |-> p[CHOOSE t \in DOMAIN p : R[t] = pos]]
FitsTable(p, d, K) == \A t \in DOMAIN p : InTable(t, d, K)
MulFits(p, q, K) == \A a \in DOMAIN p, b \in DOMAIN q : \A j \in 4 .. 6 : AbsI(a[j] + b[j]) <= K

\* the kernels return the mathematically defined result (K-truncated where DevTrunc applies)
ReqBlockAlgebra(p, dp, q, dq, alpha, tabs, K) ==
    LET bp == ToBlock(p, K)
        bq == ToBlock(q, K)
        D  == Len(tabs) - 1
    IN  /\ (dp = dq) => CodeAdd(bp, bq) = ToBlock(Add(p, q), K)
        /\ CodeScale(bp, alpha) = ToBlock(Scale(alpha, p), K)
        /\ (dp + dq <= D) => CodeMul(bp, dp, bq, dq, tabs) = ToBlock(FTrunc(Mul(p, q), K), K)
        /\ (dp + dq <= D /\ MulFits(p, q, K)) => CodeMul(bp, dp, bq, dq, tabs) = ToBlock(Mul(p, q), K)
        /\ \A a \in 1 .. 3 : CodeDiffAction(bp, dp, a, tabs) = ToBlock(FDiffI(p, a), K)
        /\ \A b \in 1 .. 3 : CodeDiffAngle(bp, dp, b, tabs) = ToBlock(FDiffT(p, b), K)
        /\ (dp + dq - 1 <= D) => CodePoisson(bp, dp, bq, dq, tabs).c = ToBlock(FTrunc(FPoisson(p, q), K), K)
        /\ (dp + dq - 1 <= D /\ MulFits(p, q, K)) => CodePoisson(bp, dp, bq, dq, tabs).c = ToBlock(FPoisson(p, q), K)
        /\ (dp + dq - 1 <= D /\ dp + dq >= 1) => CodePoisson(bp, dp, bq, dq, tabs).len = PsiFCode(dp + dq - 1, K)

(***************************************************************************)
(* 5. evaluation, gradient, Hessian at exact points.                       *)
(* A point is [m, t, b]: I_j = m_j / b (b = 4 or 1), th_j = t_j quarter    *)
(* turns (t_j pi/2), so e^{i k.th} = i^(k.t) exactly.  Every quantity is   *)
(* reported as the Gaussian integer  b^DD * value  (DD >= every degree).   *)
(***************************************************************************)
IUnit(e) == LET r == e % 4 IN IF r = 0 THEN <<1, 0>> ELSE IF r = 1 THEN <<0, 1>> ELSE IF r = 2 THEN <<-1, 0>> ELSE <<0, -1>>
RECURSIVE IPowInt(_, _)
IPowInt(m, n) == IF n = 0 THEN 1 ELSE m * IPowInt(m, n - 1)          \* m^0 = 1 also for m = 0
PhaseAt(t, pt) == IUnit(t[4] * pt.t[1] + t[5] * pt.t[2] + t[6] * pt.t[3])
\* b^DD * I^n   (n = action part of t)
ActPow(t, pt, DD) == IPowInt(pt.m[1], t[1]) * IPowInt(pt.m[2], t[2]) * IPowInt(pt.m[3], t[3])
                     * (IF pt.b = 1 THEN 1 ELSE IPowInt(pt.b, DD - FDeg(t)))
\* b^DD * (value of the term c I^n e^{ik.th})
TermN(c, t, pt, DD) == GMul(GScale(ActPow(t, pt, DD), c), PhaseAt(t, pt))

(* REQUIREMENT: value of p, and of its symbolic derivatives, at the point *)
FEvalN(p, pt, DD) == GSumOver(DOMAIN p, LAMBDA t : TermN(p[t], t, pt, DD))
ReqGradN(p, pt, DD) == [x \in 1 .. 6 |-> FEvalN(FDiffX(p, x), pt, DD)]
ReqHessN(p, pt, DD) == [x \in 1 .. 6 |-> [y \in 1 .. 6 |-> FEvalN(FDiffX(FDiffX(p, x), y), pt, DD)]]

(* TRANSCRIPTION (as found): base_val = value of the term; d/dI_a = base_val n_a / I_a,   *)
(* replaced by 0 when I_a = 0 (DevZeroI).  Exact integer image: base n_a b / m_a.         *)
SignI(x) == IF x < 0 THEN -1 ELSE 1
GDivSigned(a, m) == GScale(SignI(m), GDiv(a, AbsI(m)))               \* exact: m divides both parts
CodeGradN(p, pt, DD) ==
    [x \in 1 .. 6 |->
        IF x <= 3
        THEN GSumOver({t \in DOMAIN p : t[x] # 0},
                      LAMBDA t : IF pt.m[x] = 0 THEN GZero
                                 ELSE GDivSigned(GScale(t[x] * pt.b, TermN(p[t], t, pt, DD)), pt.m[x]))
        ELSE GSumOver({t \in DOMAIN p : t[x] # 0},
                      LAMBDA t : GMul(<<0, t[x]>>, TermN(p[t], t, pt, DD)))]
CodeHessTerm(c, t, pt, DD, x, y) ==
    LET base == TermN(c, t, pt, DD)
    IN  IF x <= 3 /\ y <= 3
        THEN IF x = y
             THEN IF t[x] < 2 \/ pt.m[x] = 0 THEN GZero
                  ELSE GDivSigned(GDivSigned(GScale(t[x] * (t[x] - 1) * pt.b * pt.b, base), pt.m[x]), pt.m[x])
             ELSE IF t[x] = 0 \/ t[y] = 0 \/ pt.m[x] = 0 \/ pt.m[y] = 0 THEN GZero
                  ELSE GDivSigned(GDivSigned(GScale(t[x] * t[y] * pt.b * pt.b, base), pt.m[x]), pt.m[y])
        ELSE IF x <= 3 /\ y > 3
        THEN IF t[x] = 0 \/ pt.m[x] = 0 \/ t[y] = 0 THEN GZero
             ELSE GMul(<<0, t[y]>>, GDivSigned(GScale(t[x] * pt.b, base), pt.m[x]))
        ELSE IF x > 3 /\ y <= 3
        THEN IF t[y] = 0 \/ pt.m[y] = 0 \/ t[x] = 0 THEN GZero
             ELSE GMul(<<0, t[x]>>, GDivSigned(GScale(t[y] * pt.b, base), pt.m[y]))
        ELSE GScale(-(t[x] * t[y]), base)
CodeHessN(p, pt, DD) ==
    [x \in 1 .. 6 |-> [y \in 1 .. 6 |-> GSumOver(DOMAIN p, LAMBDA t : CodeHessTerm(p[t], t, pt, DD, x, y))]]

NoZeroAction(pt) == \A j \in 1 .. 3 : pt.m[j] # 0
\* the divide-by-I formulas are the derivative wherever no action vanishes ...
ReqDerivAwayFromZero(p, pt, DD) ==
    NoZeroAction(pt) => CodeGradN(p, pt, DD) = ReqGradN(p, pt, DD) /\ CodeHessN(p, pt, DD) = ReqHessN(p, pt, DD)
\* ... and this is what the requirement asks everywhere (violated as found: DevZeroI)
ReqDerivEverywhere(p, pt, DD) ==
    CodeGradN(p, pt, DD) = ReqGradN(p, pt, DD) /\ CodeHessN(p, pt, DD) = ReqHessN(p, pt, DD)
\* evaluation is a ring homomorphism, the Hessian is symmetric
FLawEval(p, q, pt, DD) ==
    /\ FEvalN(Add(p, q), pt, DD) = GAdd(FEvalN(p, pt, DD), FEvalN(q, pt, DD))
    /\ (p # PZero /\ q # PZero) =>
          FEvalN(Mul(p, q), pt, FMaxDeg(p) + FMaxDeg(q)) = GMul(FEvalN(p, pt, FMaxDeg(p)), FEvalN(q, pt, FMaxDeg(q)))
    /\ \A x, y \in 1 .. 6 : ReqHessN(p, pt, DD)[x][y] = ReqHessN(p, pt, DD)[y][x]

(***************************************************************************)
(* 6. _nf2aa_ee / _nf2aa_sc                                                *)
(* Source: a homogeneous polynomial f of degree deg in (q1,q2,q3,p1,p2,p3) *)
(* (IPoly tuple k = <<a1,a2,a3,b1,b2,b3>>), stored at slot PolyIndex.Rank. *)
(*                                                                         *)
(* REQUIREMENT.  The action-angle variables are defined by                 *)
(*      q_j = sqrt(I_j) e^{i th_j},   p_j = -i sqrt(I_j) e^{-i th_j}       *)
(* (docstring: k_j = a_j - b_j, prefactor (-i)^(sum b); then q_j p_j =     *)
(* -i I_j and dq ^ dp = dth ^ dI, the bracket convention of section 3), so *)
(*   q^a p^b = (-i)^|b| I^((a+b)/2) e^{i (a-b).th}                         *)
(* for monomials whose three pair degrees a_j + b_j are even; the others   *)
(* are discarded by the code (DevOddDrop).                                 *)
(***************************************************************************)
EvenMono(k) == \A j \in 1 .. 3 : (k[j] + k[j + 3]) % 2 = 0
EvenPart(f) == [k \in {x \in DOMAIN f : EvenMono(x)} |-> f[k]]
TIdx(k)  == <<(k[1] + k[4]) \div 2, (k[2] + k[5]) \div 2, (k[3] + k[6]) \div 2, k[1] - k[4], k[2] - k[5], k[3] - k[6]>>
TInv(t)  == <<t[1] + (t[4] \div 2), t[2] + (t[5] \div 2), t[3] + (t[6] \div 2),
              t[1] - (t[4] \div 2), t[2] - (t[5] \div 2), t[3] - (t[6] \div 2)>>
TPref(k) == IUnit(3 * (k[4] + k[5] + k[6]))                      \* (-i)^|b| = i^(3|b|)
TSubst(f) ==
    LET E == EvenPart(f)
    IN  Norm([t \in {TIdx(k) : k \in DOMAIN E} |-> GMul(TPref(TInv(t)), E[TInv(t)])])

(* validation of TSubst against the defining substitution *)
\* the point of (q,p) space that corresponds to sqrt(I_j) = m_j, th_j = t_j quarter turns
QPPoint(pt) == [i \in 1 .. 6 |-> IF i <= 3 THEN GScale(pt.m[i], IUnit(pt.t[i]))
                                 ELSE GScale(pt.m[i - 3], IUnit(3 + 3 * pt.t[i - 3]))]
SqPoint(pt) == [m |-> <<pt.m[1] * pt.m[1], pt.m[2] * pt.m[2], pt.m[3] * pt.m[3]>>, t |-> pt.t, b |-> 1]
TLawSubstitution(f, pt, DD) == FEvalN(TSubst(f), SqPoint(pt), DD) = Eval(EvenPart(f), QPPoint(pt))
TLawBijective(f) == \A k \in DOMAIN EvenPart(f) :
                        /\ TInv(TIdx(k)) = k
                        /\ \A j \in 1 .. 3 : TIdx(k)[j + 3] % 2 = 0 /\ AbsI(TIdx(k)[j + 3]) <= 2 * TIdx(k)[j]
\* algebra homomorphism and canonical: products to products, (q,p) bracket to (th,I) bracket
TLawHomomorphism(f, g) ==
    LET ef == EvenPart(f)
        eg == EvenPart(g)
    IN  /\ TSubst(Add(f, g)) = Add(TSubst(f), TSubst(g))
        /\ TSubst(Mul(ef, eg)) = Mul(TSubst(f), TSubst(g))
        /\ TSubst(Poisson(ef, eg)) = FPoisson(TSubst(f), TSubst(g))
TLawGenerators ==
    \A j \in 1 .. 3 :
        /\ TSubst(Mul(Var(j), Var(j + 3))) = Scale(<<0, -1>>, ActionVar(j))                       \* q p = -i I
        /\ TSubst(Mul(Var(j), Var(j))) = Mul(ActionVar(j), Harmonic(j, 2))                         \* q^2 = I e^{2i th}
        /\ TSubst(Mul(Var(j + 3), Var(j + 3))) = Scale(GInt(-1), Mul(ActionVar(j), Harmonic(j, -2)))   \* p^2 = -I e^{-2i th}
        /\ TSubst(Var(j)) = PZero /\ TSubst(Var(j + 3)) = PZero                                    \* DevOddDrop

(* TRANSCRIPTION of _nf2aa_ee.  bf: slot (0-based) -> non-zero coefficient of the degree  *)
(* deg block; E6 = PolyIndex.Enum(6, deg) (slot pos holds the monomial E6[pos+1]; the     *)
(* code reads it as Unpack(clmo[deg][pos]) = Unpack(Pack(E6[pos+1]))).                    *)
CodeNf2aa(bf, deg, E6) ==
    IF deg % 2 = 1 THEN [len |-> PsiFCode(deg \div 2, 0), K |-> 0, c |-> BZero]
    ELSE LET daa   == deg \div 2
             KV(pos) == Unpack(Pack(E6[pos + 1]), deg)
             valid == {pos \in DOMAIN bf : \A j \in 1 .. 3 : (KV(pos)[j] + KV(pos)[j + 3]) % 2 = 0}
             kabs  == {AbsI(KV(pos)[j] - KV(pos)[j + 3]) : pos \in valid, j \in 1 .. 3} \cup {0}
             Kreq  == IF SetMax(kabs) > 63 THEN 63 ELSE SetMax(kabs)
             tabs  == TablesF(daa, Kreq)
             Tgt(pos) == LET k == KV(pos) IN <<(k[1] + k[4]) \div 2, (k[2] + k[5]) \div 2, (k[3] + k[6]) \div 2,
                                               k[1] - k[4], k[2] - k[5], k[3] - k[6]>>
             ok    == {pos \in valid : Tgt(pos)[1] + Tgt(pos)[2] + Tgt(pos)[3] = daa}
             PP    == [pos \in ok |-> EncodeF(Tgt(pos), daa, tabs)]
             hit   == {PP[pos] : pos \in ok} \ {-1}
         IN  [len |-> Len(tabs[daa + 1]), K |-> Kreq,
              c |-> BNorm([x \in hit |-> GSumOver({pos \in ok : PP[pos] = x},
                                                  LAMBDA pos : GMul(IUnit(3 * (KV(pos)[4] + KV(pos)[5] + KV(pos)[6])), bf[pos]))])]
\* source placement (C06: slot Rank(k) holds the coefficient of x^k)
ToBlock6(f) ==
    LET R == [k \in DOMAIN f |-> Rank(k)]
    IN  [pos \in {R[k] : k \in DOMAIN f} |-> f[CHOOSE k \in DOMAIN f : R[k] = pos]]
\* the code returns the block of TSubst(f) on the smallest table that holds it; nothing is dropped
ReqNf2aa(f, deg, E6) ==
    LET out == CodeNf2aa(ToBlock6(f), deg, E6)
        g   == TSubst(f)
    IN  IF deg % 2 = 1 THEN g = PZero /\ out.c = BZero /\ out.len = Psi(3, deg \div 2)
        ELSE /\ out.K = FKMax(g)
             /\ out.len = PsiFCode(deg \div 2, out.K)
             /\ FitsTable(g, deg \div 2, out.K)
             /\ out.c = ToBlock(g, out.K)
=============================================================================
