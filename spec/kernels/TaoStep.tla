------------------------------- MODULE TaoStep -------------------------------
(***************************************************************************)
(* Tao's explicit symplectic integrator for non-separable Hamiltonians in  *)
(* the extended phase space, as implemented in hiten                       *)
(*   src/hiten/algorithms/integrators/symplectic.py                        *)
(*     _phi_H_a_update_poly, _phi_H_b_update_poly,                         *)
(*     _phi_omega_H_c_update_poly, _recursive_update_poly,                 *)
(*     _integrate_symplectic, _get_tao_omega                               *)
(*                                                                         *)
(* Extended state  z = (Q, P, X, Y), three degrees of freedom, 12 numbers; *)
(* conjugate pairs (Q_i, P_i) and (X_i, Y_i).  H is a polynomial in        *)
(* (q1 q2 q3 p1 p2 p3) with integer coefficients (Rat.tla, sequences of    *)
(* monomials).  Everything is exact rational arithmetic.                   *)
(*                                                                         *)
(* REQUIREMENT (property C16): one step is a symplectic map of the         *)
(* extended phase space and the opposite step undoes it; the composition   *)
(* is symmetric (palindromic) and its triple-jump levels cancel the        *)
(* leading error term, so that the scheme has its declared order.          *)
(*                                                                         *)
(* Pure operator library (no constants, no variables).                     *)
(***************************************************************************)
EXTENDS Integers, Sequences, FiniteSets, Rat

NDOF == 3
DIM == 12
QOf(z) == SubSeq(z, 1, 3)
POf(z) == SubSeq(z, 4, 6)
XOf(z) == SubSeq(z, 7, 9)
YOf(z) == SubSeq(z, 10, 12)

(***************************************************************************)
(* The three sub-flows (exact flows of H(q,y), H(x,p) and the coupling     *)
(* omega/2 (|q - x|^2 + |p - y|^2))                                        *)
(***************************************************************************)
\* phi_A^d :  P -= d dH/dq(Q, Y) ;  X += d dH/dp(Q, Y)
FlowA(H, d, z) ==
    LET g == PolyGrad(H, QOf(z) \o YOf(z))
    IN  MkSeq(LAMBDA i : IF i >= 4 /\ i <= 6 THEN RSub(z[i], RMul(d, g[i - 3]))
                         ELSE IF i >= 7 /\ i <= 9 THEN RAdd(z[i], RMul(d, g[i - 3]))
                         ELSE z[i], DIM)
\* phi_B^d :  Q += d dH/dp(X, P) ;  Y -= d dH/dq(X, P)
FlowB(H, d, z) ==
    LET g == PolyGrad(H, XOf(z) \o POf(z))
    IN  MkSeq(LAMBDA i : IF i <= 3 THEN RAdd(z[i], RMul(d, g[i + 3]))
                         ELSE IF i >= 10 THEN RSub(z[i], RMul(d, g[i - 9]))
                         ELSE z[i], DIM)
\* phi_C : rotation of (Q - X, P - Y) by the angle 2 omega d, given by its cosine c and sine s;
\* the means (Q + X)/2, (P + Y)/2 are kept
Half == <<1, 2>>
FlowC(c, s, z) ==
    MkSeq(LAMBDA i :
        LET k == ((i - 1) % 3) + 1
            q == z[k]  p == z[3 + k]  x == z[6 + k]  y == z[9 + k]
            qpx == RAdd(q, x)  qmx == RSub(q, x)  ppy == RAdd(p, y)  pmy == RSub(p, y)
        IN  IF i <= 3 THEN RMul(Half, RAdd(qpx, RAdd(RMul(c, qmx), RMul(s, pmy))))
            ELSE IF i <= 6 THEN RMul(Half, RAdd(ppy, RSub(RMul(c, pmy), RMul(s, qmx))))
            ELSE IF i <= 9 THEN RMul(Half, RSub(qpx, RAdd(RMul(c, qmx), RMul(s, pmy))))
            ELSE RMul(Half, RSub(ppy, RSub(RMul(c, pmy), RMul(s, qmx)))), DIM)

(***************************************************************************)
(* Exact Jacobians                                                         *)
(***************************************************************************)
Delta(i, j) == IF i = j THEN ROne ELSE RZero
\* second derivative of H w.r.t. polynomial variables u, v (1..6) at (q, p)
\* A: evaluation point (Q, Y): H-variable q_j is state slot j, H-variable p_j is state slot 9 + j
JacA(H, d, z) ==
    LET pt == QOf(z) \o YOf(z)
    IN  MkSeq(LAMBDA i : MkSeq(LAMBDA j :
            LET hv == IF j <= 3 THEN j ELSE IF j >= 10 THEN j - 6 ELSE 0      \* state slot -> H-variable (0: none)
            IN  IF hv = 0 THEN Delta(i, j)
                ELSE IF i >= 4 /\ i <= 6 THEN RSub(Delta(i, j), RMul(d, PolyHess(H, pt, i - 3, hv)))
                ELSE IF i >= 7 /\ i <= 9 THEN RAdd(Delta(i, j), RMul(d, PolyHess(H, pt, i - 3, hv)))
                ELSE Delta(i, j), DIM), DIM)
\* B: evaluation point (X, P): H-variable q_j is state slot 6 + j, H-variable p_j is state slot 3 + j
JacB(H, d, z) ==
    LET pt == XOf(z) \o POf(z)
    IN  MkSeq(LAMBDA i : MkSeq(LAMBDA j :
            LET hv == IF j >= 7 /\ j <= 9 THEN j - 6 ELSE IF j >= 4 /\ j <= 6 THEN j ELSE 0
            IN  IF hv = 0 THEN Delta(i, j)
                ELSE IF i <= 3 THEN RAdd(Delta(i, j), RMul(d, PolyHess(H, pt, i + 3, hv)))
                ELSE IF i >= 10 THEN RSub(Delta(i, j), RMul(d, PolyHess(H, pt, i - 9, hv)))
                ELSE Delta(i, j), DIM), DIM)
\* C is linear: its matrix has the images of the unit vectors as columns
Unit(j) == MkSeq(LAMBDA i : Delta(i, j), DIM)
JacC(c, s) ==
    LET cols == MkSeq(LAMBDA j : FlowC(c, s, Unit(j)), DIM)
    IN  MkSeq(LAMBDA i : MkSeq(LAMBDA j : cols[j][i], DIM), DIM)

\* the two-form  dQ ^ dP + dX ^ dY  of the extended phase space
Omega ==
    MkSeq(LAMBDA i : MkSeq(LAMBDA j :
        IF (i <= 3 /\ j = i + 3) \/ (i >= 7 /\ i <= 9 /\ j = i + 3) THEN ROne
        ELSE IF (j <= 3 /\ i = j + 3) \/ (j >= 7 /\ j <= 9 /\ i = j + 3) THEN <<-1, 1>>
        ELSE RZero, DIM), DIM)

MatMul(A, B) == MkSeq(LAMBDA i : MkSeq(LAMBDA j : RSumOp(LAMBDA k : RMul(A[i][k], B[k][j]), DIM), DIM), DIM)
Transpose(A) == MkSeq(LAMBDA i : MkSeq(LAMBDA j : A[j][i], DIM), DIM)
Identity == MkSeq(LAMBDA i : MkSeq(LAMBDA j : Delta(i, j), DIM), DIM)
IsSymplectic(D) == MatMul(Transpose(D), MatMul(Omega, D)) = Omega

(***************************************************************************)
(* One step of order 2 and runs of steps                                   *)
(*   _recursive_update_poly(q_ext, h, 2, omega): A(h/2) B(h/2) C(h) B(h/2) A(h/2)  *)
(*   with (c, s) = (cos, sin)(2 omega h)                                   *)
(***************************************************************************)
Step2(H, h, c, s, z) ==
    LET hh == RMul(Half, h)
    IN  FlowA(H, hh, FlowB(H, hh, FlowC(c, s, FlowB(H, hh, FlowA(H, hh, z)))))
\* Jacobian of the step by the chain rule along the intermediate points
Step2Jac(H, h, c, s, z) ==
    LET hh == RMul(Half, h)
        z1 == FlowA(H, hh, z)
        z2 == FlowB(H, hh, z1)
        z3 == FlowC(c, s, z2)
        z4 == FlowB(H, hh, z3)
    IN  MatMul(JacA(H, hh, z4), MatMul(JacB(H, hh, z3), MatMul(JacC(c, s), MatMul(JacB(H, hh, z2), JacA(H, hh, z)))))

\* _integrate_symplectic: the extended state starts as (Q, P, Q, P), is carried across steps, and
\* the physical part (Q, P) is reported after every step
Lift(y) == y \o y
Project(z) == SubSeq(z, 1, 6)
RECURSIVE RunFrom(_, _, _, _, _)
RunFrom(H, hs, cs, z, k) ==
    IF k > Len(hs) THEN <<>>
    ELSE LET z1 == Step2(H, hs[k], cs[k][1], cs[k][2], z)
         IN  <<Project(z1)>> \o RunFrom(H, hs, cs, z1, k + 1)
Run2(H, hs, cs, y0) == <<y0>> \o RunFrom(H, hs, cs, Lift(y0), 1)

(***************************************************************************)
(* Composition schedule of _recursive_update_poly                          *)
(*                                                                         *)
(* order 2: <<A 1/2, B 1/2, C 1, B 1/2, A 1/2>> times the step             *)
(* order o: S_{o-2}(g_o h) S_{o-2}((1 - 2 g_o) h) S_{o-2}(g_o h)           *)
(* A coefficient is  frac * prod over levels o of (g_o | 1 - 2 g_o) ;      *)
(* the factor chosen at level o is recorded as "g" or "m" in `path`, a     *)
(* sequence over the levels from the top order down to 4.                  *)
(***************************************************************************)
Base(path) == <<[kind |-> "A", frac |-> <<1, 2>>, path |-> path], [kind |-> "B", frac |-> <<1, 2>>, path |-> path],
                [kind |-> "C", frac |-> <<1, 1>>, path |-> path], [kind |-> "B", frac |-> <<1, 2>>, path |-> path],
                [kind |-> "A", frac |-> <<1, 2>>, path |-> path]>>
RECURSIVE SchedFrom(_, _)
SchedFrom(order, path) ==
    IF order = 2 THEN Base(path)
    ELSE SchedFrom(order - 2, Append(path, "g")) \o SchedFrom(order - 2, Append(path, "m"))
         \o SchedFrom(order - 2, Append(path, "g"))
Sched(order) == SchedFrom(order, <<>>)

Reverse(s) == [i \in 1 .. Len(s) |-> s[Len(s) + 1 - i]]
\* symmetric composition: the schedule reads the same backwards
Palindromic(order) == LET s == Sched(order) IN \A i \in 1 .. Len(s) : s[i] = s[Len(s) + 1 - i]
Pow3(k) == IF k = 0 THEN 1 ELSE IF k = 1 THEN 3 ELSE IF k = 2 THEN 9 ELSE 27
BaseStepCount(order) == Len(Sched(order)) = 5 * Pow3((order - 2) \div 2)
\* value of a coefficient when level number lv (1 = top) has gamma = gs[lv]
RECURSIVE CoefFrom(_, _, _)
CoefFrom(e, gs, lv) ==
    IF lv > Len(e.path) THEN e.frac
    ELSE RMul(IF e.path[lv] = "g" THEN gs[lv] ELSE RSub(ROne, RMul(<<2, 1>>, gs[lv])), CoefFrom(e, gs, lv + 1))
Coef(e, gs) == CoefFrom(e, gs, 1)
KindSum(order, kind, gs) ==
    LET s == Sched(order) IN RSumOp(LAMBDA i : IF s[i].kind = kind THEN Coef(s[i], gs) ELSE RZero, Len(s))
\* consistency: the coefficients of every kind sum to one step.  Each coefficient is multilinear in
\* the gammas, so equality on the grid {0,1}^levels (plus one generic point) is equality of polynomials.
SumsToStep(order) ==
    LET nl == (order - 2) \div 2
        Grid == [1 .. nl -> {RZero, ROne}] \cup {[lv \in 1 .. nl |-> <<lv + 1, 3>>]}
    IN  \A gs \in Grid : \A kind \in {"A", "B", "C"} : KindSum(order, kind, gs) = ROne

(***************************************************************************)
(* Order identity of the triple jump                                       *)
(*                                                                         *)
(* S_{2k+2}(h) = S_{2k}(g h) S_{2k}((1-2g) h) S_{2k}(g h) has order 2k+2   *)
(* iff  2 g^(2k+1) + (1 - 2g)^(2k+1) = 0.  With g = 1/(2 - kappa) this is  *)
(* kappa^(2k+1) = 2.  The code takes kappa = 2^(1/m); in the ring          *)
(* Z[kappa]/(kappa^m - 2) (kappa^m - 2 is irreducible by Eisenstein, so    *)
(* 1, kappa, .., kappa^(m-1) are independent) kappa^e reduces to           *)
(* 2^(e div m) kappa^(e mod m).                                            *)
(***************************************************************************)
\* kappa^e as <<coefficient, exponent>> of the reduced monomial
RECURSIVE Pow2Int(_)
Pow2Int(n) == IF n = 0 THEN 1 ELSE 2 * Pow2Int(n - 1)
KappaPow(e, m) == <<Pow2Int(e \div m), e % m>>
\* the triple jump that builds order `order` from order - 2 cancels the error term of order - 1
TripleJumpCancels(order, m) == KappaPow(order - 1, m) = <<2, 0>>
\* the requirement pins the exponent
RequiredExponent(order) == order - 1
ExponentLaw == \A order \in {4, 6, 8, 10} : \A m \in 1 .. 12 :
                  TripleJumpCancels(order, m) <=> (m = RequiredExponent(order))
\* the same identity checked numerically-exactly where kappa is rational: m = 1 (kappa = 2) is the
\* only such case; then g = 1/(2 - 2) is undefined, so instead the polynomial identity in kappa is
\* checked at the level of  2 + (-kappa)^e = 2 - kappa^e  for odd e:  (2 - kappa^e)(2 - kappa)^(-e)
\* is the error coefficient  2 g^e + (1 - 2g)^e.
ErrorCoefficient(g, e) == RAdd(RMul(<<2, 1>>, RPow(g, e)), RPow(RSub(ROne, RMul(<<2, 1>>, g)), e))
KappaForm(kap, e) == RDiv(RSub(<<2, 1>>, RPow(kap, e)), RPow(RSub(<<2, 1>>, kap), e))
KappaFormLaw == \A kap \in {<<1, 1>>, <<3, 2>>, <<5, 4>>, <<-1, 2>>} : \A e \in {3, 5, 7} :
                   ErrorCoefficient(RDiv(ROne, RSub(<<2, 1>>, kap)), e) = KappaForm(kap, e)
=============================================================================
