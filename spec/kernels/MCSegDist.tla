----------------------------- MODULE MCSegDist -----------------------------
EXTENDS SegDist, Json
\* every segment pair is emitted for the exact replay into the real routine
EmitSeg == PrintT(ToJson([seg |-> seg, cls |-> SegClass(seg)]))
=============================================================================
