----------------------------- MODULE MCTaoOrder -----------------------------
(***************************************************************************)
(* Composition schedule and order identity of the triple jump.             *)
(*                                                                         *)
(* The exponents m the CODE uses at each recursion level (gamma =          *)
(* 1/(2 - 2^(1/m))) are measured by the harness on the real                *)
(* _recursive_update_poly (.py_func with recording sub-flows) and handed   *)
(* in through TAO_FILE; TLC decides for every level whether the triple     *)
(* jump cancels the leading error term (TaoStep.TripleJumpCancels) and     *)
(* prints the schedules the harness compares the recorded calls with.      *)
(***************************************************************************)
EXTENDS TaoStep, TLC, Json, IOUtils

VARIABLE one
Init == one = 0
Next == UNCHANGED one
Spec == Init /\ [][Next]_one

Orders == {2, 4, 6, 8}
ASSUME \A o \in Orders : Palindromic(o) /\ BaseStepCount(o) /\ SumsToStep(o)
ASSUME ExponentLaw
ASSUME KappaFormLaw

\* [order, m] pairs measured on the code
CodeM == JsonDeserialize(IOEnv.TAO_FILE)

Verdicts == [k \in 1 .. Len(CodeM) |->
                [order |-> CodeM[k].order, m |-> CodeM[k].m, required |-> RequiredExponent(CodeM[k].order),
                 cancels |-> TripleJumpCancels(CodeM[k].order, CodeM[k].m)]]

Emitted == (one = 0) => PrintT(ToJson([sched |-> [o \in Orders |-> Sched(o)], verdicts |-> Verdicts]))
=============================================================================
