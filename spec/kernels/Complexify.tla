----------------------------- MODULE Complexify -----------------------------
(***************************************************************************)
(* The complexifying change of variables of hiten                          *)
(*   src/hiten/algorithms/hamiltonian/transforms.py                        *)
(*     _build_complexification_matrix / _M / _M_inv                        *)
(*     _substitute_complex (p o M), _substitute_real (p o M^-1)            *)
(*     _solve_real (x -> M x),  _solve_complex (x -> M^-1 x)               *)
(*                                                                         *)
(* For every mixed canonical pair j                                        *)
(*     q_j(real) = (q_j^c + i p_j^c)/sqrt 2,  p_j(real) = (i q_j^c + p_j^c)/sqrt 2 *)
(* i.e.  M = S G  with G a GAUSSIAN-INTEGER matrix (entries 0, 1, i) and   *)
(* S the diagonal scaling 1/sqrt 2 on the mixed rows, 1 elsewhere;         *)
(* M^-1 = conj(M)^T = G^H S.  Everything here is exact in Z[i]: a monomial *)
(* of mixed degree m (total exponent of the mixed variables) is mapped by  *)
(* p o M to 2^(-m/2) (p o G), all of whose terms again have mixed degree   *)
(* m -- the harness multiplies the kernel's output by 2^(m/2) term by term *)
(* and compares with the Gaussian integers TLC computes.                   *)
(*                                                                         *)
(* REQUIREMENT (C18): the substitution applied to a polynomial agrees with *)
(* the same change applied to coordinates, and the two directions are      *)
(* mutually inverse (polynomials and points).                              *)
(***************************************************************************)
EXTENDS IPoly, TLC

CONSTANTS MixSets,     \* set of sets of mixed pair numbers (1..3); hiten's mix_pairs are these minus 1
          MonoDeg      \* monomial instances of every degree <= MonoDeg

Z == GZero
IsMixedVar(mix, v) == (IF v <= NDOF THEN v ELSE v - NDOF) \in mix
\* the Gaussian-integer part of M
Gm(mix) == [i \in Vars |-> [j \in Vars |->
              IF ~IsMixedVar(mix, i) THEN (IF i = j THEN GOne ELSE Z)
              ELSE IF i = j THEN GOne
              ELSE IF (i <= NDOF /\ j = i + NDOF) \/ (i > NDOF /\ j = i - NDOF) THEN GI
              ELSE Z]]
ConjT(C) == [i \in Vars |-> [j \in Vars |-> GConj(C[j][i])]]
Transp(C) == [i \in Vars |-> [j \in Vars |-> C[j][i]]]
MatMul(A, B) == [i \in Vars |-> [j \in Vars |-> GSumOver(Vars, LAMBDA k : GMul(A[i][k], B[k][j]))]]
D2(mix, v) == IF IsMixedVar(mix, v) THEN 2 ELSE 1
Diag2(mix) == [i \in Vars |-> [j \in Vars |-> IF i = j THEN GInt(D2(mix, i)) ELSE Z]]
\* canonical symplectic form J = [[0, I], [-I, 0]]
Jm == [i \in Vars |-> [j \in Vars |-> IF i <= NDOF /\ j = i + NDOF THEN GOne
                                       ELSE IF i > NDOF /\ j = i - NDOF THEN GInt(-1) ELSE Z]]
MixedDeg(mix, k) == KSumTo([v \in Vars |-> IF IsMixedVar(mix, v) THEN k[v] ELSE 0], NV)
RECURSIVE Pow2(_)
Pow2(n) == IF n = 0 THEN 1 ELSE 2 * Pow2(n - 1)
\* p with the coefficient of x^k multiplied by 2^(mixed degree of k)
ScaleMixed(mix, p) == [k \in DOMAIN p |-> GScale(Pow2(MixedDeg(mix, k)), p[k])]

(****************************** instances **********************************)
Monos == {k \in [Vars -> 0 .. MonoDeg] : KDeg(k) \in 1 .. MonoDeg}
Coefs == {<<3, 0>>, <<2, -5>>}
\* a few genuinely multi-term polynomials (quadratic Hamiltonian shape, mixed degrees)
E(a, b, c, d, e, f) == [v \in Vars |-> <<a, b, c, d, e, f>>[v]]
Multi == { Add(Add(Mono(E(1, 0, 0, 1, 0, 0), <<2, 0>>), Mono(E(0, 2, 0, 0, 0, 0), <<1, 0>>)),
               Add(Mono(E(0, 0, 0, 0, 2, 0), <<1, 0>>), Mono(E(0, 0, 1, 0, 0, 1), <<0, 3>>))),
           Add(Add(Mono(E(0, 1, 1, 0, 0, 0), <<1, 1>>), Mono(E(0, 0, 0, 0, 1, 1), <<-2, 0>>)),
               Add(Mono(E(1, 1, 0, 0, 0, 1), <<4, 0>>), Mono(E(0, 2, 0, 0, 1, 1), <<0, -1>>))),
           Add(Mono(E(0, 1, 2, 0, 1, 0), <<5, 0>>), Mono(E(1, 0, 1, 0, 1, 1), <<1, -1>>)) }
Points == { E2 \in {<< <<1, 0>>, <<2, 0>>, <<-1, 0>>, <<3, 0>>, <<0, 0>>, <<1, 0>> >>,
                    << <<2, 1>>, <<0, -1>>, <<1, 1>>, <<-1, 2>>, <<3, 0>>, <<0, 2>> >>,
                    << <<0, 0>>, <<1, 0>>, <<0, 1>>, <<0, 0>>, <<-2, 0>>, <<1, -3>> >>} : TRUE }

VARIABLES mix, p
vars == <<mix, p>>
Init == /\ mix \in MixSets
        /\ p \in {Mono(k, c) : k \in Monos, c \in Coefs} \cup Multi
Next == UNCHANGED vars
Spec == Init /\ [][Next]_vars

G  == Gm(mix)
GH == ConjT(Gm(mix))
PC == SubstLinear(p, G)        \* integer image of _substitute_complex(p)
PR == SubstLinear(p, GH)       \* integer image of _substitute_real(p)

(******************************* REQUIREMENT *******************************)
\* M M^-1 = M^-1 M = I   (G G^H = G^H G = diag(2 on mixed rows))
MutuallyInverseMatrices == MatMul(G, GH) = Diag2(mix) /\ MatMul(GH, G) = Diag2(mix)
\* M is symplectic: M^T J M = J   (G^T J G = diag2 J)
SymplecticWithMultiplier == MatMul(Transp(G), MatMul(Jm, G)) = MatMul(Diag2(mix), Jm)
\* point maps are mutually inverse:  M^-1 (M x) = x
PointRoundTrip == \A x \in Points : /\ MatVec(GH, MatVec(G, x)) = MatVec(Diag2(mix), x)
                                     /\ MatVec(G, MatVec(GH, x)) = MatVec(Diag2(mix), x)
\* "the new polynomial at x equals the old one at the transformed x"
PolyAgreesWithCoordinates == \A x \in Points : /\ Eval(PC, x) = Eval(p, MatVec(G, x))
                                                /\ Eval(PR, x) = Eval(p, MatVec(GH, x))
\* the two polynomial substitutions are mutually inverse
PolyRoundTrip == /\ SubstLinear(PC, GH) = ScaleMixed(mix, p)
                 /\ SubstLinear(PR, G) = ScaleMixed(mix, p)
\* the substitution preserves the mixed degree of every term (what makes the scaling a per-term factor)
MixedDegreePreserved ==
    \A k \in DOMAIN p : \A k2 \in DOMAIN SubstLinear(Mono(k, p[k]), G) : MixedDeg(mix, k2) = MixedDeg(mix, k)

(******************************** emission *********************************)
MixSeq == [j \in 1 .. 3 |-> IF j \in mix THEN 1 ELSE 0]
Instance == [mix |-> MixSeq, p |-> PolyToSeq(p), complex |-> PolyToSeq(PC), real |-> PolyToSeq(PR),
             G |-> G, GH |-> GH,
             pts |-> [x \in Points |-> [x |-> x, Gx |-> MatVec(G, x), GHx |-> MatVec(GH, x)]]]
=============================================================================
