------------------------------ MODULE MCRKStep ------------------------------
(***************************************************************************)
(* Instances of one explicit RK step (RKTableau PART 1) for exact replay   *)
(* into every copy of the stage loop in the working tree.                  *)
(*                                                                         *)
(* TLC enumerates small dyadic tableaux x step sizes x integer-coefficient *)
(* fields, computes the exact step over the rationals and prints one JSON  *)
(* record  instance |-> expected  per state.  All numbers are dyadic with  *)
(* few bits, so the binary64 computation of the real kernels is exact and  *)
(* the harness compares with ==.                                           *)
(*                                                                         *)
(* Laws checked on the way (so the transcription is not just a second copy *)
(* of the same loop): stability polynomial for scalar linear fields,       *)
(* quadrature formula for y-independent fields, err = high - low.          *)
(*                                                                         *)
(* Instance record (uniform shape):                                        *)
(*   fam  "emb"  -> EmbeddedStep   (rk_embedded_step_jit_kernel [+ _ham])  *)
(*        "fsal" -> FsalStep       (rk45_step / dop853_step [+ _ham])      *)
(*        "run"  -> FixedRun       (_integrate_fixed_rk [+ _ham],          *)
(*                                  centermanifold _integrate_rk_ham)      *)
(*   tab, Es (error weight rows, fsal only), f (field), t, y, hs (steps)   *)
(***************************************************************************)
EXTENDS RKTableau, TLC, Json
LOCAL INSTANCE SequencesExt      \* SetToSeq

CONSTANT Instances
VARIABLE inst

\* TLC computes initial states on one thread; the instances are therefore successors of NCH
\* "chunk" states, so that the workers share the evaluation of the expected values.
NCH == 16
InstSeq == SetToSeq(Instances)
Init == inst \in {[fam |-> "chunk", c |-> c] : c \in 0 .. (NCH - 1)}
Next == /\ inst.fam = "chunk"
        /\ \E k \in 1 .. Len(InstSeq) : (k % NCH = inst.c) /\ inst' = InstSeq[k]
Spec == Init /\ [][Next]_inst

ASSUME RatLaws
ASSUME StepLaws

H2 == <<1, 2>>
Q4 == <<1, 4>>
Z == RZero
I1 == ROne
M1 == <<-1, 1>>

Aff(a, b, M) == [kind |-> "aff", a |-> a, b |-> b, M |-> M, H |-> <<>>]
Ham(H) == [kind |-> "ham", a |-> <<>>, b |-> <<>>, M |-> <<>>, H |-> H]
Tab(s, A, B, BL, C) == [s |-> s, A |-> A, B |-> B, BL |-> BL, C |-> C]
Inst(fam, tab, Es, f, t, y, hs) == [fam |-> fam, tab |-> tab, Es |-> Es, f |-> f, t |-> t, y |-> y, hs |-> hs]

(* ---------------- fields ---------------- *)
\* 2-D affine fields  a + b t + M y  : forced rotation, and a non-normal one
FRot == Aff(<<1, 0>>, <<0, 1>>, <<<<0, 1>>, <<-1, 0>>>>)
FSkw == Aff(<<0, 2>>, <<1, -1>>, <<<<1, 1>>, <<0, -1>>>>)
FAut == Aff(<<0, 0>>, <<0, 0>>, <<<<1, -1>>, <<1, 0>>>>)
\* quadrature-only (no y dependence): exposes C[i]
FQuad == Aff(<<1, -1>>, <<2, 1>>, <<<<0, 0>>, <<0, 0>>>>)

Mono(c, e) == [c |-> c, e |-> e]
\* variables (q1, q2, q3, p1, p2, p3); non-separable, every slot occupied
HQuad == <<Mono(1, <<1, 0, 0, 0, 1, 0>>), Mono(2, <<0, 1, 0, 0, 0, 1>>), Mono(-1, <<0, 0, 1, 1, 0, 0>>),
           Mono(1, <<2, 0, 0, 0, 0, 0>>), Mono(-1, <<0, 0, 0, 0, 2, 0>>), Mono(1, <<0, 1, 1, 0, 0, 0>>),
           Mono(1, <<0, 0, 0, 1, 0, 1>>)>>
HCub == HQuad \o <<Mono(1, <<1, 1, 0, 0, 0, 1>>), Mono(-1, <<0, 0, 1, 2, 0, 0>>), Mono(1, <<0, 0, 0, 0, 1, 1>>)>>
HSep == <<Mono(1, <<0, 0, 0, 2, 0, 0>>), Mono(1, <<0, 0, 0, 0, 2, 0>>), Mono(2, <<0, 0, 0, 0, 0, 2>>),
          Mono(1, <<2, 0, 0, 0, 0, 0>>), Mono(-1, <<1, 1, 0, 0, 0, 0>>), Mono(1, <<0, 0, 3, 0, 0, 0>>)>>

Y2a == <<<<1, 1>>, <<2, 1>>>>
Y2b == <<<<-1, 1>>, <<1, 2>>>>
Y6a == <<<<1, 1>>, <<-1, 1>>, <<2, 1>>, <<1, 2>>, <<1, 1>>, <<-2, 1>>>>
Y6b == <<<<0, 1>>, <<1, 1>>, <<-1, 2>>, <<1, 1>>, <<0, 1>>, <<1, 1>>>>

(* ---------------- tableaux ---------------- *)
Vals4 == {Z, I1, M1, H2}
Vals3 == {Z, I1, H2}
Tab2(a21, B, BL, C) == Tab(2, <<<<Z, Z>>, <<a21, Z>>>>, B, BL, C)
Tab3(a21, a31, a32, B, BL, C) == Tab(3, <<<<Z, Z, Z>>, <<a21, Z, Z>>, <<a31, a32, Z>>>>, B, BL, C)

B3s == {<<H2, M1, I1>>, <<Z, <<2, 1>>, H2>>}
BL3s == {<<>>, <<I1, H2, M1>>}
C3s == {<<Z, H2, I1>>, <<Z, M1, Q4>>}
B2s == {<<H2, I1>>, <<M1, <<2, 1>>>>}
BL2s == {<<>>, <<I1, Z>>}
C2s == {<<Z, H2>>, <<Z, <<3, 4>>>>}

\* six-stage tables for the FSAL kernels (rk45_step_jit_kernel has s = 6 hard-wired)
B6 == <<I1, M1, <<2, 1>>, H2, <<-2, 1>>, I1>>
C6 == <<Z, H2, I1, M1, <<2, 1>>, Q4>>
E7a == <<I1, <<-2, 1>>, <<3, 1>>, M1, <<2, 1>>, <<-3, 1>>, I1>>
E7b == <<Z, I1, M1, Z, H2, I1, <<-2, 1>>>>
\* one-slot tables: A[i][j] = 1/2 and, to make k_j differ from k_1, A[j][1] = 1
SlotA(i, j) == MkSeq(LAMBDA r : MkSeq(LAMBDA c :
                   IF r = i /\ c = j THEN H2 ELSE IF r = j /\ c = 1 /\ j > 1 THEN I1 ELSE Z, 6), 6)
Slots6 == {<<i, j>> \in (2 .. 6) \X (1 .. 5) : j < i}
\* dense integer tables
DenseA(k) == MkSeq(LAMBDA r : MkSeq(LAMBDA c :
                   IF c < r THEN RInt(((r * c + k * r + c) % 3) - 1) ELSE Z, 6), 6)
Tab6(A) == Tab(6, A, B6, <<>>, C6)

\* three-stage FSAL tables for the dop853 kernel (s = B_HIGH.size, E5/E3 have s + 1 entries)
E4a == <<I1, M1, <<2, 1>>, H2>>
E4b == <<Z, I1, M1, I1>>

Hs == {I1, H2, M1}

(* ---------------- instance families ---------------- *)
EmbFull ==
    { Inst("emb", Tab3(a21, a31, a32, B, BL, C), <<>>, f, t, y, <<h>>) :
        a21 \in Vals4, a31 \in Vals4, a32 \in Vals4, B \in B3s, BL \in BL3s, C \in C3s,
        f \in {FRot, FSkw}, t \in {Z, I1}, y \in {Y2a, Y2b}, h \in Hs }
EmbQuick ==
    { Inst("emb", Tab3(a21, a31, a32, B, BL, C), <<>>, f, t, y, <<h>>) :
        a21 \in Vals3, a31 \in Vals3, a32 \in Vals3, B \in B3s, BL \in BL3s, C \in {<<Z, M1, Q4>>},
        f \in {FRot, FSkw}, t \in {I1}, y \in {Y2b}, h \in Hs }
Emb2 ==
    { Inst("emb", Tab2(a21, B, BL, C), <<>>, f, t, y, <<h>>) :
        a21 \in Vals4, B \in B2s, BL \in BL2s, C \in C2s, f \in {FRot, FSkw, FQuad, FAut},
        t \in {Z, I1}, y \in {Y2a}, h \in Hs }
EmbHam ==
    { Inst("emb", Tab3(a21, a31, a32, B, BL, <<Z, H2, I1>>), <<>>, Ham(HQuad), Z, y, <<h>>) :
        a21 \in Vals3, a31 \in Vals3, a32 \in Vals3, B \in B3s, BL \in BL3s, y \in {Y6a}, h \in Hs }
    \cup
    { Inst("emb", Tab2(a21, B, BL, <<Z, H2>>), <<>>, Ham(H), Z, y, <<h>>) :
        a21 \in Vals4, B \in B2s, BL \in BL2s, H \in {HCub, HSep}, y \in {Y6a, Y6b}, h \in Hs }

Fsal6 ==
    { Inst("fsal", Tab6(SlotA(ij[1], ij[2])), <<E>>, f, t, Y2a, <<h>>) :
        ij \in Slots6, E \in {E7a, E7b}, f \in {FRot, FSkw}, t \in {I1}, h \in Hs }
    \cup
    { Inst("fsal", Tab6(DenseA(k)), <<E7a>>, f, Z, Y2b, <<h>>) :
        k \in {0, 1, 2}, f \in {FRot, FAut}, h \in {I1, M1} }
Fsal6Ham ==
    { Inst("fsal", Tab6(SlotA(ij[1], ij[2])), <<E7a>>, Ham(HQuad), Z, Y6b, <<h>>) :
        ij \in Slots6, h \in {I1, H2} }
    \cup
    { Inst("fsal", Tab6(DenseA(k)), <<E7b>>, Ham(HQuad), Z, Y6b, <<h>>) : k \in {0, 1}, h \in {M1} }
Fsal3 ==
    { Inst("fsal", Tab3(a21, a31, a32, B, <<>>, <<Z, H2, M1>>), <<E4a, E4b>>, f, I1, Y2a, <<h>>) :
        a21 \in Vals3, a31 \in Vals3, a32 \in Vals3, B \in B3s, f \in {FRot, FSkw}, h \in Hs }
Fsal3Ham ==
    { Inst("fsal", Tab3(a21, a31, a32, B, <<>>, <<Z, H2, M1>>), <<E4a, E4b>>, Ham(HQuad), Z, Y6a, <<h>>) :
        a21 \in Vals3, a31 \in Vals3, a32 \in Vals3, B \in B3s, h \in {I1, H2} }

Runs ==
    { Inst("run", Tab3(a21, a31, a32, B, <<>>, <<Z, H2, I1>>), <<>>, f, t, Y2a, hs) :
        a21 \in {I1, H2}, a31 \in {Z, M1}, a32 \in {I1, H2}, B \in B3s, f \in {FRot, FSkw}, t \in {Z, I1},
        hs \in {<<I1, H2>>, <<H2, M1>>, <<H2, H2, H2>>} }
RunsHam ==
    { Inst("run", Tab3(a21, a31, a32, B, <<>>, <<Z, H2, I1>>), <<>>, Ham(HQuad), Z, Y6b, hs) :
        a21 \in {I1, H2}, a31 \in {Z, M1}, a32 \in {I1, H2}, B \in B3s, hs \in {<<I1, H2>>, <<H2, H2, Q4>>} }
    \cup
    { Inst("run", Tab2(a21, B, <<>>, <<Z, H2>>), <<>>, Ham(HCub), Z, Y6b, <<H2, H2>>) :
        a21 \in {I1, H2}, B \in B2s }

QuickInstances == EmbQuick \cup Emb2 \cup EmbHam \cup Fsal6 \cup Fsal6Ham \cup Fsal3 \cup Fsal3Ham \cup Runs \cup RunsHam
ThoroughInstances == EmbFull \cup QuickInstances

(* ---------------- expected results ---------------- *)
Expected(i) ==
    CASE i.fam = "emb"  -> LET r == EmbeddedStep(i.tab, i.f, i.t, i.y, i.hs[1])
                           IN  [k |-> r.k, high |-> r.high, low |-> r.low, err |-> r.err, errs |-> <<>>, states |-> <<>>]
      [] i.fam = "fsal" -> LET r == FsalStep(i.tab, i.Es, i.f, i.t, i.y, i.hs[1])
                           IN  [k |-> r.k, high |-> r.high, low |-> r.low, err |-> r.errs[1], errs |-> r.errs, states |-> <<>>]
      [] i.fam = "run"  -> [k |-> <<>>, high |-> <<>>, low |-> <<>>, err |-> <<>>, errs |-> <<>>,
                            states |-> FixedRun(i.tab, i.f, i.t, i.y, i.hs)]

StepEmitted == (inst.fam # "chunk") => PrintT(ToJson([inst |-> inst, out |-> Expected(inst)]))

(* ---------------- laws on every instance ---------------- *)
\* err is high - low; without low-order weights low = high and err = 0
ErrIsDifference ==
    (inst.fam = "emb") =>
        LET r == EmbeddedStep(inst.tab, inst.f, inst.t, inst.y, inst.hs[1])
        IN  /\ VAdd(r.low, r.err) = r.high
            /\ (inst.tab.BL = <<>>) => (r.err = VZero(Len(inst.y)))
\* scalar linear field: the step is multiplication by the stability polynomial
StabilityHolds ==
    (inst.fam = "emb" /\ inst.f.kind = "aff") =>
        \A m \in {-1, 2} : StabilityLaw(inst.tab, m, inst.hs[1], <<3, 1>>)
\* y-independent field: the step is the quadrature formula sum_i B_i f(t + C_i h)
QuadratureHolds ==
    (inst.fam = "emb" /\ inst.f.kind = "aff") =>
        QuadratureLaw(inst.tab, 2, -3, inst.t, <<1, 2>>, inst.hs[1])
\* a run of one step is the embedded step; a run is the composition of its steps
RunIsComposition ==
    (inst.fam = "run") =>
        LET st == FixedRun(inst.tab, inst.f, inst.t, inst.y, inst.hs)
        IN  /\ Len(st) = Len(inst.hs) + 1
            /\ st[1] = inst.y
            /\ st[2] = EmbeddedStep(inst.tab, inst.f, inst.t, inst.y, inst.hs[1]).high
            /\ st[3] = EmbeddedStep(inst.tab, inst.f, RAdd(inst.t, inst.hs[1]), st[2], inst.hs[2]).high
=============================================================================
