----------------------------- MODULE Libration -----------------------------
(***************************************************************************)
(* Collinear libration points of the CR3BP on an exact rational witness    *)
(* family (property C04).                                                  *)
(*   src/hiten/algorithms/types/services/libration.py                      *)
(*     _dOmega_dx, _gamma_poly_def (L1/L2/L3 quintics), _compute_cn,        *)
(*     _position_search_interval, _compute_position (primary + fallback)   *)
(*                                                                         *)
(* Key fact: the equilibrium equation on the x axis is LINEAR in mu.  For  *)
(* a rational distance ratio gamma the mass parameter for which gamma is   *)
(* exact is a rational number MuOf(i, gamma).  On that family every        *)
(* quantity the library reports for a collinear point (position, gamma,    *)
(* c_n) is an exact rational.                                              *)
(*                                                                         *)
(* Rationals do not fit TLC's 32-bit integers, so identities are checked   *)
(* in the prime fields Z_p for several primes p < 46341 (a non-zero        *)
(* residue refutes an identity; agreement for all listed primes on every   *)
(* witness proves it for the numerator sizes involved, see DESIGN 4).      *)
(***************************************************************************)
EXTENDS Integers, Sequences, FiniteSets, TLC

CONSTANTS Primes,     \* primes p with p*p < 2^31
          Points,     \* subset of {1, 2, 3}
          Qs          \* witnesses: gamma = G(i, q)

(* ------------------------- arithmetic in Z_p --------------------------- *)
Md(x, p) == x % p                           \* modulo is non-negative for p > 0
Ad(x, y, p) == (x + y) % p
Sb(x, y, p) == (((x - y) % p) + p) % p
Ml(x, y, p) == (x * y) % p
RECURSIVE Pw(_, _, _)
Pw(x, n, p) == IF n = 0 THEN 1 % p
               ELSE IF n % 2 = 0 THEN LET h == Pw(x, n \div 2, p) IN Ml(h, h, p)
               ELSE Ml(x, Pw(x, n - 1, p), p)
Inv(x, p) == Pw(x, p - 2, p)                \* Fermat; x must be non-zero mod p
Dv(x, y, p) == Ml(x, Inv(y, p), p)
Neg(x, p) == Sb(0, x, p)

(* --------------------------- witness family ---------------------------- *)
\* gamma as <<num, den>>:  L1, L2: gamma = 1/q (q >= 2; q = 2 for L1 is mu = 1/2);
\*                         L3: gamma = (q-1)/q... with q >= 4 so that mu <= 1/2
GNum(i, q) == IF i = 3 THEN q - 1 ELSE 1
GDen(i, q) == q
Gm(i, q, p) == Dv(GNum(i, q) % p, GDen(i, q) % p, p)

\* the equilibrium equation  x - (1-mu)(x+mu)/|x+mu|^3 - mu(x-1+mu)/|x-1+mu|^3 = 0  on the axis,
\* with x = 1-mu-g (L1), 1-mu+g (L2), -mu-g (L3), solved for mu:
\*   L1: mu = [1/(1-g)^2 - (1-g)] / [1/(1-g)^2 + 1/g^2 - 1]
\*   L2: mu = [1/(1+g)^2 - (1+g)] / [1/(1+g)^2 - 1/g^2 - 1]
\*   L3: mu = [g - 1/g^2]         / [1/(1+g)^2 - 1/g^2 - 1]
MuOf(i, q, p) ==
    LET g == Gm(i, q, p)
        om == Sb(1, g, p)   op == Ad(1, g, p)
        iom2 == Inv(Ml(om, om, p), p)  iop2 == Inv(Ml(op, op, p), p)  ig2 == Inv(Ml(g, g, p), p)
    IN  CASE i = 1 -> Dv(Sb(iom2, om, p), Sb(Ad(iom2, ig2, p), 1, p), p)
          [] i = 2 -> Dv(Sb(iop2, op, p), Sb(Sb(iop2, ig2, p), 1, p), p)
          [] i = 3 -> Dv(Sb(g, ig2, p), Sb(Sb(iop2, ig2, p), 1, p), p)

\* position reported for the point
XOf(i, q, p) ==
    LET g == Gm(i, q, p)  mu == MuOf(i, q, p)
    IN  CASE i = 1 -> Sb(Sb(1, mu, p), g, p)
          [] i = 2 -> Ad(Sb(1, mu, p), g, p)
          [] i = 3 -> Sb(Neg(mu, p), g, p)

\* dOmega/dx on the axis with the signs of |.|^3 resolved per region (transcribes _dOmega_dx)
\*   L1: -mu < x < 1-mu : x - (1-mu)/(x+mu)^2 + mu/(x-1+mu)^2
\*   L2: x > 1-mu       : x - (1-mu)/(x+mu)^2 - mu/(x-1+mu)^2
\*   L3: x < -mu        : x + (1-mu)/(x+mu)^2 + mu/(x-1+mu)^2
DOmega(i, q, p) ==
    LET mu == MuOf(i, q, p)  x == XOf(i, q, p)
        r1 == Ad(x, mu, p)   r2 == Sb(Ad(x, mu, p), 1, p)
        t1 == Dv(Sb(1, mu, p), Ml(r1, r1, p), p)
        t2 == Dv(mu, Ml(r2, r2, p), p)
    IN  CASE i = 1 -> Ad(Sb(x, t1, p), t2, p)
          [] i = 2 -> Sb(Sb(x, t1, p), t2, p)
          [] i = 3 -> Ad(Ad(x, t1, p), t2, p)

\* the quintics of _gamma_poly_def (coefficients highest degree first), evaluated at gamma
Horner(cs, g, p) ==
    LET RECURSIVE H(_, _)
        H(k, accv) == IF k > Len(cs) THEN accv ELSE H(k + 1, Ad(Ml(accv, g, p), cs[k], p))
    IN H(1, 0)
Quintic(i, mu, p) ==
    LET m1 == Sb(1, mu, p) IN
    CASE i = 1 -> <<1, Neg(Sb(3, mu, p), p), Sb(3, Ml(2, mu, p), p), Neg(mu, p), Ml(2, mu, p), Neg(mu, p)>>
      [] i = 2 -> <<1, Sb(3, mu, p), Sb(3, Ml(2, mu, p), p), Neg(mu, p), Neg(Ml(2, mu, p), p), Neg(mu, p)>>
      [] i = 3 -> <<1, Ad(2, mu, p), Ad(1, Ml(2, mu, p), p), Neg(m1, p), Neg(Ml(2, m1, p), p), Neg(m1, p)>>

\* c_n as computed by _compute_cn
Cn(i, n, q, p) ==
    LET g == Gm(i, q, p)  mu == MuOf(i, q, p)
        sgn == IF n % 2 = 0 THEN 1 ELSE p - 1
        ig3 == Inv(Pw(g, 3, p), p)
        ratio(d) == Dv(Pw(g, n + 1, p), Pw(d, n + 1, p), p)
    IN  CASE i = 1 -> Ml(ig3, Ad(mu, Ml(sgn, Ml(Sb(1, mu, p), ratio(Sb(1, g, p)), p), p), p), p)
          [] i = 2 -> Ml(ig3, Ad(Ml(sgn, mu, p), Ml(sgn, Ml(Sb(1, mu, p), ratio(Ad(1, g, p)), p), p), p), p)
          [] i = 3 -> Ml(Ml(sgn, ig3, p), Ad(Sb(1, mu, p), Ml(mu, ratio(Ad(1, g, p)), p), p), p)

\* INDEPENDENT definition of c_n: Taylor coefficient of the two point-mass potentials along
\* the local axis.  The local coordinate xi is defined by the library's local -> synodic map
\* (_local2synodic_collinear):   X = -(sgn * g * xi + mu + a),
\*   L1: sgn = -1, a = -1 + g;   L2: sgn = -1, a = -1 - g;   L3: sgn = +1, a = g.
\* A mass fraction m at signed local position D contributes, in the scaled Hamiltonian,
\*   (m / g^3) * sum_n  sigma^n / |D|^(n+1) * rho^n P_n(xi/rho),   sigma = sign(D),
\* hence  c_n = g^-3 * sum_m  m * sigma_m^n / |D_m|^(n+1).
MapSgn(ii) == IF ii = 3 THEN 1 ELSE -1
MapA(ii, g, p) == CASE ii = 1 -> Sb(g, 1, p) [] ii = 2 -> Neg(Ad(1, g, p), p) [] ii = 3 -> g
XiOf(ii, X, g, mu, p) ==      \* inverse of the position part of the map
    Dv(Sb(Sb(Neg(X, p), mu, p), MapA(ii, g, p), p), Ml(Md(MapSgn(ii), p), g, p), p)

\* claimed signed local positions of the secondary / primary as small rationals <<num, den>>, den > 0
DSec(ii, qq) == CASE ii = 1 -> <<1, 1>> [] ii = 2 -> <<-1, 1>> [] ii = 3 -> <<-(2 * qq - 1), qq - 1>>
DPri(ii, qq) == CASE ii = 1 -> <<-(qq - 1), 1>> [] ii = 2 -> <<-(qq + 1), 1>> [] ii = 3 -> <<-1, 1>>
RatMod(r, p) == Dv(Md(r[1], p), Md(r[2], p), p)
AbsI(z) == IF z < 0 THEN -z ELSE z

CnIndep(ii, n, qq, p) ==
    LET g == Gm(ii, qq, p)  mu == MuOf(ii, qq, p)
        term(m, D) ==
            LET sg == IF D[1] < 0 /\ n % 2 = 1 THEN p - 1 ELSE 1
                ad == Dv(Md(AbsI(D[1]), p), Md(D[2], p), p)
            IN  Dv(Ml(m, sg, p), Pw(ad, n + 1, p), p)
    IN  Ml(Inv(Pw(g, 3, p), p), Ad(term(mu, DSec(ii, qq)), term(Sb(1, mu, p), DPri(ii, qq)), p), p)

(* ------------------------------ checking ------------------------------- *)
VARIABLES i, q, done
vars == <<i, q, done>>

Good(ii, qq) == \/ ii \in {1, 2} /\ qq >= 2
                \/ ii = 3 /\ qq >= 4

\* q = 0 is a pseudo initial state so that the witnesses are successor states (evaluated in parallel)
Init == i \in Points /\ q = 0 /\ done = FALSE
Next == q = 0 /\ q' \in {qq \in Qs : Good(i, qq)} /\ done' = TRUE /\ i' = i
Spec == Init /\ [][Next]_vars

\* primes that divide no denominator occurring for this witness
Usable(p) ==
    LET g == Gm(i, q, p) IN
    /\ GDen(i, q) % p # 0 /\ GNum(i, q) % p # 0
    /\ Sb(1, g, p) # 0 /\ Ad(1, g, p) # 0
    /\ (i = 1 => Sb(Ad(Inv(Ml(Sb(1, g, p), Sb(1, g, p), p), p), Inv(Ml(g, g, p), p), p), 1, p) # 0)
    /\ (i # 1 => Sb(Sb(Inv(Ml(Ad(1, g, p), Ad(1, g, p), p), p), Inv(Ml(g, g, p), p), p), 1, p) # 0)

\* the witness is an equilibrium of the field as the code evaluates it
EquilibriumOnWitness == done => \A p \in Primes : Usable(p) => DOmega(i, q, p) = 0

\* the code's quintic has gamma as a root for mu = MuOf(gamma)
QuinticVanishesOnWitness ==
    done => \A p \in Primes : Usable(p) => Horner(Quintic(i, MuOf(i, q, p), p), Gm(i, q, p), p) = 0

\* the library's local -> synodic map places the two masses where the sign table says
MapPlacesMassesAsClaimed ==
    done => \A p \in Primes : Usable(p) /\ (i = 3 => (q - 1) % p # 0) =>
        LET g == Gm(i, q, p)  mu == MuOf(i, q, p) IN
        /\ XiOf(i, Sb(1, mu, p), g, mu, p) = RatMod(DSec(i, q), p)
        /\ XiOf(i, Neg(mu, p), g, mu, p) = RatMod(DPri(i, q), p)
        /\ XiOf(i, XOf(i, q, p), g, mu, p) = 0          \* the point itself is the local origin

\* the closed form used by the code is the Taylor coefficient of the potential
CnMatchesIndependentDerivation ==
    done => \A p \in Primes : Usable(p) /\ (i = 3 => (q - 1) % p # 0 /\ (2 * q - 1) % p # 0) =>
        \A n \in 2 .. 8 : Cn(i, n, q, p) = CnIndep(i, n, q, p)

\* c_2 > 1 is what makes the in-plane frequency larger than the vertical one (mode assignment);
\* on the axis  1 + 2 c_2 = Omega_xx  links c_2 to the linearised field: checked with the
\* closed form of Omega_xx = 1 + 2(1-mu)/r1^3 + 2 mu/r2^3  (r1, r2 > 0 distances)
C2IsHalfOmegaXXMinusOne ==
    done => \A p \in Primes : Usable(p) /\ (i = 3 => (q - 1) % p # 0 /\ (2 * q - 1) % p # 0) =>
        LET g == Gm(i, q, p)  mu == MuOf(i, q, p)
            r1 == CASE i = 1 -> Sb(1, g, p) [] i = 2 -> Ad(1, g, p) [] i = 3 -> g
            r2 == CASE i = 1 -> g [] i = 2 -> g [] i = 3 -> Ad(1, g, p)
            oxx == Ad(1, Ad(Dv(Ml(2, Sb(1, mu, p), p), Pw(r1, 3, p), p), Dv(Ml(2, mu, p), Pw(r2, 3, p), p), p), p)
        IN  \* c_2 is expressed in local units: Omega_xx (synodic) = 1 + 2 c_2
            Ad(1, Ml(2, Cn(i, 2, q, p), p), p) = oxx

\* emitted for the harness: residues of mu and c_2..c_4 for the first prime, to cross-validate
\* the Fraction evaluator that extends the family beyond what fits 32-bit integers
=============================================================================
