---------------------------- MODULE MCRKTableau ----------------------------
(***************************************************************************)
(* Order conditions of the tableaux shipped in the working tree, decided   *)
(* in modular arithmetic.                                                  *)
(*                                                                         *)
(* The root module of a run is a GENERATED module TableauData (written by  *)
(* harness/c02.py into the per-run work directory, never committed) which  *)
(* EXTENDS this module and defines                                         *)
(*    SchemeData : sequence of scheme records with "big rational" entries  *)
(*                 parsed from coefficients/{rk4,rk6,rk45}.py with ast     *)
(*    PrimeData  : sequence of primes < 46341 proposed by the harness      *)
(* Nothing about the primes or the data is trusted: TLC checks primality   *)
(* and that no denominator vanishes modulo a prime (field `denok`).        *)
(*                                                                         *)
(* One state per (scheme, prime); each state prints one JSON record of     *)
(* residues.  A condition holds iff its residue is 0 for every prime (the  *)
(* harness picks enough primes for their product to exceed a bound on the  *)
(* numerator); one non-zero residue refutes it.                            *)
(*                                                                         *)
(* scheme kinds                                                            *)
(*   "erk"  : [name, kind, declared, s, A, B, C]                           *)
(*   "dp45" : [name, kind, declared, s (= 6), A (6x6), B, C, E (7), P (7x4)*)
(*             BLOW (6)]  -- embedded pair with an FSAL error stage and a  *)
(*             dense-output matrix P (b_r(x) = sum_c P[r][c] x^c)          *)
(***************************************************************************)
EXTENDS RKTableau, TLC, Json

CONSTANTS Schemes,      \* sequence of scheme records
          Primes,       \* sequence of primes
          ExtraOrder    \* how far beyond the declared order conditions are still evaluated (information)

VARIABLES si, pi
vars == <<si, pi>>

Init == si \in 1 .. Len(Schemes) /\ pi \in 1 .. Len(Primes)
Next == UNCHANGED vars
Spec == Init /\ [][Next]_vars

ASSUME \A i \in 1 .. Len(Primes) : ModArithLaws(Primes[i])
ASSUME \A i, j \in 1 .. Len(Primes) : (i # j) => Primes[i] # Primes[j]
ASSUME TreeLaws(6)

\* rooted trees up to 6 vertices, computed once: TOC[q] : code -> tree
FT6 == ForestTable(6)
TOC == [q \in 1 .. 6 |-> LET R == RootedTreesIn(FT6, q)
                         IN  [c \in {TCode(t) : t \in R} |-> CHOOSE t \in R : TCode(t) = c]]
ASSUME RatLaws
ASSUME StepLaws
ASSUME SchemeMapHonest

BigZero == [sg |-> 0, n |-> <<0>>, d |-> <<1>>]
BigOne == [sg |-> 1, n |-> <<1>>, d |-> <<1>>]

VecM(v, p) == MkSeq(LAMBDA i : MOfBig(v[i], p), Len(v))
MatM(A, p) == MkSeq(LAMBDA i : VecM(A[i], p), Len(A))
VecDenOK(v, p) == \A i \in 1 .. Len(v) : BigDenOK(v[i], p)
MatDenOK(A, p) == \A i \in 1 .. Len(A) : VecDenOK(A[i], p)

\* the method the adaptive kernel really runs: 7 stages, stage 7 evaluated at (t + h, y_high)
ExtA(sc) == MkSeq(LAMBDA i : MkSeq(LAMBDA j :
                IF i <= 6 THEN (IF j <= 6 THEN sc.A[i][j] ELSE BigZero)
                ELSE (IF j <= 6 THEN sc.B[j] ELSE BigZero), 7), 7)
ExtB(sc) == MkSeq(LAMBDA j : IF j <= 6 THEN sc.B[j] ELSE BigZero, 7)
ExtC(sc) == MkSeq(LAMBDA j : IF j <= 6 THEN sc.C[j] ELSE BigOne, 7)

SumM(v, p) == DotM(v, MkSeq(LAMBDA i : 1, Len(v)), p)

\* function  tree code -> residue  for all rooted trees with q vertices
OrderRow(q, Am, wm, p) == [c \in DOMAIN TOC[q] |-> OrderResidue(TOC[q][c], Am, wm, p)]
AnnihRow(q, Am, em, p) == [c \in DOMAIN TOC[q] |-> AnnihResidue(TOC[q][c], Am, em, p)]
\* dense output: coefficient of x^c in  gamma(t) * sum_r b_r(x) Phi_r(t)  minus [c = |t|]
DenseRow(q, Am, Pm, c, p) ==
    [k \in DOMAIN TOC[q] |->
        LET t == TOC[q][k]
            col == MkSeq(LAMBDA r : Pm[r][c], Len(Pm))
        IN  (MMul(TGamma(t) % p, DotM(col, PhiVec(t, Am, p), p), p) - (IF c = q THEN 1 ELSE 0)) % p]

ErkReport(sc, p) ==
    LET Am == MatM(sc.A, p)
        bm == VecM(sc.B, p)
        cm == VecM(sc.C, p)
        top == IF sc.declared + ExtraOrder > 6 THEN 6 ELSE sc.declared + ExtraOrder
    IN  [scheme |-> sc.name, kind |-> sc.kind, p |-> p, declared |-> sc.declared,
         denok |-> MatDenOK(sc.A, p) /\ VecDenOK(sc.B, p) /\ VecDenOK(sc.C, p),
         rowsum |-> [i \in 1 .. sc.s |-> (SumM(Am[i], p) - cm[i]) % p],
         order |-> [q \in 1 .. top |-> OrderRow(q, Am, bm, p)]]

Dp45Report(sc, p) ==
    LET Am == MatM(ExtA(sc), p)
        bm == VecM(ExtB(sc), p)
        cm == VecM(ExtC(sc), p)
        em == VecM(sc.E, p)
        Pm == MatM(sc.P, p)
        lm == MkSeq(LAMBDA j : (bm[j] - em[j]) % p, 7)       \* weights of the solution called y_low
        blm == VecM(sc.BLOW, p)
        top == IF sc.declared + ExtraOrder > 6 THEN 6 ELSE sc.declared + ExtraOrder
    IN  [scheme |-> sc.name, kind |-> sc.kind, p |-> p, declared |-> sc.declared,
         denok |-> MatDenOK(sc.A, p) /\ VecDenOK(sc.B, p) /\ VecDenOK(sc.C, p) /\ VecDenOK(sc.E, p)
                   /\ MatDenOK(sc.P, p) /\ VecDenOK(sc.BLOW, p),
         rowsum |-> [i \in 1 .. 7 |-> (SumM(Am[i], p) - cm[i]) % p],
         order |-> [q \in 1 .. top |-> OrderRow(q, Am, bm, p)],
         \* the embedded solution y_low = y_high - err has order declared - 1 ...
         loworder |-> [q \in 1 .. (sc.declared - 1) |-> OrderRow(q, Am, lm, p)],
         \* ... equivalently the error weights annihilate every tree up to that order ...
         eannih |-> [q \in 1 .. sc.declared |-> AnnihRow(q, Am, em, p)],
         \* the module constant B_LOW (never read by the integrator) against E: E[j] - (BLOW[j] - B[j])
         eblow |-> [j \in 1 .. 6 |-> (em[j] - (blm[j] - bm[j])) % p],
         \* dense output reproduces B at x = 1 ...
         prow |-> [r \in 1 .. 7 |-> (SumM(Pm[r], p) - bm[r]) % p],
         \* ... and is a continuous extension of order declared - 1: one row per power of x
         dense |-> [c \in 1 .. 4 |-> [q \in 1 .. (sc.declared - 1) |-> DenseRow(q, Am, Pm, c, p)]]]

Report(sc, p) == IF sc.kind = "erk" THEN ErkReport(sc, p) ELSE Dp45Report(sc, p)

\* printed once per distinct state; always TRUE
ResiduesEmitted == PrintT(ToJson(Report(Schemes[si], Primes[pi])))

=============================================================================
