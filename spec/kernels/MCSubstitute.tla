---------------------------- MODULE MCSubstitute ----------------------------
EXTENDS Substitute, Json
Emit == PrintT(ToJson(Instance))
EmitFixed == (p = CHOOSE q \in Multi : TRUE) => PrintT(ToJson(Fixed))
=============================================================================
