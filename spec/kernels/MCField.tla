------------------------------ MODULE MCField ------------------------------
EXTENDS Field, Json
MCPrimes == {46337, 46327, 46309}
P0 == 46337
W(sn, sd, tn, td, kn, kd, mq, v) ==
    [sn |-> sn, sd |-> sd, tn |-> tn, td |-> td, kn |-> kn, kd |-> kd, mq |-> mq, v1 |-> v[1], v2 |-> v[2], v3 |-> v[3]]
Ss == {<<0, 1>>, <<1, 2>>, <<1, 3>>, <<-2, 3>>, <<2, 1>>}
Ts == {<<0, 1>>, <<1, 2>>, <<-1, 3>>, <<3, 2>>}
Ks == {<<1, 2>>, <<3, 2>>, <<2, 3>>, <<5, 4>>}
Vs == {<<0, 0, 0>>, <<1, -2, 3>>, <<2, 1, -1>>}
QuickParams == { W(s[1], s[2], t[1], t[2], k[1], k[2], mq, v) : s \in Ss, t \in Ts, k \in Ks, mq \in {2, 82}, v \in {<<1, -2, 3>>} }
ThoroughParams == { W(s[1], s[2], t[1], t[2], k[1], k[2], mq, v) : s \in Ss, t \in Ts, k \in Ks, mq \in {2, 3, 82, 1000, 30000}, v \in Vs }
Emit ==
    (done /\ Usable(P0)) =>
        LET P == Pt(w, P0)  J == JacOf(P, P0) IN
        PrintT(ToJson([w |-> w, pt |-> <<P.x, P.y, P.z, P.mu, P.r1, P.r2>>, F |-> FieldOf(P, P0),
                       J |-> <<J[4][1], J[4][2], J[4][3], J[5][2], J[5][3], J[6][3]>>,
                       E |-> EnergyOf(P, P0), C |-> JacobiOf(P, P0),
                       T |-> KineticOf(P, P0), G |-> GravOf(P, P0), U |-> UeffOf(P, P0), Om |-> OmegaOf(P, P0)]))
=============================================================================
