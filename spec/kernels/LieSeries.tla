------------------------------ MODULE LieSeries ------------------------------
(***************************************************************************)
(* Lie-series operators of the normal-form pipeline (property C08)         *)
(*   src/hiten/algorithms/hamiltonian/lie.py                               *)
(*       _solve_homological_equation, _apply_poly_transform                *)
(*   src/hiten/algorithms/hamiltonian/center/_lie.py                       *)
(*       _select_terms_for_elimination, _apply_coord_transform,            *)
(*       _lie_expansion, _zero_q1p1                                        *)
(*   src/hiten/algorithms/hamiltonian/normal/_lie.py                       *)
(*       _select_nonresonant_terms                                         *)
(*                                                                         *)
(* exp(L_G) F = sum_k ad_G^k F / k!,  ad_G F = {F, G}  (the code's bracket *)
(* orientation), truncated at total degree N.  Instances use generators    *)
(* whose coefficients are divisible by 6 so that every term of the series  *)
(* up to degree 4..5 is integral and the replay into the floating-point    *)
(* kernels is exact.  Laws checked by TLC on the operator itself:          *)
(*   exp(L_-G) exp(L_G) = id,  exp(L_G)(A B) = exp(L_G)A exp(L_G)B,        *)
(*   forward and inverse coordinate expansions compose to the identity,    *)
(*   canonicity of the coordinate change,  H o Phi = exp(L_G) H.           *)
(***************************************************************************)
EXTENDS IPoly, TLC

(* --------------------------- homological equation ----------------------- *)
\* eta = (eta0, eta1, eta2) Gaussian integers; divisor of the monomial q^kq p^kp
Divisor(k, eta) ==
    GAdd(GAdd(GScale(k[4] - k[1], eta[1]), GScale(k[5] - k[2], eta[2])), GScale(k[6] - k[3], eta[3]))

\* {H2, G} for H2 = sum eta_i q_i p_i and a monomial G equals Divisor * G : checked as a law
H2(eta) == Add(Add(Scale(eta[1], Mul(Var(1), Var(4))), Scale(eta[2], Mul(Var(2), Var(5)))), Scale(eta[3], Mul(Var(3), Var(6))))
HomologicalLaw(k, eta) == Poisson(H2(eta), Mono(k, GOne)) = Scale(Divisor(k, eta), Mono(k, GOne))

(* ------------------------------ term selection -------------------------- *)
Eliminated(k) == k[1] # k[4]                                  \* partial normal form: hyperbolic exponents differ
OnCM(k) == k[1] = 0 /\ k[4] = 0                               \* restriction to the centre manifold
\* full normal form with generic (rationally independent) frequencies: resonant iff all three pairs balance
Resonant(k) == k[1] = k[4] /\ k[2] = k[5] /\ k[3] = k[6]

(* ------------------------------- Lie series ----------------------------- *)
Ad(F, G, N) == Trunc(Poisson(F, G), N)

DivExact(p, n) == [k \in DOMAIN p |-> GDiv(p[k], n)]
Divisible(p, n) == \A k \in DOMAIN p : GDivisible(p[k], n)

RECURSIVE AdPow(_, _, _, _)
AdPow(F, G, N, k) == IF k = 0 THEN Trunc(F, N) ELSE Ad(AdPow(F, G, N, k - 1), G, N)
RECURSIVE FactL(_)
FactL(n) == IF n = 0 THEN 1 ELSE n * FactL(n - 1)

\* number of brackets that can still contribute: each raises the degree by deg(G) - 2 >= 1
RECURSIVE ExpSum(_, _, _, _)
ExpSum(F, G, N, k) ==
    IF k = 0 THEN Trunc(F, N)
    ELSE Add(ExpSum(F, G, N, k - 1), DivExact(AdPow(F, G, N, k), FactL(k)))
SeriesIntegral(F, G, N) == \A k \in 1 .. N : Divisible(AdPow(F, G, N, k), FactL(k))
ExpL(F, G, N) == ExpSum(F, G, N, N)

\* coordinate expansions of _lie_expansion: Gs is a function degree -> homogeneous generator (or PZero)
CoordId == [i \in Vars |-> Var(i)]
RECURSIVE FwdFrom(_, _, _, _)
FwdFrom(X, Gs, N, n) == IF n > N THEN X ELSE FwdFrom([i \in Vars |-> ExpL(X[i], Gs[n], N)], Gs, N, n + 1)
Forward(Gs, N) == FwdFrom(CoordId, Gs, N, 3)
RECURSIVE InvFrom(_, _, _, _)
InvFrom(X, Gs, N, n) == IF n < 3 THEN X ELSE InvFrom([i \in Vars |-> ExpL(X[i], Neg(Gs[n]), N)], Gs, N, n - 1)
Inverse(Gs, N) == InvFrom(CoordId, Gs, N, N)

\* truncated product / power / substitution (keeps intermediate coefficients small)
TMul(p, q, N) == Trunc(Mul(p, q), N)
RECURSIVE TPow(_, _, _)
TPow(p, n, N) == IF n = 0 THEN Const(GOne) ELSE TMul(p, TPow(p, n - 1, N), N)
RECURSIVE TMonoSubstTo(_, _, _, _)
TMonoSubstTo(k, L, n, N) == IF n = 0 THEN Const(GOne) ELSE TMul(TPow(L[n], k[n], N), TMonoSubstTo(k, L, n - 1, N), N)
RECURSIVE TSubstSet(_, _, _, _)
TSubstSet(p, L, S, N) ==
    IF S = {} THEN PZero
    ELSE LET k == CHOOSE x \in S : TRUE
         IN  Add(Scale(p[k], TMonoSubstTo(k, L, NV, N)), TSubstSet(p, L, S \ {k}, N))
TSubst(p, L, N) == TSubstSet(p, L, DOMAIN p, N)

\* composition of polynomial maps, truncated
Compose(P, Qm, N) == [i \in Vars |-> TSubst(P[i], Qm, N)]

\* the Hamiltonian pushed through all generators in turn (the loop of _lie_transform)
RECURSIVE ApplyFrom(_, _, _, _)
ApplyFrom(F, Gs, N, n) == IF n > N THEN F ELSE ApplyFrom(ExpL(F, Gs[n], N), Gs, N, n + 1)
ApplyAll(F, Gs, N) == ApplyFrom(F, Gs, N, 3)

(* ---------------------------------- laws -------------------------------- *)
\* "the transformed Hamiltonian equals the original one composed with the library's own coordinate change"
MultiCompositionLaw(F, Gs, N) == TSubst(F, Forward(Gs, N), N) = ApplyAll(F, Gs, N)
InverseLaw(F, G, N) == ExpL(ExpL(F, G, N), Neg(G), N) = Trunc(F, N)
AutomorphismLaw(A, Bp, G, N) == Trunc(Mul(ExpL(A, G, N), ExpL(Bp, G, N)), N) = ExpL(Trunc(Mul(A, Bp), N), G, N)
\* H composed with the coordinate change equals exp(L_G) H   (single generator)
CompositionLaw(F, G, N) == TSubst(F, [i \in Vars |-> ExpL(Var(i), G, N)], N) = ExpL(F, G, N)
\* the change of variables is canonical to order N: {Phi_i, Phi_j} = {x_i, x_j} up to degree N - 1
CanonicalLaw(G, N) ==
    \A i, j \in Vars : Trunc(Poisson(ExpL(Var(i), G, N), ExpL(Var(j), G, N)), N - 1) = Poisson(Var(i), Var(j))
\* forward and inverse expansions compose to the identity
ExpansionsInverseLaw(Gs, N) ==
    /\ Compose(Forward(Gs, N), Inverse(Gs, N), N) = CoordId
    /\ Compose(Inverse(Gs, N), Forward(Gs, N), N) = CoordId
=============================================================================
