------------------------------ MODULE MCRKTrees ------------------------------
(***************************************************************************)
(* Emits the rooted trees with at most MaxQ vertices (shape + density) as  *)
(* one JSON record.  The harness evaluates the order conditions of the     *)
(* tableaux that are NOT exactly rational (rk8, dop853) on these trees     *)
(* with Python Fractions of the runtime floats ([T]-tier contract); the    *)
(* same Python evaluator is cross-validated against TLC's modular residues *)
(* on the rational tableaux (MCRKTableau).                                 *)
(***************************************************************************)
EXTENDS RKTableau, TLC, Json

CONSTANT MaxQ
VARIABLE one
Init == one = 0
Next == UNCHANGED one
Spec == Init /\ [][Next]_one

ASSUME TreeLaws(MaxQ)

FTQ == ForestTable(MaxQ)
TreeTable ==
    [q \in 1 .. MaxQ |-> LET R == RootedTreesIn(FTQ, q)
                         IN  [c \in {TCode(t) : t \in R} |->
                                LET t == CHOOSE u \in R : TCode(u) = c
                                IN  [gamma |-> TGamma(t), size |-> TSize(t), kids |-> t]]]

TreesEmitted == (one = 0) => PrintT(ToJson([trees |-> TreeTable, schemes |-> SchemeOf]))
=============================================================================
