------------------------------ MODULE MCTaoStep ------------------------------
(***************************************************************************)
(* Model-checking instance of TaoStep: for a family of integer polynomial  *)
(* Hamiltonians (3 dof, non-separable, every variable slot occupied,       *)
(* degree <= 4), lattice points and step sizes, TLC                        *)
(*   * checks that every sub-flow and the full order-2 step are EXACTLY    *)
(*     symplectic (D^T Omega D = Omega with the exact rational Jacobian)   *)
(*     and exactly reversible,                                             *)
(*   * checks that the Jacobians used are the derivatives of the maps      *)
(*     (central differences are exact for quadratic maps),                 *)
(*   * prints  instance |-> exact image  records that the harness replays  *)
(*     into the compiled kernels of symplectic.py.                         *)
(***************************************************************************)
EXTENDS TaoStep, TLC, Json
LOCAL INSTANCE SequencesExt

CONSTANT Instances
VARIABLE inst

NCH == 16
InstSeq == SetToSeq(Instances)
Init == inst \in {[kind |-> "chunk", c |-> c] : c \in 0 .. (NCH - 1)}
Next == /\ inst.kind = "chunk"
        /\ \E k \in 1 .. Len(InstSeq) : (k % NCH = inst.c) /\ inst' = InstSeq[k]
Spec == Init /\ [][Next]_inst

ASSUME RatLaws

Mono(c, e) == [c |-> c, e |-> e]
\* (q1 q2 q3 p1 p2 p3)
HQuad == <<Mono(1, <<1, 0, 0, 0, 1, 0>>), Mono(2, <<0, 1, 0, 0, 0, 1>>), Mono(-1, <<0, 0, 1, 1, 0, 0>>),
           Mono(1, <<2, 0, 0, 0, 0, 0>>), Mono(-1, <<0, 0, 0, 0, 2, 0>>), Mono(1, <<0, 1, 1, 0, 0, 0>>),
           Mono(1, <<0, 0, 0, 1, 0, 1>>)>>
HCub == HQuad \o <<Mono(1, <<1, 1, 0, 0, 0, 1>>), Mono(-1, <<0, 0, 1, 2, 0, 0>>), Mono(1, <<0, 2, 0, 0, 1, 0>>)>>
HQuart == HCub \o <<Mono(1, <<2, 0, 0, 2, 0, 0>>), Mono(1, <<0, 1, 0, 0, 0, 3>>), Mono(-1, <<1, 0, 2, 0, 1, 0>>),
                    Mono(2, <<0, 0, 0, 1, 1, 1>>), Mono(1, <<0, 4, 0, 0, 0, 0>>)>>
\* degree 6 (the largest degree the property quantifies over)
HSix == HQuart \o <<Mono(1, <<3, 0, 0, 0, 3, 0>>), Mono(-1, <<0, 0, 6, 0, 0, 0>>), Mono(1, <<1, 1, 1, 1, 1, 1>>),
                    Mono(1, <<0, 2, 0, 3, 0, 0>>)>>
HSep == <<Mono(1, <<0, 0, 0, 2, 0, 0>>), Mono(1, <<0, 0, 0, 0, 2, 0>>), Mono(2, <<0, 0, 0, 0, 0, 2>>),
          Mono(1, <<2, 0, 0, 0, 0, 0>>), Mono(-1, <<1, 1, 0, 0, 0, 0>>), Mono(1, <<0, 0, 3, 0, 0, 0>>)>>
\* sparse cubic for full steps (keeps the exact images inside 32 bits)
HStep == <<Mono(1, <<1, 0, 0, 0, 1, 0>>), Mono(1, <<0, 1, 0, 0, 0, 1>>), Mono(-1, <<0, 0, 1, 1, 0, 0>>),
           Mono(1, <<1, 1, 0, 1, 0, 0>>)>>
\* second quadratic, for multi-step runs (images of a cubic grow doubly exponentially)
HQuad2 == <<Mono(1, <<0, 0, 0, 2, 0, 0>>), Mono(1, <<0, 0, 0, 0, 2, 0>>), Mono(1, <<0, 0, 0, 0, 0, 2>>),
            Mono(1, <<1, 0, 0, 0, 0, 1>>), Mono(-1, <<0, 1, 0, 1, 0, 0>>), Mono(1, <<0, 0, 1, 0, 1, 0>>),
            Mono(1, <<1, 1, 0, 0, 0, 0>>), Mono(-1, <<0, 0, 2, 0, 0, 0>>)>>
MaxDeg(H) == CHOOSE d \in 0 .. 8 : (\A k \in 1 .. Len(H) : RSumOp(LAMBDA i : RInt(H[k].e[i]), 6)[1] <= d)
                                   /\ (\E k \in 1 .. Len(H) : RSumOp(LAMBDA i : RInt(H[k].e[i]), 6)[1] = d)

ZInt(v) == MkSeq(LAMBDA i : RInt(v[i]), Len(v))
Z1 == ZInt(<<1, -1, 2, 0, 1, -2, 2, 1, 0, -1, 2, 1>>)
Z2 == ZInt(<<0, 2, -1, 1, -1, 1, -2, 0, 1, 1, 1, -1>>)
Z3 == ZInt(<<1, 0, -1, 1, 1, 0, 0, 1, 1, -1, 0, 1>>)
Y1 == ZInt(<<1, -1, 0, 0, 1, 1>>)
Y2 == ZInt(<<0, 1, 1, -1, 0, 1>>)

Ds == {<<1, 1>>, <<-1, 1>>, <<1, 2>>, <<2, 1>>}
Rots == {<<<<1, 1>>, <<0, 1>>>>, <<<<0, 1>>, <<1, 1>>>>, <<<<-1, 1>>, <<0, 1>>>>, <<<<0, 1>>, <<-1, 1>>>>,
         <<<<3, 5>>, <<4, 5>>>>}
Quarter == {<<<<0, 1>>, <<1, 1>>>>, <<<<-1, 1>>, <<0, 1>>>>, <<<<0, 1>>, <<-1, 1>>>>}

I(kind, H, d, cs, z, hs, rots) == [kind |-> kind, H |-> H, d |-> d, cs |-> cs, z |-> z, hs |-> hs, rots |-> rots]

SubA(Hs, Zs, Dset) == { I(k, H, d, <<>>, z, <<>>, <<>>) : k \in {"A", "B"}, H \in Hs, z \in Zs, d \in Dset }
SubC(Zs) == { I("C", <<>>, <<0, 1>>, cs, z, <<>>, <<>>) : cs \in Rots, z \in Zs }
Steps(Hs, Zs, Hset, Rs) == { I("step", H, h, cs, z, <<>>, <<>>) : H \in Hs, z \in Zs, h \in Hset, cs \in Rs }
Runs(Hs, Ys, HSeqs) == { I("run", H, <<0, 1>>, <<>>, y, hr[1], hr[2]) : H \in Hs, y \in Ys, hr \in HSeqs }

RunPlans == { <<<<<<1, 1>>, <<1, 1>>>>, <<<<<<0, 1>>, <<1, 1>>>>, <<<<0, 1>>, <<1, 1>>>>>>>>,
              \* omega = (c dt)^-2: halving dt doubles the angle 2 omega dt
              <<<<<<1, 1>>, <<1, 2>>, <<1, 1>>>>,
                <<<<<<0, 1>>, <<1, 1>>>>, <<<<-1, 1>>, <<0, 1>>>>, <<<<0, 1>>, <<1, 1>>>>>>>> }

QuickInstances ==
    SubA({HQuad, HQuart, HSep}, {Z1, Z2}, {<<1, 1>>, <<-1, 2>>}) \cup SubC({Z1, Z2})
    \cup Steps({HQuad, HStep}, {Z3}, {<<1, 1>>, <<-1, 1>>}, Quarter)
    \cup Steps({HQuad}, {Z1}, {<<1, 2>>}, Rots)
    \cup Runs({HQuad, HQuad2}, {Y1}, RunPlans)
ThoroughInstances ==
    QuickInstances \cup SubA({HQuad, HCub, HQuart, HSix, HSep}, {Z1, Z2, Z3}, Ds) \cup SubC({Z1, Z2, Z3})
    \cup Steps({HStep, HSep}, {Z3, Y1 \o Y2}, {<<1, 1>>, <<-1, 1>>}, Quarter)
    \cup Steps({HQuad, HQuad2}, {Z1, Z3, Y1 \o Y2}, {<<1, 1>>, <<-1, 1>>, <<1, 2>>}, Rots)
    \cup Runs({HQuad, HQuad2}, {Y1, Y2}, RunPlans)

Image(i) ==
    CASE i.kind = "A" -> FlowA(i.H, i.d, i.z)
      [] i.kind = "B" -> FlowB(i.H, i.d, i.z)
      [] i.kind = "C" -> FlowC(i.cs[1], i.cs[2], i.z)
      [] i.kind = "step" -> Step2(i.H, i.d, i.cs[1], i.cs[2], i.z)
      [] i.kind = "run" -> Run2(i.H, i.hs, i.rots, i.z)

ImageEmitted == (inst.kind # "chunk") => PrintT(ToJson([inst |-> inst, out |-> Image(inst)]))

Jac(i) ==
    CASE i.kind = "A" -> JacA(i.H, i.d, i.z)
      [] i.kind = "B" -> JacB(i.H, i.d, i.z)
      [] i.kind = "C" -> JacC(i.cs[1], i.cs[2])
      [] i.kind = "step" -> Step2Jac(i.H, i.d, i.cs[1], i.cs[2], i.z)

\* "one step of the symplectic integrator is a symplectic map of its extended phase space"
MapIsSymplectic == (inst.kind \in {"A", "B", "C", "step"}) => IsSymplectic(Jac(inst))

\* "undoing it with the opposite step restores the state exactly"
Neg(r) == <<-r[1], r[2]>>
MapIsReversible ==
    CASE inst.kind = "A" -> FlowA(inst.H, Neg(inst.d), FlowA(inst.H, inst.d, inst.z)) = inst.z
      [] inst.kind = "B" -> FlowB(inst.H, Neg(inst.d), FlowB(inst.H, inst.d, inst.z)) = inst.z
      [] inst.kind = "C" -> FlowC(inst.cs[1], Neg(inst.cs[2]), FlowC(inst.cs[1], inst.cs[2], inst.z)) = inst.z
      [] inst.kind = "step" -> Step2(inst.H, Neg(inst.d), inst.cs[1], Neg(inst.cs[2]),
                                     Step2(inst.H, inst.d, inst.cs[1], inst.cs[2], inst.z)) = inst.z
      [] OTHER -> TRUE

\* the Jacobian used above IS the derivative of the map: for H of degree <= 3 every sub-flow is a
\* quadratic map, for which the central difference quotient is exact
Shift(z, j, a) == MkSeq(LAMBDA i : IF i = j THEN RAdd(z[i], a) ELSE z[i], DIM)
Flow(i, z) ==
    CASE i.kind = "A" -> FlowA(i.H, i.d, z)
      [] i.kind = "B" -> FlowB(i.H, i.d, z)
      [] i.kind = "C" -> FlowC(i.cs[1], i.cs[2], z)
JacobianIsDerivative ==
    (inst.kind \in {"A", "B", "C"} /\ (inst.kind = "C" \/ MaxDeg(inst.H) <= 3)) =>
        LET D == Jac(inst) IN
        \A j \in 1 .. DIM :
            LET up == Flow(inst, Shift(inst.z, j, ROne))
                dn == Flow(inst, Shift(inst.z, j, <<-1, 1>>))
            IN  \A i \in 1 .. DIM : RMul(Half, RSub(up[i], dn[i])) = D[i][j]

\* the rotation really is one: c^2 + s^2 = 1 in every instance
RotationIsUnit == (inst.kind \in {"C", "step"}) => RAdd(RMul(inst.cs[1], inst.cs[1]), RMul(inst.cs[2], inst.cs[2])) = ROne
=============================================================================
