----------------------------- MODULE MCLegendre -----------------------------
EXTENDS Legendre, Json
CONSTANT MaxN, MaxA, HamN
Primes == [n \in 2 .. 8 |-> CASE n = 2 -> 3 [] n = 3 -> 5 [] n = 4 -> 7 [] n = 5 -> 11 [] n = 6 -> 13 [] n = 7 -> 17 [] n = 8 -> 19]
VARIABLES job, n
vars == <<job, n>>
Init == \/ job = "T" /\ n \in 0 .. MaxN
        \/ job = "A" /\ n \in 0 .. MaxA
        \/ job = "H" /\ n \in 2 .. HamN
Next == UNCHANGED vars
Spec == Init /\ [][Next]_vars
LawsHold == CASE job = "T" -> TLaws(n) [] job = "A" -> ALaws(n) [] job = "H" -> VelocityRelations(n, Primes)
Emit == PrintT(ToJson([job |-> job, n |-> n,
                       scale |-> CASE job = "T" -> Fact(n) [] job = "A" -> Fact(n) * IPw(5, n) [] job = "H" -> 2 * Fact(n),
                       cn |-> IF job = "H" THEN [m \in 2 .. n |-> Primes[m]] ELSE <<>>,
                       poly |-> PolyToSeq(CASE job = "T" -> S(n) [] job = "A" -> B(n) [] job = "H" -> HamScaled(n, Primes))]))
=============================================================================
