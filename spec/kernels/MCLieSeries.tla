----------------------------- MODULE MCLieSeries -----------------------------
EXTENDS LieSeries, Json
CONSTANTS MaxHomDeg, SelDeg
K(a, b, c, d, e, f) == <<a, b, c, d, e, f>>
G(a, b) == <<a, b>>
Eta == <<G(1, 0), G(0, 2), G(0, 3)>>
\* all exponent tuples of a given degree
Tuples(d) == {k \in [Vars -> 0 .. d] : KDeg(k) = d}

\* generators (homogeneous, coefficients divisible by 6) and test polynomials
G3a == Mono(K(1, 1, 0, 0, 0, 1), G(6, 0))
G3b == Add(Mono(K(0, 2, 0, 1, 0, 0), G(-6, 0)), Mono(K(1, 0, 1, 0, 1, 0), G(0, 6)))
G3c == Add(Mono(K(2, 0, 0, 0, 0, 1), G(6, 0)), Mono(K(0, 0, 1, 0, 2, 0), G(-6, 0)))
G4a == Add(Mono(K(1, 1, 0, 1, 0, 1), G(6, 0)), Mono(K(0, 0, 2, 2, 0, 0), G(0, -6)))
Gens == <<G3a, G3b, G3c, G4a>>
GenDeg == <<3, 3, 3, 4>>
Fa == Add(Mul(Var(1), Var(4)), Scale(G(0, 2), Mul(Var(2), Var(5))))
Fb == Add(Add(Mul(Var(3), Var(6)), Mono(K(1, 0, 1, 0, 1, 0), G(2, 0))), Mono(K(0, 1, 0, 1, 0, 1), G(-1, 1)))
Fc == Add(Var(2), Mul(Var(1), Var(3)))
Fs == <<Fa, Fb, Fc>>
GsA == [n \in 3 .. 5 |-> CASE n = 3 -> G3a [] n = 4 -> G4a [] OTHER -> PZero]
GsB == [n \in 3 .. 5 |-> CASE n = 3 -> G3b [] n = 4 -> PZero [] OTHER -> PZero]
GsC == [n \in 3 .. 5 |-> CASE n = 3 -> G3c [] n = 4 -> G4a [] OTHER -> PZero]
GSets == <<GsA, GsB, GsC>>

VARIABLES job, a, b, c
vars == <<job, a, b, c>>
Init == \/ job = "hom" /\ a \in 3 .. MaxHomDeg /\ b = 0 /\ c = 0
        \/ job = "sel" /\ a \in 2 .. SelDeg /\ b = 0 /\ c = 0
        \/ job = "exp" /\ a \in 1 .. 3 /\ b \in 1 .. 4 /\ c \in {4}
        \/ job = "coord" /\ a \in 1 .. 3 /\ b \in {0, 1} /\ c \in {4}
Next == UNCHANGED vars
Spec == Init /\ [][Next]_vars

Laws ==
    CASE job = "hom" -> \A k \in Tuples(a) : HomologicalLaw(k, Eta)
      [] job = "sel" -> TRUE
      [] job = "exp" -> /\ SeriesIntegral(Fs[a], Gens[b], c)
                        /\ InverseLaw(Fs[a], Gens[b], c)
                        /\ CompositionLaw(Fs[a], Gens[b], c)
                        /\ (a = 1 => CanonicalLaw(Gens[b], c))
                        /\ (a = 1 => AutomorphismLaw(Fs[2], Fs[3], Gens[b], c))
      [] job = "coord" -> /\ (b = 0 => ExpansionsInverseLaw(GSets[a], c))
                          /\ (b = 0 => \A f \in 1 .. 2 : MultiCompositionLaw(Fs[f], GSets[a], c))

Emit ==
    CASE job = "hom" ->
            PrintT(ToJson([job |-> "hom", deg |-> a,
                           rows |-> {<<k, Divisor(k, Eta)[1], Divisor(k, Eta)[2]>> : k \in Tuples(a)}]))
      [] job = "sel" ->
            PrintT(ToJson([job |-> "sel", deg |-> a,
                           elim |-> {k \in Tuples(a) : Eliminated(k)},
                           cm |-> {k \in Tuples(a) : OnCM(k)},
                           res |-> {k \in Tuples(a) : Resonant(k)}]))
      [] job = "exp" ->
            PrintT(ToJson([job |-> "exp", F |-> PolyToSeq(Fs[a]), G |-> PolyToSeq(Gens[b]), degG |-> GenDeg[b], N |-> c,
                           out |-> PolyToSeq(ExpL(Fs[a], Gens[b], c))]))
      [] job = "coord" ->
            PrintT(ToJson([job |-> "coord", N |-> c, inverse |-> b,
                           Gs |-> [n \in 3 .. 5 |-> PolyToSeq(GSets[a][n])],
                           out |-> LET E == IF b = 0 THEN Forward(GSets[a], c) ELSE Inverse(GSets[a], c)
                                   IN  [i \in Vars |-> PolyToSeq(E[i])]]))
=============================================================================
