------------------------------ MODULE Substitute ------------------------------
(***************************************************************************)
(* Linear changes of variables local <-> real modal, on polynomials and on *)
(* coordinates, and the affine point maps local <-> synodic                *)
(*   src/hiten/algorithms/hamiltonian/transforms.py                        *)
(*     _polylocal2realmodal   p o C        _polyrealmodal2local  p o C^-1  *)
(*     _coordrealmodal2local  x -> C x     _coordlocal2realmodal x -> C^-1 x *)
(*     _local2synodic_collinear / _synodic2local_collinear                 *)
(*                                                                         *)
(* The library takes (C, C^-1) from point.normal_form_transform.  The      *)
(* harness hands the real functions a stub point whose transform is the    *)
(* INTEGER unimodular symplectic matrix below (and its integer inverse),   *)
(* and whose gamma, mu, a are dyadic, so that every result is exact in     *)
(* binary64 and is compared with == against what TLC computes.             *)
(*                                                                         *)
(* REQUIREMENT (C18): polynomial substitution agrees with the coordinate   *)
(* map, the two directions are mutually inverse, and the point-wise maps   *)
(* synodic <-> local <-> modal are exact inverses of one another.          *)
(***************************************************************************)
EXTENDS IPoly, TLC

CONSTANT MonoDeg

Z == GZero
I3(i, j) == IF i = j THEN 1 ELSE 0
\* symmetric 3x3 blocks
S3 == << <<1, 0, 2>>, <<0, -1, 1>>, <<2, 1, 0>> >>
R3 == << <<0, 1, 0>>, <<1, 2, 0>>, <<0, 0, -1>> >>
Mul3(A, B) == [i \in 1 .. 3 |-> [j \in 1 .. 3 |-> A[i][1] * B[1][j] + A[i][2] * B[2][j] + A[i][3] * B[3][j]]]
SR == Mul3(S3, R3)
RS == Mul3(R3, S3)
\* C = [[I, S], [0, I]] [[I, 0], [R, I]] = [[I + SR, S], [R, I]]
Cint(i, j) == IF i <= 3 /\ j <= 3 THEN I3(i, j) + SR[i][j]
              ELSE IF i <= 3 THEN S3[i][j - 3]
              ELSE IF j <= 3 THEN R3[i - 3][j]
              ELSE I3(i - 3, j - 3)
\* C^-1 = [[I, 0], [-R, I]] [[I, -S], [0, I]] = [[I, -S], [-R, I + RS]]
Cinvint(i, j) == IF i <= 3 /\ j <= 3 THEN I3(i, j)
                 ELSE IF i <= 3 THEN -S3[i][j - 3]
                 ELSE IF j <= 3 THEN -R3[i - 3][j]
                 ELSE I3(i - 3, j - 3) + RS[i - 3][j - 3]
C    == [i \in Vars |-> [j \in Vars |-> GInt(Cint(i, j))]]
Cinv == [i \in Vars |-> [j \in Vars |-> GInt(Cinvint(i, j))]]
Ident == [i \in Vars |-> [j \in Vars |-> IF i = j THEN GOne ELSE Z]]
Jm == [i \in Vars |-> [j \in Vars |-> IF i <= NDOF /\ j = i + NDOF THEN GOne
                                       ELSE IF i > NDOF /\ j = i - NDOF THEN GInt(-1) ELSE Z]]
Transp(A) == [i \in Vars |-> [j \in Vars |-> A[j][i]]]
MatMul(A, B) == [i \in Vars |-> [j \in Vars |-> GSumOver(Vars, LAMBDA k : GMul(A[i][k], B[k][j]))]]

(****************************** instances **********************************)
Monos == {k \in [Vars -> 0 .. MonoDeg] : KDeg(k) \in 1 .. MonoDeg}
Coefs == {<<2, 0>>, <<-3, 0>>}
E(a, b, c, d, e, f) == [v \in Vars |-> <<a, b, c, d, e, f>>[v]]
Multi == { Add(Add(Mono(E(1, 0, 0, 1, 0, 0), <<2, 0>>), Mono(E(0, 2, 0, 0, 0, 0), <<1, 0>>)),
               Add(Mono(E(0, 0, 0, 0, 2, 0), <<1, 0>>), Mono(E(0, 0, 1, 0, 0, 1), <<-3, 0>>))),
           Add(Mono(E(1, 1, 0, 0, 0, 1), <<4, 0>>), Mono(E(0, 2, 0, 0, 1, 0), <<-1, 0>>)) }
Points == { << <<1, 0>>, <<2, 0>>, <<-1, 0>>, <<3, 0>>, <<0, 0>>, <<1, 0>> >>,
            << <<-2, 0>>, <<0, 0>>, <<1, 0>>, <<1, 0>>, <<3, 0>>, <<-1, 0>> >> }

VARIABLES p
Init == p \in {Mono(k, c) : k \in Monos, c \in Coefs} \cup Multi
Next == UNCHANGED p
Spec == Init /\ [][Next]_p

ToModal == SubstLinear(p, C)        \* _polylocal2realmodal
ToLocal == SubstLinear(p, Cinv)     \* _polyrealmodal2local

(******************************* REQUIREMENT *******************************)
StubIsSymplecticUnimodular ==
    /\ MatMul(C, Cinv) = Ident /\ MatMul(Cinv, C) = Ident
    /\ MatMul(Transp(C), MatMul(Jm, C)) = Jm
PolyAgreesWithCoordinates == \A x \in Points : /\ Eval(ToModal, x) = Eval(p, MatVec(C, x))
                                                /\ Eval(ToLocal, x) = Eval(p, MatVec(Cinv, x))
PolyRoundTrip  == SubstLinear(ToModal, Cinv) = p /\ SubstLinear(ToLocal, C) = p
PointRoundTrip == \A x \in Points : MatVec(Cinv, MatVec(C, x)) = x /\ MatVec(C, MatVec(Cinv, x)) = x

(***************************************************************************)
(* local <-> synodic at a collinear point with gamma = 1/4, mu = 1/8,      *)
(* a = 3/4, sign sgn: all synodic values are multiples of 1/8 -- numerators *)
(* over 8.  Transcribed from _local2synodic_collinear (the X / Vx flip     *)
(* included) and _synodic2local_collinear.                                 *)
(***************************************************************************)
L2S(sgn, c) == << -(sgn * 2 * c[1] + 1 + 6), sgn * 2 * c[2], 2 * c[3],
                  -(2 * (c[4] + c[2])), 2 * (c[5] - c[1]), 2 * c[6] >>
\* inverse on numerators over 8 (defined when the divisions are exact)
S2L(sgn, s) ==
    LET l1 == (-s[1] - 1 - 6) \div (sgn * 2)
        l2 == s[2] \div (sgn * 2)
    IN  << l1, l2, s[3] \div 2, (-s[4]) \div 2 - l2, s[5] \div 2 + l1, s[6] \div 2 >>
Grid == {<<1, 2, -1, 3, 0, 1>>, <<-2, 0, 1, 1, 3, -1>>, <<0, -3, 2, -1, 1, 4>>, <<5, 1, 0, 0, -2, 2>>}
LocalSynodicRoundTrip == \A sgn \in {1, -1}, c \in Grid : S2L(sgn, L2S(sgn, c)) = c /\ L2S(sgn, S2L(sgn, L2S(sgn, c))) = L2S(sgn, c)

(******************************** emission *********************************)
Instance == [p |-> PolyToSeq(p), modal |-> PolyToSeq(ToModal), local |-> PolyToSeq(ToLocal)]
Fixed == [C |-> [i \in Vars |-> [j \in Vars |-> Cint(i, j)]], Cinv |-> [i \in Vars |-> [j \in Vars |-> Cinvint(i, j)]],
          pts |-> [x \in Points |-> [x |-> x, Cx |-> MatVec(C, x), Cinvx |-> MatVec(Cinv, x)]],
          l2s |-> [sgn \in {1, -1} |-> [c \in Grid |-> L2S(sgn, c)]]]
=============================================================================
