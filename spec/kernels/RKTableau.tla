----------------------------- MODULE RKTableau -----------------------------
(***************************************************************************)
(* Explicit Runge-Kutta methods of hiten                                   *)
(*   src/hiten/algorithms/integrators/rk.py  (stage loops of               *)
(*     rk_embedded_step_jit_kernel, rk45_step_jit_kernel,                  *)
(*     dop853_step_jit_kernel and their _ham twins, _integrate_fixed_rk)   *)
(*   src/hiten/algorithms/poincare/centermanifold/backend.py               *)
(*     (_integrate_rk_ham, a private copy of the fixed-step loop)          *)
(*   src/hiten/algorithms/integrators/coefficients/{rk4,rk6,rk45}.py       *)
(*                                                                         *)
(* PART 1  what "the stepping code applies the table" means: one explicit  *)
(*         RK step as a function of (tableau, field, t, y, h) over exact   *)
(*         rationals.  This is the REQUIREMENT for the stage loops; the    *)
(*         harness replays TLC-enumerated instances into every copy.       *)
(* PART 2  what "the table has order p" means: Butcher's rooted-tree       *)
(*         order conditions  sum_i b_i Phi_i(t) = 1/gamma(t)  for every    *)
(*         rooted tree t with at most p vertices, evaluated in Z/q for     *)
(*         several primes q (ModArith), on tableau constants extracted     *)
(*         from the working tree.                                          *)
(* PART 3  which table a requested order maps to (factories).              *)
(*                                                                         *)
(* Pure operator library: no constants, no variables.                      *)
(***************************************************************************)
EXTENDS Integers, Sequences, FiniteSets, Rat, ModArith

(***************************************************************************)
(* PART 1 -- one explicit RK step over the rationals                       *)
(*                                                                         *)
(* tab = [s |-> stages, A |-> s x s rationals (strictly lower part used),  *)
(*        B |-> s weights, BL |-> s low-order weights or <<>>, C |-> nodes]*)
(* field = [kind |-> "aff", a, b, M]   f(t,y) = a + b t + M y  (integers)  *)
(*       | [kind |-> "ham", H]         f(t,y) = (dH/dP, -dH/dQ), y = (Q,P) *)
(***************************************************************************)
Field(f, t, y) ==
    IF f.kind = "aff"
    THEN MkSeq(LAMBDA i :
            RAdd(RAdd(RInt(f.a[i]), RMul(RInt(f.b[i]), t)),
                 RSumOp(LAMBDA j : RMul(RInt(f.M[i][j]), y[j]), Len(y))), Len(y))
    ELSE LET g == PolyGrad(f.H, y)
             n == Len(y) \div 2
         IN  MkSeq(LAMBDA i : IF i <= n THEN g[n + i] ELSE RNeg(g[i - n]), Len(y))

\* sum_{j <= Len(ks)} w[j] * ks[j]   (a vector; ks is a sequence of stage derivatives)
LinComb(w, ks, dim) ==
    MkSeq(LAMBDA d : RSumOp(LAMBDA j : RMul(w[j], ks[j][d]), Len(ks)), dim)

\* k_i = f(t + c_i h, y + h * sum_{j<i} a_ij k_j),  i = 1..s
RECURSIVE StagesFrom(_, _, _, _, _, _)
StagesFrom(tab, f, t, y, h, ks) ==
    IF Len(ks) = tab.s THEN ks
    ELSE LET i == Len(ks) + 1
             ys == VAdd(y, VScale(h, LinComb(tab.A[i], ks, Len(y))))
         IN  StagesFrom(tab, f, t, y, h, Append(ks, Field(f, RAdd(t, RMul(tab.C[i], h)), ys)))
Stages(tab, f, t, y, h) == StagesFrom(tab, f, t, y, h, <<>>)

StepWith(w, ks, y, h) == VAdd(y, VScale(h, LinComb(w, ks, Len(y))))

\* generic embedded step (rk_embedded_step_jit_kernel): y_high, y_low, err = y_high - y_low
EmbeddedStep(tab, f, t, y, h) ==
    LET ks == Stages(tab, f, t, y, h)
        hi == StepWith(tab.B, ks, y, h)
        lo == IF tab.BL = <<>> THEN hi ELSE StepWith(tab.BL, ks, y, h)
    IN  [k |-> ks, high |-> hi, low |-> lo, err |-> VSub(hi, lo)]

\* FSAL-type step (rk45_step_jit_kernel, dop853_step_jit_kernel): one extra stage at
\* (t + h, y_high); error estimates are h * sum_{j <= s+1} E_j k_j for each weight row in Es
FsalStep(tab, Es, f, t, y, h) ==
    LET ks == Stages(tab, f, t, y, h)
        hi == StepWith(tab.B, ks, y, h)
        kx == Append(ks, Field(f, RAdd(t, h), hi))
        er == MkSeq(LAMBDA e : VScale(h, LinComb(Es[e], kx, Len(y))), Len(Es))
    IN  [k |-> kx, high |-> hi, errs |-> er, low |-> VSub(hi, er[1])]

\* fixed-step driver (_integrate_fixed_rk, _integrate_rk_ham): states at the grid t0, t0+h1, t0+h1+h2, ...
RECURSIVE FixedRun(_, _, _, _, _)
FixedRun(tab, f, t, y, hs) ==
    IF hs = <<>> THEN <<y>>
    ELSE <<y>> \o FixedRun(tab, f, RAdd(t, hs[1]), EmbeddedStep(tab, f, t, y, hs[1]).high, Tail(hs))

(* Law of the transcription (independent formula): for the scalar linear   *)
(* field y' = m y the step is multiplication by the stability polynomial   *)
(*   R(z) = 1 + sum_{k>=1} z^k b^T A^(k-1) 1 ,  z = h m.                   *)
MatVecR(A, v) == MkSeq(LAMBDA i : RSumOp(LAMBDA j : RMul(A[i][j], v[j]), Len(v)), Len(A))
RECURSIVE StabFrom(_, _, _, _, _)
StabFrom(tab, z, k, v, zk) ==       \* v = A^(k-1) 1, zk = z^k
    IF k > tab.s THEN RZero
    ELSE RAdd(RMul(zk, RSumOp(LAMBDA i : RMul(tab.B[i], v[i]), tab.s)),
              StabFrom(tab, z, k + 1, MatVecR(tab.A, v), RMul(zk, z)))
Stability(tab, z) == RAdd(ROne, StabFrom(tab, z, 1, MkSeq(LAMBDA i : ROne, tab.s), z))
StabilityLaw(tab, m, h, y0) ==
    LET f == [kind |-> "aff", a |-> <<0>>, b |-> <<0>>, M |-> <<<<m>>>>]
    IN  EmbeddedStep(tab, f, RZero, <<y0>>, h).high = <<RMul(y0, Stability(tab, RMul(h, RInt(m))))>>

(* Law: a field that does not depend on y is a quadrature:                 *)
(*   y' = a + b t  =>  y_high = y + h sum_i B_i (a + b (t + c_i h)).       *)
QuadratureLaw(tab, a, b, t, y0, h) ==
    LET f == [kind |-> "aff", a |-> <<a>>, b |-> <<b>>, M |-> <<<<0>>>>]
    IN  EmbeddedStep(tab, f, t, <<y0>>, h).high =
          <<RAdd(y0, RMul(h, RSumOp(LAMBDA i :
                 RMul(tab.B[i], RAdd(RInt(a), RMul(RInt(b), RAdd(t, RMul(tab.C[i], h))))), tab.s)))>>

\* the classical RK4 table, written down here independently of the repository
ClassicRK4 ==
    [s |-> 4,
     A |-> <<<<RZero, RZero, RZero, RZero>>, <<<<1, 2>>, RZero, RZero, RZero>>,
             <<RZero, <<1, 2>>, RZero, RZero>>, <<RZero, RZero, ROne, RZero>>>>,
     B |-> <<<<1, 6>>, <<1, 3>>, <<1, 3>>, <<1, 6>>>>, BL |-> <<>>,
     C |-> <<RZero, <<1, 2>>, <<1, 2>>, ROne>>]
\* y' = y, y(0) = 1, h = 1 : RK4 gives 1 + 1 + 1/2 + 1/6 + 1/24 = 65/24
StepLaws ==
    /\ EmbeddedStep(ClassicRK4, [kind |-> "aff", a |-> <<0>>, b |-> <<0>>, M |-> <<<<1>>>>],
                    RZero, <<ROne>>, ROne).high = <<<<65, 24>>>>
    \* y' = t^... quadrature of a + b t is exact for Simpson weights: int_1^3 (2 + 3t) dt = 4 + 12 = 16
    /\ EmbeddedStep(ClassicRK4, [kind |-> "aff", a |-> <<2>>, b |-> <<3>>, M |-> <<<<0>>>>],
                    ROne, <<RZero>>, <<2, 1>>).high = <<<<16, 1>>>>
    \* harmonic oscillator as a Hamiltonian field: H = (q^2 + p^2)/2 -> (q', p') = (p, -q)
    /\ Field([kind |-> "ham", H |-> <<[c |-> 1, e |-> <<2, 0>>], [c |-> 1, e |-> <<0, 2>>]>>],
             RZero, <<<<3, 1>>, <<5, 1>>>>) = <<<<10, 1>>, <<-6, 1>>>>

(***************************************************************************)
(* PART 2 -- rooted trees and order conditions                             *)
(*                                                                         *)
(* A tree is the sequence of its child subtrees (the leaf is <<>>).        *)
(* ForestsOf(m) enumerates all ORDERED forests with m vertices; a plane    *)
(* tree with n vertices is its children forest with n-1 vertices.  Rooted  *)
(* (unordered) trees are the plane trees in canonical form: children       *)
(* sorted by non-increasing code, recursively.                             *)
(***************************************************************************)
RECURSIVE ForestsOf(_)
ForestsOf(m) ==
    IF m = 0 THEN {<<>>}
    ELSE UNION { { <<t>> \o f : t \in ForestsOf(k - 1), f \in ForestsOf(m - k) } : k \in 1 .. m }

\* the same sets computed level by level (each level once): ForestTable(n)[m + 1] = ForestsOf(m)
NextForests(Fs) ==
    LET m == Len(Fs)
    IN  UNION { { <<t>> \o f : t \in Fs[k], f \in Fs[m - k + 1] } : k \in 1 .. m }
RECURSIVE ForestTable(_)
ForestTable(n) == IF n = 0 THEN << {<<>>} >> ELSE LET Fs == ForestTable(n - 1) IN Append(Fs, NextForests(Fs))
\* plane trees with n vertices, given FT = ForestTable(N) for some N >= n - 1
PlaneTreesIn(FT, n) == FT[n]
PlaneTrees(n) == ForestsOf(n - 1)

RECURSIVE TSize(_)
RECURSIVE TSizeKids(_, _)
TSizeKids(t, i) == IF i > Len(t) THEN 0 ELSE TSize(t[i]) + TSizeKids(t, i + 1)
TSize(t) == 1 + TSizeKids(t, 1)

RECURSIVE Pow2(_)
Pow2(k) == IF k = 0 THEN 1 ELSE 2 * Pow2(k - 1)

\* balanced-parenthesis code "1 <children codes> 0" read as a binary number (2*size bits)
RECURSIVE TCodeKids(_, _, _)
RECURSIVE TCode(_)
TCodeKids(t, i, acc) ==
    IF i > Len(t) THEN acc
    ELSE TCodeKids(t, i + 1, acc * Pow2(2 * TSize(t[i])) + TCode(t[i]))
TCode(t) == Pow2(2 * TSize(t) - 1) + 2 * TCodeKids(t, 1, 0)

RECURSIVE IsCanon(_)
IsCanon(t) ==
    /\ \A i \in 1 .. Len(t) : IsCanon(t[i])
    /\ \A i \in 1 .. (Len(t) - 1) : TCode(t[i]) >= TCode(t[i + 1])
RootedTrees(n) == {t \in PlaneTrees(n) : IsCanon(t)}
RootedTreesIn(FT, n) == {t \in FT[n] : IsCanon(t)}

\* density gamma(t) = |t| * prod gamma(children)
RECURSIVE TGammaKids(_, _)
RECURSIVE TGamma(_)
TGammaKids(t, i) == IF i > Len(t) THEN 1 ELSE TGamma(t[i]) * TGammaKids(t, i + 1)
TGamma(t) == TSize(t) * TGammaKids(t, 1)

\* number of rooted trees with n vertices (OEIS A000081) -- law checked by TLC
A000081 == <<1, 1, 2, 4, 9, 20, 48, 115>>
Catalan == <<1, 1, 2, 5, 14, 42, 132, 429>>
TreeLaws(maxOrder) ==
    LET FT == ForestTable(maxOrder) IN
    /\ \A n \in 1 .. maxOrder : Cardinality(RootedTreesIn(FT, n)) = A000081[n]
    /\ \A n \in 1 .. maxOrder : Cardinality(FT[n]) = Catalan[n]
    /\ \A n \in 1 .. maxOrder : \A t \in FT[n] : TSize(t) = n
    \* the level-by-level table is the recursive definition
    /\ \A n \in 1 .. (IF maxOrder < 5 THEN maxOrder ELSE 5) : FT[n] = PlaneTrees(n)
    \* distinct canonical trees have distinct codes
    /\ \A n \in 1 .. maxOrder : Cardinality({TCode(t) : t \in RootedTreesIn(FT, n)}) = A000081[n]
    \* every plane tree is a reordering of exactly one canonical tree: same multiset of (size, gamma)
    \* tall tree [[[.]]] has gamma n!, bushy tree [. . .] has gamma n
    /\ TGamma(<<<<<<<<>>>>>>>>) = 24 /\ TGamma(<<<<>>, <<>>, <<>>>>) = 4
    /\ TGamma(<<<<<<>>>>, <<>>>>) = 8
    /\ TCode(<<>>) = 2 /\ TCode(<<<<>>>>) = 12 /\ TCode(<<<<>>, <<>>>>) = 52
    \* sum over rooted trees t of order n of  n! / (gamma(t) sigma(t))  counts labelled trees; the
    \* cheaper classical identity used here:  sum over PLANE trees of 1 is Catalan (above), and
    \* gamma is invariant under reordering children
    /\ \A n \in 1 .. (IF maxOrder < 5 THEN maxOrder ELSE 5) : \A t \in FT[n] :
          (Len(t) >= 2) => TGamma(t) = TGamma(<<t[2], t[1]>> \o SubSeq(t, 3, Len(t)))

(* Elementary weights in Z/p.  Am : s x s residues, result: s residues.    *)
(*   Phi_i(leaf) = 1,  Phi_i([t1..tm]) = prod_c ( sum_j a_ij Phi_j(t_c) )  *)
MatVecM(Am, v, p) ==
    LET s == Len(Am)
        RECURSIVE Dot(_, _, _)
        Dot(i, j, acc) == IF j > s THEN acc ELSE Dot(i, j + 1, (acc + Am[i][j] * v[j]) % p)
    IN  MkSeq(LAMBDA i : Dot(i, 1, 0), s)

RECURSIVE PhiVec(_, _, _)
RECURSIVE PhiKids(_, _, _, _, _)
PhiKids(t, c, acc, Am, p) ==
    IF c > Len(t) THEN acc
    ELSE LET w == MatVecM(Am, PhiVec(t[c], Am, p), p)
         IN  PhiKids(t, c + 1, MkSeq(LAMBDA i : (acc[i] * w[i]) % p, Len(Am)), Am, p)
PhiVec(t, Am, p) == PhiKids(t, 1, MkSeq(LAMBDA i : 1, Len(Am)), Am, p)

DotM(w, v, p) ==
    LET RECURSIVE D(_, _)
        D(j, acc) == IF j > Len(w) THEN acc ELSE D(j + 1, (acc + w[j] * v[j]) % p)
    IN  D(1, 0)

\* residue of  gamma(t) * sum_i w_i Phi_i(t) - 1 : zero iff the order condition holds mod p
OrderResidue(t, Am, wm, p) == (MMul(TGamma(t) % p, DotM(wm, PhiVec(t, Am, p), p), p) - 1) % p
\* residue of  sum_i e_i Phi_i(t) : zero iff the error weights annihilate the tree
AnnihResidue(t, Am, em, p) == DotM(em, PhiVec(t, Am, p), p)

(***************************************************************************)
(* PART 3 -- which scheme a requested order selects                        *)
(*   FixedRK._map, AdaptiveRK._map, RungeKutta._map, and the CM map's      *)
(*   _get_rk_coefficients.  "declared" is the order the class reports.     *)
(***************************************************************************)
SchemeOf ==
    [FixedRK    |-> <<[order |-> 4, scheme |-> "rk4", declared |-> 4],
                      [order |-> 6, scheme |-> "rk6", declared |-> 6],
                      [order |-> 8, scheme |-> "rk8", declared |-> 8]>>,
     AdaptiveRK |-> <<[order |-> 5, scheme |-> "rk45", declared |-> 5],
                      [order |-> 8, scheme |-> "dop853", declared |-> 8]>>,
     RungeKutta |-> <<[order |-> 4, scheme |-> "rk4", declared |-> 4],
                      [order |-> 6, scheme |-> "rk6", declared |-> 6],
                      [order |-> 8, scheme |-> "rk8", declared |-> 8],
                      [order |-> 45, scheme |-> "rk45", declared |-> 5],
                      [order |-> 853, scheme |-> "dop853", declared |-> 8]>>,
     CMMap      |-> <<[order |-> 4, scheme |-> "rk4", declared |-> 4],
                      [order |-> 6, scheme |-> "rk6", declared |-> 6],
                      [order |-> 8, scheme |-> "rk8", declared |-> 8]>>]
\* requirement on the map itself: a request for order p is served by a scheme declaring order p
\* (45 and 853 are the documented aliases of 5 and 8)
RequestedOrder(o) == IF o = 45 THEN 5 ELSE IF o = 853 THEN 8 ELSE o
SchemeMapHonest ==
    \A fam \in DOMAIN SchemeOf : \A i \in 1 .. Len(SchemeOf[fam]) :
        SchemeOf[fam][i].declared = RequestedOrder(SchemeOf[fam][i].order)
=============================================================================
