----------------------------- MODULE MCLieDriver -----------------------------
EXTENDS LieDriver, Json
EmitShape == (n = 3 /\ generators = {}) => PrintT(ToJson([shape |-> [m \in 3 .. N |-> shape0[m]]]))
=============================================================================
