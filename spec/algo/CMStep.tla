------------------------------- MODULE CMStep -------------------------------
(***************************************************************************)
(* Crossing detection of the centre-manifold return map (property C14)     *)
(*   src/hiten/algorithms/poincare/centermanifold/backend.py               *)
(*       _detect_crossing, _poincare_step                                  *)
(*                                                                         *)
(* A trajectory is a sequence of states; f[i] is the section coordinate of *)
(* state i (i = 0 is the seed) and good[i] says whether state i moves in   *)
(* the positive conjugate direction (p > 0 on q-sections, d/dt > 0 on      *)
(* p-sections).  The step reports the FIRST i >= 1 with a strict sign      *)
(* change f[i-1] f[i] < 0 and good[i]; a seed on the section (f[0] = 0)    *)
(* and touching points (f = 0) are not crossings; if no such i exists      *)
(* within max_steps the seed has no return.  The crossing time is          *)
(* (i - 1 + alpha) dt with alpha = f[i-1] / (f[i-1] - f[i]).               *)
(***************************************************************************)
EXTENDS Integers, Sequences, TLC

CONSTANTS FVals, MaxLen

VARIABLES f, good       \* f : 0..n -> FVals as a sequence shifted by one (f[1] is the seed)
vars == <<f, good>>

Init == \E n \in 1 .. MaxLen : f \in [1 .. n + 1 -> FVals] /\ good \in [1 .. n -> BOOLEAN]
Next == UNCHANGED vars
Spec == Init /\ [][Next]_vars

N == Len(good)
IsCrossing(i) == f[i] * f[i + 1] < 0 /\ good[i]           \* between state i-1 and state i (1-based shift)
\* transcription of the loop: scan i = 1..N, return at the first crossing
RECURSIVE Scan(_)
Scan(i) == IF i > N THEN 0 ELSE IF IsCrossing(i) THEN i ELSE Scan(i + 1)
Reported == Scan(1)

(* REQUIREMENT (stated without the loop) *)
FirstAdmissibleCrossing ==
    /\ (Reported # 0 => IsCrossing(Reported) /\ \A j \in 1 .. Reported - 1 : ~IsCrossing(j))
    /\ (Reported = 0 => \A j \in 1 .. N : ~IsCrossing(j))
SeedOnSectionIsNotAReturn == (f[1] = 0 /\ Reported = 1) => FALSE
TouchingIsNotACrossing == Reported # 0 => (f[Reported] # 0 /\ f[Reported + 1] # 0)
AlphaInUnitInterval ==
    Reported # 0 => LET a == f[Reported]  b == f[Reported + 1] IN
                    \* alpha = a / (a - b) in (0, 1)  <=>  a and a - b have the same sign and |a| < |a - b|
                    (a * (a - b) > 0 /\ a * a < (a - b) * (a - b))
=============================================================================
