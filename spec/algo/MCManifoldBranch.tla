-------------------------- MODULE MCManifoldBranch --------------------------
EXTENDS ManifoldBranch, Json
MCOutcomes == {"ok", "near1", "near2", "drift", "raise"}
MCBranches == [stable : BOOLEAN, direction : {1, -1}, nfrac : {1, 3}]
ThBranches == [stable : BOOLEAN, direction : {1, -1}, nfrac : {1, 2, 4}]
\* history of outcomes is recoverable from (kept, attempts) only partially; emit script via a history variable
VARIABLE hist
HInit == Init /\ hist = <<>>
HNext == \E o \in Outcomes : Step(o) /\ hist' = Append(hist, o)
HSpec == HInit /\ [][HNext]_<<vars, hist>>
EmitTerminal ==
    (pc = "done") => PrintT(ToJson([br |-> br, script |-> hist, attempts |-> attempts, successes |-> successes, kept |-> kept]))
\* phase index instances
Grids == {5, 9, 17}
Fracs == {<<0, 1>>, <<1, 2>>, <<1, 4>>, <<3, 4>>, <<1, 8>>, <<5, 8>>, <<7, 16>>, <<15, 16>>, <<1, 16>>, <<3, 32>>, <<31, 32>>}
PhaseOK == \A n \in Grids, f \in Fracs : NearestIsWithinHalfStep(n, f[1], f[2])
EmitPhase == (pc = "done" /\ br.nfrac = 1 /\ br.stable /\ br.direction = 1 /\ hist = <<"ok">>) =>
    PrintT(ToJson([phase |-> {<<n, f[1], f[2], Nearest(n, f[1], f[2])>> : n \in Grids, f \in Fracs}]))
=============================================================================
