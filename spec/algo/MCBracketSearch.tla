-------------------------- MODULE MCBracketSearch --------------------------
EXTENDS BracketSearch, Json
AllModes == {"expand-sym", "expand-one", "lift", "lift-sym"}
EmitTerminal == (pc = "done") =>
    PrintT(ToJson([mode |-> mode, land |-> {<<p, land[p]>> : p \in DOMAIN land}, out |-> out]))
=============================================================================
