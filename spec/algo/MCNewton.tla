------------------------------ MODULE MCNewton ------------------------------
EXTENDS Newton, Json

MCVals == {-4, -2, -1, 0, 1, 2, 4}
SmallVals == {-2, 0, 1, 4}

NCfg(st, ma, tl, cp) == [stepper |-> st, maxAttempts |-> ma, tol |-> tl, cap |-> cp, x0 |-> 0]

QuickConfigs == { NCfg(st, ma, tl, cp) : st \in {"plain", "armijo"}, ma \in {0, 1, 2}, tl \in {1, 2}, cp \in {0, 8} }
ThoroughConfigs == { NCfg(st, ma, tl, cp) : st \in {"plain", "armijo"}, ma \in {0, 1, 2, 3}, tl \in {1, 2, 4}, cp \in {0, 4, 8} }
GenConfigs == { NCfg(st, ma, 2, cp) : st \in {"plain", "armijo"}, ma \in {1, 2}, cp \in {0, 8} }

LandJson == [p \in DOMAIN land \ {NanPos} |-> land[p]]
EmitTerminal ==
    (pc = "done") =>
        PrintT(ToJson([cfg |-> cfg, land |-> [p \in DOMAIN LandJson |-> <<p, LandJson[p].t, LandJson[p].v>>],
                       out |-> out]))
=============================================================================
