--------------------------- MODULE Continuation ---------------------------
(***************************************************************************)
(* Predictor-corrector continuation loop of hiten                          *)
(*   src/hiten/algorithms/continuation/backends/pc.py  (run)               *)
(*   stepping/base.py (on_accept/on_reject/_clamp_step), np/base.py,       *)
(*   sc/base.py (_SecantStep.predict), support.py (_VectorSpaceSecant...)  *)
(*                                                                         *)
(* One action per branch of the loop body.  The corrector is the           *)
(* environment: for every prediction it accepts with some drift, rejects   *)
(* (converged = False) or raises.  Parameters are integers (1-D            *)
(* representation, parameter_getter = identity); step magnitudes are       *)
(* powers of two in units of 1.0 so that halving and clamping are exact    *)
(* both here and in binary64.                                              *)
(*                                                                         *)
(* The requirement (property C13) is stated separately from the algorithm  *)
(* (section REQUIREMENT) and TLC checks  algorithm => requirement.         *)
(***************************************************************************)
EXTENDS Integers, Sequences, FiniteSets, TLC

CONSTANTS Configs,      \* set of configuration records explored
          Drifts,       \* drifts the corrector may add to a prediction on accept
          MaxHist       \* bound on the number of corrector calls (state constraint)

VARIABLES cfg,      \* the configuration of this run (constant along a behaviour)
          fam,      \* sequence of accepted member parameters, fam[1] = seed
          step,     \* current signed step
          tan,      \* secant tangent in 1-D: -1, +1, or 0 for "None"
          acc, rej, iters, attempt,
          pc,       \* "predict" | "correct" | "done"
          pred,     \* last prediction handed to the corrector
          failed,   \* gave up after too many retries
          hist      \* sequence of environment outcomes (history variable)

vars == <<cfg, fam, step, tan, acc, rej, iters, attempt, pc, pred, failed, hist>>

Abs(x) == IF x < 0 THEN -x ELSE x
Sign(x) == IF x < 0 THEN -1 ELSE IF x > 0 THEN 1 ELSE 0
Min(a, b) == IF a < b THEN a ELSE b
Max(a, b) == IF a > b THEN a ELSE b
Last(s) == s[Len(s)]

\* stepping/base.py  _clamp_step : sign(v) * clip(|v|, step_min, step_max)
Clamp(c, v) == Sign(v) * Min(Max(Abs(v), c.smin), c.smax)

\* default shrink (step * 0.5) and user shrink policies, on power-of-two
\* magnitudes; a result below one unit is below step_min and gets clamped,
\* so integer division is exact for the clamped value.
Half(v) == Sign(v) * (Abs(v) \div 2)
ShrinkRaw(c, v) ==
    CASE c.policy = "none"    -> Half(v)
      [] c.policy = "raise"   -> Half(v)              \* policy raises -> fallback step * 0.5
      [] c.policy = "quarter" -> Sign(v) * (Abs(v) \div 4)
      [] c.policy = "double"  -> 2 * v                \* a (bad) user policy; clamp still applies
OnReject(c, v) ==
    LET r == ShrinkRaw(c, v)
    IN  \* a magnitude that became 0 by integer division was in (0,1): clamp lifts it to smin
        IF r = 0 THEN Sign(v) * c.smin ELSE Clamp(c, r)

InTarget(c, p) == c.tmin <= p /\ p <= c.tmax

Outcomes == [k : {"acc"}, d : Drifts] \cup {[k |-> "rej", d |-> 0], [k |-> "raise", d |-> 0]}

InitCfg(c) ==
    /\ cfg = c
    /\ fam = <<cfg.seed>>
    /\ step = cfg.step0
    /\ tan = IF cfg.stepper = "secant" THEN Sign(cfg.step0) ELSE 0
    /\ acc = 1 /\ rej = 0 /\ iters = 0 /\ attempt = 0
    /\ pc = IF 1 < cfg.maxMembers THEN "predict" ELSE "done"
    /\ pred = cfg.seed
    /\ failed = FALSE
    /\ hist = <<>>

Init == \E c \in Configs : InitCfg(c)

\* stepper.predict(last, step_vec); iterations += 1
Prediction(c, last, s, t) ==
    IF c.stepper = "natural" THEN last + s
    ELSE IF t = 0 THEN last + Abs(s)          \* tangent None: n[0] += |ds|
    ELSE last + t * Abs(s)

Predict ==
    /\ pc = "predict"
    /\ pred' = Prediction(cfg, Last(fam), step, tan)
    /\ iters' = iters + 1
    /\ pc' = "correct"
    /\ UNCHANGED <<cfg, fam, step, tan, acc, rej, attempt, failed, hist>>

\* corrector converged: append, counters, tangent update, stepper.on_accept, target test
AcceptCore(d) ==
    /\ pc = "correct"
    /\ LET x == pred + d IN
       /\ fam' = Append(fam, x)
       /\ tan' = IF cfg.stepper = "secant" THEN Sign(x - Last(fam)) ELSE tan
       /\ acc' = acc + 1
       /\ attempt' = 0
       /\ pc' = IF ~InTarget(cfg, x) \/ acc + 1 >= cfg.maxMembers THEN "done" ELSE "predict"
    /\ hist' = Append(hist, [k |-> "acc", d |-> d])
    /\ UNCHANGED <<cfg, rej, iters, pred, failed>>

Accept(d) == AcceptCore(d) /\ step' = Clamp(cfg, step)      \* stepper.on_accept: clamp(step_hint)

\* corrector returned converged = False, or raised
RejectCore(kind) ==
    /\ pc = "correct"
    /\ rej' = rej + 1
    /\ attempt' = attempt + 1
    /\ IF attempt + 1 > cfg.maxRetries
         THEN failed' = TRUE /\ pc' = "done"
         ELSE failed' = FALSE /\ pc' = "predict"
    /\ hist' = Append(hist, [k |-> kind, d |-> 0])
    /\ UNCHANGED <<cfg, fam, tan, acc, iters, pred>>

Reject(kind) == RejectCore(kind) /\ step' = OnReject(cfg, step)   \* stepper.on_reject: clamp(shrink(step))

Next ==
    \/ Predict
    \/ \E d \in Drifts : Accept(d)
    \/ Reject("rej")
    \/ Reject("raise")

Spec == Init /\ [][Next]_vars /\ WF_vars(Next)

HistBound == Len(hist) <= MaxHist

(***************************************************************************)
(* REQUIREMENT -- property C13, clause by clause                           *)
(***************************************************************************)
TypeOK ==
    /\ pc \in {"predict", "correct", "done"}
    /\ acc \in Nat /\ rej \in Nat /\ iters \in Nat /\ attempt \in Nat
    /\ failed \in BOOLEAN

\* "The family never exceeds the member limit"
MemberBound == Len(fam) <= Max(cfg.maxMembers, 1)

\* "only the last member may lie outside [the target interval]"
OnlyLastOutsideTarget == \A i \in 1 .. (Len(fam) - 1) : InTarget(cfg, fam[i])

\* "generation stops once a member leaves the target interval"
StopsAfterLeavingTarget == (pc # "done") => InTarget(cfg, Last(fam))

\* "each prediction is offset from the last member by the current step (in the parameter
\*  for natural stepping, along the secant through the last two members for secant stepping)"
PredictionIsOffsetByStep ==
    (pc = "correct") =>
        IF cfg.stepper = "natural" THEN pred = Last(fam) + step
        ELSE IF Len(fam) >= 2 /\ fam[Len(fam)] # fam[Len(fam) - 1]
             THEN pred = Last(fam) + Sign(fam[Len(fam)] - fam[Len(fam) - 1]) * Abs(step)
             ELSE Abs(pred - Last(fam)) = Abs(step)

\* "staying within the configured minimum and maximum magnitudes" (once the stepper has
\* touched the step, i.e. after the first accept or reject)
StepWithinMinMax == (acc + rej > 1) => (cfg.smin <= Abs(step) /\ Abs(step) <= cfg.smax)

\* "After a failed correction the step shrinks" (library policy; a user policy may do otherwise)
ShrinksOnReject ==
    [][ (rej' = rej + 1 /\ cfg.policy # "double") =>
            (Abs(step') < Abs(step) \/ Abs(step') = cfg.smin) ]_vars

\* the step never changes sign
StepKeepsSign == Sign(step) = Sign(cfg.step0)

\* "the run gives up after the configured number of retries"
GivesUpAfterMaxRetries ==
    /\ failed => (attempt = cfg.maxRetries + 1 /\ pc = "done")
    /\ (pc # "done") => attempt <= cfg.maxRetries

\* "the reported accepted and rejected counts equal the events that occurred"
NumAcc == Cardinality({i \in DOMAIN hist : hist[i].k = "acc"})
CountsEqualEvents ==
    /\ acc = Len(fam)
    /\ acc = 1 + NumAcc
    /\ rej = Len(hist) - NumAcc
    /\ iters = Len(hist) + (IF pc = "correct" THEN 1 ELSE 0)

\* every member but the seed is the corrector's answer to a prediction made from its predecessor
\* (checked on traces; in the model it holds by construction)

Terminates == <>(pc = "done")

\* a finished run either hit the member limit, left the target, or gave up
DoneReason ==
    (pc = "done") => \/ acc >= cfg.maxMembers
                     \/ ~InTarget(cfg, Last(fam))
                     \/ failed

(***************************************************************************)
(* Generation of behaviours for replay: every terminal state prints the    *)
(* configuration, the environment script and the expected observable       *)
(* outcome as one JSON line.                                               *)
(***************************************************************************)
=============================================================================
