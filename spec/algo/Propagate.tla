----------------------------- MODULE Propagate -----------------------------
(***************************************************************************)
(* Direction and time-grid plumbing of hiten's propagation entry points     *)
(*   src/hiten/algorithms/dynamics/base.py   _DirectedSystem,               *)
(*                                           _propagate_dynsys              *)
(*   src/hiten/algorithms/integrators/base.py  validate_inputs,             *)
(*                                           _maybe_constant_solution       *)
(*   src/hiten/algorithms/integrators/rk.py  _FixedStepRK/_RK45/_DOP853     *)
(*                                           .integrate (non-event path)    *)
(*   src/hiten/algorithms/integrators/symplectic.py _ExtendedSymplectic     *)
(*   src/hiten/algorithms/types/services/system.py  System.propagate        *)
(*                                                                         *)
(* The plumbing is pure data flow (no loops that matter): which sign the    *)
(* wrapper puts on which component class of the vector field, which grid    *)
(* the integrator is handed, what the integrator does with the direction    *)
(* flag, which sign the entry point puts on the returned time stamps.       *)
(* The flow itself is abstracted to a rotation on Z/M (a "clock"):          *)
(*     Flow(s, k) = (s + k) mod M                                          *)
(* so that "the state the flow had at time -t" is a discrete position, and  *)
(* times are integers in units of one sample spacing ("ticks").  A state    *)
(* has two independent component classes a and b (two clocks) so that       *)
(* selective sign flipping (flip_indices) is observable: class a is the     *)
(* flipped block, class b the rest.                                         *)
(*                                                                         *)
(* Section ALGORITHM transcribes the code stage by stage.  The few places   *)
(* where the unchanged tree and the property disagree are switches of the   *)
(* constant Impl, so that TLC shows (i) the intended plumbing implies the   *)
(* requirement for every configuration and (ii) each as-found plumbing      *)
(* violates exactly the clause the real code violates.                      *)
(* Section REQUIREMENT states property C10 on the observable outcome only.  *)
(***************************************************************************)
EXTENDS Integers, Sequences, FiniteSets, TLC

CONSTANTS Configs,   \* set of configuration records (see MCPropagate)
          Impl       \* [sympSignsTimes, dop853Desc, hamRhsOk, sympConst] plumbing switches

VARIABLES cfg,      \* configuration of this run
          stage,    \* "request" -> "wrapped" -> "called" -> "iret" -> "done"
          wsign,    \* [a, b]: sign the system handed to the integrator puts on the base field, per class
          sysfwd,   \* the `_fwd` attribute the integrator sees on the system (1 when there is none)
          gridIn,   \* time grid handed to Integrator.integrate (ticks)
          iret,     \* what Integrator.integrate returned
          out       \* what the entry point returned

vars == <<cfg, stage, wsign, sysfwd, gridIn, iret, out>>

(* cfg fields:
     entry   "propagate" (_propagate_dynsys) | "system" (System.propagate) | "integrate" (raw integrator)
     method  "fixed" | "adaptive" | "symplectic";   order  4,6,8 | 5,8 | 2,4,6,8
     sys     "rot" (user rhs) | "ham" (polynomial Hamiltonian) | "cr3bp" | "var" (variational, 42-dim)
     wrap    "dir" (a _DirectedSystem is in front of the field) | "raw" (entry = integrate only)
     forward 1 | -1
     flip    "none" | "all" (explicit indices covering every component) | "block" (class a only)
     grid    "asc" | "desc" | "const" | "nonmono";  n  number of samples
     M       clock modulus;  start  initial clock position;  two  TRUE iff class b is observed     *)

Result(r, t, a, b) == [raised |-> r, times |-> t, pa |-> a, pb |-> b]
Raised == Result(TRUE, <<>>, <<>>, <<>>)
Nothing == Result(FALSE, <<>>, <<>>, <<>>)

\* requested grid in ticks
ShapeGrid(shape, n) ==
    CASE shape = "asc"     -> [i \in 1 .. n |-> i - 1]
      [] shape = "desc"    -> [i \in 1 .. n |-> 1 - i]
      [] shape = "const"   -> [i \in 1 .. n |-> 0]
      [] shape = "nonmono" -> [i \in 1 .. n |-> IF i = n THEN n - 3 ELSE i - 1]
      [] shape = "ascnu"   -> [i \in 1 .. n |-> ((i - 1) * i) \div 2]            \* strictly increasing, non-uniform: 0 1 3 6 10
      [] shape = "descnu"  -> [i \in 1 .. n |-> 0 - (((i - 1) * i) \div 2)]

Grid(c) == ShapeGrid(c.grid, c.n)
IsAsc(c) == c.grid \in {"asc", "ascnu"}

Flow(c, s, k) == (s + k) % c.M
Scale(sg, g) == [i \in DOMAIN g |-> sg * g[i]]
FlowSamples(c, sg, g) == [i \in DOMAIN g |-> Flow(c, c.start, sg * (g[i] - g[1]))]
ConstSamples(c, g) == [i \in DOMAIN g |-> c.start]

Ascending(g)  == \A i \in 1 .. (Len(g) - 1) : g[i + 1] > g[i]
Descending(g) == \A i \in 1 .. (Len(g) - 1) : g[i + 1] < g[i]
AllEqual(g)   == \A i \in 1 .. (Len(g) - 1) : g[i + 1] = g[i]

(***************************************************************************)
(* ALGORITHM                                                               *)
(***************************************************************************)
Init ==
    /\ cfg \in Configs
    /\ stage = "request"
    /\ wsign = [a |-> 1, b |-> 1]
    /\ sysfwd = 1
    /\ gridIn = <<>>
    /\ iret = Nothing
    /\ out = Nothing

\* _DirectedSystem.__init__/_build_rhs_impl: fwd = -1 negates the whole field when flip is None,
\* only the listed components otherwise; fwd = +1 changes nothing.
WrapSign(c) == [a |-> c.forward, b |-> IF c.flip = "block" THEN 1 ELSE c.forward]

Wrap ==
    /\ stage = "request"
    /\ IF cfg.wrap = "dir"
         THEN wsign' = WrapSign(cfg) /\ sysfwd' = cfg.forward
         ELSE wsign' = [a |-> 1, b |-> 1] /\ sysfwd' = 1
    /\ stage' = "wrapped"
    /\ UNCHANGED <<cfg, gridIn, iret, out>>

\* _propagate_dynsys: t_eval = linspace(t0, tf, steps); zero-span short-circuit; method dispatch
\* (symplectic requires a Hamiltonian system).  A raw call hands the user's grid over unchanged.
Call ==
    /\ stage = "wrapped"
    /\ LET g == Grid(cfg) IN
       IF cfg.entry # "integrate" /\ Len(g) >= 2 /\ g[1] = g[Len(g)]
         THEN /\ out' = Result(FALSE, Scale(cfg.forward, g), ConstSamples(cfg, g), ConstSamples(cfg, g))
              /\ stage' = "done" /\ UNCHANGED gridIn
       ELSE IF cfg.entry # "integrate" /\ cfg.method = "symplectic" /\ cfg.sys # "ham"
         THEN out' = Raised /\ stage' = "done" /\ UNCHANGED gridIn
       ELSE gridIn' = g /\ stage' = "called" /\ UNCHANGED out
    /\ UNCHANGED <<cfg, wsign, sysfwd, iret>>

\* integrators/base.py validate_inputs
ValidInputs(g) == Len(g) >= 2 /\ (AllEqual(g) \/ Ascending(g) \/ Descending(g))

\* class b is reported as a copy of class a for systems where only one class is observed (~c.two)
FlowSolution(c, ws, g) ==
    Result(FALSE, g, FlowSamples(c, ws.a, g), FlowSamples(c, IF c.two THEN ws.b ELSE ws.a, g))
ConstSolution(c, g) == Result(FALSE, g, ConstSamples(c, g), ConstSamples(c, g))

\* the vector field of a polynomial Hamiltonian system reached through `system.rhs`
\* (directed wrapper, or the constant-solution short-circuit) -- F4 when it cannot be evaluated
NeedsHamRhs(c, g) ==
    /\ c.sys = "ham" /\ c.method # "symplectic"
    /\ \/ c.wrap = "dir"
       \/ AllEqual(g) /\ ~(c.method = "adaptive" /\ c.order = 5)

IntegrateOp(c, ws, sf, g) ==
    IF ~ValidInputs(g) THEN Raised
    ELSE IF NeedsHamRhs(c, g) /\ ~Impl.hamRhsOk THEN Raised
    ELSE CASE c.method = "fixed" ->
                \* _maybe_constant_solution, then one RK step per grid interval with h = t[i+1]-t[i]
                IF AllEqual(g) THEN ConstSolution(c, g) ELSE FlowSolution(c, ws, g)
           [] c.method = "adaptive" /\ c.order = 5 ->
                \* no zero-span short-circuit; `while (t - tf) < 0` never entered unless ascending,
                \* the dense-output loop then divides by a zero segment length
                IF Ascending(g) THEN FlowSolution(c, ws, g) ELSE Raised
           [] c.method = "adaptive" /\ c.order = 8 ->
                IF AllEqual(g) THEN ConstSolution(c, g)
                ELSE IF Ascending(g) THEN FlowSolution(c, ws, g)
                ELSE IF Impl.dop853Desc = "reject" THEN Raised
                ELSE ConstSolution(c, g)           \* as found: hseg == 0 branch copies y0 to every sample
           [] c.method = "symplectic" ->
                IF c.sys # "ham" THEN Raised      \* validate_system: jac_H/clmo_H/n_dof missing
                ELSE IF AllEqual(g) /\ Impl.sympConst = "nan" THEN
                     \* as found: omega = (c*0)^-order = inf, every later sample is NaN (position -1)
                     Result(FALSE, Scale(IF Impl.sympSignsTimes THEN sf ELSE 1, g),
                            [i \in DOMAIN g |-> IF i = 1 THEN c.start ELSE -1],
                            [i \in DOMAIN g |-> IF i = 1 THEN c.start ELSE -1])
                ELSE \* integrates the *base* Hamiltonian over the grid multiplied by `_fwd`;
                     \* the wrapper's field (and therefore flip_indices) is never consulted
                     LET gi == Scale(sf, g) IN
                     Result(FALSE, Scale(IF Impl.sympSignsTimes THEN sf ELSE 1, g),
                            FlowSamples(c, 1, gi), FlowSamples(c, 1, gi))

Integrate ==
    /\ stage = "called"
    /\ iret' = IntegrateOp(cfg, wsign, sysfwd, gridIn)
    /\ stage' = "iret"
    /\ UNCHANGED <<cfg, wsign, sysfwd, gridIn, out>>

\* _propagate_dynsys: times_signed = forward * times.  (System.propagate wraps the result in a
\* Trajectory, which requires strictly monotone times.)
Return ==
    /\ stage = "iret"
    /\ out' = IF iret.raised THEN Raised
              ELSE IF cfg.entry = "integrate" THEN iret
              ELSE [iret EXCEPT !.times = Scale(cfg.forward, iret.times)]
    /\ stage' = "done"
    /\ UNCHANGED <<cfg, wsign, sysfwd, gridIn, iret>>

Next == Wrap \/ Call \/ Integrate \/ Return

Spec == Init /\ [][Next]_vars /\ WF_vars(Next)

Terminates == <>(stage = "done")

(***************************************************************************)
(* REQUIREMENT -- property C10, clause by clause, on `out` only            *)
(***************************************************************************)
Done == stage = "done"

\* what the caller asked for: the direction of time per component class
ReqSign(c) == IF c.wrap = "dir" THEN WrapSign(c) ELSE [a |-> 1, b |-> 1]
ReqPos(c, sg) == FlowSamples(c, sg, Grid(c))

\* combinations the library is expected to serve (anything else may raise, never lie)
Supported(c) ==
    /\ c.n >= 2
    /\ c.method = "symplectic" => c.sys = "ham"

\* time stamps that label the samples truthfully
TimesOK(c, o) ==
    IF c.entry = "integrate"
      THEN o.times = Grid(c) \/ (c.wrap = "dir" /\ o.times = Scale(c.forward, Grid(c)))
      ELSE o.times = Scale(c.forward, Grid(c))

StatesOK(c, o) ==
    /\ o.pa = ReqPos(c, ReqSign(c).a)
    /\ c.two => o.pb = ReqPos(c, ReqSign(c).b)

Correct(c, o) == ~o.raised /\ TimesOK(c, o) /\ StatesOK(c, o)

\* "Propagating with direction -1 for a duration t yields the state the flow had at time -t"
BackwardMeansInverseFlow ==
    (Done /\ cfg.entry # "integrate" /\ cfg.forward = -1 /\ IsAsc(cfg) /\ Supported(cfg)) =>
        /\ ~out.raised
        /\ \A i \in 1 .. cfg.n : out.pa[i] = Flow(cfg, cfg.start, -(i - 1))
        /\ (cfg.two /\ cfg.flip # "block") => \A i \in 1 .. cfg.n : out.pb[i] = Flow(cfg, cfg.start, -(i - 1))
        /\ (cfg.two /\ cfg.flip = "block") => \A i \in 1 .. cfg.n : out.pb[i] = Flow(cfg, cfg.start, i - 1)

\* "a forward propagation followed by a backward one of equal length returns to the starting
\*  state": backward runs that start where the forward twin ended (start = n-1) end at 0
RoundTrip ==
    (Done /\ cfg.entry # "integrate" /\ cfg.forward = -1 /\ IsAsc(cfg) /\ Supported(cfg)
          /\ cfg.start = cfg.n - 1) =>
        /\ ~out.raised
        /\ out.pa[cfg.n] = 0

\* "the returned time stamps are signed consistently (non-positive and decreasing)"
TimesSigned ==
    (Done /\ cfg.entry # "integrate" /\ IsAsc(cfg) /\ ~out.raised) =>
        /\ Len(out.times) = cfg.n
        /\ out.times[1] = 0
        /\ \A i \in 1 .. (cfg.n - 1) : cfg.forward * out.times[i + 1] > cfg.forward * out.times[i]
        /\ cfg.forward = -1 => \A i \in 1 .. cfg.n : out.times[i] <= 0

\* "the first sample is the initial state"
FirstSampleInitial ==
    (Done /\ ~out.raised) =>
        /\ Len(out.pa) >= 1 /\ out.pa[1] = cfg.start
        /\ cfg.two => out.pb[1] = cfg.start

\* "samples are returned exactly at the requested times"
SamplesAtRequestedTimes ==
    (Done /\ ~out.raised /\ IsAsc(cfg)) => Correct(cfg, out)

\* "given a strictly decreasing time grid either integrate it correctly or reject it,
\*  never returning a silently wrong trajectory"  (also: constant and non-monotone grids)
DescendingGridCorrectOrRejected ==
    (Done /\ ~IsAsc(cfg)) => (out.raised \/ Correct(cfg, out))

\* a well-formed request is served ("for every method", "all systems")
WellFormedRequestServed ==
    (Done /\ IsAsc(cfg) /\ Supported(cfg)) => ~out.raised

TypeOK ==
    /\ stage \in {"request", "wrapped", "called", "iret", "done"}
    /\ wsign.a \in {-1, 1} /\ wsign.b \in {-1, 1} /\ sysfwd \in {-1, 1}
    /\ out.raised \in BOOLEAN

\* the wrapper's sign is the requested sign (intermediate-state invariant of the data flow)
WrapperCarriesRequest == (stage \notin {"request"}) => wsign = ReqSign(cfg)
=============================================================================
