--------------------------- MODULE BracketSearch ---------------------------
(***************************************************************************)
(* Bracket expansion used by the libration-point gamma solver and by the   *)
(* centre-manifold section lifting (properties C04, C14)                   *)
(*   src/hiten/algorithms/utils/rootfinding.py   expand_bracket            *)
(*   src/hiten/algorithms/poincare/centermanifold/interfaces.py            *)
(*       solve_missing_coord (positive bracket [0, b], optional negative)  *)
(*                                                                         *)
(* Points live on an integer grid (dx0 = 1, grow = 2, x0 = 0), the         *)
(* function is the environment: its sign class at a point is chosen the    *)
(* first time the point is probed and remembered, so every behaviour       *)
(* corresponds to a genuine function.  Values: -1, 0, +1 (0 = exact zero). *)
(***************************************************************************)
EXTENDS Integers, Sequences, FiniteSets, TLC

CONSTANTS MaxExpand, Modes      \* Modes \subseteq {"expand-sym", "expand-one", "lift", "lift-sym"}

VARIABLES mode, land, k, pc, out
\* land : probed point -> sign ; k : expansion counter ; out : result record
vars == <<mode, land, k, pc, out>>

RECURSIVE Pow2(_)
Pow2(n) == IF n = 0 THEN 1 ELSE 2 * Pow2(n - 1)
Signs == {-1, 0, 1}
Probe(p, s) == /\ s \in Signs
               /\ IF p \in DOMAIN land THEN s = land[p] /\ land' = land ELSE land' = land @@ (p :> s)
NoOut == [kind |-> "pending", a |-> 0, b |-> 0]
Crossing(f0, f1) == f0 * f1 < 0            \* crossing_test used by the gamma solver

Init == /\ mode \in Modes /\ land = <<>> /\ k = 0 /\ pc = "start" /\ out = NoOut

(* ---------------- expand_bracket(f, 0, dx0=1, grow=2, max_expand, symmetric) ---------------- *)
EStart(s) ==
    /\ pc = "start" /\ mode \in {"expand-sym", "expand-one"}
    /\ Probe(0, s)
    /\ IF s = 0 THEN out' = [kind |-> "bracket", a |-> 0, b |-> 0] /\ pc' = "done"     \* |f0| < 1e-14: zero-length bracket
       ELSE out' = out /\ pc' = "right"
    /\ UNCHANGED <<mode, k>>
ERight(s) ==
    /\ pc = "right" /\ k < MaxExpand
    /\ Probe(Pow2(k), s)
    /\ IF Crossing(land[0], s) THEN out' = [kind |-> "bracket", a |-> 0, b |-> Pow2(k)] /\ pc' = "done" /\ k' = k
       ELSE IF mode = "expand-sym" THEN out' = out /\ pc' = "left" /\ k' = k
       ELSE out' = out /\ pc' = "right" /\ k' = k + 1
    /\ UNCHANGED mode
ELeft(s) ==
    /\ pc = "left"
    /\ Probe(-Pow2(k), s)
    /\ IF Crossing(land[0], s) THEN out' = [kind |-> "bracket", a |-> -Pow2(k), b |-> 0] /\ pc' = "done" /\ k' = k
       ELSE out' = out /\ pc' = "right" /\ k' = k + 1
    /\ UNCHANGED mode
ERaise ==
    /\ pc = "right" /\ k >= MaxExpand /\ mode \in {"expand-sym", "expand-one"}
    /\ out' = [kind |-> "raise", a |-> 0, b |-> 0] /\ pc' = "done"
    /\ UNCHANGED <<mode, land, k>>

(* ---------------- solve_missing_coord: residual(0) <= 0 required; [0, b] doubled while r_b <= 0 ---------------- *)
\* initial_guess = 1, expand_factor = 2
LStart(s) ==
    /\ pc = "start" /\ mode \in {"lift", "lift-sym"}
    /\ Probe(0, s)
    /\ IF s > 0 THEN out' = [kind |-> "none-outside", a |-> 0, b |-> 0] /\ pc' = "done"      \* residual(0) > 0: no root
       ELSE out' = out /\ pc' = "pos"
    /\ UNCHANGED <<mode, k>>
LPos(s) ==
    /\ pc = "pos"
    /\ Probe(Pow2(k), s)
    /\ IF s > 0 THEN out' = [kind |-> "brent", a |-> 0, b |-> Pow2(k)] /\ pc' = "done" /\ k' = k
       ELSE IF k < MaxExpand THEN out' = out /\ pc' = "pos" /\ k' = k + 1
       ELSE IF mode = "lift-sym" THEN out' = out /\ pc' = "neg" /\ k' = 0
       ELSE out' = [kind |-> "none", a |-> 0, b |-> 0] /\ pc' = "done" /\ k' = k
    /\ UNCHANGED mode
LNeg(s) ==
    /\ pc = "neg"
    /\ Probe(-Pow2(k), s)
    /\ IF s > 0 THEN out' = [kind |-> "brent", a |-> -Pow2(k), b |-> 0] /\ pc' = "done" /\ k' = k
       ELSE IF k < MaxExpand THEN out' = out /\ pc' = "neg" /\ k' = k + 1
       ELSE out' = [kind |-> "none", a |-> 0, b |-> 0] /\ pc' = "done" /\ k' = k
    /\ UNCHANGED mode

Next == \/ \E s \in Signs : EStart(s) \/ ERight(s) \/ ELeft(s) \/ LStart(s) \/ LPos(s) \/ LNeg(s)
        \/ ERaise
Spec == Init /\ [][Next]_vars /\ WF_vars(Next)

(* REQUIREMENT *)
\* a returned bracket really brackets: its end values satisfy the crossing test (or it is the exact zero)
BracketBrackets ==
    (out.kind = "bracket") => \/ (out.a = out.b /\ land[out.a] = 0)
                              \/ Crossing(land[out.a], land[out.b])
\* the interval handed to Brent has residual <= 0 at the inner end and > 0 at the outer end
BrentIntervalHasSignChange ==
    (out.kind = "brent") => LET inner == IF out.a = 0 THEN out.a ELSE out.b
                                outer == IF out.a = 0 THEN out.b ELSE out.a
                            IN  land[inner] <= 0 /\ land[outer] > 0
\* failure is reported only when no probed point showed what was looked for
RaiseOnlyWithoutCrossing ==
    (out.kind = "raise") => \A p \in DOMAIN land : ~Crossing(land[0], land[p])
NoneOnlyWithoutPositive ==
    (out.kind = "none") => \A p \in DOMAIN land : land[p] <= 0
OutsideOnlyIfPositiveAtZero == (out.kind = "none-outside") => land[0] > 0
\* the first probe (in probe order) that shows the crossing is the one returned: nothing beyond it was probed
NothingProbedBeyondResult ==
    (out.kind \in {"bracket", "brent"}) => \A p \in DOMAIN land : (p >= 0 => p <= (IF out.b > 0 THEN out.b ELSE Pow2(MaxExpand)))
Terminates == <>(pc = "done")
=============================================================================
