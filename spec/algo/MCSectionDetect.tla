-------------------------- MODULE MCSectionDetect --------------------------
(* Model-checking instance of SectionDetect: constant sets, time grids used  *)
(* by the binding, and JSON emission of every pattern for spec -> code       *)
(* replay.                                                                   *)
EXTENDS SectionDetect, Json

\* differences of two values of opposite sign are 2, 4 or 6 and every chord crossing is a
\* multiple of 1/4: hit times and states are exact in binary64
MCVals == {-3, -1, 0, 1, 3}
MCDirs == {-1, 0, 1}
MCRefines == {0, 1, 2, 3}
MCMaxHits == {0, 1, 2}

\* emitted once (empty pattern): the configuration sets the harness crosses every pattern with
EmitHeader ==
    (Len(g) = 0) =>
        PrintT(ToJson([header |-> TRUE, dirs |-> Dirs, refines |-> Refines,
                       maxhits |-> MaxHitsSet,
                       grids |-> [k \in GridKinds |-> [i \in 1 .. 48 |-> Time(k, i)]]]))
EmitPattern == Ready => PrintT(ToJson([g |-> g]))
EmitLong == (Ready /\ Len(g) >= 8) => PrintT(ToJson([g |-> g]))
=============================================================================
