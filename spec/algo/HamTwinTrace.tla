---------------------------- MODULE HamTwinTrace ----------------------------
(***************************************************************************)
(* Twin validation for HamTwin.tla.                                        *)
(*                                                                         *)
(* A twin trace is a pair of event sequences recorded from the real code   *)
(* on the same problem: `gen` from the generic kernel running the Hamilton *)
(* equations as a plain vector field, `ham` from the Hamiltonian path.     *)
(* Both were recorded by running the kernel's py_func with the step        *)
(* kernel, controller helpers, event helpers, dense-output helpers and the *)
(* right-hand side replaced by recording wrappers around the compiled      *)
(* originals.  Every float of the two traces is replaced by its rank in    *)
(* the sorted set of all floats of BOTH traces (ties = bit equality), so   *)
(* two payloads are equal here iff they are bit-identical there, and the   *)
(* order of times is preserved.                                            *)
(*                                                                         *)
(* Acceptance: the two sequences are consumed in lockstep by ONE behaviour *)
(* of the driver of HamTwin -- the l-th events of both must be the same    *)
(* action with the same observations (node time, step size, error norm,    *)
(* accept / reject, crossing flags, refinement result, dense-output        *)
(* arguments, derivative values, final arrays) -- and the kernel each path *)
(* dispatched to must be the one the dispatch table of HamTwin names.      *)
(***************************************************************************)
EXTENDS HamTwin, Json, IOUtils, TLCExt

\* Strict = TRUE : the two paths must agree bit for bit on every observation (rank equality).
\* Strict = FALSE: only the DISCRETE behaviour must agree -- the same sequence of driver actions (attempt,
\*   accept / reject, crossing flag, refinement, helper calls by name, hit / no hit) -- while the driver rules
\*   are evaluated on the generic path's values.  Used to classify a strict rejection: a pair that is
\*   accepted loosely and whose outputs agree to rounding level differs only by floating-point
\*   re-association in one copy, which is still "the same trajectory"; a pair rejected loosely took a
\*   different accept / reject / event decision somewhere.
CONSTANT Strict

Traces == JsonDeserialize(IOEnv.TRACE_FILE)

VARIABLES tid, l
tvars == <<vars, tid, l>>

Tr  == Traces[tid]
GEv == Tr.gen
HEv == Tr.ham
NEv == IF Len(GEv) > Len(HEv) THEN Len(GEv) ELSE Len(HEv)
Reached(n) == TLCSet(tid, IF TLCGet(tid) < n THEN n ELSE TLCGet(tid))

\* order of time on ranks: reversed on a descending grid
Before(a, b) == IF Tr.variant.dir = "gridrev" THEN a > b ELSE a < b

TraceInit ==
    /\ tid \in 1 .. Len(Traces)
    /\ l = 1
    /\ v = Traces[tid].variant
    /\ pc = "start" /\ t = Traces[tid].t0 /\ tn = Traces[tid].t0 /\ h = 0 /\ last = "none"
    /\ nrej = 0 /\ nacc = 0 /\ hit = FALSE /\ thit = 0
    /\ TLCSet(tid, 1)

\* both traces have an l-th event of kind e, and (except for the dispatch record) they are identical
Both(e) == /\ l <= Len(GEv) /\ l <= Len(HEv)
           /\ GEv[l].e = e /\ HEv[l].e = e
           /\ l' = l + 1 /\ tid' = tid
Fld(e, f, dflt) == IF f \in DOMAIN e THEN e[f] ELSE dflt
Discrete(e) == <<e.e, Fld(e, "n", ""), Fld(e, "c", FALSE), Fld(e, "hit", FALSE), Len(Fld(e, "x", <<>>))>>
Same == IF Strict THEN GEv[l] = HEv[l] ELSE Discrete(GEv[l]) = Discrete(HEv[l])
E == GEv[l]

TraceStart ==
    /\ Both("start")
    /\ ValidVariant(v)
    /\ GEv[l].k = Kernel(v, "generic")
    /\ HEv[l].k = Kernel(v, "ham")
    /\ Start

TraceStep ==
    /\ Both("step") /\ Same
    /\ StepCore(E.t, E.h, E.tn, Before)

TraceAccept == Both("acc") /\ Same /\ Accept
TraceReject == Both("rej") /\ Same /\ RejectCore
TraceCross  == Both("cross") /\ Same /\ Cross(E.c)
TraceRefine == Both("refine") /\ Same /\ RefineCore(E.th, Before)

\* helper calls that do not move the driver (rhs, dense output, initial step, clamps): identical in both paths
TraceOther ==
    /\ Both("other") /\ Same
    /\ pc \notin {"start", "done"}
    /\ UNCHANGED vars

\* the loop is over: the end of the last accepted step is not before the end of the grid
\* (fixed grids: one accepted step per grid interval), or an event was located
TraceFinish ==
    /\ Both("finish") /\ Same
    /\ FinishCore(IF Adaptive THEN ~Before(tn, Tr.tf) ELSE nacc = Tr.ngrid - 1)
    /\ E.hit = hit
    /\ hit => E.th = thit

TraceNext ==
    /\ \/ TraceStart \/ TraceStep \/ TraceAccept \/ TraceReject \/ TraceCross
       \/ TraceRefine \/ TraceOther \/ TraceFinish
    /\ Reached(l + 1)

TraceSpec == TraceInit /\ [][TraceNext]_tvars

\* the located event lies inside the step that crossed (order of time as recorded)
HitInsideStepTrace == hit => (Before(t, thit) /\ ~Before(tn, thit))

AllAccepted ==
    LET bad == {x \in 1 .. Len(Traces) : TLCGet(x) # (IF Len(Traces[x].gen) > Len(Traces[x].ham)
                                                      THEN Len(Traces[x].gen) ELSE Len(Traces[x].ham)) + 1}
    IN  PrintT(<<"REJECTED", {<<x, TLCGet(x)>> : x \in bad}>>) /\ bad = {}
=============================================================================
