------------------------------- MODULE Newton -------------------------------
(***************************************************************************)
(* Newton corrector with plain / Armijo step control of hiten              *)
(*   src/hiten/algorithms/corrector/backends/newton.py   (_NewtonBackend.run)*)
(*   src/hiten/algorithms/corrector/stepping/armijo.py   (_ArmijoLineSearch) *)
(*   src/hiten/algorithms/corrector/stepping/plain.py    (_plain_step)      *)
(*                                                                         *)
(* The unknown is one lattice coordinate.  The residual map is the         *)
(* environment: its value at a point is chosen the first time the point is *)
(* evaluated and remembered (`land`), so every behaviour corresponds to a  *)
(* genuine function x |-> r(x).  A value is an integer, NaN, or "raise"    *)
(* (the residual evaluation throws).  The Jacobian is the constant 1/4, so *)
(* the Newton update is delta = -4 r(x); with |r| a power of two and       *)
(* alpha in {1, 1/2, 1/4} every trial point is an integer and every        *)
(* comparison below is exact in binary64 as well.                          *)
(*                                                                         *)
(* One action per residual evaluation / stepper return / exit of run().    *)
(***************************************************************************)
EXTENDS Integers, Sequences, FiniteSets, TLC

CONSTANTS Configs,   \* records [stepper, maxAttempts, tol, cap, x0]; cap = 0 means "no cap"
          Vals       \* integer residual values the environment may choose

VARIABLES cfg, x, k, land, pc,
          delta,     \* capped Newton update (integer, or NanD)
          cur,       \* residual norm at x (integer or NanN)
          a,         \* Armijo: current alpha = 2^-a
          best,      \* Armijo: <<>> or <<xt, norm, a>> best non-Armijo trial so far
          pend,      \* <<>> or <<xnew, a>>: update chosen by the stepper, not yet returned
          out        \* [kind |-> "none"|"returned"|"conv"|"other", x, norm, iters]

vars == <<cfg, x, k, land, pc, delta, cur, a, best, pend, out>>

NanPos == 99999      \* the position "NaN"
NanN == -1           \* the norm "NaN"
NanD == 88888        \* the update "NaN"
MaxA == 2            \* min_alpha = 1/4, alpha_reduction = 1/2  ->  alpha in {1, 1/2, 1/4}

Abs(v) == IF v < 0 THEN -v ELSE v
Pow2(n) == IF n = 0 THEN 1 ELSE IF n = 1 THEN 2 ELSE IF n = 2 THEN 4 ELSE 8

V(v) == [t |-> "v", v |-> v]
NaNV == [t |-> "nan", v |-> 0]
RaiseV == [t |-> "raise", v |-> 0]
AllVals == {V(v) : v \in Vals} \cup {NaNV, RaiseV}

NormOf(val) == IF val.t = "nan" THEN NanN ELSE Abs(val.v)
Lt(n, m) == n # NanN /\ m # NanN /\ n < m          \* IEEE: comparisons with NaN are false
Le(n, m) == n # NanN /\ m # NanN /\ n <= m

\* residual evaluation at p: remembered value, or a fresh environment choice
Eval(p, val) ==
    /\ val \in AllVals
    /\ IF p \in DOMAIN land THEN val = land[p] /\ land' = land
       ELSE land' = land @@ (p :> val)

\* Newton update from the residual value, then the step cap (inf-norm) of the stepper
RawDelta(val) == IF val.t = "nan" THEN NanD ELSE -4 * val.v
Cap(d) == IF d = NanD \/ cfg.cap = 0 THEN d
          ELSE IF Abs(d) > cfg.cap THEN (IF d < 0 THEN -cfg.cap ELSE cfg.cap) ELSE d
Move(p, d, aa) == IF p = NanPos \/ d = NanD THEN NanPos ELSE p + d \div Pow2(aa)

\* Armijo sufficient decrease  norm_trial <= (1 - c*alpha) * current_norm,  c = 1/2, alpha = 2^-aa
Armijo(nt, aa, c0) == nt # NanN /\ c0 # NanN /\ nt * Pow2(aa + 1) <= (Pow2(aa + 1) - 1) * c0

NoOut == [kind |-> "none", x |-> 0, norm |-> 0, iters |-> 0]

InitCfg(c) ==
    /\ cfg = c
    /\ x = c.x0 /\ k = 0
    /\ land = (NanPos :> NaNV)
    /\ pc = "top"
    /\ delta = 0 /\ cur = 0 /\ a = 0 /\ best = <<>> /\ pend = <<>>
    /\ out = NoOut

Init == \E c \in Configs : InitCfg(c)

Finish(kind, xx, nn, it) ==
    /\ out' = [kind |-> kind, x |-> xx, norm |-> nn, iters |-> it]
    /\ pc' = "done"

\* loop head: r = residual(x); converged?  else Newton update and enter the stepper
Top(val) ==
    /\ pc = "top" /\ k < cfg.maxAttempts
    /\ Eval(x, val)
    /\ IF val.t = "raise" THEN
            Finish("other", x, 0, k) /\ UNCHANGED <<delta, cur, a, best, pend>>
       ELSE IF Lt(NormOf(val), cfg.tol) THEN
            Finish("returned", x, NormOf(val), k) /\ UNCHANGED <<delta, cur, a, best, pend>>
       ELSE /\ delta' = Cap(RawDelta(val))
            /\ cur' = NormOf(val)
            /\ a' = 0 /\ best' = <<>> /\ pend' = <<>>
            /\ pc' = IF cfg.stepper = "armijo" THEN "ls" ELSE "plain"
            /\ out' = out
    /\ UNCHANGED <<cfg, x, k>>

\* plain stepper: x + delta, residual evaluated once there (an exception becomes ConvergenceError)
Plain(val) ==
    /\ pc = "plain"
    /\ LET xn == Move(x, delta, 0) IN
       /\ Eval(xn, val)
       /\ IF val.t = "raise" THEN Finish("conv", x, 0, k) /\ pend' = pend
          ELSE pend' = <<xn, 0>> /\ pc' = "ret" /\ out' = out
    /\ UNCHANGED <<cfg, x, k, delta, cur, a, best>>

\* one backtracking trial at alpha = 2^-a
LsTrial(val) ==
    /\ pc = "ls" /\ a <= MaxA
    /\ LET xt == Move(x, delta, a)
           nt == NormOf(val) IN
       /\ Eval(xt, val)
       /\ IF val.t = "raise" THEN
               a' = a + 1 /\ UNCHANGED <<best, pend, pc>>
          ELSE IF Armijo(nt, a, cur) THEN
               pend' = <<xt, a>> /\ pc' = "ret" /\ UNCHANGED <<a, best>>
          ELSE /\ best' = IF Lt(nt, IF best = <<>> THEN cur ELSE best[2]) THEN <<xt, nt, a>> ELSE best
               /\ a' = a + 1 /\ UNCHANGED <<pend, pc>>
    /\ UNCHANGED <<cfg, x, k, delta, cur, out>>

\* the stepper returns its update to run():  x = x_new
StepReturn ==
    /\ \/ pc = "ret" /\ x' = pend[1]
       \/ pc = "ls" /\ a > MaxA /\ best # <<>> /\ x' = best[1]      \* fallback to the best trial
    /\ k' = k + 1
    /\ pc' = "top"
    /\ pend' = <<>>
    /\ UNCHANGED <<cfg, land, delta, cur, a, best, out>>

\* line search found nothing that reduces the residual: BackendError -> ConvergenceError
LsFail ==
    /\ pc = "ls" /\ a > MaxA /\ best = <<>>
    /\ Finish("conv", x, 0, k)
    /\ UNCHANGED <<cfg, x, k, land, delta, cur, a, best, pend>>

\* after max_attempts updates: final residual check
Final(val) ==
    /\ pc = "top" /\ k >= cfg.maxAttempts
    /\ Eval(x, val)
    /\ IF val.t = "raise" THEN Finish("other", x, 0, k)
       ELSE IF Lt(NormOf(val), cfg.tol) THEN Finish("returned", x, NormOf(val), cfg.maxAttempts)
       ELSE Finish("conv", x, NormOf(val), k)
    /\ UNCHANGED <<cfg, x, k, delta, cur, a, best, pend>>

Next ==
    \/ \E val \in AllVals : Top(val) \/ Plain(val) \/ LsTrial(val) \/ Final(val)
    \/ StepReturn
    \/ LsFail

Spec == Init /\ [][Next]_vars /\ WF_vars(Next)

(***************************************************************************)
(* REQUIREMENT -- the solver clauses of property C05                       *)
(***************************************************************************)
NormAt(p) == NormOf(land[p])

\* "Whenever correction reports success ... the constraint residual is below tolerance"
ReturnImpliesBelowTol ==
    (out.kind = "returned") =>
        /\ out.x \in DOMAIN land
        /\ land[out.x].t = "v"
        /\ Lt(NormAt(out.x), cfg.tol)
        /\ out.norm = NormAt(out.x)

\* "If the iteration cannot meet the tolerance it raises an error and never hands back an
\*  unconverged state": every terminal state is a converged return or a raise
NeverReturnsUnconverged ==
    (pc = "done") => (out.kind \in {"returned", "conv", "other"}
                      /\ (out.kind = "returned" => Lt(out.norm, cfg.tol)))

\* "with line search enabled the residual norm never increases from one iterate to the next"
MonotoneUnderLineSearch ==
    [][ (cfg.stepper = "armijo" /\ x' # x) => Le(NormAt(x'), NormAt(x)) ]_vars

\* stronger fact the algorithm gives: strict decrease
StrictDecreaseUnderLineSearch ==
    [][ (cfg.stepper = "armijo" /\ x' # x) => Lt(NormAt(x'), NormAt(x)) ]_vars

\* "no update exceeds the configured step cap"
StepWithinCap ==
    [][ (cfg.cap # 0 /\ x' # x /\ x' # NanPos /\ x # NanPos) => Abs(x' - x) <= cfg.cap ]_vars

\* iteration count never exceeds the iteration cap
IterationBound == k <= cfg.maxAttempts /\ out.iters <= cfg.maxAttempts

Terminates == <>(pc = "done")
=============================================================================
