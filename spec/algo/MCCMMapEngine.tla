--------------------------- MODULE MCCMMapEngine ---------------------------
EXTENDS CMMapEngine, Json
\* return maps on points 1..P (P = S + 2): all functions is too many; a family with failures, fixed points, merges
P == S + 2
F(a) == [x \in 1 .. P |-> a[x]]
Cands == { [x \in 1 .. P |-> IF x = d THEN 0 ELSE IF x = e THEN 0 ELSE ((x * m + c) % P) + 1] :
           d \in 0 .. P, e \in {0, 2}, m \in {1, 2, 3, 5}, c \in {0, 1} }
\* distinct points have distinct returns (the flow is invertible)
MCRets == { f \in Cands : \A x, y \in 1 .. P : (x # y /\ f[x] # 0 /\ f[y] # 0) => f[x] # f[y] }
SchedRets == {[x \in 1 .. P |-> 1]}
EmitSchedule == gathered => PrintT(ToJson([W |-> W, order |-> order, nonempty |-> {w \in 1 .. W : Len(chunk[w]) > 0}]))
=============================================================================
