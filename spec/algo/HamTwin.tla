------------------------------- MODULE HamTwin -------------------------------
(***************************************************************************)
(* Property C17, second sentence: integrating a polynomial Hamiltonian     *)
(* system yields the same trajectory, derivatives and event results as     *)
(* integrating the same Hamilton equations supplied as a generic vector    *)
(* field, for every integrator family, order, event configuration and      *)
(* direction.                                                              *)
(*                                                                         *)
(*   src/hiten/algorithms/integrators/rk.py                                *)
(*      _FixedStepRK.integrate / _RK45.integrate / _DOP853.integrate       *)
(*      (isinstance(system, _HamiltonianSystemProtocol) dispatch) and the  *)
(*      kernels  _integrate_fixed_rk[_until_event][_ham],                  *)
(*               _integrate_rk45[_until_event][_ham],                      *)
(*               _integrate_dop853[_until_event][_ham]                     *)
(*   src/hiten/algorithms/integrators/symplectic.py                        *)
(*      _integrate_symplectic[_until_event]                                *)
(*                                                                         *)
(* hiten carries a hand-copied `_ham` twin of every driver.  The model has *)
(* ONE driver (section ALGORITHM): a step loop whose environment is the    *)
(* step kernel + controller (accept / reject), the event function          *)
(* (crossed / not crossed) and the refinement (hit time).  The VARIANT     *)
(* space and the DISPATCH table say which kernel of the code plays the     *)
(* driver for which (variant, path).  The twin requirement is that the     *)
(* generic path and the Hamiltonian path are accepted by ONE behaviour of  *)
(* this driver with identical observations (HamTwinTrace); the invariants  *)
(* below are what every behaviour of the driver satisfies.                 *)
(***************************************************************************)
EXTENDS Integers, Sequences, FiniteSets, TLC

CONSTANTS Families,     \* subset of {"fixed", "adaptive", "symplectic"}
          TF,           \* model time runs over ticks 0 .. TF
          MaxRej        \* bound on consecutive rejections explored

(****************************** variant space ******************************)
OrdersOf(f) == CASE f = "fixed" -> {4, 6, 8}
                 [] f = "adaptive" -> {5, 8}
                 [] f = "symplectic" -> {2, 4, 6}
\* "fwd": ascending grid; "gridrev": descending grid (fixed step only: the adaptive drivers do not support
\* decreasing grids, property C10); "directed": the library's own backward mechanism, _DirectedSystem(sys, -1)
DirsOf(f) == CASE f = "fixed" -> {"fwd", "gridrev", "directed"}
               [] f = "adaptive" -> {"fwd", "directed"}
               [] f = "symplectic" -> {"fwd", "directed"}
Variants == {[family |-> f, order |-> o, event |-> e, dir |-> d] :
                f \in Families, o \in UNION {OrdersOf(g) : g \in Families}, e \in BOOLEAN,
                d \in {"fwd", "gridrev", "directed"}}
ValidVariant(v) == v.order \in OrdersOf(v.family) /\ v.dir \in DirsOf(v.family)
Paths == {"generic", "ham"}
\* the symplectic scheme exists for Hamiltonian systems only
HasPath(v, path) == path = "ham" \/ v.family # "symplectic"

(******************************** dispatch *********************************)
\* isinstance(system, _HamiltonianSystemProtocol): true for a _HamiltonianSystem, false for the
\* _DirectedSystem wrapper around it (the wrapper forwards attributes through __getattr__, which the
\* runtime protocol check does not see), so a directed Hamiltonian system runs the generic kernels on
\* hamsys.rhs -- which therefore has to be evaluable.
TakesHamKernel(v, path) == path = "ham" /\ (v.family = "symplectic" \/ v.dir # "directed")
BaseKernel(v) ==
    CASE v.family = "fixed" -> "_integrate_fixed_rk"
      [] v.family = "adaptive" /\ v.order = 5 -> "_integrate_rk45"
      [] v.family = "adaptive" /\ v.order = 8 -> "_integrate_dop853"
      [] v.family = "symplectic" -> "_integrate_symplectic"
Kernel(v, path) ==
    BaseKernel(v) \o (IF v.event THEN "_until_event" ELSE "")
                  \o (IF TakesHamKernel(v, path) /\ v.family # "symplectic" THEN "_ham" ELSE "")
\* does the path evaluate the public hamsys.rhs (and hence need it to be evaluable)?
NeedsPublicRhs(v, path) == path = "ham" /\ ~TakesHamKernel(v, path)

(******************************** ALGORITHM ********************************)
VARIABLES v,        \* the variant (constant along a behaviour)
          pc,       \* "start" | "loop" | "stepped" | "check" | "confirm" | "refine" | "fin" | "done"
          t,        \* time of the last attempted step (tick)
          tn,       \* end of the last attempted step
          h,        \* its size
          last,     \* "none" | "acc" | "rej": outcome of the previous attempt
          nrej,     \* consecutive rejections
          nacc,     \* accepted steps
          hit,      \* an event was located
          thit      \* its time
vars == <<v, pc, t, tn, h, last, nrej, nacc, hit, thit>>

Adaptive == v.family = "adaptive"

Init ==
    /\ v \in {x \in Variants : ValidVariant(x)}
    /\ pc = "start" /\ t = 0 /\ tn = 0 /\ h = 0 /\ last = "none"
    /\ nrej = 0 /\ nacc = 0 /\ hit = FALSE /\ thit = 0

Start == pc = "start" /\ pc' = "loop" /\ UNCHANGED <<v, t, tn, h, last, nrej, nacc, hit, thit>>

\* what an attempted step must look like given the previous one.  `before` is the order of time
\* (< on model ticks; on recorded traces the order of the rank-abstracted floats, reversed for descending grids).
StepOK(tc, hc, before(_, _)) ==
    /\ last = "none" => tc = t
    /\ last = "acc"  => before(t, tc) /\ tc = tn
    /\ last = "rej"  => tc = t /\ hc < h

\* the step kernel is called at time tc with size hc; tnn is the value of tc + hc the driver works with
StepCore(tc, hc, tnn, before(_, _)) ==
    /\ pc = "loop"
    /\ StepOK(tc, hc, before)
    /\ before(tc, tnn)
    /\ t' = tc /\ h' = hc /\ tn' = tnn
    /\ IF Adaptive THEN pc' = "stepped" /\ UNCHANGED <<last, nacc, nrej>>
       ELSE /\ last' = "acc" /\ nacc' = nacc + 1 /\ nrej' = 0          \* fixed grids never reject
            /\ pc' = IF v.event THEN "check" ELSE "loop"
    /\ UNCHANGED <<v, hit, thit>>

Less(a, b) == a < b
Step(hc) ==
    LET tc == IF last = "acc" THEN tn ELSE t
    IN  /\ tc < TF /\ hc >= 1 /\ tc + hc <= TF
        /\ (~Adaptive) => hc = 1                          \* one grid interval per step
        /\ StepCore(tc, hc, tc + hc, Less)

\* _pi_accept_factor is evaluated: in the plain adaptive drivers this IS the acceptance; in the adaptive event
\* drivers the step was already accepted when the event function was tested (Cross) and this only confirms it
Accept ==
    \/ /\ pc = "stepped" /\ ~v.event
       /\ last' = "acc" /\ nacc' = nacc + 1 /\ nrej' = 0 /\ pc' = "loop"
       /\ UNCHANGED <<v, t, tn, h, hit, thit>>
    \/ /\ pc = "confirm" /\ pc' = "loop"
       /\ UNCHANGED <<v, t, tn, h, last, nrej, nacc, hit, thit>>

RejectCore ==
    /\ pc = "stepped"
    /\ last' = "rej" /\ nrej' = nrej + 1 /\ pc' = "loop"
    /\ UNCHANGED <<v, t, tn, h, nacc, hit, thit>>
Reject == nrej < MaxRej /\ h > 1 /\ RejectCore

\* the event function is compared across the accepted step
Cross(c) ==
    \/ /\ pc = "check"                                     \* fixed grids
       /\ pc' = (IF c THEN "refine" ELSE "loop")
       /\ UNCHANGED <<v, t, tn, h, last, nrej, nacc, hit, thit>>
    \/ /\ pc = "stepped" /\ v.event                         \* adaptive: err_norm <= 1, the step is accepted
       /\ last' = "acc" /\ nacc' = nacc + 1 /\ nrej' = 0
       /\ pc' = (IF c THEN "refine" ELSE "confirm")
       /\ UNCHANGED <<v, t, tn, h, hit, thit>>

\* the located event lies in (t, tn]
RefineCore(th, before(_, _)) ==
    /\ pc = "refine" /\ before(t, th) /\ ~before(tn, th)
    /\ hit' = TRUE /\ thit' = th /\ pc' = "fin"
    /\ UNCHANGED <<v, t, tn, h, last, nrej, nacc>>
Refine(th) == RefineCore(th, Less)

\* the loop ends after a located event, or when an accepted step reached the end of the grid
FinishCore(atEnd) ==
    /\ \/ pc = "fin"
       \/ pc = "loop" /\ last = "acc" /\ atEnd
    /\ pc' = "done"
    /\ UNCHANGED <<v, t, tn, h, last, nrej, nacc, hit, thit>>
Finish == FinishCore(tn = TF)

Next ==
    \/ Start
    \/ \E hc \in 1 .. TF : Step(hc)
    \/ Accept \/ Reject
    \/ \E c \in BOOLEAN : Cross(c)
    \/ \E th \in 0 .. TF : Refine(th)
    \/ Finish

Spec == Init /\ [][Next]_vars /\ WF_vars(Next)

(******************************* REQUIREMENT *******************************)
TypeOK ==
    /\ pc \in {"start", "loop", "stepped", "check", "confirm", "refine", "fin", "done"}
    /\ last \in {"none", "acc", "rej"} /\ hit \in BOOLEAN
\* every variant has a Hamiltonian path; every variant but the symplectic ones has a generic twin,
\* and the two paths run different kernels exactly when the code dispatches on the protocol
DispatchTotal ==
    /\ HasPath(v, "ham")
    /\ (v.family # "symplectic") => HasPath(v, "generic")
    /\ (v.family # "symplectic" /\ v.dir # "directed") => Kernel(v, "ham") = Kernel(v, "generic") \o "_ham"
    /\ (v.dir = "directed" /\ v.family # "symplectic") => Kernel(v, "ham") = Kernel(v, "generic") /\ NeedsPublicRhs(v, "ham")
NoStepAfterEvent == hit => pc \in {"fin", "done"}
EndsAtTfOrEvent  == (pc = "done") => (hit \/ tn = TF)
HitInsideStep    == hit => (t < thit /\ thit <= tn)
OnlyAdaptiveRejects == (~Adaptive) => (nrej = 0 /\ last # "rej")
EventsOnlyWhenAsked == (~v.event) => ~hit
TimeAdvances == [][t' >= t /\ (last' = "acc" /\ last = "acc" => tn' >= tn)]_vars
Terminates == <>(pc = "done")
=============================================================================
