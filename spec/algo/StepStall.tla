------------------------------ MODULE StepStall ------------------------------
(***************************************************************************)
(* TERMINATION of the adaptive step loop of hiten                          *)
(*   src/hiten/algorithms/integrators/rk.py                                *)
(*       _integrate_rk45, _integrate_rk45_ham, _integrate_dop853,          *)
(*       _integrate_dop853_ham and the four *_until_event drivers          *)
(*           while t < tf:                                                 *)
(*               h = _clamp_step(h, max_step, min_step)                    *)
(*               h = _adjust_step_to_endpoint(t, h, tf)                    *)
(*               ... error test ...                                        *)
(*               accept: t += h ; h *= factor                              *)
(*               reject: h *= factor(<1) ; h = _clamp_step(h, ...)         *)
(*                                                                         *)
(* StepDriver.tla decides the safety clauses of the driver under the       *)
(* environment assumption "a rejected step is retried with a strictly      *)
(* smaller step".  This module drops that assumption and asks the          *)
(* question it hides: does the loop always come to an end?                 *)
(*                                                                         *)
(* Environment: the error test is monotone in the step size -- an attempt  *)
(* with step <= hok passes, a larger one fails (hok = the largest step the *)
(* requested tolerance allows on this problem; hok = 0: the error estimate *)
(* is not finite, nothing passes).  Everything else is the code.           *)
(*                                                                         *)
(* Variant RaiseOnUnderflow = FALSE is the loop as written before the      *)
(* repair: a step rejected at h = min_step is clamped back to min_step and *)
(* retried for ever (TLC: Terminates violated by a stuttering lasso).      *)
(* Variant TRUE raises when the rejected attempt was already at (or below) *)
(* min_step; TLC proves Terminates and FailsOnlyIfUnreachable.             *)
(***************************************************************************)
EXTENDS Integers

CONSTANTS Configs,            \* set of [tf, hmin, hmax, h0, hok]
          Shrink, Grow,       \* controller factors <<num, den>> after a reject / an accept
          RaiseOnUnderflow

VARIABLES cfg, pc, t, h, nacc
vars == <<cfg, pc, t, h, nacc>>

Times(x, f) == (x * f[1]) \div f[2]
ClampH(c, x) == LET y == IF x > c.hmax THEN c.hmax ELSE x IN IF y < c.hmin THEN c.hmin ELSE y

Init == /\ cfg \in Configs /\ pc = "top" /\ t = 0 /\ h = cfg.h0 /\ nacc = 0

\* the step that is attempted: clamp, then truncate at the end point (may be shorter than hmin)
Attempt == LET hc == ClampH(cfg, h) IN IF t + hc > cfg.tf THEN cfg.tf - t ELSE hc

Accept ==
    /\ pc = "top" /\ t < cfg.tf /\ Attempt <= cfg.hok
    /\ t' = t + Attempt /\ nacc' = nacc + 1
    /\ \E f \in Grow : h' = Times(Attempt, f)
    /\ UNCHANGED <<cfg, pc>>

Reject ==
    /\ pc = "top" /\ t < cfg.tf /\ Attempt > cfg.hok
    /\ IF RaiseOnUnderflow /\ Attempt <= cfg.hmin
         THEN pc' = "failed" /\ UNCHANGED <<cfg, t, h, nacc>>
         ELSE /\ \E f \in Shrink : h' = ClampH(cfg, Times(Attempt, f))
              /\ UNCHANGED <<cfg, pc, t, nacc>>

Exit == /\ pc = "top" /\ t >= cfg.tf /\ pc' = "done" /\ UNCHANGED <<cfg, t, h, nacc>>

Next == Accept \/ Reject \/ Exit
Spec == Init /\ [][Next]_vars /\ WF_vars(Next)

(***************************************************************************)
(* REQUIREMENT                                                             *)
(***************************************************************************)
\* "an adaptive integrator RETURNS ..." : the loop ends, by reaching tf or by raising
Terminates == <>(pc \in {"done", "failed"})
\* it gives up only when the tolerance cannot be met with the smallest admissible step
FailsOnlyIfUnreachable == (pc = "failed") => cfg.hok < cfg.hmin
\* and it does not give up when it can be met
ReachableImpliesDone == <>(pc = "done") \/ cfg.hok < cfg.hmin
\* it never steps past the end point and every accepted step passed the error test (by construction of Accept)
NeverPastEnd == t <= cfg.tf
=============================================================================
