------------------------------ MODULE MCHamTwin ------------------------------
(* Model-checking instance of HamTwin: constants and the JSON emission of    *)
(* the variant space with the dispatch table (one record per initial state). *)
EXTENDS HamTwin, Json

EmitVariant ==
    (pc = "start") =>
        PrintT(ToJson([variant |-> v,
                       kernel |-> [generic |-> IF HasPath(v, "generic") THEN Kernel(v, "generic") ELSE "none",
                                   ham |-> Kernel(v, "ham")],
                       hamkernel |-> TakesHamKernel(v, "ham"),
                       publicrhs |-> NeedsPublicRhs(v, "ham")]))
=============================================================================
