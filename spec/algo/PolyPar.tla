------------------------------- MODULE PolyPar -------------------------------
(***************************************************************************)
(* The parallel accumulation scheme of hiten's polynomial kernels          *)
(*   src/hiten/algorithms/polynomial/algebra.py  _poly_mul, _poly_diff     *)
(*                                                                         *)
(*     nT = get_num_threads();  scratch = zeros((nT, out_len))             *)
(*     for i in prange(n):                                                 *)
(*         tid = get_thread_id()                                           *)
(*         ...  scratch[tid, idx] += contribution      (non-atomic  +=)    *)
(*     r = zeros(out_len);  for tid in range(nT): r += scratch[tid]        *)
(*                                                                         *)
(* One model iteration is one `+=`: it adds Val[i] to output slot Slot[i]. *)
(* Iterations are handed to threads by an ARBITRARY schedule (any idle     *)
(* thread may take any pending iteration: every static or dynamic chunking *)
(* is a behaviour), and `+=` is split into Read and Write so that every    *)
(* interleaving of the threads is explored.                                *)
(*                                                                         *)
(* Shared = FALSE is the code (row = thread id).  Shared = TRUE is the     *)
(* seeded mistake "all threads accumulate into row 1"; TLC must find lost  *)
(* updates there, which shows the invariants are not vacuous.              *)
(*                                                                         *)
(* REQUIREMENT (property C06, last sentence): the result does not depend   *)
(* on the number of threads or on the schedule: ResultIsSum.               *)
(***************************************************************************)
EXTENDS Integers, Sequences, FiniteSets, TLC

CONSTANTS T,        \* number of threads = rows of scratch
          NI,       \* number of iterations
          NS,       \* number of output slots
          Slot,     \* <<slot of iteration 1, ...>>
          Val,      \* <<contribution of iteration 1, ...>> (distinct powers of two: a sum identifies its terms)
          Shared,   \* BOOLEAN
          Record    \* BOOLEAN: keep the schedule as a history variable (generation runs only)

Threads == 1 .. T
Iters   == 1 .. NI
Slots   == 1 .. NS

VARIABLES scratch,  \* [Threads -> [Slots -> Int]]
          todo,     \* iterations not yet handed out
          cur,      \* [Threads -> Iters \cup {0}] iteration a thread is executing
          tmp,      \* [Threads -> Int] value read by the pending +=
          pc,       \* [Threads -> {"idle", "read", "write"}]
          phase,    \* "par" | "reduce" | "done"
          red,      \* next scratch row to add into the result
          res,      \* [Slots -> Int]
          wrote,    \* ghost: [row -> set of threads that wrote into that row]
          sched     \* history (Record only): sequence of <<iteration, thread>> in order of completion
vars == <<scratch, todo, cur, tmp, pc, phase, red, res, wrote, sched>>

RowOf(t) == IF Shared THEN 1 ELSE t

Init ==
    /\ scratch = [t \in Threads |-> [s \in Slots |-> 0]]
    /\ todo = Iters
    /\ cur = [t \in Threads |-> 0]
    /\ tmp = [t \in Threads |-> 0]
    /\ pc = [t \in Threads |-> "idle"]
    /\ phase = "par" /\ red = 1
    /\ res = [s \in Slots |-> 0]
    /\ wrote = [t \in Threads |-> {}]
    /\ sched = <<>>

\* the schedule hands iteration i to thread t
Take(t, i) ==
    /\ phase = "par" /\ pc[t] = "idle" /\ i \in todo
    /\ todo' = todo \ {i}
    /\ cur' = [cur EXCEPT ![t] = i]
    /\ pc' = [pc EXCEPT ![t] = "read"]
    /\ UNCHANGED <<scratch, tmp, phase, red, res, wrote, sched>>

\* first half of  scratch[tid, idx] += v
Read(t) ==
    /\ pc[t] = "read"
    /\ tmp' = [tmp EXCEPT ![t] = scratch[RowOf(t)][Slot[cur[t]]]]
    /\ pc' = [pc EXCEPT ![t] = "write"]
    /\ UNCHANGED <<scratch, todo, cur, phase, red, res, wrote, sched>>

\* second half
Write(t) ==
    /\ pc[t] = "write"
    /\ scratch' = [scratch EXCEPT ![RowOf(t)][Slot[cur[t]]] = tmp[t] + Val[cur[t]]]
    /\ wrote' = [wrote EXCEPT ![RowOf(t)] = @ \cup {t}]
    /\ sched' = IF Record THEN Append(sched, <<cur[t], t>>) ELSE sched
    /\ cur' = [cur EXCEPT ![t] = 0]
    /\ pc' = [pc EXCEPT ![t] = "idle"]
    /\ UNCHANGED <<todo, tmp, phase, red, res>>

\* end of the parallel region
Join ==
    /\ phase = "par" /\ todo = {} /\ \A t \in Threads : pc[t] = "idle"
    /\ phase' = "reduce"
    /\ UNCHANGED <<scratch, todo, cur, tmp, pc, red, res, wrote, sched>>

\* r += scratch[tid], sequentially
Reduce ==
    /\ phase = "reduce" /\ red <= T
    /\ res' = [s \in Slots |-> res[s] + scratch[red][s]]
    /\ red' = red + 1
    /\ phase' = IF red = T THEN "done" ELSE "reduce"
    /\ UNCHANGED <<scratch, todo, cur, tmp, pc, wrote, sched>>

Next ==
    \/ \E t \in Threads, i \in Iters : Take(t, i)
    \/ \E t \in Threads : Read(t) \/ Write(t)
    \/ Join
    \/ Reduce

Spec == Init /\ [][Next]_vars /\ WF_vars(Next)

(******************************* requirement ********************************)
RECURSIVE SumIters(_, _)
SumIters(S, s) ==          \* sum of Val[i] over i in S with Slot[i] = s
    IF S = {} THEN 0
    ELSE LET i == CHOOSE x \in S : TRUE
         IN  (IF Slot[i] = s THEN Val[i] ELSE 0) + SumIters(S \ {i}, s)
RECURSIVE SumRows(_, _)
SumRows(n, s) == IF n = 0 THEN 0 ELSE scratch[n][s] + SumRows(n - 1, s)

TypeOK ==
    /\ phase \in {"par", "reduce", "done"}
    /\ todo \subseteq Iters
    /\ \A t \in Threads : pc[t] \in {"idle", "read", "write"} /\ cur[t] \in Iters \cup {0}

\* a thread writes only its own scratch row
PrivateRows == \A row \in Threads : wrote[row] \subseteq {row}

\* after the parallel region every contribution is present exactly once in the scratch rows
NoLostUpdate == (phase # "par") => \A s \in Slots : SumRows(T, s) = SumIters(Iters, s)

\* the returned array is the mathematically defined sum, whatever the schedule
ResultIsSum == (phase = "done") => \A s \in Slots : res[s] = SumIters(Iters, s)

\* stronger, inductive form used to explain WHY it holds: completed iterations are all accounted for
Done == Iters \ (todo \cup {cur[t] : t \in Threads})
Accounted == (phase = "par" /\ ~Shared) => \A s \in Slots : SumRows(T, s) = SumIters(Done, s)

Terminates == <>(phase = "done")
=============================================================================
