------------------------------ MODULE LieDriver ------------------------------
(***************************************************************************)
(* The degree loop of the Lie-series normalisation (property C08)          *)
(*   src/hiten/algorithms/hamiltonian/center/_lie.py   _lie_transform      *)
(*   src/hiten/algorithms/hamiltonian/normal/_lie.py   _lie_transform      *)
(*                                                                         *)
(* Abstraction: the homogeneous block of degree n is "zero" (identically   *)
(* zero), "good" (non-zero, only monomials that are kept) or "bad" (it     *)
(* contains monomials that must be eliminated).  Applying exp(L_G) with a  *)
(* generator of degree n leaves the blocks below n unchanged, removes the  *)
(* eliminable monomials of degree n, and may change every block above n in *)
(* an arbitrary way (the environment chooses).  Requirement: when the loop *)
(* ends no block of degree 3..N is "bad" -- whatever the shape of the      *)
(* input, in particular when some blocks are identically zero.             *)
(***************************************************************************)
EXTENDS Integers, Sequences, TLC

CONSTANTS N, SkipRule      \* SkipRule = "continue" (as written) | "break" (non-vacuity variant)

Kinds == {"zero", "good", "bad"}
VARIABLES blk, n, shape0, generators
vars == <<blk, n, shape0, generators>>

Init == /\ blk \in [3 .. N -> Kinds] /\ n = 3 /\ shape0 = blk /\ generators = {}

\* for n in range(3, N+1)
Step ==
    /\ n <= N
    /\ IF blk[n] = "zero" \/ blk[n] = "good"
       THEN /\ n' = IF SkipRule = "break" /\ blk[n] = "zero" THEN N + 1 ELSE n + 1     \* p_n.any() false / nothing to eliminate
            /\ UNCHANGED <<blk, generators>>
       ELSE \* solve the homological equation, apply exp(L_G_n)
            /\ \E hi \in [n + 1 .. N -> Kinds] :
                 blk' = [m \in 3 .. N |-> IF m < n THEN blk[m] ELSE IF m = n THEN "good" ELSE hi[m]]
            /\ generators' = generators \cup {n}
            /\ n' = n + 1
    /\ UNCHANGED shape0

Next == Step
Spec == Init /\ [][Next]_vars /\ WF_vars(Next)

Done == n > N
NothingBadSurvives == Done => \A m \in 3 .. N : blk[m] # "bad"
LowerDegreesNeverReintroduced == [][\A m \in 3 .. N : (m < n /\ blk[m] # "bad") => blk'[m] = blk[m]]_vars
GeneratorOnlyWhereNeeded == \A m \in generators : m < n
Terminates == <>Done
=============================================================================
