--------------------------- MODULE SectionDetect ---------------------------
(***************************************************************************)
(* Synodic section detection of hiten                                      *)
(*   src/hiten/algorithms/poincare/synodic/backend.py                      *)
(*     _on_surface_indices, _crossing_indices_and_alpha,                   *)
(*     _refine_hits_linear, _detect_with_segment_refine,                   *)
(*     _order_and_dedup_hits, _SynodicDetectionBackend.detect_on_trajectory*)
(*                                                                         *)
(* A sampled trajectory is abstracted to the sequence gs[1..N] of values   *)
(* of the section function at the samples (integers, 0 = on the surface).  *)
(* A hit is abstracted to its POSITION <<i, f>>: sample interval i (between *)
(* samples i and i+1) and the fraction f = <<num, den>> in [0,1) of that   *)
(* interval; <<i, <<0,1>>>> is "exactly at sample i".  Positions do not    *)
(* depend on the time grid: hit time = t[i] + f * (t[i+1] - t[i]).  The    *)
(* binding (harness/c15.py) converts real hit times to positions exactly.  *)
(*                                                                         *)
(* REQUIREMENT (property C15) and ALGORITHM (transcription of the code)    *)
(* are separate sections; TLC checks  algorithm => requirement  for every  *)
(* sample pattern over Vals up to length MaxN.                             *)
(***************************************************************************)
EXTENDS Integers, Sequences, FiniteSets, TLC

CONSTANTS Vals,        \* section values a sample may take (integers, must contain 0)
          MaxN,        \* patterns up to this many samples are explored
          Dirs,        \* subset of {-1, 0, 1};  0 stands for direction = None
          Refines,     \* segment_refine values explored (0 = vectorised path)
          MaxHitsSet,  \* max_hits_per_traj values explored; 0 stands for None
          CheckEvery,  \* invariants are evaluated on patterns whose length is a multiple of this
          TailRule     \* "asis": the last sample is never examined as on-surface sample
                       \* "scan_last": it is (proposed repair C15-fix1)

VARIABLE g             \* the sample pattern built so far

---------------------------------------------------------------------------
(* exact rationals <<num, den>> with den > 0, always in lowest terms *)
SDAbs(x) == IF x < 0 THEN -x ELSE x
RECURSIVE SDGcd(_, _)
SDGcd(a, b) == IF b = 0 THEN a ELSE SDGcd(b, a % b)
Frac(n, d) ==
    LET s == IF d < 0 THEN -1 ELSE 1
        k == SDGcd(SDAbs(n), SDAbs(d))
    IN  <<(s * n) \div k, (s * d) \div k>>
FZero == <<0, 1>>
FOne == <<1, 1>>
FracLess(a, b) == a[1] * b[2] < b[1] * a[2]
FracLe(a, b) == a[1] * b[2] <= b[1] * a[2]
Clamp01(f) == IF f[1] < 0 THEN FZero ELSE IF f[1] > f[2] THEN FOne ELSE f

(* positions *)
Pos(i, f) == IF f = FOne THEN <<i + 1, FZero>> ELSE <<i, f>>
PosLess(p, q) == p[1] < q[1] \/ (p[1] = q[1] /\ FracLess(p[2], q[2]))
AtSample(p) == p[2] = FZero
SeqLast(s) == s[Len(s)]

(* time grids used by the binding: increment between samples i and i+1 (i >= 1).  Positions are
   grid independent; the grids only say how the harness turns positions into times. *)
GridKinds == {"uni", "alt", "pow"}
Dt(kind, i) == CASE kind = "uni" -> 1
                 [] kind = "alt" -> IF i % 2 = 1 THEN 1 ELSE 2
                 [] kind = "pow" -> IF i % 3 = 1 THEN 2 ELSE IF i % 3 = 2 THEN 4 ELSE 1
\* Time(kind, i) = sum of Dt(kind, k) for k < i, in closed form
Time(kind, i) == CASE kind = "uni" -> i - 1
                   [] kind = "alt" -> 3 * ((i - 1) \div 2) + ((i - 1) % 2)
                   [] kind = "pow" -> 7 * ((i - 1) \div 3) + (IF (i - 1) % 3 = 0 THEN 0 ELSE IF (i - 1) % 3 = 1 THEN 2 ELSE 6)
TimeIsSumOfIncrements == \A kind \in GridKinds : /\ Time(kind, 1) = 0
                                                 /\ \A i \in 1 .. 60 : Time(kind, i + 1) = Time(kind, i) + Dt(kind, i)

---------------------------------------------------------------------------
(***************************************************************************)
(* REQUIREMENT -- from the statement of C15, no reference to the algorithm *)
(***************************************************************************)
OnSurface(gs, i) == gs[i] = 0

\* a sign change of the section function strictly inside interval i, compatible with direction d
StrictChange(gs, i, d) ==
    /\ i < Len(gs)
    /\ gs[i] * gs[i + 1] < 0
    /\ (d = 0 \/ d * gs[i] < 0)

\* the crossing of the chord through samples i, i+1 (exact for piecewise linear sampling)
CrossPos(gs, i) == <<i, Frac(gs[i], gs[i] - gs[i + 1])>>

\* "(plus samples lying on the surface)".  With a direction filter the statement does not say
\* which on-surface samples count, so the requirement is two-sided:
\*   MUST be reported: on-surface samples that no existing neighbour contradicts (the trajectory
\*        arrives from the side opposite to d or along the surface, and leaves to the side of d
\*        or along the surface) -- these carry the compatible sign changes that pass through a sample;
\*   MAY  be reported: every on-surface sample (the literal reading of the parenthesis).
\* Without a direction filter both coincide with "every on-surface sample".
PrevAgrees(gs, i, d) == d * gs[i - 1] <= 0
NextAgrees(gs, i, d) == d * gs[i + 1] >= 0
MustSample(gs, i, d) ==
    /\ OnSurface(gs, i)
    /\ \/ d = 0
       \/ /\ (i > 1 => PrevAgrees(gs, i, d))
          /\ (i < Len(gs) => NextAgrees(gs, i, d))
MaySample(gs, i, d) == OnSurface(gs, i)

MustPos(gs, d) ==
    {<<i, FZero>> : i \in {j \in 1 .. Len(gs) : MustSample(gs, j, d)}}
    \cup {CrossPos(gs, i) : i \in {j \in 1 .. Len(gs) - 1 : StrictChange(gs, j, d)}}
MayPos(gs, d) == {<<i, FZero>> : i \in {j \in 1 .. Len(gs) : MaySample(gs, j, d)}}

\* hits: sequence of positions.  mh = 0 means no limit.
StrictlyOrdered(hits) == \A j \in 1 .. Len(hits) - 1 : PosLess(hits[j], hits[j + 1])
HitsAllowed(gs, d, hits) ==
    LET allowed == MustPos(gs, d) \cup MayPos(gs, d)
    IN  \A j \in 1 .. Len(hits) : hits[j] \in allowed
WithinLimit(mh, hits) == mh = 0 \/ Len(hits) <= mh
Exempt(mh, hits, p) == mh > 0 /\ Len(hits) = mh /\ PosLess(SeqLast(hits), p)
Missing(gs, d, mh, hits) ==
    LET reported == {hits[j] : j \in 1 .. Len(hits)}
    IN  {p \in MustPos(gs, d) : p \notin reported /\ ~Exempt(mh, hits, p)}

\* "exactly one hit for each compatible sign change (plus samples on the surface), in time
\*  order; each hit inside its bracketing interval, at the chord crossing"
Accepts(gs, d, mh, hits) ==
    /\ StrictlyOrdered(hits)
    /\ HitsAllowed(gs, d, hits)
    /\ WithinLimit(mh, hits)
    /\ Missing(gs, d, mh, hits) = {}

\* Names the clause a hit list violates ("ok" iff Accepts).  Used for structural finding keys.
MinPos(S) == CHOOSE p \in S : \A q \in S : p = q \/ PosLess(p, q)
BadHits(gs, d, hits) == {j \in 1 .. Len(hits) : hits[j] \notin MustPos(gs, d) \cup MayPos(gs, d)}
ClassifyBadHit(gs, d, p) ==
    IF p[1] < 1 \/ p[1] > Len(gs) \/ (p[1] = Len(gs) /\ ~AtSample(p)) THEN "hit-outside-trajectory"
    ELSE IF AtSample(p) THEN
        IF OnSurface(gs, p[1]) THEN "on-surface-sample-against-direction"
        ELSE "hit-at-sample-not-on-surface"
    ELSE IF StrictChange(gs, p[1], d) THEN "hit-time-not-chord-crossing"
    ELSE IF StrictChange(gs, p[1], 0) THEN "crossing-against-direction"
    ELSE "hit-in-interval-without-sign-change"
ClassifyMissing(gs, d, p) ==
    IF AtSample(p) THEN
        IF p[1] = Len(gs) THEN
            IF OnSurface(gs, Len(gs) - 1) THEN "last-sample-on-surface-after-on-surface"
            ELSE "last-sample-on-surface-missed"
        ELSE "on-surface-sample-missed"
    ELSE "crossing-missed"
Verdict(gs, d, mh, hits) ==
    IF Accepts(gs, d, mh, hits) THEN "ok"
    ELSE IF ~WithinLimit(mh, hits) THEN "max-hits-exceeded"
    ELSE IF BadHits(gs, d, hits) # {} THEN
        ClassifyBadHit(gs, d, hits[CHOOSE j \in BadHits(gs, d, hits) : \A k \in BadHits(gs, d, hits) : j <= k])
    ELSE IF ~StrictlyOrdered(hits) THEN
        IF \E j \in 1 .. Len(hits) - 1 : hits[j] = hits[j + 1] THEN "hit-reported-twice"
        ELSE "hits-out-of-time-order"
    ELSE ClassifyMissing(gs, d, MinPos(Missing(gs, d, mh, hits)))

(* bracket form of the requirement, for hits whose exact position inside the interval is not
   an exact rational (cubic refinement, real trajectories): a hit is coded <<i, c>> with c = 0
   "exactly at sample i" and c = 1 "strictly inside interval i".  Requirement: the hit list is,
   in order, the list of required entries plus some optional ones, every hit inside the CLOSED
   bracketing interval of its entry. *)
SetToSortedSeq(S) ==
    LET RECURSIVE Build(_)
        Build(T) == IF T = {} THEN <<>> ELSE LET m == MinPos(T) IN <<m>> \o Build(T \ {m})
    IN  Build(S)
BracketMatches(h, e) ==
    IF AtSample(e) THEN h = <<e[1], 0>>
    ELSE h \in {<<e[1], 0>>, <<e[1], 1>>, <<e[1] + 1, 0>>}
BracketKey(h) == 2 * h[1] + h[2]
Cut(mh, s) == IF mh > 0 /\ Len(s) > mh THEN SubSeq(s, 1, mh) ELSE s
AcceptsBracket(gs, d, mh, hits) ==
    /\ \A j \in 1 .. Len(hits) - 1 : BracketKey(hits[j]) <= BracketKey(hits[j + 1])
    /\ \E S \in SUBSET (MayPos(gs, d) \ MustPos(gs, d)) :
          LET E == Cut(mh, SetToSortedSeq(MustPos(gs, d) \cup S))
          IN  /\ Len(hits) = Len(E)
              /\ \A j \in 1 .. Len(E) : BracketMatches(hits[j], E[j])
NumRequired(gs, d) == Cardinality(MustPos(gs, d))
VerdictBracket(gs, d, mh, hits) ==
    IF AcceptsBracket(gs, d, mh, hits) THEN "ok"
    ELSE IF ~WithinLimit(mh, hits) THEN "max-hits-exceeded"
    ELSE IF \E j \in 1 .. Len(hits) - 1 : BracketKey(hits[j]) > BracketKey(hits[j + 1]) THEN "hits-out-of-time-order"
    ELSE IF /\ OnSurface(gs, Len(gs)) /\ OnSurface(gs, Len(gs) - 1)
            /\ \A j \in 1 .. Len(hits) : hits[j] # <<Len(gs), 0>>
            /\ AcceptsBracket(gs, d, mh, hits \o << <<Len(gs), 0>> >>)
         THEN "last-sample-on-surface-after-on-surface"
    ELSE IF Len(hits) < NumRequired(gs, d) /\ (mh = 0 \/ Len(hits) < mh) THEN "fewer-hits-than-required-crossings"
    ELSE IF Len(hits) > Cardinality(MustPos(gs, d) \cup MayPos(gs, d)) THEN "more-hits-than-sign-changes"
    ELSE "hit-outside-bracketing-interval"

---------------------------------------------------------------------------
(***************************************************************************)
(* ALGORITHM -- transcription of synodic/backend.py (linear interpolation) *)
(***************************************************************************)
\* direction filter of an on-surface sample k that starts a segment (k < N):
\*   cond_next = d*g[k+1] >= 0 ;  cond_prev = (k-1 >= 0) and d*g[k-1] <= 0
DirKeep(gs, k, d) ==
    \/ d = 0
    \/ d * gs[k + 1] >= 0
    \/ (k - 1 >= 1 /\ d * gs[k - 1] <= 0)

\* _on_surface_indices: looks at g_all[:-1] only
OnIdx(gs, d) == {k \in 1 .. Len(gs) - 1 : gs[k] = 0 /\ DirKeep(gs, k, d)}

\* _crossing_indices_and_alpha: cross_mask
CrossMask(g0, g1, d) ==
    CASE d = 0  -> g0 * g1 <= 0 /\ g0 # g1
      [] d = 1  -> g0 < 0 /\ g1 >= 0
      [] d = -1 -> g0 > 0 /\ g1 <= 0
CrIdx(gs, d) ==
    LET onIdx == OnIdx(gs, d)      \* cross_mask &= ~on_mask
    IN  {k \in 1 .. Len(gs) - 1 : CrossMask(gs[k], gs[k + 1], d) /\ k \notin onIdx}
Alpha(g0, g1) == Clamp01(Frac(g0, g0 - g1))      \* alpha = g0/(g0-g1) clipped to [0,1]

\* candidates of segment k on the vectorised path (segment_refine = 0); np.concatenate((on_idx,
\* cr_idx)) + stable argsort by segment puts the on-surface hit of a segment before its crossing
SegCands0(gs, k, d, onIdx, crIdx) ==
    (IF k \in onIdx THEN << <<k, FZero>> >> ELSE <<>>)
    \o (IF k \in crIdx THEN << Pos(k, Alpha(gs[k], gs[k + 1])) >> ELSE <<>>)

\* _detect_with_segment_refine: sub-interval m of segment k, r = segment_refine;
\* g_lo, g_hi are the chord values at s = m/(r+1), (m+1)/(r+1), scaled by (r+1)
SubCand(gs, k, d, r, m) ==
    LET lo == (r + 1 - m) * gs[k] + m * gs[k + 1]
        hi == (r - m) * gs[k] + (m + 1) * gs[k + 1]
    IN  IF CrossMask(lo, hi, d)
        THEN LET al == Clamp01(Frac(lo, lo - hi))                  \* alpha_local
             IN  << Pos(k, Frac(m * al[2] + al[1], (r + 1) * al[2])) >>   \* s_lo + alpha_local*(s_hi-s_lo)
        ELSE <<>>
SegCandsR(gs, k, d, r) ==
    LET acceptLeft == gs[k] = 0 /\ DirKeep(gs, k, d)
        RECURSIVE Sub(_)
        Sub(m) == IF m > r THEN <<>>
                  ELSE (IF acceptLeft /\ m = 0 THEN <<>> ELSE SubCand(gs, k, d, r, m)) \o Sub(m + 1)
    IN  (IF acceptLeft THEN << <<k, FZero>> >> ELSE <<>>) \o Sub(0)

\* proposed repair: the final sample is examined too (it has no next neighbour)
TailCand(gs, d) ==
    LET n == Len(gs)
    IN  IF TailRule = "scan_last" /\ gs[n] = 0 /\ (d = 0 \/ d * gs[n - 1] <= 0)
        THEN << <<n, FZero>> >> ELSE <<>>

Candidates(gs, d, r) ==
    LET onIdx == OnIdx(gs, d)
        crIdx == CrIdx(gs, d)
        RECURSIVE Segs(_)
        Segs(k) == IF k > Len(gs) - 1 THEN <<>>
                   ELSE (IF r = 0 THEN SegCands0(gs, k, d, onIdx, crIdx) ELSE SegCandsR(gs, k, d, r)) \o Segs(k + 1)
    IN  Segs(1) \o TailCand(gs, d)

\* _order_and_dedup_hits: drop a candidate whose time equals the time of the last KEPT hit
\* (|dt| <= dedup_time_tol; distinct positions are farther apart than the tolerance by the
\* premise on instances), stop at max_hits.  Point de-duplication never fires on instances whose
\* distinct hits project to distinct plane points (premise, enforced by the harness).
DedupCut(cands, mh) ==
    LET RECURSIVE Go(_, _)
        Go(j, out) ==
            IF j > Len(cands) \/ (mh > 0 /\ Len(out) >= mh) THEN out
            ELSE IF Len(out) > 0 /\ cands[j] = SeqLast(out) THEN Go(j + 1, out)
            ELSE Go(j + 1, Append(out, cands[j]))
    IN  Go(1, <<>>)

AlgHits(gs, d, r, mh) == DedupCut(Candidates(gs, d, r), mh)

---------------------------------------------------------------------------
(* pattern generator: every prefix is an instance *)
Init == g = <<>>
Extend(v) == Len(g) < MaxN /\ g' = Append(g, v)
Next == \E v \in Vals : Extend(v)
Spec == Init /\ [][Next]_g
Ready == Len(g) >= 2 /\ Len(g) % CheckEvery = 0

(***************************************************************************)
(* algorithm => requirement, one invariant per clause                      *)
(***************************************************************************)
AlgorithmMeetsRequirement ==
    Ready => \A d \in Dirs, r \in Refines, mh \in MaxHitsSet : Accepts(g, d, mh, AlgHits(g, d, r, mh))
HitsSortedByTime ==
    Ready => \A d \in Dirs, r \in Refines : StrictlyOrdered(AlgHits(g, d, r, 0))
HitInsideSegment ==        \* every candidate fraction lies in [0,1) of an existing interval, or is the last sample
    Ready => \A d \in Dirs, r \in Refines :
        LET c == Candidates(g, d, r) IN
        \A j \in 1 .. Len(c) : /\ 1 <= c[j][1] /\ c[j][1] <= Len(g)
                               /\ FracLe(FZero, c[j][2]) /\ FracLess(c[j][2], FOne)
                               /\ (c[j][1] = Len(g) => AtSample(c[j]))
NoSegmentReportedTwice ==
    Ready => \A d \in Dirs, r \in Refines :
        LET h == AlgHits(g, d, r, 0) IN
        \A i, j \in 1 .. Len(h) : (i # j /\ ~AtSample(h[i]) /\ ~AtSample(h[j])) => h[i][1] # h[j][1]
\* law of the transcription: on piecewise linear data sub-interval scanning finds the same hits
RefineDoesNotChangeHits ==
    Ready => \A d \in Dirs, r \in Refines, mh \in MaxHitsSet : AlgHits(g, d, r, mh) = AlgHits(g, d, 0, mh)
\* law of the requirement: MUST is contained in MAY-or-crossing, and without direction they coincide
RequirementConsistent ==
    Ready => /\ \A d \in Dirs : \A i \in 1 .. Len(g) : MustSample(g, i, d) => MaySample(g, i, d)
             /\ \A i \in 1 .. Len(g) : MaySample(g, i, 0) = MustSample(g, i, 0)
             /\ \A d \in Dirs : Accepts(g, d, 0, SetToSortedSeq(MustPos(g, d)))
\* the bracket form accepts the exact required hit list (coded) -- exhaustive configurations only
BracketConsistent ==
    Ready => /\ \A d \in Dirs : AcceptsBracket(g, d, 0,
                    [j \in 1 .. Cardinality(MustPos(g, d)) |->
                        LET p == SetToSortedSeq(MustPos(g, d))[j] IN <<p[1], IF AtSample(p) THEN 0 ELSE 1>>])
=============================================================================
