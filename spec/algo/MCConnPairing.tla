--------------------------- MODULE MCConnPairing ---------------------------
EXTENDS ConnPairing, Json
MCRadii2 == {1, 3, 5, 9, 17}       \* radius^2 = 0.5, 1.5, 2.5, 4.5, 8.5
\* configuration sets of the binding, emitted once: velocity label patterns (by point index),
\* delta-v limits and ballistic tolerances (doubled: 2*tol, odd => tolerances are k + 1/2)
EmitHeader ==
    (Len(pu) = 0 /\ Len(ps) = 0) =>
        PrintT(ToJson([header |-> TRUE, radii2 |-> Radii2,
                       labels |-> << [u |-> <<0, 3, 1, 4, 2, 6>>, s |-> <<1, 0, 4, 2, 5, 3>>],
                                     [u |-> <<2, 2, 0, 5, 1, 1>>, s |-> <<0, 3, 3, 1, 6, 2>>] >>,
                       dv2 |-> {7, 13, 20001}, bal2 |-> {1, 7, 11}]))
EmitClouds == Ready => PrintT(ToJson([pu |-> pu, ps |-> ps]))
EmitBig == (Ready /\ Len(pu) + Len(ps) >= 6) => PrintT(ToJson([pu |-> pu, ps |-> ps]))
=============================================================================
