-------------------------- MODULE MCContinuation --------------------------
(* Model-checking instance of Continuation: configuration families and the *)
(* JSON emission of terminal behaviours used for spec -> code replay.      *)
EXTENDS Continuation, Json

MCDrifts == {-1, 0, 1}

Cfg(st, s0, mn, mx, mm, mr, lo, hi, pol, sd) ==
    [stepper |-> st, step0 |-> s0, smin |-> mn, smax |-> mx, maxMembers |-> mm,
     maxRetries |-> mr, tmin |-> lo, tmax |-> hi, policy |-> pol, seed |-> sd]

\* quick: both steppers, both signs, steps that start above step_max, tight and wide targets
QuickConfigs ==
    { Cfg(st, s0, 1, 4, mm, mr, t[1], t[2], pol, 0) :
        st \in {"natural", "secant"}, s0 \in {4, -2, 8}, mm \in {1, 3, 4}, mr \in {0, 2},
        t \in {<<-100, 100>>, <<-3, 5>>}, pol \in {"none", "quarter"} }

\* behaviours replayed exhaustively by the quick tier
GenQuickConfigs ==
    { Cfg(st, s0, 1, 4, 4, 1, t[1], t[2], pol, 0) :
        st \in {"natural", "secant"}, s0 \in {4, -2}, t \in {<<-100, 100>>, <<-3, 5>>},
        pol \in {"none", "quarter"} }

ThoroughConfigs ==
    { Cfg(st, s0, mn, 4, mm, mr, t[1], t[2], pol, 0) :
        st \in {"natural", "secant"}, s0 \in {1, 4, -2, -8, 16}, mn \in {1, 2}, mm \in {0, 1, 2, 4},
        mr \in {0, 1, 2}, t \in {<<-100, 100>>, <<-3, 5>>, <<-9, 0>>},
        pol \in {"none", "quarter", "raise", "double"} }

\* emitted from an INVARIANT so that every reachable terminal state prints exactly once
EmitTerminal ==
    (pc = "done") =>
        PrintT(ToJson([cfg |-> cfg, script |-> hist, fam |-> fam, acc |-> acc, rej |-> rej,
                       iters |-> iters, fstep |-> step, failed |-> failed]))

NoHistView == <<cfg, fam, step, tan, acc, rej, iters, attempt, pc, pred, failed>>
=============================================================================
