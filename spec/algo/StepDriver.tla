----------------------------- MODULE StepDriver -----------------------------
(***************************************************************************)
(* Adaptive step driver + dense output of hiten                            *)
(*   src/hiten/algorithms/integrators/rk.py                                *)
(*       _RK45._integrate_rk45, _RK45._integrate_rk45_ham,                 *)
(*       _DOP853._integrate_dop853, _DOP853._integrate_dop853_ham          *)
(*   src/hiten/algorithms/integrators/utils.py                             *)
(*       _select_initial_step, _clamp_step, _adjust_step_to_endpoint,      *)
(*       _pi_accept_factor, _pi_reject_factor                              *)
(*                                                                         *)
(* One action per branch of the loop body:                                 *)
(*   SelectInitial, LoopTest (continue | ExitLoop), Clamp,                 *)
(*   AdjustToEndpoint, Accept, RejectShrink,                               *)
(*   then per requested output: Locate (searchsorted 'right' - 1 and the   *)
(*   two index clamps), BuildCache | ReuseCache (last_j bookkeeping),      *)
(*   EvalDense, and Finish.                                                *)
(*                                                                         *)
(* Time is an ordered set of integer "ticks".  The step kernel and the PI  *)
(* controller are the ENVIRONMENT: per attempt it chooses accept/reject    *)
(* and the factor by which h is multiplied.  The core actions take the     *)
(* results of the floating-point operations (t + h, |tf - t|, h * factor)  *)
(* as PARAMETERS: the model instantiates them with integer arithmetic, the *)
(* trace specification (StepDriverTrace) with values logged from the real  *)
(* driver, where only their ORDER matters (rank abstraction).              *)
(*                                                                         *)
(* The REQUIREMENT (property C02, driver clauses) is stated separately     *)
(* below; TLC checks  algorithm => requirement.                            *)
(***************************************************************************)
EXTENDS Integers, Sequences, FiniteSets, TLC

CONSTANTS Configs,       \* set of configuration records
          AccFactors,    \* <<num, den>> factors the controller may return on accept
          RejFactors,    \* factors (< 1) it may return on reject
          MaxAttempts    \* bound on attempted steps (state constraint)

VARIABLES cfg,      \* [t0, tf, hmin, hmax, h0, teval] ; constant along a behaviour
          pc,       \* "init" | "top" | "loop" | "clamped" | "adjusted" | "dense" | "located" | "ready" | "done"
          t, h,     \* current time and step size
          ts,       \* accepted nodes, ts[1] = t0
          segAtt,   \* segAtt[j] = number of the attempt whose stages K belong to segment j (ts[j]..ts[j+1])
          errPrev,  \* 0 = none yet (-1.0 in the code), else attempt number of the last accepted step
          att,      \* attempts so far
          idx,      \* next requested output (1-based)
          j,        \* segment selected for the current output
          lastj,    \* segment the dense cache was last built for (0 = none)
          cache,    \* attempt number whose K the dense cache was built from (0 = none)
          nout,     \* outputs written
          hist,     \* environment choices (history, for replay)
          locs,     \* segment used per output (history, for replay)
          builds    \* segments for which the cache was built, in order (history, for replay)

vars == <<cfg, pc, t, h, ts, segAtt, errPrev, att, idx, j, lastj, cache, nout, hist, locs, builds>>
loopVars == <<t, h, ts, segAtt, errPrev, att, hist>>
denseVars == <<idx, j, lastj, cache, nout, locs, builds>>

SDLast(s) == s[Len(s)]
SDMin(a, b) == IF a < b THEN a ELSE b
SDMax(a, b) == IF a > b THEN a ELSE b

\* utils._clamp_step(h, max_step, min_step): first the upper, then the lower limit
ClampH(c, x) == LET y == IF x > c.hmax THEN c.hmax ELSE x IN IF y < c.hmin THEN c.hmin ELSE y

\* np.searchsorted(ts, q, side='right'): number of nodes <= q
SearchRight(s, q) == Cardinality({i \in 1 .. Len(s) : s[i] <= q})
\* j = searchsorted - 1 ; if j < 0: j = 0 ; if j > n_nodes - 2: j = n_nodes - 2   (0-based) -> 1-based segment
SegmentOf(s, q) ==
    LET j0 == SearchRight(s, q) - 1
        j1 == IF j0 < 0 THEN 0 ELSE j0
        j2 == IF j1 > Len(s) - 2 THEN Len(s) - 2 ELSE j1
    IN  j2 + 1

InitCfg(c) ==
    /\ cfg = c
    /\ pc = "init"
    /\ t = c.t0 /\ h = 0
    /\ ts = <<c.t0>> /\ segAtt = <<>>
    /\ errPrev = 0 /\ att = 0
    /\ idx = 1 /\ j = 0 /\ lastj = 0 /\ cache = 0 /\ nout = 0
    /\ hist = <<>> /\ locs = <<>> /\ builds = <<>>

Init == \E c \in Configs : InitCfg(c)

(***************************************************************************)
(* ALGORITHM -- core actions (parameters = results of float operations)    *)
(***************************************************************************)
\* h = _select_initial_step(d0, d1, min_step, max_step)
SelectInitialCore(h0) ==
    /\ pc = "init"
    /\ h' = h0
    /\ pc' = "top"
    /\ UNCHANGED <<cfg, t, ts, segAtt, errPrev, att, hist>> /\ UNCHANGED denseVars

\* while (t - tf) < 0
LoopTest ==
    /\ pc = "top"
    /\ pc' = IF t < cfg.tf THEN "loop" ELSE "dense"
    /\ UNCHANGED <<cfg>> /\ UNCHANGED loopVars /\ UNCHANGED denseVars

\* h = _clamp_step(h, max_step, min_step)
Clamp ==
    /\ pc = "loop"
    /\ h' = ClampH(cfg, h)
    /\ pc' = "clamped"
    /\ UNCHANGED <<cfg, t, ts, segAtt, errPrev, att, hist>> /\ UNCHANGED denseVars

\* h = _adjust_step_to_endpoint(t, h, tf):  if t + h > tf: h = |tf - t|
\*   tph = t + h , d = |tf - t|
AdjustCore(tph, d) ==
    /\ pc = "clamped"
    /\ h' = IF tph > cfg.tf THEN d ELSE h
    /\ pc' = "adjusted"
    /\ UNCHANGED <<cfg, t, ts, segAtt, errPrev, att, hist>> /\ UNCHANGED denseVars

\* err_norm <= 1: append node, advance, h = h * factor, err_prev = err_norm
\*   tnew = t + h , hnext = h * factor
AcceptCore(tnew, hnext, f) ==
    /\ pc = "adjusted"
    /\ t' = tnew
    /\ ts' = Append(ts, tnew)
    /\ segAtt' = Append(segAtt, att + 1)
    /\ h' = hnext
    /\ errPrev' = att + 1
    /\ att' = att + 1
    /\ hist' = Append(hist, [k |-> "acc", f |-> f])
    /\ pc' = "top"
    /\ UNCHANGED <<cfg>> /\ UNCHANGED denseVars

\* err_norm > 1: h = h * factor ; h = _clamp_step(h, ...)  -- nothing else changes
\*   hmul = h * factor
RejectCore(hmul, f) ==
    /\ pc = "adjusted"
    /\ h' = ClampH(cfg, hmul)
    /\ att' = att + 1
    /\ hist' = Append(hist, [k |-> "rej", f |-> f])
    /\ pc' = "top"
    /\ UNCHANGED <<cfg, t, ts, segAtt, errPrev>> /\ UNCHANGED denseVars

\* dense output, one requested time after the other
Locate ==
    /\ pc = "dense" /\ idx <= Len(cfg.teval)
    /\ j' = SegmentOf(ts, cfg.teval[idx])
    /\ locs' = Append(locs, SegmentOf(ts, cfg.teval[idx]))
    /\ pc' = "located"
    /\ UNCHANGED <<cfg, idx, lastj, cache, nout, builds>> /\ UNCHANGED loopVars

\* if j != last_j: build the cache from Ks[j] ; last_j = j
BuildCache ==
    /\ pc = "located" /\ j # lastj
    /\ cache' = segAtt[j]
    /\ lastj' = j
    /\ builds' = Append(builds, j)
    /\ pc' = "ready"
    /\ UNCHANGED <<cfg, idx, j, nout, locs>> /\ UNCHANGED loopVars
ReuseCache ==
    /\ pc = "located" /\ j = lastj
    /\ pc' = "ready"
    /\ UNCHANGED <<cfg, idx, j, lastj, cache, nout, locs, builds>> /\ UNCHANGED loopVars

\* y_out[idx] = dense(y_old = ys[j], cache, x = (t_q - ts[j]) / (ts[j+1] - ts[j]))
EvalDense ==
    /\ pc = "ready"
    /\ nout' = nout + 1
    /\ idx' = idx + 1
    /\ pc' = "dense"
    /\ UNCHANGED <<cfg, j, lastj, cache, locs, builds>> /\ UNCHANGED loopVars

Finish ==
    /\ pc = "dense" /\ idx = Len(cfg.teval) + 1
    /\ pc' = "done"
    /\ UNCHANGED <<cfg>> /\ UNCHANGED loopVars /\ UNCHANGED denseVars

(***************************************************************************)
(* MODEL -- the core actions with integer arithmetic and an environment    *)
(***************************************************************************)
Abs(x) == IF x < 0 THEN -x ELSE x
Times(x, f) == (x * f[1]) \div f[2]
Exact(x, f) == (x * f[1]) % f[2] = 0

SelectInitial == SelectInitialCore(cfg.h0)
AdjustToEndpoint == AdjustCore(t + h, Abs(cfg.tf - t))
Accept(f) == Exact(h, f) /\ AcceptCore(t + h, Times(h, f), f)
\* environment assumption: a rejected step is retried with a strictly smaller step.
\* What happens when it cannot be (error test fails at h = min_step) is the subject of
\* StepStall.tla: the loop as first written retried for ever; since repository commit
\* a9d94a7 it raises.
RejectShrink(f) == Exact(h, f) /\ ClampH(cfg, Times(h, f)) < h /\ RejectCore(Times(h, f), f)

Next ==
    \/ SelectInitial \/ LoopTest \/ Clamp \/ AdjustToEndpoint
    \/ \E f \in AccFactors : Accept(f)
    \/ \E f \in RejFactors : RejectShrink(f)
    \/ Locate \/ BuildCache \/ ReuseCache \/ EvalDense \/ Finish

Spec == Init /\ [][Next]_vars /\ WF_vars(Next)

AttemptBound == att <= MaxAttempts

(***************************************************************************)
(* REQUIREMENT -- driver clauses of property C02                           *)
(***************************************************************************)
TypeOK ==
    /\ pc \in {"init", "top", "loop", "clamped", "adjusted", "dense", "located", "ready", "done"}
    /\ Len(segAtt) = Len(ts) - 1
    /\ att \in Nat /\ nout \in Nat

\* accepted nodes strictly increase
NodesStrictlyIncrease == \A i \in 1 .. (Len(ts) - 1) : ts[i] < ts[i + 1]

\* the driver never steps past the end, and integration ends exactly on it
NeverPastEnd ==
    /\ t <= cfg.tf
    /\ (pc \in {"dense", "located", "ready", "done"}) => SDLast(ts) = cfg.tf

\* the step handed to the kernel respects the limits (the final step to the end point may be shorter)
HWithinClamp ==
    /\ (pc = "clamped") => (cfg.hmin <= h /\ h <= cfg.hmax)
    /\ (pc = "adjusted") => (0 < h /\ h <= cfg.hmax /\ (h >= cfg.hmin \/ t + h = cfg.tf))
\* on ranks t + h is not available: the trace specification uses this weaker form
HWithinClampOrdinal ==
    /\ (pc = "clamped") => (cfg.hmin <= h /\ h <= cfg.hmax)
    /\ (pc = "adjusted") => (h <= cfg.hmax)

\* a rejected attempt changes nothing but the step size (and the attempt counter)
RejectNeverAdvances ==
    [][ (att' = att + 1 /\ Len(ts') = Len(ts)) => (t' = t /\ ts' = ts /\ errPrev' = errPrev) ]_vars
\* an accepted attempt appends exactly one node
AcceptAppendsOne ==
    [][ (ts' # ts) => (Len(ts') = Len(ts) + 1 /\ SubSeq(ts', 1, Len(ts)) = ts /\ t' = SDLast(ts')) ]_vars

\* every requested time is evaluated inside the segment it is interpolated on (x in [0, 1])
EveryQueryInsideItsSegment ==
    (pc = "ready") => (ts[j] <= cfg.teval[idx] /\ cfg.teval[idx] <= ts[j + 1])

\* the first requested time is the initial time: evaluated at x = 0 of the first segment
FirstSampleIsInitialState ==
    (pc = "ready" /\ idx = 1) => (j = 1 /\ cfg.teval[1] = ts[1])

\* exactly one output per requested time, in order
OneOutputPerRequest ==
    /\ (pc \in {"dense", "located", "ready"}) => nout = idx - 1
    /\ (pc = "done") => nout = Len(cfg.teval)

\* the dense cache used for an output was built from the stages of that output's segment
CacheMatchesSegment == (pc = "ready") => (cache = segAtt[j] /\ lastj = j)

\* the PI controller's memory is the error of the last ACCEPTED step
ErrPrevIsLastAccepted ==
    errPrev = (IF Len(segAtt) = 0 THEN 0 ELSE SDLast(segAtt))

Terminates == <>(pc = "done")
=============================================================================
