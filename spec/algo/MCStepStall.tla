----------------------------- MODULE MCStepStall -----------------------------
EXTENDS StepStall, Json, TLC
MCConfigs == [tf : {5, 7}, hmin : 1 .. 3, hmax : {4}, h0 : {1, 4}, hok : 0 .. 4]
MCConfigsBig == [tf : {5, 7, 12}, hmin : 1 .. 4, hmax : {4, 6}, h0 : {1, 3, 6}, hok : 0 .. 6]
MCShrink == {<<1, 2>>, <<1, 5>>}
MCGrow == {<<1, 1>>, <<2, 1>>, <<1, 2>>}
\* the admissible (class, terminal state) pairs, for the comparison with what the compiled drivers do
EmitTerminal == (pc \in {"done", "failed"}) => PrintT(ToJson(<<"terminal", cfg.hok < cfg.hmin, pc>>))
=============================================================================
