---------------------------- MODULE EventLocate ----------------------------
(***************************************************************************)
(* Event location of hiten's integrators                                    *)
(*   src/hiten/algorithms/integrators/utils.py   _event_crossed,            *)
(*        _crossed_direction, _bisection_update, _bracket_converged         *)
(*   src/hiten/algorithms/integrators/rk.py                                 *)
(*        _integrate_fixed_rk_until_event(_ham), _integrate_rk45_until_event*)
(*        (_ham), _integrate_dop853_until_event(_ham), _hermite_refine_in_  *)
(*        step, _rk45_refine_in_step, _dop853_refine_in_step(_ham)          *)
(*   src/hiten/algorithms/integrators/symplectic.py                         *)
(*        _integrate_symplectic_until_event, _hermite_refine_event_symplectic*)
(*                                                                         *)
(* All eight drivers are hand-copied instances of one two-layer algorithm:  *)
(*                                                                         *)
(* STEP LAYER.  The driver walks over accepted nodes; the environment       *)
(*   chooses the sign of the event function g at every new node.  After     *)
(*   each accepted step the driver evaluates _event_crossed(g_prev, g_new,  *)
(*   direction); the first step for which it holds is handed to the refine  *)
(*   layer; if the span ends first, the end state is returned.              *)
(* REFINE LAYER.  Bisection in normalised step time x in [0,1] on a dense   *)
(*   interpolant.  Modelled on the dyadic grid x = j / N, N = 2^Depth, with *)
(*   g's sign at every grid point chosen by the environment (a piecewise-   *)
(*   constant sign function with at most MaxCross crossings, optionally     *)
(*   exactly zero at a crossing).  Tolerances: |g| <= gtol is "g = 0" on    *)
(*   the grid, xtol is XtolUnits grid cells.                                *)
(*                                                                         *)
(* Section REQUIREMENT states property C11 without reference to the         *)
(* transcribed helpers; TLC checks algorithm => requirement over all sign   *)
(* sequences up to MaxLen steps x 3 directions and over all sign functions  *)
(* of the refine family.                                                    *)
(***************************************************************************)
EXTENDS Integers, Sequences, FiniteSets, TLC

CONSTANTS MaxLen,      \* maximal number of accepted steps in a span
          Depth,       \* dyadic depth of the refine grid
          XtolSet,     \* set of xtol values, in grid cells (powers of two)
          MaxCross     \* maximal number of crossings of g inside one step

N == 2 ^ Depth
Signs == {-1, 0, 1}
Dirs == {-1, 0, 1}

VARIABLES layer,    \* "step" | "refine"
          dir,      \* requested crossing direction
          \* step layer
          g,        \* signs of the event function at the accepted nodes so far; g[1] is the start point
          pc,       \* step: "step" | "hit" | "end";  refine: "mid" | "conv" | "done"
          hitStep,  \* index k of the reported step (from node k to node k+1 of g), 0 if none
          \* refine layer
          f,        \* sign of g at grid point x (function 0..N -> Signs), the environment
          ncross,   \* number of crossings the environment put inside the step
          xtol,     \* xtol in grid cells
          a, b, gl, \* bracket [a, b] (grid points) and sign at its left end
          xhit,     \* returned abscissa
          reason,   \* "gtol" | "xtol" | ""
          path      \* history of the bisection (for replay into the real refine functions)

vars == <<layer, dir, g, pc, hitStep, f, ncross, xtol, a, b, gl, xhit, reason, path>>

(***************************************************************************)
(* transcription of integrators/utils.py                                   *)
(***************************************************************************)
EventCrossed(gp, gn, d) ==
    IF d = 0 THEN (gp < 0 /\ gn > 0) \/ (gp > 0 /\ gn < 0) \/ gn = 0
    ELSE IF d > 0 THEN (gp < 0 /\ gn > 0) \/ gn = 0
    ELSE (gp > 0 /\ gn < 0) \/ gn = 0

CrossedDirection(gleft, gmid, d) ==
    IF d = 0 THEN (gleft < 0 /\ gmid > 0) \/ (gleft > 0 /\ gmid < 0)
    ELSE IF d > 0 THEN gleft < 0 /\ gmid > 0
    ELSE gleft > 0 /\ gmid < 0

(***************************************************************************)
(* STEP LAYER                                                              *)
(***************************************************************************)
NoRefine == /\ f = <<>> /\ ncross = 0 /\ xtol = 0 /\ a = 0 /\ b = 0 /\ gl = 0 /\ xhit = 0
            /\ reason = "" /\ path = <<>>

InitStep ==
    /\ layer = "step"
    /\ dir \in Dirs
    /\ \E s \in Signs : g = <<s>>
    /\ pc = "step"
    /\ hitStep = 0
    /\ NoRefine

\* one accepted step: the event function takes sign s at the new node
Advance(s) ==
    /\ layer = "step" /\ pc = "step" /\ Len(g) <= MaxLen
    /\ g' = Append(g, s)
    /\ IF EventCrossed(g[Len(g)], s, dir)
         THEN pc' = "hit" /\ hitStep' = Len(g)
         ELSE pc' = "step" /\ hitStep' = 0
    /\ UNCHANGED <<layer, dir, f, ncross, xtol, a, b, gl, xhit, reason, path>>

\* a rejected adaptive step changes nothing the event logic can see (a stuttering step here;
\* an explicit event in traces)

\* the span is exhausted: return the state at the last node
NoEventEnd ==
    /\ layer = "step" /\ pc = "step" /\ Len(g) >= 2
    /\ pc' = "end"
    /\ UNCHANGED <<layer, dir, g, hitStep, f, ncross, xtol, a, b, gl, xhit, reason, path>>

(***************************************************************************)
(* REFINE LAYER                                                            *)
(***************************************************************************)
Parity(S) == IF Cardinality(S) % 2 = 0 THEN 1 ELSE -1

\* sign function with crossings at the grid cells ending in cs (the sign flips between c-1 and c),
\* exactly zero at the grid points zs \subseteq cs, optionally zero at the start point
SignFun(s0, z0, cs, zs) ==
    [x \in 0 .. N |-> IF x = 0 /\ z0 THEN 0
                      ELSE IF x \in zs THEN 0
                      ELSE s0 * Parity({c \in cs : c <= x})]

CrossSets == {cs \in SUBSET (1 .. N) : Cardinality(cs) <= MaxCross}

InitRefine ==
    /\ layer = "refine"
    /\ dir \in Dirs
    /\ \E s0 \in {-1, 1}, z0 \in BOOLEAN, cs \in CrossSets :
         \E zs \in SUBSET cs :
            /\ f = SignFun(s0, z0, cs, zs)
            /\ ncross = Cardinality(cs)
    /\ EventCrossed(f[0], f[N], dir)        \* the refine functions are only entered from a reported step
    /\ xtol \in XtolSet
    /\ g = <<>> /\ hitStep = 0
    /\ pc = "mid"
    /\ a = 0 /\ b = N /\ gl = f[0]
    /\ xhit = 0 /\ reason = "" /\ path = <<>>

Mid == (a + b) \div 2

\* abs(g_mid) <= gtol: return the mid-point.  (The sign gm at the mid-point is a parameter so that
\* trace validation can feed the logged value; in the model it is the environment's f[Mid].)
GtolHitWith(gm) ==
    /\ layer = "refine" /\ pc = "mid" /\ gm = 0
    /\ xhit' = Mid /\ reason' = "gtol" /\ pc' = "done"
    /\ path' = Append(path, [mid |-> Mid, gm |-> 0, crossed |-> FALSE, a |-> a, b |-> b])
    /\ UNCHANGED <<layer, dir, g, hitStep, f, ncross, xtol, a, b, gl>>
GtolHit == GtolHitWith(f[Mid])

\* crossed = _crossed_direction(g_left, g_mid, direction);  _bisection_update
UpdateWith(gm) ==
    /\ layer = "refine" /\ pc = "mid" /\ gm # 0
    /\ LET cr == CrossedDirection(gl, gm, dir) IN
       /\ IF cr THEN b' = Mid /\ UNCHANGED <<a, gl>>
                ELSE a' = Mid /\ gl' = gm /\ UNCHANGED b
       /\ path' = Append(path, [mid |-> Mid, gm |-> gm, crossed |-> cr, a |-> a', b |-> b'])
    /\ pc' = "conv"
    /\ UNCHANGED <<layer, dir, g, hitStep, f, ncross, xtol, xhit, reason>>
Update == UpdateWith(f[Mid])

\* _bracket_converged: (b - a) * |h| <= xtol  -> return b
XtolStop ==
    /\ layer = "refine" /\ pc = "conv" /\ b - a <= xtol
    /\ xhit' = b /\ reason' = "xtol" /\ pc' = "done"
    /\ UNCHANGED <<layer, dir, g, hitStep, f, ncross, xtol, a, b, gl, path>>

Continue ==
    /\ layer = "refine" /\ pc = "conv" /\ b - a > xtol
    /\ pc' = "mid"
    /\ UNCHANGED <<layer, dir, g, hitStep, f, ncross, xtol, a, b, gl, xhit, reason, path>>

Init == InitStep \/ InitRefine
Next == (\E s \in Signs : Advance(s)) \/ NoEventEnd \/ GtolHit \/ Update \/ XtolStop \/ Continue
Spec == Init /\ [][Next]_vars /\ WF_vars(GtolHit \/ Update \/ XtolStop \/ Continue)

(***************************************************************************)
(* REQUIREMENT -- property C11                                             *)
(***************************************************************************)
\* "crosses zero in the requested direction (an exact zero at the end of a step counts as a hit)";
\* a start point on the surface is not a crossing: the product of the endpoint values is not negative
Admissible(u, v, d) ==
    \/ v = 0
    \/ u * v < 0 /\ (d = 0 \/ (d = 1 /\ v > u) \/ (d = -1 /\ v < u))

StepAdm(k) == Admissible(g[k], g[k + 1], dir)

\* "returns the first time ... at which the function crosses zero in the requested direction"
FirstAdmissibleStep ==
    (layer = "step" /\ pc = "hit") =>
        /\ hitStep \in 1 .. (Len(g) - 1)
        /\ StepAdm(hitStep)
        /\ \A k \in 1 .. (hitStep - 1) : ~StepAdm(k)

\* nothing admissible is ever walked past
NoAdmissibleStepSkipped ==
    (layer = "step" /\ pc \in {"step", "end"}) => \A k \in 1 .. (Len(g) - 1) : ~StepAdm(k)

\* "Crossings in the filtered-out direction are ignored"
FilteredDirectionIgnored ==
    (layer = "step" /\ pc = "hit" /\ dir # 0 /\ g[hitStep + 1] # 0) =>
        (g[hitStep] = -dir /\ g[hitStep + 1] = dir)

\* a start point on the surface is not a hit by itself
StartOnSurfaceNotAHit ==
    (layer = "step" /\ pc = "hit" /\ hitStep = 1 /\ g[1] = 0) => g[2] = 0

\* "an exact zero at the end of a step counts as a hit"
ZeroAtStepEndIsHit ==
    layer = "step" => \A k \in 2 .. Len(g) : (g[k] = 0 => (pc = "hit" /\ hitStep <= k - 1))

\* "if nothing crosses the state at the end of the span is returned"
NoCrossingReturnsEnd ==
    (layer = "step" /\ pc = "end") => (hitStep = 0 /\ \A k \in 1 .. (Len(g) - 1) : ~StepAdm(k))

\* the step handed to the refine layer satisfies the refine layer's entry condition
RefineEntry ==
    (layer = "step" /\ pc = "hit") => EventCrossed(g[hitStep], g[hitStep + 1], dir)

\* --- refine layer.  The first admissible crossing inside the step, on the grid:
AdmX == {x \in (DOMAIN f) \ {0} : Admissible(f[x - 1], f[x], dir)}
FirstX == CHOOSE x \in AdmX : \A y \in AdmX : x <= y

\* the property is stated for event functions with one crossing per accepted step (DESIGN section 4);
\* with several the spec still pins what the algorithm returns (emitted and replayed), nothing is required
Single == ncross = 1 /\ AdmX # {}

\* "the bracket always contains an admissible sign change when one exists in the step"
BracketContainsCrossing ==
    (layer = "refine" /\ Single /\ pc # "done") => (a < FirstX /\ FirstX <= b)

\* "the event function there is zero to within the location tolerances":
\*   |x_hit - x*| <= xtol/|h|   or   |g| <= gtol
HitWithinTolerances ==
    (layer = "refine" /\ Single /\ pc = "done") =>
        \/ reason = "gtol" /\ f[xhit] = 0 /\ xhit = FirstX
        \/ reason = "xtol" /\ xhit - xtol < FirstX /\ FirstX <= xhit

\* "the returned abscissa lies in the final bracket"
HitInBracket ==
    (layer = "refine" /\ pc = "done") => (a <= xhit /\ xhit <= b /\ b - a >= 1)

RefineTerminates == (layer = "refine") ~> (pc = "done")

TypeOK ==
    /\ layer \in {"step", "refine"}
    /\ dir \in Dirs
    /\ layer = "step" => (pc \in {"step", "hit", "end"} /\ Len(g) <= MaxLen + 1)
    /\ layer = "refine" => (pc \in {"mid", "conv", "done"} /\ 0 <= a /\ a < b /\ b <= N
                            /\ (pc = "mid" => (b - a) % 2 = 0))
=============================================================================
