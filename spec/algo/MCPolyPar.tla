------------------------------ MODULE MCPolyPar ------------------------------
(* Model-checking instance of PolyPar: constants and the JSON emission of    *)
(* schedules (which thread executed which iteration, in which order) that    *)
(* the harness replays through _poly_mul.py_func / _poly_diff.py_func with   *)
(* prange / get_thread_id / get_num_threads scripted.                        *)
EXTENDS PolyPar, Json

MCSlot == <<1, 1, 2, 1>>
MCVal  == <<1, 2, 4, 8>>

EmitSchedule ==
    (phase = "done" /\ Record) => PrintT(ToJson([T |-> T, NI |-> NI, sched |-> sched]))
=============================================================================
