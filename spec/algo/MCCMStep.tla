------------------------------ MODULE MCCMStep ------------------------------
EXTENDS CMStep, Json
MCFVals == {-1, 0, 1, 3}
Emit == PrintT(ToJson([f |-> f, good |-> [i \in DOMAIN good |-> IF good[i] THEN 1 ELSE 0], idx |-> Reported,
                       anum |-> IF Reported = 0 THEN 0 ELSE f[Reported],
                       aden |-> IF Reported = 0 THEN 1 ELSE f[Reported] - f[Reported + 1]]))
=============================================================================
