---------------------------- MODULE MCStepDriver ----------------------------
(* Model-checking instance of StepDriver: configuration families, factor   *)
(* classes, and the JSON emission of terminal behaviours for the           *)
(* spec -> code replay (scripted step kernel and controller driven through *)
(* the real driver source).                                                *)
EXTENDS StepDriver, Json

Cfg(t0, tf, mn, mx, h0, te) == [t0 |-> t0, tf |-> tf, hmin |-> mn, hmax |-> mx, h0 |-> h0, teval |-> te]

\* requested output grids for [t0, tf]: end points only, every tick, and an irregular grid
Grids(t0, tf) ==
    { <<t0, tf>>,
      [i \in 1 .. (tf - t0 + 1) |-> t0 + i - 1],
      <<t0, t0 + 1, tf - 2, tf - 1, tf>> }

MCAcc == {<<1, 2>>, <<1, 1>>, <<2, 1>>, <<4, 1>>}
MCRej == {<<1, 2>>, <<1, 4>>}
MCAccBig == {<<1, 4>>, <<1, 2>>, <<1, 1>>, <<2, 1>>, <<4, 1>>, <<8, 1>>}

\* time unit: ticks; t0 negative in some of the configurations
AllCfg(T0s, Spans, Mns, Mxs, H0s) ==
    UNION { UNION { { Cfg(t0, t0 + span, mn, mx, h0, te) :
                        mn \in Mns, mx \in Mxs, h0 \in H0s, te \in Grids(t0, t0 + span) }
                    : span \in Spans } : t0 \in T0s }

QuickConfigs ==
    { c \in AllCfg({0, -3}, {5, 7}, {1, 2}, {4}, {1, 2, 4}) : c.hmin <= c.h0 /\ c.h0 <= c.hmax }

ThoroughConfigs ==
    { c \in AllCfg({0, -3}, {5, 8}, {1, 2, 3}, {4, 16}, {1, 2, 3, 4, 16}) :
        c.hmin <= c.h0 /\ c.h0 <= c.hmax }

\* behaviours replayed into the real driver: initial step at one of the two limits (the two
\* classes the real _select_initial_step can be steered to exactly)
GenConfigs ==
    { c \in AllCfg({0, -3}, {5, 6}, {1, 2}, {4}, {1, 2, 4}) : c.h0 = c.hmin \/ c.h0 = c.hmax }
GenSimConfigs ==
    { c \in AllCfg({0, -3, 2}, {5, 8, 12}, {1, 2, 3}, {4, 6, 16}, {1, 2, 3, 4, 6, 16}) :
        c.h0 = c.hmin \/ c.h0 = c.hmax }

EmitTerminal ==
    (pc = "done") =>
        PrintT(ToJson([cfg |-> cfg, script |-> hist, ts |-> ts, segAtt |-> segAtt, locs |-> locs,
                       builds |-> builds, att |-> att, hfinal |-> h]))

\* exhaustive checking ignores the history variables
NoHistView == <<cfg, pc, t, h, ts, segAtt, errPrev, att, idx, j, lastj, cache, nout>>
=============================================================================
