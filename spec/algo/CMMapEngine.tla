---------------------------- MODULE CMMapEngine ----------------------------
(***************************************************************************)
(* Worker chunking, iteration with surviving seeds and completion-order    *)
(* gathering of the centre-manifold Poincare map engine (property C14)     *)
(*   src/hiten/algorithms/poincare/centermanifold/engine.py  solve/_worker *)
(*                                                                         *)
(* Seeds 1..S are split with numpy.array_split into W chunks; each worker  *)
(* iterates NIter times, feeding the seeds that returned back in; a seed   *)
(* whose return fails is dropped; when nothing returns the worker stops.   *)
(* Futures complete in any order and the engine stacks results in          *)
(* completion order.  The return map is an uninterpreted deterministic     *)
(* function Ret : Point -> Point \cup {0} (0 = no return).  An item of the *)
(* result is <<point, tag>> where the tag identifies the time stamp that   *)
(* belongs to the point (its predecessor and iteration).                   *)
(* Requirement: the multiset of result items does not depend on W or on    *)
(* the completion order; the i-th time belongs to the i-th state; nothing  *)
(* is lost or duplicated.                                                  *)
(***************************************************************************)
EXTENDS Integers, Sequences, FiniteSets, TLC

CONSTANTS S, MaxW, NIter, Rets       \* Rets: set of functions 1..P -> 0..P

VARIABLES W, ret, chunk, it, cur, accS, accT, wdone, order, gathered
vars == <<W, ret, chunk, it, cur, accS, accT, wdone, order, gathered>>

\* numpy.array_split(range(S), W): the first S mod W chunks have one more element
ChunkStart(w, nw) == LET q == S \div nw  r == S % nw IN (w - 1) * q + (IF w - 1 < r THEN w - 1 ELSE r)
ChunkOf(w, nw) == LET a == ChunkStart(w, nw)  b == ChunkStart(w + 1, nw) IN [i \in 1 .. (b - a) |-> a + i]

Init ==
    /\ W \in 1 .. MaxW
    /\ ret \in Rets
    /\ chunk = [w \in 1 .. W |-> ChunkOf(w, W)]
    /\ it = [w \in 1 .. W |-> 0]
    /\ cur = chunk
    /\ accS = [w \in 1 .. W |-> <<>>]
    /\ accT = [w \in 1 .. W |-> <<>>]
    /\ wdone = [w \in 1 .. W |-> (Len(chunk[w]) = 0)]      \* empty chunks are never submitted
    /\ order = <<>>
    /\ gathered = FALSE

FilterSeq(s, T(_)) == LET F[i \in 0 .. Len(s)] == IF i = 0 THEN <<>> ELSE IF T(s[i]) THEN Append(F[i - 1], s[i]) ELSE F[i - 1] IN F[Len(s)]
MapSeq(s, f(_)) == [i \in 1 .. Len(s) |-> f(s[i])]

\* one backend call of worker w: the seeds that return, in seed order
Iterate(w) ==
    /\ ~wdone[w] /\ it[w] < NIter
    /\ LET alive == FilterSeq(cur[w], LAMBDA x : ret[x] # 0)
           newS == MapSeq(alive, LAMBDA x : ret[x])
           newT == MapSeq(alive, LAMBDA x : <<x, it[w]>>)
       IN  IF Len(alive) = 0
           THEN /\ wdone' = [wdone EXCEPT ![w] = TRUE]            \* response.states.size == 0: break
                /\ UNCHANGED <<it, cur, accS, accT>>
           ELSE /\ accS' = [accS EXCEPT ![w] = @ \o newS]
                /\ accT' = [accT EXCEPT ![w] = @ \o newT]
                /\ cur' = [cur EXCEPT ![w] = newS]
                /\ it' = [it EXCEPT ![w] = @ + 1]
                /\ wdone' = [wdone EXCEPT ![w] = (it[w] + 1 = NIter)]
    /\ UNCHANGED <<W, ret, chunk, order, gathered>>

\* as_completed yields a finished future
Complete(w) ==
    /\ wdone[w] /\ Len(chunk[w]) > 0
    /\ \A i \in DOMAIN order : order[i] # w
    /\ order' = Append(order, w)
    /\ UNCHANGED <<W, ret, chunk, it, cur, accS, accT, wdone, gathered>>

Gather ==
    /\ ~gathered
    /\ \A w \in 1 .. W : wdone[w] /\ (Len(chunk[w]) > 0 => \E i \in DOMAIN order : order[i] = w)
    /\ gathered' = TRUE
    /\ UNCHANGED <<W, ret, chunk, it, cur, accS, accT, wdone, order>>

Next == (\E w \in 1 .. W : Iterate(w) \/ Complete(w)) \/ Gather
Spec == Init /\ [][Next]_vars /\ WF_vars(Next)

\* the gathered result: workers with non-empty results, in completion order
RECURSIVE Cat(_, _)
Cat(f, ord) == IF ord = <<>> THEN <<>> ELSE f[ord[1]] \o Cat(f, Tail(ord))
ResultStates == Cat(accS, order)
ResultTimes == Cat(accT, order)

(* REQUIREMENT *)
\* the orbit of seed s: its successive returns while they exist, at most NIter of them, each with its tag
RECURSIVE OrbitItems(_, _)
OrbitItems(x, k) == IF k = NIter \/ ret[x] = 0 THEN {} ELSE {<<ret[x], <<x, k>>>>} \cup OrbitItems(ret[x], k + 1)
Expected == UNION {OrbitItems(s, 0) : s \in 1 .. S}
Items == {<<ResultStates[i], ResultTimes[i]>> : i \in DOMAIN ResultStates}

\* NB a worker stops as a whole when none of ITS seeds returns, which coincides with per-seed dropping
ResultIndependentOfWorkersAndOrder == gathered => (Items = Expected)
NothingDuplicated == gathered => (Cardinality({i : i \in DOMAIN ResultStates}) = Len(ResultStates)
                                  /\ \A i, j \in DOMAIN ResultTimes : i # j => ResultTimes[i] # ResultTimes[j])
TimesAlignedWithStates == gathered => (Len(ResultStates) = Len(ResultTimes)
                                       /\ \A i \in DOMAIN ResultStates : ResultStates[i] = ret[ResultTimes[i][1]])
Terminates == <>gathered
=============================================================================
