---------------------------- MODULE MCPropagate ----------------------------
(* Model-checking instance of Propagate: the configuration family          *)
(* (method x order x forward x system kind x flip x grid shape x entry),   *)
(* the plumbing variants, and the JSON emission of every configuration     *)
(* together with the outcome the algorithm transcription predicts.         *)
EXTENDS Propagate, Json

C(en, me, ord, sy, wr, fw, fl, gr, n, M, st, two) ==
    [entry |-> en, method |-> me, order |-> ord, sys |-> sy, wrap |-> wr, forward |-> fw,
     flip |-> fl, grid |-> gr, n |-> n, M |-> M, start |-> st, two |-> two]

RK == {<<"fixed", 4>>, <<"fixed", 6>>, <<"fixed", 8>>, <<"adaptive", 5>>, <<"adaptive", 8>>}
SY == {<<"symplectic", 2>>, <<"symplectic", 4>>, <<"symplectic", 6>>, <<"symplectic", 8>>}

\* clock resolution per method on the exact-flow systems: one fixed/symplectic step per sample, so
\* the tick is chosen small enough for the coarsest scheme to stay within 1e-3 tick of the clock
ModOf(me) == CASE me = "fixed" -> 48 [] me = "adaptive" -> 12 [] me = "symplectic" -> 384
NOf(me)   == CASE me = "fixed" -> 5  [] me = "adaptive" -> 5  [] me = "symplectic" -> 9
\* CR3BP / variational: positions index a reference table, no wrap-around (M = 1000)
NOfC(me)  == CASE me = "fixed" -> 41 [] me = "adaptive" -> 5  [] me = "symplectic" -> 5

\* forward runs start at 0; backward runs start at 0 and at the end of the forward twin (round trip)
Starts(fw, n) == IF fw = 1 THEN {0} ELSE {0, n - 1}

PropRot ==
    { C("propagate", m[1], m[2], "rot", "dir", fw, fl, "asc", NOf(m[1]), ModOf(m[1]), st, TRUE) :
        m \in RK, fw \in {1, -1}, fl \in {"none", "all", "block"}, st \in {0, 4} }
PropRotOdd ==
    { C("propagate", m[1], m[2], "rot", "dir", 1, "none", gr, NOf(m[1]), ModOf(m[1]), 0, TRUE) :
        m \in RK, gr \in {"desc", "const"} }
    \cup { C("propagate", m[1], m[2], "rot", "dir", fw, "none", "asc", 5, 12, 0, TRUE) :
        m \in {<<"symplectic", 2>>, <<"symplectic", 4>>}, fw \in {1, -1} }

PropHam ==
    { C("propagate", m[1], m[2], "ham", "dir", fw, fl, "asc", NOf(m[1]), ModOf(m[1]), st, TRUE) :
        m \in RK, fw \in {1, -1}, fl \in {"none", "all", "block"}, st \in {0, 4} }
    \cup { C("propagate", m[1], m[2], "ham", "dir", fw, fl, "asc", 9, 384, st, TRUE) :
        m \in SY, fw \in {1, -1}, fl \in {"none", "all"}, st \in {0, 8} }
    \cup { C("propagate", m[1], m[2], "ham", "dir", fw, "none", "const", 9, 384, 0, TRUE) :
        m \in SY, fw \in {1, -1} }

PropCr3bp ==
    { C("propagate", m[1], m[2], "cr3bp", "dir", fw, fl, "asc", NOfC(m[1]), 1000, st, FALSE) :
        m \in RK, fw \in {1, -1}, fl \in {"none", "all"}, st \in {0, 4, 40} }

PropVar ==
    { C("propagate", m[1], m[2], "var", "dir", fw, fl, "asc", NOfC(m[1]), 1000, st, FALSE) :
        m \in {<<"fixed", 8>>, <<"adaptive", 5>>, <<"adaptive", 8>>}, fw \in {1, -1},
        fl \in {"none", "block"}, st \in {0, 4, 40} }

SysCr3bp ==
    { C("system", m[1], m[2], "cr3bp", "dir", fw, "none", "asc", NOfC(m[1]), 1000, st, FALSE) :
        m \in RK, fw \in {1, -1}, st \in {0, 4, 40} }
    \cup { C("system", "symplectic", 4, "cr3bp", "dir", 1, "none", "asc", 5, 1000, 0, FALSE) }

GridShapes == {<<"asc", 5>>, <<"desc", 5>>, <<"const", 4>>, <<"nonmono", 4>>, <<"asc", 2>>, <<"desc", 2>>, <<"ascnu", 5>>, <<"descnu", 5>>}

IntRot ==
    { C("integrate", m[1], m[2], "rot", w[1], w[2], "none", g[1], g[2], ModOf(m[1]), 0, TRUE) :
        m \in RK, w \in {<<"raw", 1>>, <<"dir", 1>>, <<"dir", -1>>}, g \in GridShapes }
    \cup { C("integrate", m[1], m[2], "rot", "dir", -1, "block", "asc", 5, ModOf(m[1]), 0, TRUE) : m \in RK }
    \cup { C("integrate", "symplectic", 4, "rot", "raw", 1, "none", "asc", 5, 12, 0, TRUE) }

IntHam ==
    { C("integrate", m[1], m[2], "ham", w[1], w[2], "none", g[1], g[2], ModOf(m[1]), 0, TRUE) :
        m \in RK \cup SY, w \in {<<"raw", 1>>, <<"dir", 1>>, <<"dir", -1>>}, g \in GridShapes }

\* a start position only makes sense below n; forward runs start at 0
WellFormed(c) ==
    /\ c.start \in Starts(c.forward, c.n)
    /\ (c.wrap = "raw") => (c.forward = 1 /\ c.flip = "none")

ThoroughConfigs ==
    { c \in PropRot \cup PropRotOdd \cup PropHam \cup PropCr3bp \cup PropVar \cup SysCr3bp
            \cup IntRot \cup IntHam : WellFormed(c) }

\* quick tier: every entry, every grid shape, every flip, both directions, every method family;
\* fewer orders and no variational system (compilation of one driver per field dominates)
QuickSel(c) ==
    \/ c.sys = "rot" /\ c.order \in {4, 5}
    \/ c.sys = "rot" /\ c.method = "adaptive" /\ c.order = 8 /\ c.flip = "none"
    \/ c.sys = "ham" /\ c.method = "symplectic" /\ c.order \in {2, 6}
    \/ c.sys = "ham" /\ c.method = "fixed" /\ c.order = 4 /\ c.entry = "propagate" /\ c.flip = "none"
    \/ c.sys = "ham" /\ c.method # "symplectic" /\ c.entry = "integrate" /\ c.wrap = "raw" /\ c.order \in {4, 8}
    \/ c.sys = "cr3bp" /\ c.method = "adaptive" /\ c.order = 8 /\ c.flip = "none"
QuickConfigs == { c \in ThoroughConfigs : QuickSel(c) }

(* plumbing variants *)
ImplIntended == [sympSignsTimes |-> FALSE, dop853Desc |-> "reject", hamRhsOk |-> TRUE,  sympConst |-> "const"]
\* as found on the unchanged tree, one switch at a time (each must break exactly one clause)
ImplF3 == [ImplIntended EXCEPT !.sympSignsTimes = TRUE]     \* symplectic.py signs times, _propagate_dynsys again
ImplF2 == [ImplIntended EXCEPT !.dop853Desc = "stall"]      \* DOP853 `while (t - tf) < 0` on a descending grid
ImplF4 == [ImplIntended EXCEPT !.hamRhsOk = FALSE]          \* hamsys.rhs cannot be compiled
ImplNaN == [ImplIntended EXCEPT !.sympConst = "nan"]        \* symplectic on a zero-span grid

\* emitted from an INVARIANT: every configuration prints once, with the predicted outcome
EmitDone ==
    (stage = "done") => PrintT(ToJson([cfg |-> cfg, out |-> out]))
=============================================================================
