--------------------------- MODULE MCEventLocate ---------------------------
(* Model-checking instance of EventLocate: JSON emission of every terminal  *)
(* behaviour of both layers (sign script / sign function + expected result) *)
(* for replay into the real driver and refine sources.                      *)
EXTENDS EventLocate, Json

XtolQuick == {1, 2}
XtolThorough == {1, 2, 4}

EmitStep ==
    (layer = "step" /\ pc \in {"hit", "end"}) =>
        PrintT(ToJson([layer |-> "step", dir |-> dir, g |-> g, pc |-> pc, hitStep |-> hitStep]))

FSeq == [i \in 1 .. (N + 1) |-> f[i - 1]]

EmitRefine ==
    (layer = "refine" /\ pc = "done") =>
        PrintT(ToJson([layer |-> "refine", dir |-> dir, f |-> FSeq, xtol |-> xtol, ncross |-> ncross,
                       path |-> path, xhit |-> xhit, reason |-> reason]))
=============================================================================
