---------------------------- MODULE ConnPairing ----------------------------
(***************************************************************************)
(* Connections backend of hiten                                            *)
(*   src/hiten/algorithms/connections/backends.py                          *)
(*     _pair_counts, _exclusive_prefix_sum, _radpair2d, _nearest_neighbor_2d, *)
(*     _refine_pairs_on_section, _ConnectionsBackend.run                   *)
(*                                                                         *)
(* Two clouds of section points pu[1..nu], ps[1..ns] on an integer grid    *)
(* (squared distances are integers).  REQUIREMENT: property C19 clause by  *)
(* clause, ties handled in two halves (every UNIQUE mutual-nearest pair    *)
(* within the radius must be found; every reported pair must be a          *)
(* NON-STRICT mutual-nearest pair within the radius).  ALGORITHM: the      *)
(* radius-pair array with counts / prefix sums / write offsets, best-per-i *)
(* and best-per-j with the code's tie rule (first strict minimum in scan   *)
(* order), the mutual test, nearest neighbour in the own cloud, local      *)
(* segments and the closest-point routine of SegDist.                      *)
(***************************************************************************)
EXTENDS SegDist

CONSTANTS MaxU, MaxS,     \* cloud sizes explored
          Radii2          \* search radii explored, given as TWICE the squared radius and odd, so that no
                          \* grid distance lies on the boundary ("within" is then unambiguous)

VARIABLES pu, ps          \* sequences of points <<x, y>>

Pts == Coords \X Coords
PD2(p, q) == (p[1] - q[1]) * (p[1] - q[1]) + (p[2] - q[2]) * (p[2] - q[2])

---------------------------------------------------------------------------
(***************************************************************************)
(* REQUIREMENT                                                             *)
(***************************************************************************)
Within(U, S, i, j, r2) == 2 * PD2(U[i], S[j]) <= r2
NearestInS(U, S, i) == {j \in 1 .. Len(S) : \A k \in 1 .. Len(S) : PD2(U[i], S[j]) <= PD2(U[i], S[k])}
NearestInU(U, S, j) == {i \in 1 .. Len(U) : \A k \in 1 .. Len(U) : PD2(U[i], S[j]) <= PD2(U[k], S[j])}
MutualNearest(U, S, i, j) == j \in NearestInS(U, S, i) /\ i \in NearestInU(U, S, j)
UniqueMutualNearest(U, S, i, j) == NearestInS(U, S, i) = {j} /\ NearestInU(U, S, j) = {i}

\* P: set of reported index pairs <<i, j>>
PairsSound(U, S, r2, P) == \A p \in P : Within(U, S, p[1], p[2], r2) /\ MutualNearest(U, S, p[1], p[2])
NoPointTwice(P) == \A p, q \in P : p # q => (p[1] # q[1] /\ p[2] # q[2])
PairsComplete(U, S, r2, P) ==
    \A i \in 1 .. Len(U), j \in 1 .. Len(S) :
        (UniqueMutualNearest(U, S, i, j) /\ Within(U, S, i, j, r2)) => <<i, j>> \in P

\* nearest neighbour inside one cloud (local section segment i -> nn(i)); 0 if the cloud has one point
NNSet(C, i) == {j \in (1 .. Len(C)) \ {i} : \A k \in (1 .. Len(C)) \ {i} : PD2(C[i], C[j]) <= PD2(C[i], C[k])}
LocalSeg(U, S, i, iu, j, js) == <<U[i][1], U[i][2], U[iu][1], U[iu][2], S[j][1], S[j][2], S[js][1], S[js][2]>>

\* the velocity of point k is label[k] * (2, -1, 2) (norm 3 |label|), so |dv| of the reported
\* (interpolated) states is at most 3 * the largest corner difference; a pair whose every corner is
\* below the limit must be reported
SetMax(T) == CHOOSE m \in T : \A x \in T : x <= m
CornerMaxDv(U, S, au, bs, i, j) ==
    LET A == {i} \cup NNSet(U, i)
        B == {j} \cup NNSet(S, j)
    IN  SetMax({SgAbs(au[a] - bs[b]) : a \in A, b \in B})

---------------------------------------------------------------------------
(***************************************************************************)
(* ALGORITHM                                                               *)
(***************************************************************************)
\* _pair_counts / _exclusive_prefix_sum / _radpair2d
JsWithin(U, S, i, r2) == {j \in 1 .. Len(S) : Within(U, S, i, j, r2)}
Counts(U, S, r2) == [i \in 1 .. Len(U) |-> Cardinality(JsWithin(U, S, i, r2))]
RECURSIVE PrefixSum(_, _)
PrefixSum(c, n) == IF n = 0 THEN 0 ELSE PrefixSum(c, n - 1) + c[n]       \* offs[n] (0-based array index n)
Offs(U, S, r2) == [n \in 0 .. Len(U) |-> PrefixSum(Counts(U, S, r2), n)]
RankIn(T, j) == Cardinality({k \in T : k < j})                            \* j ascending inside a row
\* slot (1-based) written for the pair (i, j): offs[i-1] + rank + 1
Slot(U, S, r2, i, j) == Offs(U, S, r2)[i - 1] + RankIn(JsWithin(U, S, i, r2), j) + 1
AllWithin(U, S, r2) == {<<i, j>> \in (1 .. Len(U)) \X (1 .. Len(S)) : Within(U, S, i, j, r2)}
PairsArray(U, S, r2) ==
    LET W == AllWithin(U, S, r2)
    IN  [n \in 1 .. Offs(U, S, r2)[Len(U)] |-> CHOOSE p \in W : Slot(U, S, r2, p[1], p[2]) = n]

\* best_for_i / best_for_j: scan of the array, replace on strictly smaller distance only
BestScan(U, S, arr, keyIdx) ==     \* keyIdx = 1: per i, value = j ; keyIdx = 2: per j, value = i
    LET RECURSIVE Go(_, _)
        Go(n, best) ==
            IF n > Len(arr) THEN best
            ELSE LET p == arr[n]
                     key == p[keyIdx]
                     val == PD2(U[p[1]], S[p[2]])
                 IN  IF key \notin DOMAIN best \/ val < best[key][1]
                     THEN Go(n + 1, [x \in DOMAIN best \cup {key} |-> IF x = key THEN <<val, p[3 - keyIdx]>> ELSE best[x]])
                     ELSE Go(n + 1, best)
    IN  Go(1, [x \in {} |-> <<0, 0>>])
AlgPairs(U, S, r2) ==
    LET arr == PairsArray(U, S, r2)
        bi == BestScan(U, S, arr, 1)
        bj == BestScan(U, S, arr, 2)
    IN  {<<i, bi[i][2]>> : i \in {k \in DOMAIN bi : bj[bi[k][2]][2] = k /\ bj[bi[k][2]][1] = bi[k][1]}}

\* _nearest_neighbor_2d: first strict minimum in scan order = smallest index of NNSet
AlgNN(C, i) == IF Len(C) < 2 THEN 0 ELSE CHOOSE j \in NNSet(C, i) : \A k \in NNSet(C, i) : j <= k

---------------------------------------------------------------------------
PairInit == pu = <<>> /\ ps = <<>> /\ seg = <<>>
AddU(p) == Len(pu) < MaxU /\ pu' = Append(pu, p) /\ UNCHANGED <<ps, seg>>
AddS(p) == Len(ps) < MaxS /\ ps' = Append(ps, p) /\ UNCHANGED <<pu, seg>>
PairNext == \E p \in Pts : AddU(p) \/ AddS(p)
PairSpec == PairInit /\ [][PairNext]_<<pu, ps, seg>>
Ready == Len(pu) >= 1 /\ Len(ps) >= 1

\* every slot of the pairs array is written exactly once, rows in order
PairsArrayFilledExactlyOnce ==
    Ready => \A r2 \in Radii2 :
        LET W == AllWithin(pu, ps, r2)
            total == Offs(pu, ps, r2)[Len(pu)]
        IN  /\ Cardinality(W) = total
            /\ {Slot(pu, ps, r2, p[1], p[2]) : p \in W} = 1 .. total
            /\ \A p, q \in W : (p[1] < q[1] \/ (p[1] = q[1] /\ p[2] < q[2])) =>
                                    Slot(pu, ps, r2, p[1], p[2]) < Slot(pu, ps, r2, q[1], q[2])
AlgorithmPairsSound == Ready => \A r2 \in Radii2 : PairsSound(pu, ps, r2, AlgPairs(pu, ps, r2))
AlgorithmNoPointTwice == Ready => \A r2 \in Radii2 : NoPointTwice(AlgPairs(pu, ps, r2))
AlgorithmPairsComplete == Ready => \A r2 \in Radii2 : PairsComplete(pu, ps, r2, AlgPairs(pu, ps, r2))
AlgorithmNNIsNearest ==
    Ready => /\ \A i \in 1 .. Len(pu) : Len(pu) >= 2 => AlgNN(pu, i) \in NNSet(pu, i)
             /\ \A j \in 1 .. Len(ps) : Len(ps) >= 2 => AlgNN(ps, j) \in NNSet(ps, j)
\* the refined point of every algorithm pair sits at truly closest points of the local segments
AlgorithmRefinesAtClosestPoints ==
    (Ready /\ Len(pu) >= 2 /\ Len(ps) >= 2) => \A r2 \in Radii2 : \A p \in AlgPairs(pu, ps, r2) :
        LET sg == LocalSeg(pu, ps, p[1], AlgNN(pu, p[1]), p[2], AlgNN(ps, p[2]))
        IN  IsClosestPair(sg, AlgST(sg)[1], AlgST(sg)[2])

\* conformance of an observed run with the transcription (not a property clause)
RunConforms(U, S, r2, dvInactive, res, arr, nnu, nns) ==
    /\ arr = PairsArray(U, S, r2)
    /\ {<<res[k].i, res[k].j>> : k \in 1 .. Len(res)} \subseteq AlgPairs(U, S, r2)
    /\ dvInactive => {<<res[k].i, res[k].j>> : k \in 1 .. Len(res)} = AlgPairs(U, S, r2)
    /\ nnu = [i \in 1 .. Len(U) |-> AlgNN(U, i)]
    /\ nns = [j \in 1 .. Len(S) |-> AlgNN(S, j)]

(***************************************************************************)
(* judge of one observed run of _ConnectionsBackend.run (see ConnPairingTrace) *)
(*   res[k] = [i, j, iu, s, js, t, dvle, bal, ballt, rank]                 *)
(*     iu/js = 0: not decodable (s = 0 / t = 0), any nearest neighbour     *)
(*     dvle: reported delta_v <= dv_tol;  bal: kind = "ballistic";         *)
(*     ballt: 1 if delta_v < bal_tol, 0 if >, 2 if equal (unconstrained)   *)
(*     rank: rank of delta_v among the reported values                     *)
(***************************************************************************)
ResPairs(res) == {<<res[k].i, res[k].j>> : k \in 1 .. Len(res)}
RunVerdict(U, S, r2, dv2, au, bs, res) ==
    LET P == ResPairs(res)
        refined == Len(U) >= 2 /\ Len(S) >= 2
        IuSet(k) == IF res[k].iu = 0 THEN NNSet(U, res[k].i) ELSE {res[k].iu} \cap NNSet(U, res[k].i)
        JsSet(k) == IF res[k].js = 0 THEN NNSet(S, res[k].j) ELSE {res[k].js} \cap NNSet(S, res[k].j)
        badClosest == {k \in 1 .. Len(res) :
                          ~\E a \in IuSet(k), b \in JsSet(k) :
                              IsClosestPair(LocalSeg(U, S, res[k].i, a, res[k].j, b), res[k].s, res[k].t)}
    IN  IF \E k \in 1 .. Len(res) : ~(res[k].i \in 1 .. Len(U) /\ res[k].j \in 1 .. Len(S)) THEN "result-index-out-of-range"
        ELSE IF \E p \in P : ~Within(U, S, p[1], p[2], r2) THEN "result-pair-outside-radius"
        ELSE IF \E p \in P : ~MutualNearest(U, S, p[1], p[2]) THEN "result-pair-not-mutual-nearest"
        ELSE IF Cardinality(P) # Len(res) \/ ~NoPointTwice(P) THEN "point-in-two-results"
        ELSE IF \E i \in 1 .. Len(U), j \in 1 .. Len(S) :
                    /\ UniqueMutualNearest(U, S, i, j) /\ Within(U, S, i, j, r2)
                    /\ 2 * 3 * CornerMaxDv(U, S, au, bs, i, j) < dv2
                    /\ <<i, j>> \notin P
             THEN "unique-mutual-nearest-pair-within-limits-not-reported"
        ELSE IF \E k \in 1 .. Len(res) : ~res[k].dvle THEN "delta-v-exceeds-limit"
        ELSE IF \E k \in 1 .. Len(res) : res[k].ballt # 2 /\ (res[k].bal # (res[k].ballt = 1)) THEN "ballistic-label-wrong"
        ELSE IF \E k \in 1 .. Len(res) - 1 : res[k].rank > res[k + 1].rank THEN "results-not-sorted-by-delta-v"
        ELSE IF refined /\ \E k \in 1 .. Len(res) : IuSet(k) = {} \/ JsSet(k) = {} THEN "local-segment-not-to-nearest-neighbour"
        ELSE IF refined /\ badClosest # {} THEN
            LET k == CHOOSE x \in badClosest : TRUE
                a == CHOOSE x \in IuSet(k) : TRUE
                b == CHOOSE x \in JsSet(k) : TRUE
            IN  "meeting-point-not-at-closest-points-of-local-segments|" \o SegClass(LocalSeg(U, S, res[k].i, a, res[k].j, b))
        ELSE "ok"
=============================================================================
