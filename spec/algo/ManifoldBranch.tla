--------------------------- MODULE ManifoldBranch ---------------------------
(***************************************************************************)
(* The per-fraction loop of the manifold service (property C12)            *)
(*   src/hiten/algorithms/types/services/manifold.py  _run_compute,        *)
(*   _compute_manifold_section, _totime                                    *)
(*                                                                         *)
(* For every phase fraction the service seeds a trajectory and integrates  *)
(* it; the environment decides what the integration returns: a good        *)
(* trajectory, one passing too close to a primary, one whose Jacobi        *)
(* constant drifts, or an exception.  Requirement: stable branches are     *)
(* integrated backward and unstable ones forward; only trajectories that   *)
(* pass both filters are retained, in fraction order; counters equal the   *)
(* events; the phase sample chosen for a fraction is the grid sample       *)
(* nearest to fraction * period.                                           *)
(***************************************************************************)
EXTENDS Integers, Sequences, FiniteSets, TLC

CONSTANTS Branches,    \* set of [stable : BOOLEAN, direction : {1, -1}, nfrac : Nat]
          Outcomes     \* {"ok", "near1", "near2", "drift", "raise"}

VARIABLES br, i, attempts, successes, kept, fwdUsed, pc
vars == <<br, i, attempts, successes, kept, fwdUsed, pc>>

InitBr(b) == /\ br = b /\ i = 0 /\ attempts = 0 /\ successes = 0 /\ kept = <<>> /\ fwdUsed = {}
             /\ pc = IF b.nfrac = 0 THEN "done" ELSE "loop"
Init == \E b \in Branches : InitBr(b)

\* forward = -stable   (service __init__)
Forward(b) == IF b.stable THEN -1 ELSE 1

\* one loop iteration: attempts += 1; section; propagate(forward); filters; append
Step(o) ==
    /\ pc = "loop"
    /\ attempts' = attempts + 1
    /\ fwdUsed' = IF o = "raise_section" THEN fwdUsed ELSE fwdUsed \cup {Forward(br)}
    /\ IF o = "ok" THEN successes' = successes + 1 /\ kept' = Append(kept, i)
       ELSE UNCHANGED <<successes, kept>>
    /\ i' = i + 1
    /\ pc' = IF i + 1 = br.nfrac THEN "done" ELSE "loop"
    /\ br' = br

Next == \E o \in Outcomes : Step(o)
Spec == Init /\ [][Next]_vars /\ WF_vars(Next)

(* REQUIREMENT *)
StableIsBackward == br.stable => fwdUsed \subseteq {-1}
UnstableIsForward == ~br.stable => fwdUsed \subseteq {1}
CountersEqualEvents == attempts = i /\ successes = Len(kept) /\ successes <= attempts
KeptInFractionOrder == \A a, b \in DOMAIN kept : a < b => kept[a] < kept[b]
Terminates == <>(pc = "done")

(* phase index selection: grid t_k = k (k = 0 .. n-1), period n-1, fraction p/q:                 *)
(* _totime returns the first index minimising |p (n-1) / q - k|                                  *)
AbsI(z) == IF z < 0 THEN -z ELSE z
Nearest(n, p, q) ==
    CHOOSE k \in 0 .. n - 1 :
        /\ \A j \in 0 .. n - 1 : AbsI(p * (n - 1) - k * q) <= AbsI(p * (n - 1) - j * q)
        /\ \A j \in 0 .. k - 1 : AbsI(p * (n - 1) - j * q) > AbsI(p * (n - 1) - k * q)
\* requirement on the selection: within half a grid step of the requested phase
NearestIsWithinHalfStep(n, p, q) == 2 * AbsI(p * (n - 1) - Nearest(n, p, q) * q) <= q
=============================================================================
