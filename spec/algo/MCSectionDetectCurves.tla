----------------------- MODULE MCSectionDetectCurves -----------------------
EXTENDS SectionDetectCurves, Json

Pairs == {<<1, 0>>, <<2, 0>>, <<3, 0>>, <<1, 1>>, <<2, 1>>, <<3, 1>>, <<2, 2>>, <<3, 2>>}
Curve(sg, m1, n1, m2, n2) == [sg |-> sg, m1 |-> m1, n1 |-> n1, m2 |-> m2, n2 |-> n2]
MCCurves ==
    { Curve(sg, p[1], n1, p[2], n2) :
        sg \in {-1, 1}, p \in Pairs, n1 \in -1 .. (3 * TMax + 1), n2 \in -1 .. (2 * TMax + 1) }
\* keep roots within [-1/m, TMax + 1/m]; affine curves use n2 = -1 only
GoodCurve(c) == /\ c.n1 <= c.m1 * TMax + 1
                /\ IF c.m2 = 0 THEN c.n2 = -1 ELSE c.n2 <= c.m2 * TMax + 1
MCCurveSet == {c \in MCCurves : GoodCurve(c)}
MCCurveSetQuick == {c \in MCCurveSet : (c.n1 + c.n2) % 2 = 0 \/ c.m2 = 0}

MCHermite ==
    [a : -1 .. 5, b : {1, 2, 4}, y0 : {-3, 1}, y1 : {-2, 0, 5}, d0 : {-4, 0, 3}, d1 : {-1, 2}, dt : {1, 2}]
MCHermiteOK == {x \in MCHermite : x.a <= x.b + 1}

EmitCurve ==
    IsCurve =>
        LET gs == Samples(cv.c, cv.h, cv.grid) IN
        (Crossings(cv.c, cv.h, cv.grid) # {} \/ \E i \in 1 .. Len(gs) : gs[i] = 0) =>
            PrintT(ToJson([c |-> cv.c, h |-> cv.h, grid |-> cv.grid, S |-> gs,
                           J |-> [i \in 1 .. Len(gs) |-> J(cv.grid, i)],
                           roots |-> [i \in Crossings(cv.c, cv.h, cv.grid) |->
                                        [alpha |-> TrueAlpha(cv.c, cv.h, cv.grid, i),
                                         mono |-> Monotone(cv.c, cv.h, cv.grid, i),
                                         bound |-> IF Monotone(cv.c, cv.h, cv.grid, i)
                                                   THEN Bound(cv.c, cv.h, cv.grid, i) ELSE <<0, 1>>]]]))
EmitHermite ==
    (~IsCurve) =>
        PrintT(ToJson([herm |-> cv,
                       val |-> HermN(cv.a, cv.b, cv.y0, cv.y1, cv.d0 * cv.dt, cv.d1 * cv.dt),
                       der |-> HermDerN(cv.a, cv.b, cv.y0, cv.y1, cv.d0 * cv.dt, cv.d1 * cv.dt)]))
=============================================================================
