------------------------ MODULE SectionDetectCurves ------------------------
(***************************************************************************)
(* C15, accuracy clauses: "its time ... differ[s] from the exact crossing   *)
(* by no more than the linear-interpolation error of that interval,        *)
(* shrinking as the sampling is refined (second order ...)".               *)
(*                                                                         *)
(* Analytic family with exactly known crossings: section functions         *)
(*     g(t) = sg * (m1 t - n1) * (m2 t - n2)      (m2 = 0: affine)         *)
(* with integer parameters, sampled with h samples per time unit on the    *)
(* grids of SectionDetect.  In sample-index units j = h t the samples      *)
(*     S(j) = sg * (m1 j - h n1) * (m2 j - h n2)                           *)
(* are integers, the roots h n/m are rational, S' is linear and S'' is     *)
(* constant, so the textbook bound                                         *)
(*     |t_chord - t*| <= dt^2 max|g''| / (8 min|g'|)                       *)
(* is an inequality between integers.  TLC checks it for every crossing    *)
(* of every curve (requirement-level fact about the chord crossing, to     *)
(* which the code is bound exactly by SectionDetect/Verdict), and emits    *)
(* the true crossing and the bound of every interval for the replay of the *)
(* cubic path, whose hits are only known as floats.                        *)
(*                                                                         *)
(* Also here: the cubic Hermite kernels used by the cubic path             *)
(* (poincare/utils.py _hermite_scalar / _hermite_der) as exact rational    *)
(* functions, with the law  derivative = five-point stencil of the value   *)
(* (exact for polynomials of degree <= 4) checked by TLC.                  *)
(***************************************************************************)
EXTENDS SectionDetect

CONSTANTS CurveSet,      \* set of records [sg, m1, n1, m2, n2]
          Resolutions,   \* samples per time unit
          CurveGrids,    \* subset of GridKinds
          TMax,          \* curves are sampled on [0, TMax]
          HermiteSet     \* set of records [a, b, y0, y1, d0, d1, dt] : s = a/b

VARIABLE cv              \* [c |-> curve, h |-> resolution, grid |-> kind] or a Hermite instance

Scale == 100000          \* quantisation of float errors handed to TLC: 1e-5 of an interval

---------------------------------------------------------------------------
(* sampled curve *)
F1(c, h, j) == c.m1 * j - h * c.n1
F2(c, h, j) == IF c.m2 = 0 THEN h ELSE c.m2 * j - h * c.n2
SVal(c, h, j) == c.sg * F1(c, h, j) * F2(c, h, j)
SDer(c, h, j) == c.sg * (c.m1 * F2(c, h, j) + c.m2 * F1(c, h, j))      \* dS/dj, exact
SDer2(c) == 2 * c.sg * c.m1 * c.m2                                      \* d2S/dj2, constant

\* sample i (1-based) sits at index J(grid, i); the last sample is the last one <= h*TMax
J(grid, i) == Time(grid, i)
NumSamples(h, grid) == CHOOSE n \in 2 .. (h * TMax + 1) :
                          J(grid, n) <= h * TMax /\ (n = h * TMax + 1 \/ J(grid, n + 1) > h * TMax)
Samples(c, h, grid) == [i \in 1 .. NumSamples(h, grid) |-> SVal(c, h, J(grid, i))]

\* true crossing inside interval i, as a fraction of the interval
RootAlpha(c, h, grid, i, q) ==
    IF q = 1 THEN Frac(h * c.n1 - c.m1 * J(grid, i), c.m1 * Dt(grid, i))
    ELSE Frac(h * c.n2 - c.m2 * J(grid, i), c.m2 * Dt(grid, i))
RootIds(c) == IF c.m2 = 0 THEN {1} ELSE {1, 2}
StrictlyInside(f) == 0 < f[1] /\ f[1] < f[2]
RootsInside(c, h, grid, i) == {q \in RootIds(c) : StrictlyInside(RootAlpha(c, h, grid, i, q))}
TrueAlpha(c, h, grid, i) == RootAlpha(c, h, grid, i, CHOOSE q \in RootsInside(c, h, grid, i) : TRUE)

\* linear-interpolation error bound of interval i, as a fraction of the interval:
\*   L^2 |S''| / (8 min|S'|) / L     (S' linear => its minimum modulus is at an end point,
\*   provided it does not change sign inside the interval)
Monotone(c, h, grid, i) == SDer(c, h, J(grid, i)) * SDer(c, h, J(grid, i + 1)) > 0
MinDer(c, h, grid, i) ==
    LET a == SDAbs(SDer(c, h, J(grid, i))) b == SDAbs(SDer(c, h, J(grid, i + 1))) IN IF a < b THEN a ELSE b
Bound(c, h, grid, i) == Frac(Dt(grid, i) * SDAbs(SDer2(c)), 8 * MinDer(c, h, grid, i))

FracAbsDiffLe(a, b, bnd) ==     \* |a - b| <= bnd
    SDAbs(a[1] * b[2] - b[1] * a[2]) * bnd[2] <= bnd[1] * a[2] * b[2]

Crossings(c, h, grid) ==
    LET gs == Samples(c, h, grid) IN {i \in 1 .. Len(gs) - 1 : StrictChange(gs, i, 0)}

---------------------------------------------------------------------------
(* cubic Hermite kernels, exact: s = a/b, values scaled by b^3, derivatives by b^2 *)
HermN(a, b, y0, y1, D0, D1) ==
      (b + 2 * a) * (b - a) * (b - a) * y0 + a * (b - a) * (b - a) * D0
    + a * a * (3 * b - 2 * a) * y1 + a * a * (a - b) * D1
HermDerN(a, b, y0, y1, D0, D1) ==
      6 * a * (a - b) * y0 + (b - a) * (b - 3 * a) * D0
    + 6 * a * (b - a) * y1 + a * (3 * a - 2 * b) * D1

---------------------------------------------------------------------------
IsCurve == "c" \in DOMAIN cv
CurveInit == /\ g = <<>>
        /\ \/ cv \in [c : CurveSet, h : Resolutions, grid : CurveGrids]
           \/ cv \in HermiteSet
CurveNext == UNCHANGED <<g, cv>>
CurveSpec == CurveInit /\ [][CurveNext]_<<g, cv>>

\* every sign change between two samples brackets exactly one true crossing
OneRootPerSignChange ==
    IsCurve => \A i \in Crossings(cv.c, cv.h, cv.grid) : Cardinality(RootsInside(cv.c, cv.h, cv.grid, i)) = 1

\* the chord crossing (what a conforming detector reports with linear interpolation) is within
\* the second-order bound of the true crossing
LinearErrorWithinSecondOrderBound ==
    IsCurve => LET gs == Samples(cv.c, cv.h, cv.grid) IN
        \A i \in Crossings(cv.c, cv.h, cv.grid) :
            Monotone(cv.c, cv.h, cv.grid, i) =>
                FracAbsDiffLe(CrossPos(gs, i)[2], TrueAlpha(cv.c, cv.h, cv.grid, i), Bound(cv.c, cv.h, cv.grid, i))

\* "shrinking as the sampling is refined (second order)": halving the step divides the bound of the
\* interval that contains a given crossing by at least four in time units (two in interval units)
IntervalOfRoot(c, h, q) ==      \* uniform grid: interval containing root q, or 0
    LET num == IF q = 1 THEN h * c.n1 ELSE h * c.n2
        den == IF q = 1 THEN c.m1 ELSE c.m2
    IN  IF num <= 0 \/ num >= den * h * TMax \/ num % den = 0 THEN 0 ELSE (num \div den) + 1
BoundQuartersWhenStepHalves ==
    (IsCurve /\ cv.grid = "uni" /\ 2 * cv.h \in Resolutions) =>
        \A q \in RootIds(cv.c) :
            LET i1 == IntervalOfRoot(cv.c, cv.h, q)
                i2 == IntervalOfRoot(cv.c, 2 * cv.h, q)
            IN  (/\ i1 > 0 /\ i2 > 0
                 /\ i1 \in Crossings(cv.c, cv.h, "uni") /\ i2 \in Crossings(cv.c, 2 * cv.h, "uni")
                 /\ Monotone(cv.c, cv.h, "uni", i1)) =>
                    /\ Monotone(cv.c, 2 * cv.h, "uni", i2)
                    /\ LET b1 == Bound(cv.c, cv.h, "uni", i1)
                           b2 == Bound(cv.c, 2 * cv.h, "uni", i2)
                       IN  2 * b2[1] * b1[2] <= b1[1] * b2[2]

\* law tying the derivative kernel to the value kernel (five-point stencil, exact for cubics)
HermiteDerivativeIsDerivative ==
    (~IsCurve) =>
        LET H(x) == HermN(x, cv.b, cv.y0, cv.y1, cv.d0 * cv.dt, cv.d1 * cv.dt)
        IN  12 * HermDerN(cv.a, cv.b, cv.y0, cv.y1, cv.d0 * cv.dt, cv.d1 * cv.dt)
              = 8 * (H(cv.a + 1) - H(cv.a - 1)) - (H(cv.a + 2) - H(cv.a - 2))
\* interpolation conditions of the value kernel
HermiteInterpolates ==
    (~IsCurve) =>
        /\ HermN(0, cv.b, cv.y0, cv.y1, cv.d0, cv.d1) = cv.b * cv.b * cv.b * cv.y0
        /\ HermN(cv.b, cv.b, cv.y0, cv.y1, cv.d0, cv.d1) = cv.b * cv.b * cv.b * cv.y1
        /\ HermDerN(0, cv.b, cv.y0, cv.y1, cv.d0, cv.d1) = cv.b * cv.b * cv.d0
        /\ HermDerN(cv.b, cv.b, cv.y0, cv.y1, cv.d0, cv.d1) = cv.b * cv.b * cv.d1

(* judge of a cubic-path observation on a curve: hits are <<i, c, seg, q>> with <<i, c>> the
   bracket code, seg the interval whose crossing the hit is attributed to (0 for a hit at an
   on-surface sample) and q = ceil(Scale * |hit - true crossing|) in units of that interval *)
VerdictCurve(c, h, grid, n, d, hits) ==       \* n = number of samples of the observed run
    LET gs == [i \in 1 .. n |-> SVal(c, h, J(grid, i))]
        coded == [j \in 1 .. Len(hits) |-> <<hits[j][1], hits[j][2]>>]
        vb == VerdictBracket(gs, d, 0, coded)
        crossHits == {j \in 1 .. Len(hits) : hits[j][3] # 0}
    IN  IF vb # "ok" THEN vb
        ELSE IF \E j \in 1 .. Len(hits) : hits[j][3] = 0 /\ ~(hits[j][2] = 0 /\ OnSurface(gs, hits[j][1]))
             THEN "hit-at-sample-not-on-surface"
        ELSE IF \E j \in crossHits : ~(/\ hits[j][3] \in 1 .. Len(gs) - 1
                                       /\ StrictChange(gs, hits[j][3], d)
                                       /\ BracketMatches(coded[j], <<hits[j][3], <<1, 2>>>>))
             THEN "hit-outside-bracketing-interval"
        ELSE IF \E j \in crossHits :
                    /\ Monotone(c, h, grid, hits[j][3])        \* every grid: the clause holds per interval, uniform or not
                    /\ LET b == Bound(c, h, grid, hits[j][3])
                       IN  hits[j][4] * b[2] > b[1] * Scale + b[2]
             THEN "cubic-hit-error-exceeds-linear-interpolation-bound"
        ELSE "ok"
=============================================================================
