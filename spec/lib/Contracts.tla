----------------------------- MODULE Contracts -----------------------------
(***************************************************************************)
(* Generic [T]-tier contract validation (DESIGN.md section 1).             *)
(* A trace is the list of observables recorded from one real execution in  *)
(* one configuration: each observable is a named defect magnitude in units *)
(* of 0.1 decade (ceil(10 log10 |defect|), exact zero = -3000).  The trace *)
(* carries the bounds of its configuration class.  TLC replays every trace *)
(* and checks                                                              *)
(*   WithinBounds : no observable ever exceeds its bound                   *)
(*   AllObserved  : a completely consumed trace has observed every bounded *)
(*                  observable at least once (no vacuous pass)             *)
(***************************************************************************)
EXTENDS Integers, Sequences, FiniteSets, TLC, Json, IOUtils, TLCExt

Traces == JsonDeserialize(IOEnv.TRACE_FILE)

VARIABLES tid, l, worst
vars == <<tid, l, worst>>

Ev == Traces[tid].ev
B == Traces[tid].bounds
Reached(n) == TLCSet(tid, IF TLCGet(tid) < n THEN n ELSE TLCGet(tid))

NT == Len(Traces)
\* register tid      : furthest line reached (trace acceptance)
\* register NT + tid : 1 once an observable of the trace exceeded its bound, 2 once the trace ended with an
\*                     unobserved bounded observable (TLC keeps going, so that ALL offending traces are reported)
Init == /\ tid \in 1 .. Len(Traces) /\ l = 1
        /\ worst = [n \in DOMAIN Traces[tid].bounds |-> -9999]
        /\ TLCSet(tid, 1) /\ TLCSet(NT + tid, 0)

Observe ==
    /\ l <= Len(Ev)
    /\ Ev[l].name \in DOMAIN B
    /\ worst' = [worst EXCEPT ![Ev[l].name] = IF Ev[l].mag > @ THEN Ev[l].mag ELSE @]
    /\ l' = l + 1 /\ tid' = tid

Flag == LET over == Ev[l].mag > B[Ev[l].name]
            last == l = Len(Ev)
            unseen == last /\ \E n \in DOMAIN B : worst'[n] = -9999
        IN  IF over THEN TLCSet(NT + tid, 1)
            ELSE IF unseen /\ TLCGet(NT + tid) = 0 THEN TLCSet(NT + tid, 2) ELSE TRUE
Next == Observe /\ Flag /\ Reached(l + 1)
Spec == Init /\ [][Next]_vars

WithinBounds == \A n \in DOMAIN B : worst[n] <= B[n]
AllObserved == (l = Len(Ev) + 1) => \A n \in DOMAIN B : worst[n] > -9999

\* WithinBounds / AllObserved above are the requirement as state predicates (checked as invariants by the
\* self-test configuration); the batch configuration evaluates them per trace through the registers so that one
\* offending trace does not hide the others.
AllAccepted ==
    LET bad == {t \in 1 .. Len(Traces) : TLCGet(t) # Len(Traces[t].ev) + 1}
        oob == {t \in 1 .. Len(Traces) : TLCGet(NT + t) = 1}
        vac == {t \in 1 .. Len(Traces) : TLCGet(NT + t) = 2}
    IN  /\ PrintT(<<"REJECTED", {<<t, TLCGet(t)>> : t \in bad}>>)
        /\ PrintT(<<"OUTOFBOUNDS", {<<t, 1>> : t \in oob}>>)
        /\ PrintT(<<"UNOBSERVED", {<<t, 2>> : t \in vac}>>)
        /\ bad = {} /\ oob = {} /\ vac = {}
=============================================================================
