----------------------------- MODULE Contracts -----------------------------
(***************************************************************************)
(* Generic [T]-tier contract validation (DESIGN.md section 1).             *)
(* A trace is the list of observables recorded from one real execution in  *)
(* one configuration: each observable is a named defect magnitude in units *)
(* of 0.1 decade (ceil(10 log10 |defect|), exact zero = -3000).  The trace *)
(* carries the bounds of its configuration class.  TLC replays every trace *)
(* and checks                                                              *)
(*   WithinBounds : no observable ever exceeds its bound                   *)
(*   AllObserved  : a completely consumed trace has observed every bounded *)
(*                  observable at least once (no vacuous pass)             *)
(***************************************************************************)
EXTENDS Integers, Sequences, FiniteSets, TLC, Json, IOUtils, TLCExt

Traces == JsonDeserialize(IOEnv.TRACE_FILE)

VARIABLES tid, l, worst
vars == <<tid, l, worst>>

Ev == Traces[tid].ev
B == Traces[tid].bounds
Reached(n) == TLCSet(tid, IF TLCGet(tid) < n THEN n ELSE TLCGet(tid))

Init == /\ tid \in 1 .. Len(Traces) /\ l = 1
        /\ worst = [n \in DOMAIN Traces[tid].bounds |-> -9999]
        /\ TLCSet(tid, 1)

Observe ==
    /\ l <= Len(Ev)
    /\ Ev[l].name \in DOMAIN B
    /\ worst' = [worst EXCEPT ![Ev[l].name] = IF Ev[l].mag > @ THEN Ev[l].mag ELSE @]
    /\ l' = l + 1 /\ tid' = tid

Next == Observe /\ Reached(l + 1)
Spec == Init /\ [][Next]_vars

WithinBounds == \A n \in DOMAIN B : worst[n] <= B[n]
AllObserved == (l = Len(Ev) + 1) => \A n \in DOMAIN B : worst[n] > -9999

AllAccepted ==
    LET bad == {t \in 1 .. Len(Traces) : TLCGet(t) # Len(Traces[t].ev) + 1}
    IN  PrintT(<<"REJECTED", {<<t, TLCGet(t)>> : t \in bad}>>) /\ bad = {}
=============================================================================
