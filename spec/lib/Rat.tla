-------------------------------- MODULE Rat --------------------------------
(***************************************************************************)
(* Exact rational arithmetic on pairs <<num, den>> with den > 0 and        *)
(* gcd(|num|, den) = 1, small enough for TLC's 32-bit integers (TLC raises *)
(* an error on overflow, so an instance that does not fit is a machinery   *)
(* failure, never a silent wrong value).                                   *)
(*                                                                         *)
(* Second part: multivariate polynomials with integer coefficients as sets *)
(* of monomial records [c |-> Int, e |-> <<e1,...,en>>] (exponent tuples   *)
(* distinct), their partial derivatives, and evaluation at rational        *)
(* points.  Used by RKTableau (Hamiltonian vector fields) and TaoStep.     *)
(***************************************************************************)
EXTENDS Integers, Sequences, FiniteSets

RAbs(x) == IF x < 0 THEN -x ELSE x

\* <<Op(1), ..., Op(n)>> as a CONCRETE tuple.  TLC evaluates [i \in 1..n |-> e] lazily and
\* re-evaluates e at every application, which is exponential for nested vectors; every vector
\* in this library is therefore built with MkSeq.
RECURSIVE MkSeq(_, _)
MkSeq(Op(_), n) == IF n = 0 THEN <<>> ELSE Append(MkSeq(Op, n - 1), Op(n))

RECURSIVE RGcd(_, _)
RGcd(a, b) == IF b = 0 THEN a ELSE RGcd(b, a % b)

RNorm(n, d) ==
    LET s == IF d < 0 THEN -1 ELSE 1
        g == RGcd(RAbs(n), RAbs(d))
    IN  IF n = 0 THEN <<0, 1>> ELSE <<(s * n) \div g, (s * d) \div g>>

RInt(k) == <<k, 1>>
RZero == <<0, 1>>
ROne == <<1, 1>>
IsRat(r) == r[2] > 0 /\ RGcd(RAbs(r[1]), r[2]) = 1

\* addition through the lcm of the denominators keeps intermediates small
RAdd(a, b) ==
    LET g == RGcd(a[2], b[2])
        l == (a[2] \div g) * b[2]
    IN  RNorm(a[1] * (l \div a[2]) + b[1] * (l \div b[2]), l)
RNeg(a) == <<-a[1], a[2]>>
RSub(a, b) == RAdd(a, RNeg(b))
\* cross-cancel before multiplying
RMul(a, b) ==
    LET g1 == RGcd(RAbs(a[1]), b[2])
        g2 == RGcd(RAbs(b[1]), a[2])
    IN  IF a[1] = 0 \/ b[1] = 0 THEN RZero
        ELSE <<(a[1] \div g1) * (b[1] \div g2), (a[2] \div g2) * (b[2] \div g1)>>
RDiv(a, b) == RMul(a, IF b[1] < 0 THEN <<-b[2], -b[1]>> ELSE <<b[2], b[1]>>)
RLess(a, b) == a[1] * b[2] < b[1] * a[2]
RLeq(a, b) == a[1] * b[2] <= b[1] * a[2]

RECURSIVE RPow(_, _)
RPow(a, k) == IF k = 0 THEN ROne ELSE RMul(a, RPow(a, k - 1))

\* sum / dot product over index sequences
RECURSIVE RSumTo(_, _)
RSumTo(f, n) == IF n = 0 THEN RZero ELSE RAdd(RSumTo(f, n - 1), f[n])     \* f : 1..n -> Rat
RSum(f) == RSumTo(f, Len(f))
\* sum_{i=1..n} Op(i)
RECURSIVE RSumOp(_, _)
RSumOp(Op(_), n) == IF n = 0 THEN RZero ELSE RAdd(RSumOp(Op, n - 1), Op(n))

\* vectors (sequences of rationals)
VAdd(u, v) == MkSeq(LAMBDA i : RAdd(u[i], v[i]), Len(u))
VSub(u, v) == MkSeq(LAMBDA i : RSub(u[i], v[i]), Len(u))
VScale(c, v) == MkSeq(LAMBDA i : RMul(c, v[i]), Len(v))
VInt(v) == MkSeq(LAMBDA i : RInt(v[i]), Len(v))
VZero(n) == MkSeq(LAMBDA i : RZero, n)

(***************************************************************************)
(* Integer polynomials in n variables                                      *)
(***************************************************************************)
\* d/dx_v of one monomial (coefficient 0 when the exponent is 0)
MonoDiff(m, v) ==
    [c |-> m.c * m.e[v], e |-> MkSeq(LAMBDA i : IF i = v /\ m.e[i] > 0 THEN m.e[i] - 1 ELSE m.e[i], Len(m.e))]

RECURSIVE MonoValFrom(_, _, _, _)
MonoValFrom(m, x, i, acc) ==
    IF i > Len(m.e) THEN acc
    ELSE MonoValFrom(m, x, i + 1, IF m.e[i] = 0 THEN acc ELSE RMul(acc, RPow(x[i], m.e[i])))
MonoVal(m, x) == IF m.c = 0 THEN RZero ELSE MonoValFrom(m, x, 1, RInt(m.c))

\* polynomials are SEQUENCES of monomials (a fixed order keeps evaluation deterministic)
PolyVal(P, x) == RSumOp(LAMBDA k : MonoVal(P[k], x), Len(P))
PolyDiff(P, v) == MkSeq(LAMBDA k : MonoDiff(P[k], v), Len(P))
\* gradient of P at x as a sequence over the variables
PolyGrad(P, x) == MkSeq(LAMBDA v : PolyVal(PolyDiff(P, v), x), Len(x))
\* second derivatives (Hessian entry)
PolyHess(P, x, u, v) == PolyVal(PolyDiff(PolyDiff(P, u), v), x)

(***************************************************************************)
(* Laws (checked as ASSUME by the MC modules that use this library)        *)
(***************************************************************************)
RatLaws ==
    /\ RAdd(<<1, 2>>, <<1, 3>>) = <<5, 6>>
    /\ RSub(<<1, 2>>, <<1, 2>>) = RZero
    /\ RMul(<<-2, 3>>, <<3, 4>>) = <<-1, 2>>
    /\ RDiv(<<1, 2>>, <<-1, 4>>) = <<-2, 1>>
    /\ RNorm(6, -4) = <<-3, 2>>
    /\ RPow(<<-1, 2>>, 3) = <<-1, 8>>
    /\ \A a \in {<<1, 2>>, <<-3, 4>>, <<5, 1>>}, b \in {<<2, 3>>, <<-1, 8>>}, c \in {<<7, 2>>, <<0, 1>>} :
          /\ RMul(a, RAdd(b, c)) = RAdd(RMul(a, b), RMul(a, c))
          /\ RAdd(a, b) = RAdd(b, a) /\ RMul(a, b) = RMul(b, a)
          /\ IsRat(RAdd(a, b)) /\ IsRat(RMul(a, b))
    \* x^2 y - 3 y at (2, 1/2): value 2 - 3/2 = 1/2 ; d/dx = 2xy = 2 ; d/dy = x^2 - 3 = 1 ; d2/dxdy = 2x = 4
    /\ LET P == <<[c |-> 1, e |-> <<2, 1>>], [c |-> -3, e |-> <<0, 1>>]>>
           x == <<<<2, 1>>, <<1, 2>>>>
       IN  /\ PolyVal(P, x) = <<1, 2>>
           /\ PolyGrad(P, x) = <<<<2, 1>>, <<1, 1>>>>
           /\ PolyHess(P, x, 1, 2) = <<4, 1>>
           /\ PolyHess(P, x, 2, 1) = <<4, 1>>
           /\ PolyHess(P, x, 2, 2) = RZero
=============================================================================
