-------------------------------- MODULE IPoly --------------------------------
(***************************************************************************)
(* Sparse multivariate polynomials with Gaussian-integer coefficients.     *)
(*                                                                         *)
(* A polynomial in NV variables is a function                              *)
(*      exponent tuple (1..NV -> Nat)  |->  coefficient <<re, im>>         *)
(* whose domain is its support (no zero coefficients: every operator       *)
(* normalises), so two polynomials are equal iff they are equal as TLA+    *)
(* values.  The operators are the mathematical definitions of the          *)
(* operations hiten implements on packed coefficient arrays                *)
(* (src/hiten/algorithms/polynomial): nothing here mirrors the code, this  *)
(* is the requirement side.  Variables 1..NDOF are positions q, variables  *)
(* NDOF+1..NV the conjugate momenta p (hiten: q1 q2 q3 p1 p2 p3).          *)
(***************************************************************************)
EXTENDS Integers, Sequences, FiniteSets, GaussInt
LOCAL INSTANCE FiniteSetsExt      \* FoldSet
LOCAL INSTANCE SequencesExt       \* SetToSeq

CONSTANT NV
Vars == 1 .. NV
NDOF == NV \div 2

(***************************** exponent tuples *****************************)
KZero      == [i \in Vars |-> 0]
KUnit(v)   == [i \in Vars |-> IF i = v THEN 1 ELSE 0]
KAdd(a, b) == [i \in Vars |-> a[i] + b[i]]
KSub(a, b) == [i \in Vars |-> a[i] - b[i]]
KInc(a, v) == [a EXCEPT ![v] = @ + 1]
KDec(a, v) == [a EXCEPT ![v] = @ - 1]
RECURSIVE KSumTo(_, _)
KSumTo(k, n) == IF n = 0 THEN 0 ELSE k[n] + KSumTo(k, n - 1)
KDeg(k) == KSumTo(k, NV)

(******************************* polynomials *******************************)
PZero == [k \in {} |-> GZero]
Norm(f) == [k \in {x \in DOMAIN f : f[x] # GZero} |-> f[k]]
Coef(p, k) == IF k \in DOMAIN p THEN p[k] ELSE GZero
Mono(k, c) == Norm([x \in {k} |-> c])
Const(c)   == Mono(KZero, c)
Var(v)     == Mono(KUnit(v), GOne)

GSumOver(S, F(_)) == FoldSet(LAMBDA x, acc : GAdd(F(x), acc), GZero, S)

Deg(p)  == IF DOMAIN p = {} THEN -1
           ELSE CHOOSE d \in {KDeg(k) : k \in DOMAIN p} : \A k \in DOMAIN p : KDeg(k) <= d
IsHom(p) == \A a, b \in DOMAIN p : KDeg(a) = KDeg(b)
IsRealPoly(p) == \A k \in DOMAIN p : GIsReal(p[k])
HomPart(p, d) == [k \in {x \in DOMAIN p : KDeg(x) = d} |-> p[k]]
Trunc(p, m)   == [k \in {x \in DOMAIN p : KDeg(x) <= m} |-> p[k]]

Add(p, q)   == Norm([k \in DOMAIN p \cup DOMAIN q |-> GAdd(Coef(p, k), Coef(q, k))])
Scale(c, p) == Norm([k \in DOMAIN p |-> GMul(c, p[k])])
Neg(p)      == Scale(GInt(-1), p)
Sub(p, q)   == Add(p, Neg(q))

\* (p q)[k] = sum over a + b = k of p[a] q[b]
Mul(p, q) ==
    LET D == {KAdd(a, b) : a \in DOMAIN p, b \in DOMAIN q}
    IN  Norm([k \in D |->
              GSumOver({a \in DOMAIN p : KSub(k, a) \in DOMAIN q},
                       LAMBDA a : GMul(p[a], q[KSub(k, a)]))])

RECURSIVE Pow(_, _)
Pow(p, n) == IF n = 0 THEN Const(GOne) ELSE Mul(p, Pow(p, n - 1))

\* d/dx_v :  c x^k  |->  k_v c x^(k - e_v)
Diff(p, v) ==
    LET S == {a \in DOMAIN p : a[v] > 0}
    IN  Norm([k \in {KDec(a, v) : a \in S} |-> GScale(k[v] + 1, p[KInc(k, v)])])

\* term-wise antiderivative in x_v (integration constant 0); defined when every division is exact
Integrable(p, v) == \A a \in DOMAIN p : GDivisible(p[a], a[v] + 1)
Integrate(p, v)  == [k \in {KInc(a, v) : a \in DOMAIN p} |-> GDiv(p[KDec(k, v)], k[v])]

\* canonical Poisson bracket  {p, q} = sum_i  dp/dq_i dq/dp_i - dp/dp_i dq/dq_i
RECURSIVE PoissonTo(_, _, _)
PoissonTo(p, q, n) ==
    IF n = 0 THEN PZero
    ELSE Add(PoissonTo(p, q, n - 1),
             Sub(Mul(Diff(p, n), Diff(q, n + NDOF)), Mul(Diff(p, n + NDOF), Diff(q, n))))
Poisson(p, q) == PoissonTo(p, q, NDOF)

(******************************* evaluation ********************************)
\* x is a tuple of NV Gaussian integers
RECURSIVE MonoValTo(_, _, _)
MonoValTo(k, x, n) == IF n = 0 THEN GOne ELSE GMul(GPow(x[n], k[n]), MonoValTo(k, x, n - 1))
MonoVal(k, x) == MonoValTo(k, x, NV)
Eval(p, x) == GSumOver(DOMAIN p, LAMBDA k : GMul(p[k], MonoVal(k, x)))

(****************************** substitution *******************************)
\* x_i := L[i]  (L a tuple of NV polynomials)
RECURSIVE MonoSubstTo(_, _, _)
MonoSubstTo(k, L, n) == IF n = 0 THEN Const(GOne) ELSE Mul(Pow(L[n], k[n]), MonoSubstTo(k, L, n - 1))
RECURSIVE SubstSet(_, _, _)
SubstSet(p, L, S) ==
    IF S = {} THEN PZero
    ELSE LET k == CHOOSE x \in S : TRUE
         IN  Add(Scale(p[k], MonoSubstTo(k, L, NV)), SubstSet(p, L, S \ {k}))
Subst(p, L) == SubstSet(p, L, DOMAIN p)

\* the linear form  sum_j C[i][j] x_j   (C an NV x NV matrix of Gaussian integers)
LinForm(C, i) ==
    LET J == {j \in Vars : C[i][j] # GZero}
    IN  [k \in {KUnit(j) : j \in J} |-> C[i][CHOOSE j \in J : k = KUnit(j)]]
\* old variables expressed by new ones: x_old = C x_new (+ s)
SubstLinear(p, C)    == Subst(p, [i \in Vars |-> LinForm(C, i)])
SubstAffine(p, C, s) == Subst(p, [i \in Vars |-> Add(LinForm(C, i), Const(s[i]))])
\* the same map on points
MatVec(C, x) == [i \in Vars |-> GSumOver(Vars, LAMBDA j : GMul(C[i][j], x[j]))]
VecAdd(x, s) == [i \in Vars |-> GAdd(x[i], s[i])]

(***************************** JSON projection *****************************)
\* sequence of <<exponent tuple, re, im>> in arbitrary order
PolyToSeq(p) ==
    LET s == SetToSeq(DOMAIN p)
    IN  [i \in 1 .. Len(s) |-> <<[j \in Vars |-> s[i][j]], p[s[i]][1], p[s[i]][2]>>]
=============================================================================
