------------------------------ MODULE PolyIndex ------------------------------
(***************************************************************************)
(* The packed coefficient layout of hiten                                  *)
(*   src/hiten/algorithms/polynomial/base.py                               *)
(*     _init_index_tables (psi, clmo), _ENCODE_DICT_GLOBAL,                *)
(*     _pack_multiindex, _decode_multiindex, _encode_multiindex            *)
(*                                                                         *)
(* A homogeneous polynomial of degree d in n variables is stored as an     *)
(* array of Psi(n, d) coefficients.  The slot of the monomial with         *)
(* exponent tuple k is its position in the enumeration                     *)
(*      k[1] descending, then k[2] descending, ... (k[n] is determined)    *)
(* and the table clmo[d][pos] stores k[2..6] in five 6-bit fields.         *)
(*                                                                         *)
(* REQUIREMENT (property C06, first sentence): every monomial of degree d  *)
(* has exactly one slot in 0 .. Psi-1 and encoding and decoding are        *)
(* mutually inverse.  Stated here as laws of Enum / Rank / Pack / Unpack;  *)
(* the harness compares hiten's tables with these operators as integers.   *)
(***************************************************************************)
EXTENDS Integers, Sequences, FiniteSets

(* binomial coefficient, exact in 32-bit for the ranges used (n <= 36) *)
RECURSIVE BinomRec(_, _)
BinomRec(n, k) == IF k = 0 THEN 1 ELSE (BinomRec(n, k - 1) * (n - k + 1)) \div k
Binom(n, k) == IF k < 0 \/ n < 0 \/ k > n THEN 0
               ELSE BinomRec(n, IF k > n - k THEN n - k ELSE k)

\* number of monomials of degree exactly d in n variables
Psi(n, d) == IF n = 0 THEN (IF d = 0 THEN 1 ELSE 0) ELSE Binom(d + n - 1, n - 1)

RECURSIVE SeqSumTo(_, _)
SeqSumTo(k, m) == IF m = 0 THEN 0 ELSE k[m] + SeqSumTo(k, m - 1)
KSum(k) == SeqSumTo(k, Len(k))

(* The enumeration order, defined recursively: all n-tuples of degree d,   *)
(* first entry descending, the rest enumerated the same way.               *)
RECURSIVE Enum(_, _), EnumFrom(_, _, _)
Enum(n, d) == IF n = 1 THEN << <<d>> >> ELSE EnumFrom(n, d, d)
EnumFrom(n, d, k0) ==
    LET tail == Enum(n - 1, d - k0)
        here == [i \in 1 .. Len(tail) |-> <<k0>> \o tail[i]]
    IN  IF k0 = 0 THEN here ELSE here \o EnumFrom(n, d, k0 - 1)

(* Closed form of the position (0-based).  The tuples that precede k       *)
(* because their i-th entry is larger while the earlier entries agree are  *)
(* the monomials of degree <= rem - k[i] - 1 in the m = n - i remaining    *)
(* variables; there are Binom(rem - k[i] - 1 + m, m) of them.              *)
RECURSIVE RankFrom(_, _, _)
RankFrom(k, i, rem) ==
    IF i >= Len(k) THEN 0
    ELSE Binom(rem - k[i] - 1 + (Len(k) - i), Len(k) - i) + RankFrom(k, i + 1, rem - k[i])
Rank(k) == RankFrom(k, 1, KSum(k))

(* 6-variable packing: k[2..6] in 6-bit fields, k[1] implicit *)
Pack(k) == k[2] + 64 * k[3] + 4096 * k[4] + 262144 * k[5] + 16777216 * k[6]
Unpack(w, d) ==
    LET k2 == w % 64
        k3 == (w \div 64) % 64
        k4 == (w \div 4096) % 64
        k5 == (w \div 262144) % 64
        k6 == (w \div 16777216) % 64
    IN  <<d - (k2 + k3 + k4 + k5 + k6), k2, k3, k4, k5, k6>>

(***************************** laws (per degree) ****************************)
\* Enum lists Psi(n, d) pairwise different tuples of degree d: every monomial exactly once
EnumIsComplete(n, d) ==
    LET E == Enum(n, d)
    IN  /\ Len(E) = Psi(n, d)
        /\ \A i \in 1 .. Len(E) : Len(E[i]) = n /\ KSum(E[i]) = d /\ \A j \in 1 .. n : E[i][j] >= 0
        /\ Cardinality({E[i] : i \in 1 .. Len(E)}) = Len(E)
\* the closed form agrees with the recursive enumeration; hence Rank is a bijection onto 0..Psi-1
RankAgreesWithEnum(n, d) == LET E == Enum(n, d) IN \A i \in 1 .. Len(E) : Rank(E[i]) = i - 1
\* decode . encode = id on packed words, and the packed word is injective within a degree
PackUnpackInverse(d) ==
    LET E == Enum(6, d)
    IN  /\ \A i \in 1 .. Len(E) : Unpack(Pack(E[i]), d) = E[i]
        /\ Cardinality({Pack(E[i]) : i \in 1 .. Len(E)}) = Len(E)
\* 6-bit fields do not overflow up to degree 63 (all tuples with two non-zero slots summing to 63)
FieldsFit ==
    \A a, b \in 1 .. 6 : \A e \in 0 .. 63 :
        a # b =>
            LET k == [j \in 1 .. 6 |-> IF j = a THEN e ELSE IF j = b THEN 63 - e ELSE 0]
            IN  Unpack(Pack(k), 63) = k /\ Pack(k) < 1073741824
=============================================================================
