----------------------------- MODULE MCPolyIndex -----------------------------
(* Model-checking instance of PolyIndex.                                    *)
(*  Mode "table": one initial state per (n, d); the laws of PolyIndex are   *)
(*    checked for that pair and, for n = 6, the table row is emitted as     *)
(*    JSON for the entry-by-entry comparison with hiten's psi / clmo /      *)
(*    encode dictionaries.                                                  *)
(*  Mode "walk" (run with -simulate): random walks k -> k + e_v up to       *)
(*    degree WalkDeg; every visited tuple is emitted with Pack and Rank so  *)
(*    the harness' vectorised transcription (used for the 1.9 million       *)
(*    entries up to degree 30) is compared with TLC beyond the exhaustive   *)
(*    range.                                                                *)
EXTENDS PolyIndex, TLC, Json

CONSTANTS Mode, MaxDeg6, MaxDegSmall, WalkDeg

VARIABLES n, d, k
vars == <<n, d, k>>

Zero6 == <<0, 0, 0, 0, 0, 0>>

Init ==
    IF Mode = "table"
    THEN /\ k = Zero6
         /\ \/ n = 6 /\ d \in 0 .. MaxDeg6
            \/ n \in 1 .. 3 /\ d \in 0 .. MaxDegSmall
    ELSE n = 6 /\ d = 0 /\ k = Zero6

Next ==
    /\ Mode = "walk"
    /\ d < WalkDeg
    /\ \E v \in 1 .. 6 : k' = [k EXCEPT ![v] = @ + 1]
    /\ d' = d + 1
    /\ n' = n

Spec == Init /\ [][Next]_vars

IsTable == Mode = "table"

InvEnumIsComplete     == IsTable => EnumIsComplete(n, d)
InvRankAgreesWithEnum == IsTable => RankAgreesWithEnum(n, d)
InvPackUnpackInverse  == (IsTable /\ n = 6) => PackUnpackInverse(d)
InvFieldsFit          == (IsTable /\ n = 6 /\ d = 0) => FieldsFit
\* on walks: the tuple is recovered from its packed word, and Rank stays inside the table
InvWalk == (~IsTable) => /\ Unpack(Pack(k), d) = k
                         /\ KSum(k) = d
                         /\ Rank(k) >= 0 /\ Rank(k) < Psi(6, d)

EmitTable ==
    (IsTable /\ n = 6) =>
        PrintT(ToJson([kind |-> "table", d |-> d,
                       psi |-> [i \in 1 .. 7 |-> Psi(i - 1, d)],
                       tuples |-> Enum(6, d),
                       packed |-> [i \in 1 .. Psi(6, d) |-> Pack(Enum(6, d)[i])]]))
EmitWalk ==
    (~IsTable) => PrintT(ToJson([kind |-> "walk", k |-> k, pack |-> Pack(k), rank |-> Rank(k)]))
=============================================================================
