------------------------------ MODULE GaussInt ------------------------------
(* Gaussian integers Z[i] as pairs <<re, im>>.  Coefficient ring of IPoly.  *)
(* Ordinary integers are the pairs with im = 0, so one set of polynomial    *)
(* operators serves the real and the complex kernels of hiten.              *)
EXTENDS Integers

GZero == <<0, 0>>
GOne  == <<1, 0>>
GI    == <<0, 1>>
GInt(n) == <<n, 0>>

GAdd(a, b) == <<a[1] + b[1], a[2] + b[2]>>
GNeg(a)    == <<-a[1], -a[2]>>
GSub(a, b) == <<a[1] - b[1], a[2] - b[2]>>
GMul(a, b) == <<a[1] * b[1] - a[2] * b[2], a[1] * b[2] + a[2] * b[1]>>
GScale(n, a) == <<n * a[1], n * a[2]>>
GConj(a)   == <<a[1], -a[2]>>
GIsReal(a) == a[2] = 0

\* exact division by a positive integer, defined only when both parts are divisible
GDivisible(a, n) == a[1] % n = 0 /\ a[2] % n = 0
GDiv(a, n) == <<a[1] \div n, a[2] \div n>>

RECURSIVE GPow(_, _)
GPow(a, n) == IF n = 0 THEN GOne ELSE GMul(a, GPow(a, n - 1))
=============================================================================
