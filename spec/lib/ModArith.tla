------------------------------ MODULE ModArith ------------------------------
(***************************************************************************)
(* Arithmetic in the prime field Z/p for primes p < 46341 (so that every   *)
(* product of two residues stays below 2^31, TLC's integer range).         *)
(*                                                                         *)
(* Used where exact rational identities have numerators/denominators far   *)
(* beyond 32 bits (Butcher order conditions): a rational identity          *)
(* N/D = 0 with p not dividing D holds modulo p; one non-zero residue      *)
(* refutes it, and residue 0 for primes whose product exceeds a bound on   *)
(* |N| proves it.                                                          *)
(*                                                                         *)
(* Large integers cross into TLC as "limb" sequences: base-10000 digits,   *)
(* most significant first, with a separate sign.                           *)
(***************************************************************************)
EXTENDS Integers, Sequences

MBase == 10000

\* p is a prime below 46341 (trial division; 215^2 < 46341 <= 216^2)
IsSmallPrime(p) ==
    /\ p \in 2 .. 46340
    /\ \A d \in 2 .. 215 : (d * d > p) \/ (p % d # 0)

MNorm(a, p) == a % p                       \* TLC's % is the mathematical modulus (result in 0..p-1)
MAdd(a, b, p) == (a + b) % p
MSub(a, b, p) == (a - b) % p
MMul(a, b, p) == ((a % p) * (b % p)) % p
MNeg(a, p) == (0 - a) % p

RECURSIVE MPow(_, _, _)
MPow(a, e, p) ==
    IF e = 0 THEN 1 % p
    ELSE LET hlf == MPow(a, e \div 2, p)
             sq == MMul(hlf, hlf, p)
         IN  IF e % 2 = 0 THEN sq ELSE MMul(sq, a, p)

\* inverse by Fermat's little theorem; only meaningful for a # 0 (mod p), p prime
MInv(a, p) == MPow(a % p, p - 2, p)
MDiv(a, b, p) == MMul(a, MInv(b, p), p)

\* residue of a non-negative integer given by its limbs (Horner; acc * 10000 < 4.7e8)
RECURSIVE MLimbsFrom(_, _, _, _)
MLimbsFrom(limbs, i, acc, p) ==
    IF i > Len(limbs) THEN acc
    ELSE MLimbsFrom(limbs, i + 1, (acc * MBase + limbs[i]) % p, p)
MOfLimbs(limbs, p) == MLimbsFrom(limbs, 1, 0, p)

\* a "big rational" is a record [sg |-> -1|0|1, n |-> limbs, d |-> limbs]
BigDenOK(q, p) == MOfLimbs(q.d, p) # 0
MOfBig(q, p) ==
    IF q.sg = 0 THEN 0
    ELSE LET v == MDiv(MOfLimbs(q.n, p), MOfLimbs(q.d, p), p)
         IN  IF q.sg < 0 THEN MNeg(v, p) ELSE v

\* small rationals <<num, den>> (den > 0) to residues
MOfRat(r, p) == MDiv(r[1] % p, r[2] % p, p)

(***************************************************************************)
(* Laws of the transcription (checked by TLC as ASSUME in MC modules).     *)
(***************************************************************************)
ModArithLaws(p) ==
    /\ IsSmallPrime(p)
    /\ \A a \in {1, 2, 3, 7, 10, 9999, p - 1} : MMul(a, MInv(a, p), p) = 1
    /\ MSub(0, 1, p) = p - 1
    /\ MOfLimbs(<<1, 0>>, p) = 10000 % p
    /\ MOfLimbs(<<4, 6341>>, p) = 46341 % p
    /\ MOfBig([sg |-> -1, n |-> <<1>>, d |-> <<2>>], p) = MNeg(MInv(2, p), p)
    /\ MAdd(MOfRat(<<1, 2>>, p), MOfRat(<<1, 2>>, p), p) = 1
=============================================================================
