----------------------------- MODULE OrbitObject -----------------------------
(***************************************************************************)
(* A periodic-orbit domain object of hiten and its services                *)
(*   src/hiten/system/orbits/base.py            PeriodicOrbit (public API) *)
(*   src/hiten/algorithms/types/services/orbits.py                         *)
(*       _OrbitDynamicsService   (period.setter, propagate, monodromy,     *)
(*                                compute_stability, stability_indices,    *)
(*                                trajectory, energy)                      *)
(*       _OrbitCorrectionService (correct, apply_correction, options)      *)
(*   src/hiten/algorithms/types/core.py  __getstate__/__setstate__/        *)
(*       _setup_services;  utils/io/orbits.py  save/load/load_inplace      *)
(*                                                                         *)
(* Two state components are kept strictly apart:                           *)
(*                                                                         *)
(*  L  the LOGICAL state: what the sequence of public operations means,    *)
(*     defined by what each operation does to a freshly constructed        *)
(*     object (no caches): initial-state version, period version, the      *)
(*     propagation settings the `trajectory` attribute stands for, the     *)
(*     correction options in force.                                        *)
(*  I, dyn, cor  the IMPLEMENTATION state, transcribed from the code: the  *)
(*     attributes (_initial_state, _period, _trajectory, _stability_info,  *)
(*     _correction_options) and the two service caches (dynamics,          *)
(*     correction), with exactly the invalidation each setter performs.    *)
(*                                                                         *)
(* Every derived quantity is a pure function of the logical state,         *)
(* Fresh(q, L); values are represented by STAMPS naming the inputs they    *)
(* were computed from.  Versions are terms, not counters:                  *)
(*   init : <<>> = analytic guess, <<t>> = corrected to tolerance t.       *)
(*          A correction of a state that already meets the tolerance is    *)
(*          the identity (Newton stops after 0 iterations), and tightening *)
(*          a loosely corrected state continues the same Newton sequence,  *)
(*          so it lands on the state a tight correction of the guess       *)
(*          gives (both facts hold bit for bit on the real code).          *)
(*   per  : <<"none">>, <<"P1">>, <<"P2">> (user-set) or <<"T">> \o init   *)
(*          (the period the corrector found for that initial state).       *)
(*                                                                         *)
(* REQUIREMENT (C20 verbatim): every value an operation returns equals     *)
(* Fresh(q, L); distinct quantities have distinct keys; a save/load round  *)
(* trip preserves all observables.                                         *)
(*                                                                         *)
(* Transcription variants (constants) select how the working tree behaves; *)
(* the harness reads them off the live code.  All variants "repaired"      *)
(* is the design for which TLC must prove the requirement.                 *)
(***************************************************************************)
EXTENDS ServiceCache

CONSTANTS TrajOnHit,      \* propagate() assigns _trajectory also when served from the cache
          CorrKeyState,   \* the correction cache key contains the orbit state (init, period) it was
                          \* computed from, and a hit re-applies the cached correction to the orbit
          SaveOpts,       \* save/load carries the correction options in force
          LeftoverFix,    \* attributes restored by a load do not linger in the orbit's own __dict__
          CorrInvalidates,\* apply_correction drops _trajectory / _stability_info whenever the STATE changed (not only when the
                          \* period setter sees a different period)
          ExtraPeriods,   \* further user-set periods; <<"T", "tight">> = the very value the corrector will find (copied from
                          \* another, already corrected orbit): then a correction changes the state but NOT the period
          Props,          \* set of propagation settings <<steps, method, order>> (strings)
          MaxLen          \* bound on the history length (state constraint)

Tols       == {"loose", "tight"}
DefaultTol == "tight"                  \* library default tol = 1e-12
UserPeriods == {<<"P1">>, <<"P2">>} \cup ExtraPeriods
NoPeriod   == <<"none">>

VARIABLES L,      \* logical state   [init, per, prop, copt]
          I,      \* implementation attributes [init, per, traj, stab, copt]
          dyn,    \* dynamics-service cache: set of <<key, stamp>>
          cor,    \* correction-service cache
          saved,  \* <<>> or <<[L, I]>> : what the file on disk holds
          left,   \* [traj, stab]: copies of _trajectory/_stability_info that __setstate__ left in the
                  \* orbit's own __dict__ at the last load (__getstate__ starts from a copy of __dict__
                  \* and overwrites an entry only when the dynamics service holds a non-None value)
          alias,  \* TRUE after load_inplace: obj.__dict__.update(tmp.__dict__) leaves obj._domain_obj = tmp,
                  \* a second orbit sharing obj's services, which is pickled (and its properties
                  \* evaluated) along with obj by the next save
          last,   \* the last operation: [op, arg, ret, exp, hits]
          hist    \* history of operations with the model's predictions (not part of the VIEW)

vars == <<L, I, dyn, cor, saved, left, alias, last, hist>>

(***************************************************************************)
(* Values                                                                  *)
(***************************************************************************)
\* is initial state x converged to tolerance t ?
Sat(x, t) == x # <<>> /\ (x[Len(x)] = "tight" \/ t = "loose")
\* differential correction of x to tolerance t (idempotent on converged states)
Corr(t, x) == IF Sat(x, t) THEN x ELSE <<t>>
PeriodOf(x) == <<"T">> \o x

Stamp(q, x, p, e) == <<<<q>>, x, p, e>>
CorrStamp(x)       == Stamp("corr", x, PeriodOf(x), <<>>)
TrajStamp(x, p, s) == Stamp("traj", x, p, s)
MonoStamp(x, p)    == Stamp("mono", x, p, <<>>)
StabStamp(x, p)    == Stamp("stab", x, p, <<>>)

Val(s)  == <<"val", s>>
Raise   == <<"raise">>
Nothing == <<"none">>

(***************************************************************************)
(* Keys, through make_key as written (ServiceCache)                        *)
(***************************************************************************)
Obj == Atom("obj")
\* tuple(sorted(options.to_dict().items())) of OrbitCorrectionOptions: the tolerance lives
\* two dicts deep; only the shape relevant to _make_hashable is kept
OptsVal(t) == Tup(<<Tup(<<Atom("base"), Dct(<<<<"tol", Atom(t)>>>>)>>), Tup(<<Atom("fwd"), Atom("1")>>)>>)
SeqVal(s)  == Tup([i \in DOMAIN s |-> Atom(s[i])])
CorrKey(t, x, p) ==
    MakeKey(<<Obj, Atom("correct"), OptsVal(t)>> \o (IF CorrKeyState THEN <<SeqVal(x), SeqVal(p)>> ELSE <<>>))
PropKey(s) == MakeKey(<<Obj, Atom("propagate"), Atom(s[1]), Atom(s[2]), Atom(s[3])>>)
MonoKey    == MakeKey(<<Obj, Atom("monodromy")>>)
StabKey    == MakeKey(<<Obj, Atom("stability")>>)

(***************************************************************************)
(* Fresh(q, L): what a freshly constructed object in logical state L       *)
(* returns for each read.                                                  *)
(***************************************************************************)
FreshTrajectory(l) == IF l.prop = <<>> THEN Raise ELSE Val(TrajStamp(l.init, l.per, l.prop))
FreshMonodromy(l)  == IF l.per = NoPeriod THEN Raise ELSE Val(MonoStamp(l.init, l.per))
FreshStability(l)  == IF l.per = NoPeriod THEN Raise ELSE Val(StabStamp(l.init, l.per))
FreshEnergy(l)     == Val(Stamp("energy", l.init, <<>>, <<>>))
FreshPeriod(l)     == Val(Stamp("period", <<>>, l.per, <<>>))
FreshInit(l)       == Val(Stamp("init", l.init, <<>>, <<>>))
FreshCorrOpts(l)   == Val(Stamp("copt", <<>>, <<>>, <<l.copt>>))

(***************************************************************************)
(* Initial state: orbit constructed from an amplitude, nothing computed.   *)
(***************************************************************************)
Init ==
    /\ L = [init |-> <<>>, per |-> NoPeriod, prop |-> <<>>, copt |-> DefaultTol]
    /\ I = [init |-> <<>>, per |-> NoPeriod, traj |-> <<>>, stab |-> <<>>, copt |-> DefaultTol]
    /\ dyn = {} /\ cor = {} /\ saved = <<>>
    /\ left = [traj |-> <<>>, stab |-> <<>>] /\ alias = FALSE
    /\ last = [op |-> "init", arg |-> <<>>, ret |-> Nothing, exp |-> Nothing, hits |-> <<>>]
    /\ hist = <<>>

Record(op, arg, ret, exp, hits) ==
    /\ last' = [op |-> op, arg |-> arg, ret |-> ret, exp |-> exp, hits |-> hits]
    /\ hist' = Append(hist, [op |-> op, arg |-> arg, hits |-> hits, stale |-> (ret # exp),
                             rk |-> ret[1], ek |-> exp[1]])

Hit(svc, tag, h) == <<svc, tag, IF h THEN "H" ELSE "M">>

(***************************************************************************)
(* ALGORITHM TRANSCRIPTION, one action per public operation                *)
(***************************************************************************)
\* _OrbitDynamicsService.period.setter
ImplSetPeriod(i, d, v) ==
    IF v # i.per THEN [I |-> [i EXCEPT !.per = v, !.traj = <<>>, !.stab = <<>>], dyn |-> {}]
                 ELSE [I |-> i, dyn |-> d]
\* what the same statement means on a fresh object
LogSetPeriod(l, v) == IF v # l.per THEN [l EXCEPT !.per = v, !.prop = <<>>] ELSE l

SetPeriod(v) ==
    /\ LET r == ImplSetPeriod(I, dyn, v) IN I' = r.I /\ dyn' = r.dyn
    /\ L' = LogSetPeriod(L, v)
    /\ Record("SetPeriod", v, Nothing, Nothing, <<>>)
    /\ UNCHANGED <<cor, saved, left, alias>>

\* PeriodicOrbit.correct(options) -> _OrbitCorrectionService.correct; o = "default" is options=None
Correct(o) ==
    LET tI == IF o = "default" THEN I.copt ELSE o
        tL == IF o = "default" THEN L.copt ELSE o
        k  == CorrKey(tI, I.init, I.per)
        h  == Has(cor, k)
        x1 == Corr(tI, I.init)
        r0 == ImplSetPeriod([I EXCEPT !.init = x1], {}, PeriodOf(x1))     \* apply_correction: reset(), _initial_state, period setter
        r  == IF CorrInvalidates /\ x1 # I.init THEN [r0 EXCEPT !.I.traj = <<>>, !.I.stab = <<>>] ELSE r0
        xL == Corr(tL, L.init)
    IN  /\ IF h THEN /\ IF CorrKeyState THEN I' = r.I /\ dyn' = {} ELSE UNCHANGED <<I, dyn>>
                     /\ UNCHANGED cor
                     /\ Record("Correct", <<o>>, Val(Lookup(cor, k)), Val(CorrStamp(xL)), <<Hit("cor", "correct", TRUE)>>)
                ELSE /\ I' = r.I /\ dyn' = {}
                     /\ cor' = Put(cor, k, CorrStamp(x1))
                     /\ Record("Correct", <<o>>, Val(CorrStamp(x1)), Val(CorrStamp(xL)), <<Hit("cor", "correct", FALSE)>>)
        \* on a fresh object: the trajectory attribute stands for nothing any more once the state OR the period changed
        /\ L' = LET l1 == LogSetPeriod([L EXCEPT !.init = xL], PeriodOf(xL))
                IN  [l1 EXCEPT !.init = xL, !.prop = IF xL # L.init THEN <<>> ELSE l1.prop]
        /\ UNCHANGED <<saved, left, alias>>

\* PeriodicOrbit.propagate(steps, method, order)
Propagate(s) ==
    /\ IF I.per = NoPeriod
         THEN /\ UNCHANGED <<I, dyn>>
              /\ Record("Propagate", s, Raise, IF L.per = NoPeriod THEN Raise ELSE Val(TrajStamp(L.init, L.per, s)), <<>>)
         ELSE LET k == PropKey(s)
                  h == Has(dyn, k)
                  v == IF h THEN Lookup(dyn, k) ELSE TrajStamp(I.init, I.per, s)
              IN  /\ dyn' = Put(dyn, k, v)
                  /\ I' = IF h /\ ~TrajOnHit THEN I ELSE [I EXCEPT !.traj = v]   \* _trajectory set in the factory only
                  /\ Record("Propagate", s, Val(v),
                            IF L.per = NoPeriod THEN Raise ELSE Val(TrajStamp(L.init, L.per, s)),
                            <<Hit("dyn", "propagate", h)>>)
    /\ L' = IF L.per = NoPeriod THEN L ELSE [L EXCEPT !.prop = s]
    /\ UNCHANGED <<cor, saved, left, alias>>

ReadTrajectory ==
    /\ Record("ReadTrajectory", <<>>, IF I.traj = <<>> THEN Raise ELSE Val(I.traj), FreshTrajectory(L), <<>>)
    /\ UNCHANGED <<L, I, dyn, cor, saved, left, alias>>

ReadMonodromy ==
    /\ IF I.per = NoPeriod
         THEN /\ UNCHANGED dyn /\ Record("ReadMonodromy", <<>>, Raise, FreshMonodromy(L), <<>>)
         ELSE LET g == GetOrCreate(dyn, MonoKey, MonoStamp(I.init, I.per))
              IN  /\ dyn' = g[2]
                  /\ Record("ReadMonodromy", <<>>, Val(g[1]), FreshMonodromy(L), <<Hit("dyn", "monodromy", g[3])>>)
    /\ UNCHANGED <<L, I, cor, saved, left, alias>>

\* _OrbitDynamicsService.compute_stability(): _stability_info assigned inside the factory
ImplComputeStability(i, d) ==
    LET g == GetOrCreate(d, StabKey, StabStamp(i.init, i.per))
    IN  [ret |-> g[1], dyn |-> g[2], hit |-> g[3], I |-> IF g[3] THEN i ELSE [i EXCEPT !.stab = g[1]]]

ComputeStability ==
    /\ IF I.per = NoPeriod
         THEN /\ UNCHANGED <<I, dyn>> /\ Record("ComputeStability", <<>>, Raise, FreshStability(L), <<>>)
         ELSE LET c == ImplComputeStability(I, dyn)
              IN  /\ I' = c.I /\ dyn' = c.dyn
                  /\ Record("ComputeStability", <<>>, Val(c.ret), FreshStability(L), <<Hit("dyn", "stability", c.hit)>>)
    /\ UNCHANGED <<L, cor, saved, left, alias>>

\* PeriodicOrbit.stability_indices / eigenvalues / eigenvectors: read _stability_info, computing it if None
ReadStability ==
    /\ IF I.stab # <<>>
         THEN /\ UNCHANGED <<I, dyn>> /\ Record("ReadStability", <<>>, Val(I.stab), FreshStability(L), <<>>)
         ELSE IF I.per = NoPeriod
         THEN /\ UNCHANGED <<I, dyn>> /\ Record("ReadStability", <<>>, Raise, FreshStability(L), <<>>)
         ELSE LET c == ImplComputeStability(I, dyn)
              IN  /\ I' = c.I /\ dyn' = c.dyn
                  \* a cache hit leaves _stability_info = None and the subscript raises TypeError
                  /\ Record("ReadStability", <<>>, IF c.I.stab = <<>> THEN Raise ELSE Val(c.I.stab),
                            FreshStability(L), <<Hit("dyn", "stability", c.hit)>>)
    /\ UNCHANGED <<L, cor, saved, left, alias>>

ReadEnergy ==
    /\ Record("ReadEnergy", <<>>, FreshEnergy(I), FreshEnergy(L), <<>>)
    /\ UNCHANGED <<L, I, dyn, cor, saved, left, alias>>
ReadPeriod ==
    /\ Record("ReadPeriod", <<>>, FreshPeriod(I), FreshPeriod(L), <<>>)
    /\ UNCHANGED <<L, I, dyn, cor, saved, left, alias>>
ReadInit ==
    /\ Record("ReadInit", <<>>, FreshInit(I), FreshInit(L), <<>>)
    /\ UNCHANGED <<L, I, dyn, cor, saved, left, alias>>
ReadCorrOpts ==
    /\ Record("ReadCorrOpts", <<>>, FreshCorrOpts(I), FreshCorrOpts(L), <<>>)
    /\ UNCHANGED <<L, I, dyn, cor, saved, left, alias>>

\* orbit.correction_options = ...
SetCorrOpts(t) ==
    /\ I' = [I EXCEPT !.copt = t] /\ L' = [L EXCEPT !.copt = t]
    /\ Record("SetCorrOpts", <<t>>, Nothing, Nothing, <<>>)
    /\ UNCHANGED <<dyn, cor, saved, left, alias>>

\* orbit.save(path): pickle of __getstate__.  _HitenBase.__getstate__ evaluates EVERY attribute of
\* the dynamics service with getattr (properties included) to find "computed properties"; with a
\* period set this computes the stability information (eigenvalues / eigenvectors / is_stable /
\* stability_indices, the first one that finds _stability_info = None) and the monodromy as a side
\* effect; without a period those properties raise ValueError, which __getstate__ swallows.
Save ==
    LET c  == IF I.per # NoPeriod /\ I.stab = <<>> THEN ImplComputeStability(I, dyn)
              ELSE [ret |-> <<>>, dyn |-> dyn, hit |-> FALSE, I |-> I]
        g  == GetOrCreate(c.dyn, MonoKey, MonoStamp(I.init, I.per))
        hs == (IF I.per # NoPeriod /\ I.stab = <<>> THEN <<Hit("dyn", "stability", c.hit)>> ELSE <<>>)
              \o (IF I.per # NoPeriod THEN <<Hit("dyn", "monodromy", g[3])>> ELSE <<>>)
              \o (IF I.per # NoPeriod /\ alias THEN <<Hit("dyn", "monodromy", TRUE)>> ELSE <<>>)
        \* dir() is sorted, so _stability_info and _trajectory are read BEFORE the properties that
        \* compute them; a None in the service leaves the entry copied from the orbit's __dict__
        st == [I EXCEPT !.traj = IF I.traj # <<>> THEN I.traj ELSE left.traj,
                        !.stab = IF I.stab # <<>> THEN I.stab ELSE left.stab]
    IN  /\ I' = c.I
        /\ dyn' = IF I.per # NoPeriod THEN g[2] ELSE dyn
        /\ saved' = <<[L |-> L, I |-> st]>>
        /\ Record("Save", <<>>, Nothing, Nothing, hs)
        /\ UNCHANGED <<L, cor, left, alias>>

\* Class.load(path) / orbit.load_inplace(path): services rebuilt (empty caches, default options),
\* _initial_state/_period/_trajectory/_stability_info restored onto the new dynamics service
Loaded(s) == [s.I EXCEPT !.copt = IF SaveOpts THEN s.I.copt ELSE DefaultTol]
Load(op) ==
    /\ saved # <<>>
    /\ I' = Loaded(saved[1]) /\ dyn' = {} /\ cor' = {}
    /\ L' = saved[1].L
    /\ left' = IF LeftoverFix THEN left ELSE [traj |-> saved[1].I.traj, stab |-> saved[1].I.stab]
    /\ alias' = (op = "LoadInplace")
    /\ Record(op, <<>>, Nothing, Nothing, <<>>)
    /\ UNCHANGED saved

Next ==
    \/ \E v \in UserPeriods : SetPeriod(v)
    \/ \E o \in Tols \cup {"default"} : Correct(o)
    \/ \E s \in Props : Propagate(s)
    \/ ReadTrajectory \/ ReadMonodromy \/ ComputeStability \/ ReadStability
    \/ ReadEnergy \/ ReadPeriod \/ ReadInit \/ ReadCorrOpts
    \/ \E t \in Tols : SetCorrOpts(t)
    \/ Save \/ Load("Load") \/ Load("LoadInplace")

Spec == Init /\ [][Next]_vars

HistBound == Len(hist) <= MaxLen

(***************************************************************************)
(* REQUIREMENT -- property C20                                             *)
(***************************************************************************)
TypeOK ==
    /\ L.copt \in Tols /\ I.copt \in Tols
    /\ last.ret[1] \in {"val", "raise", "none"} /\ last.exp[1] \in {"val", "raise", "none"}

\* "every value returned equals what a freshly constructed object in the same logical state
\*  would compute" / "no stale cached value is ever returned"
ReturnedIsFresh == last.ret = last.exp

\* the object is in the logical state its history of operations defines (an operation served
\* from a cache has the same effect on the object as the same operation computed afresh)
ImplTracksLogical ==
    /\ I.init = L.init /\ I.per = L.per /\ I.copt = L.copt
    /\ I.traj = (IF L.prop = <<>> THEN <<>> ELSE TrajStamp(L.init, L.per, L.prop))

\* "distinct quantities never share a cache entry": requests that differ in quantity or in any
\* parameter have different keys (per service cache)
DynRequests == {<<"mono">>, <<"stab">>} \cup {<<"prop">> \o s : s \in Props}
DynKeyOf(r) == CASE r[1] = "mono" -> MonoKey [] r[1] = "stab" -> StabKey
                 [] r[1] = "prop" -> PropKey(SubSeq(r, 2, 4))
DistinctQuantitiesDistinctKeys ==
    /\ \A r1 \in DynRequests, r2 \in DynRequests : r1 # r2 => DynKeyOf(r1) # DynKeyOf(r2)
    /\ \A t1 \in Tols, t2 \in Tols : t1 # t2 => CorrKey(t1, I.init, I.per) # CorrKey(t2, I.init, I.per)

\* "a save/load round trip preserves all observable state"
Observables(i) == <<i.init, i.per, i.traj, i.stab, i.copt>>
SaveLoadPreservesObservables ==
    (last.op \in {"Load", "LoadInplace"}) =>
        /\ L = saved[1].L
        /\ I.init = L.init /\ I.per = L.per /\ I.copt = L.copt
        /\ I.traj = (IF L.prop = <<>> THEN <<>> ELSE TrajStamp(L.init, L.per, L.prop))
        /\ I.stab \in {<<>>, StabStamp(L.init, L.per)}

(***************************************************************************)
(* Structural invariants of the transcription (hold on the code as it is): *)
(* the setters' invalidation keeps the dynamics cache coherent with the    *)
(* implementation attributes.                                              *)
(***************************************************************************)
DynCacheCoherent == \A e \in dyn : e[2][2] = I.init /\ e[2][3] = I.per
AttrCoherent ==
    /\ I.traj # <<>> => (I.traj[2] = I.init /\ I.traj[3] = I.per)
    /\ I.stab # <<>> => I.stab = StabStamp(I.init, I.per)
\* stability_indices never subscripts None: whenever the stability entry is cached the attribute is set
StabCachedImpliesAttr == Has(dyn, StabKey) => I.stab # <<>>
NoNoneSubscript == (last.op = "ReadStability" /\ last.ret = Raise) => I.per = NoPeriod
=============================================================================
