----------------------------- MODULE FamilyObject -----------------------------
(***************************************************************************)
(* An orbit family: a container of periodic orbits with one continuation   *)
(* parameter value per member (growth check X02; DESIGN section 10 item 2) *)
(*   src/hiten/system/family.py  OrbitFamily (__init__, from_result,       *)
(*       __len__/__getitem__/__iter__, periods, jacobis, propagate, to_df, *)
(*       to_csv, save / load / load_inplace)                               *)
(*   src/hiten/algorithms/types/services/family.py, utils/io/family.py     *)
(*       (pickle of the family; every member travels through the orbit's   *)
(*       own __getstate__/__setstate__)                                    *)
(*   services/orbits.py  _OrbitDynamicsService.period.setter / propagate / *)
(*       trajectory -- the part of the member orbits the family drives     *)
(*       (the full orbit object is specified in OrbitObject.tla)           *)
(*                                                                         *)
(* The family itself memoises nothing: its implementation state is the     *)
(* list of member objects (shared by reference with whoever holds them),   *)
(* the parameter name and the parameter values.  What can go wrong is the  *)
(* INTERPLAY with the members' caches:                                     *)
(*   family.propagate(kwargs)  calls orbit.propagate(kwargs) on every member   *)
(*                           in order; a member without period raises and  *)
(*                           leaves the members before it propagated       *)
(*   family.to_df(kwargs)      uses a member's CURRENT trajectory when it    *)
(*                           has one and propagates (with kw) only the     *)
(*                           members that have none                        *)
(*   member.period = v       drops that member's trajectory and cache      *)
(*                                                                         *)
(* LOGICAL state: per member  per  (period version: "T" = the period the   *)
(* member was built with, "P1" user-set, "none") and  prop  (the           *)
(* propagation settings its trajectory stands for, "" = none); the         *)
(* constructor variant fixes parameter name and values.                    *)
(* IMPLEMENTATION state: per member  per, traj (attribute _trajectory),    *)
(* dyn (the member's dynamics-service cache, propagate keys only).         *)
(*                                                                         *)
(* REQUIREMENT (X02): every value an operation returns equals what a       *)
(* freshly constructed family (of freshly constructed members) in the same *)
(* logical state returns; save/load preserves all observable state.        *)
(***************************************************************************)
EXTENDS ServiceCache

CONSTANTS TrajOnHit,     \* orbit.propagate assigns _trajectory also when served from the cache (fix fbb0436)
          N,             \* number of members
          Props,         \* propagation settings (names of `steps` values; method and order are fixed)
          UserPeriods,   \* values a member's period may be set to, e.g. {"P1", "none"}
          Ctors,         \* constructor variants
          MaxLen

Members == 1 .. N

VARIABLES ctor,    \* how the family was built: "list" | "nan" | "result1" | "result2"
          nm,      \* the attribute parameter_name (public, assignable): ExpName(ctor) or "renamed"
          L,       \* logical member states   [Members -> [per, prop]]
          I,       \* implementation          [Members -> [per, traj, dyn]]
          saved,   \* <<>> or <<[L, I]>> what the file holds (I without caches)
          last, hist

vars == <<ctor, nm, L, I, saved, last, hist>>

(***************************************************************************)
(* Parameter values.  OrbitFamily(orbits, name, values) keeps the values;  *)
(* values = None gives NaN; from_result(result, name) takes one VECTOR per *)
(* member from the continuation result: a 1-vector contributes its entry,  *)
(* a longer vector its Euclidean norm; name = None becomes "param".        *)
(* (integer instances: the norms below are exact in binary64)              *)
(***************************************************************************)
ISqrt(x) == CHOOSE r \in 0 .. x : r * r = x
Norm(v) == IF Len(v) = 1 THEN v[1] ELSE ISqrt(v[1] * v[1] + v[2] * v[2])
ResultVectors(c) == IF c = "result1" THEN << <<5>>, <<10>> >> ELSE << <<3, 4>>, <<5, 12>> >>
ListValues == <<7, 9>>
ExpParams(c) == CASE c = "list" -> ListValues
                  [] c = "nan"  -> [m \in Members |-> "nan"]
                  [] OTHER      -> [m \in Members |-> Norm(ResultVectors(c)[m])]
ExpName(c) == CASE c = "list" -> "amp" [] c = "result2" -> "norm" [] OTHER -> "param"

Traj(m, p, s) == <<"traj", m, p, s>>
PropKey(s) == MakeKey(<<Atom("orbit"), Atom("propagate"), Atom(s), Atom("fixed"), Atom("o4")>>)

Val(s)  == <<"val", s>>
Raise   == <<"raise">>
Nothing == <<"none">>
NoHits  == [m \in Members |-> "-"]

Init ==
    /\ ctor \in Ctors /\ nm = ExpName(ctor)
    /\ L = [m \in Members |-> [per |-> "T", prop |-> ""]]
    /\ I = [m \in Members |-> [per |-> "T", traj |-> <<>>, dyn |-> {}]]
    /\ saved = <<>>
    /\ last = [op |-> "init", arg |-> <<>>, ret |-> Nothing, exp |-> Nothing, hit |-> NoHits]
    /\ hist = <<>>

RecordV(op, arg, ret, exp, hit, expv) ==
    /\ last' = [op |-> op, arg |-> arg, ret |-> ret, exp |-> exp, hit |-> hit]
    /\ hist' = Append(hist, [op |-> op, arg |-> arg, hit |-> hit, stale |-> (ret # exp), expv |-> expv, init |-> ctor])
Record(op, arg, ret, exp, hit) == RecordV(op, arg, ret, exp, hit, "")
HM(h) == IF h THEN "H" ELSE "M"

(***************************************************************************)
(* Member orbit, transcribed from services/orbits.py                       *)
(***************************************************************************)
\* period.setter: a different value drops the trajectory and resets the cache
ImplSetPeriod(i, v) == IF v # i.per THEN [per |-> v, traj |-> <<>>, dyn |-> {}] ELSE i
LogSetPeriod(l, v)  == IF v # l.per THEN [per |-> v, prop |-> ""] ELSE l
\* propagate(steps=s, method, order) on a member WITH a period
ImplProp(m, i, s) ==
    LET k == PropKey(s)
        h == Has(i.dyn, k)
        v == IF h THEN Lookup(i.dyn, k) ELSE Traj(m, i.per, s)
    IN  [i |-> [i EXCEPT !.dyn = Put(i.dyn, k, v), !.traj = IF h /\ ~TrajOnHit THEN i.traj ELSE v], v |-> v, hit |-> HM(h)]
LogTraj(m, l) == IF l.prop = "" THEN <<>> ELSE Traj(m, l.per, l.prop)

(***************************************************************************)
(* family.propagate(kwargs): for orb in self.orbits: orb.propagate(kwargs)     *)
(***************************************************************************)
RECURSIVE RunProp(_, _, _)
RunProp(If, s, m) ==
    IF m > N THEN [I |-> If, raised |-> FALSE, hits |-> <<>>]
    ELSE IF If[m].per = "none" THEN [I |-> If, raised |-> TRUE, hits |-> [j \in 1 .. (N - m + 1) |-> "-"]]
    ELSE LET r == ImplProp(m, If[m], s)
             rest == RunProp([If EXCEPT ![m] = r.i], s, m + 1)
         IN  [I |-> rest.I, raised |-> rest.raised, hits |-> <<r.hit>> \o rest.hits]
RECURSIVE RunPropL(_, _, _)
RunPropL(Lf, s, m) ==
    IF m > N THEN [L |-> Lf, raised |-> FALSE]
    ELSE IF Lf[m].per = "none" THEN [L |-> Lf, raised |-> TRUE]
    ELSE RunPropL([Lf EXCEPT ![m].prop = s], s, m + 1)

Propagate(s) ==
    LET r == RunProp(I, s, 1)  l == RunPropL(L, s, 1)
    IN  /\ I' = r.I /\ L' = l.L
        /\ Record("Propagate", <<s>>, IF r.raised THEN Raise ELSE Nothing, IF l.raised THEN Raise ELSE Nothing, r.hits)
        /\ UNCHANGED <<ctor, nm, saved>>

(***************************************************************************)
(* family.to_df(kwargs) / to_csv(path, kwargs): per member                      *)
(*     try: trajectory = orbit.trajectory                                   *)
(*     except ValueError: orbit.propagate(kwargs); trajectory = orbit.trajectory *)
(* rows (orbit_id, parameter value, t, state) in member order               *)
(***************************************************************************)
RECURSIVE RunDf(_, _, _)
RunDf(If, s, m) ==
    IF m > N THEN [I |-> If, raised |-> FALSE, hits |-> <<>>, rows |-> <<>>]
    ELSE IF If[m].traj # <<>>
    THEN LET rest == RunDf(If, s, m + 1)
         IN  [I |-> rest.I, raised |-> rest.raised, hits |-> <<"-">> \o rest.hits, rows |-> <<If[m].traj>> \o rest.rows]
    ELSE IF If[m].per = "none" THEN [I |-> If, raised |-> TRUE, hits |-> [j \in 1 .. (N - m + 1) |-> "-"], rows |-> <<>>]
    ELSE LET r == ImplProp(m, If[m], s)
             rest == RunDf([If EXCEPT ![m] = r.i], s, m + 1)
         IN  [I |-> rest.I, raised |-> rest.raised, hits |-> <<r.hit>> \o rest.hits, rows |-> <<r.i.traj>> \o rest.rows]
RECURSIVE RunDfL(_, _, _)
RunDfL(Lf, s, m) ==
    IF m > N THEN [L |-> Lf, raised |-> FALSE, rows |-> <<>>]
    ELSE IF Lf[m].prop # ""
    THEN LET rest == RunDfL(Lf, s, m + 1) IN [L |-> rest.L, raised |-> rest.raised, rows |-> <<LogTraj(m, Lf[m])>> \o rest.rows]
    ELSE IF Lf[m].per = "none" THEN [L |-> Lf, raised |-> TRUE, rows |-> <<>>]
    ELSE LET l2 == [Lf EXCEPT ![m].prop = s]
             rest == RunDfL(l2, s, m + 1)
         IN  [L |-> rest.L, raised |-> rest.raised, rows |-> <<LogTraj(m, l2[m])>> \o rest.rows]

Export(op, s) ==
    LET r == RunDf(I, s, 1)  l == RunDfL(L, s, 1)
    IN  /\ I' = r.I /\ L' = l.L
        \* expv: per member (orbit_id, parameter value, setting of the trajectory exported); every row is
        \* (orbit_id, parameter value, t, state) of that member's trajectory
        /\ RecordV(op, <<s>>, IF r.raised THEN Raise ELSE Val(<<"frame", nm, r.rows>>),
                   IF l.raised THEN Raise ELSE Val(<<"frame", nm, l.rows>>), r.hits,
                   IF l.raised THEN "" ELSE [members |-> [m \in Members |-> <<m, ExpParams(ctor)[m], l.rows[m][4]>>], rows_match |-> TRUE])
        /\ UNCHANGED <<ctor, nm, saved>>
ToDf(s)  == Export("ToDf", s)
ToCsv(s) == Export("ToCsv", s)        \* the file, read back, holds the same frame

(***************************************************************************)
(* Reads                                                                   *)
(***************************************************************************)
Same == UNCHANGED <<ctor, nm, L, I, saved>>
ReadLen      == RecordV("Len", <<>>, Val(N), Val(N), NoHits, N) /\ Same
\* expv: GetItem / Iterate: which member objects are handed out; Periods: the period versions;
\* Jacobis: the array is the members' Jacobi constants in member order
GetItem(m)   == RecordV("GetItem", <<m>>, Val(<<"member", m, I[m].per>>), Val(<<"member", m, L[m].per>>), NoHits, m) /\ Same
Iterate      == RecordV("Iterate", <<>>, Val([m \in Members |-> <<"member", m, I[m].per>>]),
                        Val([m \in Members |-> <<"member", m, L[m].per>>]), NoHits, [m \in Members |-> m]) /\ Same
Periods      == RecordV("Periods", <<>>, Val([m \in Members |-> I[m].per]), Val([m \in Members |-> L[m].per]), NoHits,
                        [m \in Members |-> L[m].per]) /\ Same
Jacobis      == RecordV("Jacobis", <<>>, Val(<<"jacobis">>), Val(<<"jacobis">>), NoHits, TRUE) /\ Same
ParamValues  == RecordV("ParamValues", <<>>, Val(ExpParams(ctor)), Val(ExpParams(ctor)), NoHits, ExpParams(ctor)) /\ Same
ParamName    == RecordV("ParamName", <<>>, Val(nm), Val(nm), NoHits, nm) /\ Same
\* family.parameter_name = "renamed"   (a public attribute; the only family-level state an operation changes)
Rename ==
    /\ nm' = "renamed"
    /\ Record("Rename", <<>>, Nothing, Nothing, NoHits)
    /\ UNCHANGED <<ctor, L, I, saved>>

(***************************************************************************)
(* Operations on a member reached through the family (family[m]...)        *)
(***************************************************************************)
MemberSetPeriod(m, v) ==
    /\ I' = [I EXCEPT ![m] = ImplSetPeriod(I[m], v)] /\ L' = [L EXCEPT ![m] = LogSetPeriod(L[m], v)]
    /\ Record("MemberSetPeriod", <<m, v>>, Nothing, Nothing, NoHits)
    /\ UNCHANGED <<ctor, nm, saved>>
MemberPropagate(m, s) ==
    IF I[m].per = "none"
    THEN /\ Record("MemberPropagate", <<m, s>>, Raise, IF L[m].per = "none" THEN Raise ELSE Val(Traj(m, L[m].per, s)), NoHits)
         /\ L' = IF L[m].per = "none" THEN L ELSE [L EXCEPT ![m].prop = s]
         /\ UNCHANGED <<ctor, nm, I, saved>>
    ELSE LET r == ImplProp(m, I[m], s)
         IN  /\ I' = [I EXCEPT ![m] = r.i]
             /\ L' = IF L[m].per = "none" THEN L ELSE [L EXCEPT ![m].prop = s]
             /\ Record("MemberPropagate", <<m, s>>, Val(r.v), IF L[m].per = "none" THEN Raise ELSE Val(Traj(m, L[m].per, s)),
                       [j \in Members |-> IF j = m THEN r.hit ELSE "-"])
             /\ UNCHANGED <<ctor, nm, saved>>
MemberReadTrajectory(m) ==
    /\ Record("MemberReadTrajectory", <<m>>, IF I[m].traj = <<>> THEN Raise ELSE Val(I[m].traj),
              IF L[m].prop = "" THEN Raise ELSE Val(LogTraj(m, L[m])), NoHits)
    /\ Same

(***************************************************************************)
(* family.save(path) = pickle.dump(family): the family's __getstate__ keeps *)
(* orbits / parameter_name / parameter_values; each member is pickled by   *)
(* the orbit's __getstate__ (period, trajectory kept; evaluating the       *)
(* member's service properties computes its stability information and      *)
(* monodromy as a side effect -- keys outside this alphabet, see           *)
(* OrbitObject.Save).  OrbitFamily.load / family.load_inplace: every       *)
(* member's services are rebuilt (empty caches).                           *)
(***************************************************************************)
Save ==
    /\ saved' = <<[L |-> L, nm |-> nm, I |-> [m \in Members |-> [per |-> I[m].per, traj |-> I[m].traj]]]>>
    /\ Record("Save", <<>>, Nothing, Nothing, NoHits)
    /\ UNCHANGED <<ctor, nm, L, I>>
Load(op) ==
    /\ saved # <<>>
    /\ I' = [m \in Members |-> [per |-> saved[1].I[m].per, traj |-> saved[1].I[m].traj, dyn |-> {}]]
    /\ L' = saved[1].L /\ nm' = saved[1].nm
    /\ Record(op, <<>>, Nothing, Nothing, NoHits)
    /\ UNCHANGED <<ctor, saved>>

Next ==
    \/ \E s \in Props : Propagate(s) \/ ToDf(s) \/ ToCsv(s)
    \/ ReadLen \/ Iterate \/ Periods \/ Jacobis \/ ParamValues \/ ParamName \/ Rename
    \/ \E m \in Members : GetItem(m) \/ MemberReadTrajectory(m)
    \/ \E m \in Members, v \in UserPeriods : MemberSetPeriod(m, v)
    \/ \E m \in Members, s \in Props : MemberPropagate(m, s)
    \/ Save \/ Load("Load") \/ Load("LoadInplace")

\* the operation named (op, arg), for test-generation modules
Do(op, arg) ==
    \/ op = "Propagate" /\ Propagate(arg[1])
    \/ op = "ToDf" /\ ToDf(arg[1])
    \/ op = "ToCsv" /\ ToCsv(arg[1])
    \/ op = "Len" /\ ReadLen
    \/ op = "Iterate" /\ Iterate
    \/ op = "Periods" /\ Periods
    \/ op = "Jacobis" /\ Jacobis
    \/ op = "ParamValues" /\ ParamValues
    \/ op = "ParamName" /\ ParamName
    \/ op = "Rename" /\ Rename
    \/ op = "GetItem" /\ GetItem(arg[1])
    \/ op = "MemberReadTrajectory" /\ MemberReadTrajectory(arg[1])
    \/ op = "MemberSetPeriod" /\ MemberSetPeriod(arg[1], arg[2])
    \/ op = "MemberPropagate" /\ MemberPropagate(arg[1], arg[2])
    \/ op = "Save" /\ Save
    \/ op \in {"Load", "LoadInplace"} /\ Load(op)

Spec == Init /\ [][Next]_vars
HistBound == Len(hist) <= MaxLen

(***************************************************************************)
(* REQUIREMENT -- X02                                                      *)
(***************************************************************************)
ReturnedIsFresh == last.ret = last.exp
ImplTracksLogical == \A m \in Members : I[m].per = L[m].per /\ I[m].traj = LogTraj(m, L[m])
SaveLoadPreservesObservables ==
    (last.op \in {"Load", "LoadInplace"}) =>
        /\ L = saved[1].L /\ nm = saved[1].nm
        /\ \A m \in Members : I[m].per = L[m].per /\ I[m].traj = LogTraj(m, L[m])
DistinctQuantitiesDistinctKeys == \A s1 \in Props, s2 \in Props : s1 # s2 => PropKey(s1) # PropKey(s2)

(***************************************************************************)
(* Structural invariants of the transcription                              *)
(***************************************************************************)
\* every cached propagation of a member was computed for that member's current period
DynCacheCoherent == \A m \in Members : \A e \in I[m].dyn : e[2][2] = m /\ e[2][3] = I[m].per
\* a member without period has no trajectory
NoPeriodNoTrajectory == \A m \in Members : I[m].per = "none" => I[m].traj = <<>>
=============================================================================
