----------------------------- MODULE PointObject -----------------------------
(***************************************************************************)
(* A libration-point object, the objects it hands out and its parent       *)
(* System (growth check X02; DESIGN section 10 item 1)                     *)
(*   src/hiten/system/libration/{base,collinear,triangular}.py  public API *)
(*   src/hiten/algorithms/types/services/libration.py                      *)
(*       _LibrationDynamicsService / _CollinearDynamicsService /           *)
(*       _TriangularDynamicsService: every derived quantity is memoised in *)
(*       the point's service cache under make_key(id(point), tag, args..)  *)
(*   src/hiten/system/base.py  System.get_libration_point / save / load    *)
(*   src/hiten/algorithms/types/core.py  __getstate__ / __setstate__ /     *)
(*       _setup_services;  utils/io/{libration,system}.py (pickle)         *)
(*                                                                         *)
(* LOGICAL state (what the sequence of public operations means, defined by *)
(* what each operation does to a freshly constructed point):               *)
(*   Lo   the eigen-decomposition OPTIONS in force  ("oD" = library        *)
(*        default, "o1", "o2" = user objects)                              *)
(*   Lc   the eigen-decomposition CONFIG in force ("cC" = default,         *)
(*        continuous-time classification; "cD" = discrete-time)            *)
(*   Lpts the libration points the parent System has instantiated          *)
(* Everything else a point returns (position, gamma, c_n, linear modes,    *)
(* normal-form transform, Hamiltonians, ...) is a pure function of         *)
(* (mu, index) and of the ARGUMENTS of the call; the stability results     *)
(* are a function of (Lo, Lc).                                             *)
(*                                                                         *)
(* IMPLEMENTATION state, transcribed:                                      *)
(*   Io, Ic  attributes _eigendecomposition_options / _config of the       *)
(*           dynamics service ("none" = attribute is None; the getter      *)
(*           MATERIALISES the default object into the attribute)           *)
(*   pc      the point's service cache, a set of <<key, stamp>>.  The      *)
(*           CenterManifold objects handed out by get_center_manifold(d)   *)
(*           live in this cache too and are MUTABLE: the stamp of such an  *)
(*           entry is <<"cm", current degree of the cached object>>        *)
(*   left    copies of _eigendecomposition_options/_config that            *)
(*           __setstate__ left in the point's OWN __dict__ at the last     *)
(*           load (__getstate__ starts from a copy of __dict__ and         *)
(*           overwrites an entry only when the service holds a non-None    *)
(*           value; _setup_services removes such copies only for the four  *)
(*           orbit attribute names)                                        *)
(*   saved   what the point file on disk holds                             *)
(*   Ipts    keys of System._libration_points                              *)
(*   sc      the System's service cache (propagate entries)                *)
(*                                                                         *)
(* Stamps name the inputs a value was computed from, e.g.                  *)
(*   <<"nft", x>>  normal-form transform built with scale factors x        *)
(*                 ("own" = scale_factor(lambda1, omega1) of this point,   *)
(*                 "alt" = scale factors of other arguments)               *)
(*   <<"ham", d, form, x>>  Hamiltonian of degree d in `form`, computed    *)
(*                 through a normal-form transform with content x ("-"     *)
(*                 for the physical form, which does not use it)           *)
(*   <<"stab", o, c>>  stability results for options o under config c      *)
(*                                                                         *)
(* REQUIREMENT (X02): every value an operation returns equals              *)
(* Fresh(q, L); distinct quantities have distinct keys; a save/load round  *)
(* trip (of the point or of its System) preserves all observable state.    *)
(*                                                                         *)
(* Transcription variants (constants) say how the working tree behaves;    *)
(* the harness reads them off the live code.  All TRUE = repaired design.  *)
(***************************************************************************)
EXTENDS ServiceCache

CONSTANTS ScaleKeyHasArgs,   \* the key of collinear scale_factor(lambda1, omega1) contains its arguments
          StabKeyHasConfig,  \* the key of compute_stability contains the config in force
          LeftoverFix,       \* restored option/config attributes do not linger in the point's own __dict__
          CMRecheck,         \* center_manifold(d) replaces a cached object whose degree was re-targeted
          Collinear,         \* TRUE: L1/L2 (collinear service, Hamiltonians available); FALSE: L4/L5
          Enabled,           \* names of the operations of the alphabet in use
          Degrees,           \* degree names, e.g. {"d2", "d3"}
          CnUpTo,            \* degree name -> set of c_n order names the degree-d expansion reads
          FlatDegrees,       \* degrees at which the generating functions are trivial
          CnOrders,          \* c_n order names offered to Cn(k)
          Forms,             \* Hamiltonian form names; "physical" does not depend on the normal-form transform
          UserOpts,          \* user option names, e.g. {"o1", "o2"}
          OtherPoints,       \* other libration-point indices get_libration_point may instantiate
          PropTimes,         \* names of final times offered to system.propagate
          Self,              \* index name of the point under test
          MaxLen

VARIABLES Lo, Lc, Lpts,          \* logical state
          Io, Ic, Ipts,          \* implementation attributes
          pc,                    \* the point's service cache
          sc,                    \* the System's service cache
          left,                  \* [o, c]: leftover copies in the point's own __dict__
          saved,                 \* <<>> or <<[Lo, Lc, Lpts, o, c, pts]>>
          last, hist

vars == <<Lo, Lc, Lpts, Io, Ic, Ipts, pc, sc, left, saved, last, hist>>

DefaultOpt == "oD"
DefaultCfg == "cC"
EffO(o) == IF o = "none" THEN DefaultOpt ELSE o     \* what the getter returns
EffC(c) == IF c = "none" THEN DefaultCfg ELSE c
SfArgs == IF Collinear THEN {"own", "alt"} ELSE {"i0", "i1", "i2"}

(***************************************************************************)
(* Keys, through make_key as written (ServiceCache.tla).  Every call site  *)
(* is make_key(id(point), tag, args...); _DynamicsServiceBase prepends the *)
(* domain object.  compute_stability has NO tag: its key is                *)
(* (point, id(point), tuple(sorted(options.to_dict().items()))).           *)
(***************************************************************************)
Obj == Atom("point")
K(s) == MakeKey(<<Obj, Atom("id(point)")>> \o s)
PosKey    == K(<<Atom("position")>>)
GamKey    == K(<<Atom("gamma")>>)
LmKey     == K(<<Atom("linear_modes")>>)
NftKey    == K(<<Atom("normal_form_transform")>>)
LdKey     == K(<<Atom("linear_data")>>)
EnKey     == K(<<Atom("energy")>>)
JacKey    == K(<<Atom("jacobi_constant")>>)
SfKeyF(a)  == K(<<Atom("scale_factor")>> \o (IF Collinear /\ ~ScaleKeyHasArgs THEN <<>> ELSE <<Atom(a)>>))
StabKeyF(o, c) == K(<<Tup(<<Tup(<<Atom("delta"), Atom(o)>>), Tup(<<Atom("tol"), Atom("1")>>)>>)>>
                    \o (IF StabKeyHasConfig THEN <<Atom(c)>> ELSE <<>>))
CnKeyF(k)     == K(<<Atom("cn"), Atom(k)>>)
CMKeyF(d)     == K(<<Atom("center_manifold"), Atom(d)>>)
HamKeyF(d, f) == K(<<Atom("hamiltonian"), Atom(d), Atom(f)>>)
HsKeyF(d, f)  == K(<<Atom("hamsys"), Atom(d), Atom(f)>>)
GfKeyF(d)     == K(<<Atom("generating_functions"), Atom(d)>>)
\* System.propagate -> _SystemsDynamicsService.propagate: make_key("propagate", state0, tf, steps, method, order, forward, None)
SysPropKeyF(t) == MakeKey(<<Atom("system"), Atom("propagate"), Lst(<<Atom("x"), Atom("y")>>), Atom(t), Atom("steps"),
                           Atom("adaptive"), Atom("8"), Atom("1"), Atom("None")>>)
\* constant-level tables of the parameterised keys (TLC evaluates them once)
AllCn   == CnOrders \cup {"k2"} \cup UNION {CnUpTo[d] : d \in Degrees}
AllOpts == UserOpts \cup {DefaultOpt}
CnTab   == [k \in AllCn |-> CnKeyF(k)]
SfTab   == [a \in SfArgs |-> SfKeyF(a)]
StabTab == [x \in AllOpts \X {"cC", "cD"} |-> StabKeyF(x[1], x[2])]
CMTab   == [d \in Degrees |-> CMKeyF(d)]
HamTab  == [x \in Degrees \X Forms |-> HamKeyF(x[1], x[2])]
HsTab   == [x \in Degrees \X Forms |-> HsKeyF(x[1], x[2])]
GfTab   == [d \in Degrees |-> GfKeyF(d)]
SysPropTab == [t \in PropTimes |-> SysPropKeyF(t)]
SysPropKey(t) == SysPropTab[t]
CnKey(k)      == CnTab[k]
SfKey(a)      == SfTab[a]
StabKey(o, c) == StabTab[<<o, c>>]
CMKey(d)      == CMTab[d]
HamKey(d, f)  == HamTab[<<d, f>>]
HsKey(d, f)   == HsTab[<<d, f>>]
GfKey(d)      == GfTab[d]

(***************************************************************************)
(* The factories, as cache transformers.  Fill = get_or_create's effect on *)
(* the cache; a factory runs (and touches the keys it reads) only on a     *)
(* miss.  Transcribed from the call structure of services/libration.py and *)
(* confirmed against the recorded get_or_create events of the real code.   *)
(***************************************************************************)
Fill(c, k, v) == IF Has(c, k) THEN c ELSE Put(c, k, v)

CPos(c) == Fill(c, PosKey, <<"position">>)
CGam(c) == Fill(c, GamKey, <<"gamma">>)
CCn(c, k) == IF Has(c, CnKey(k)) THEN c ELSE Fill(CGam(c), CnKey(k), <<"cn", k>>)      \* _compute_cn reads gamma
\* collinear _compute_linear_modes reads cn(2); the triangular one reads nothing memoised
CLm(c) == IF Has(c, LmKey) THEN c ELSE Fill(IF Collinear THEN CCn(c, "k2") ELSE c, LmKey, <<"linear_modes">>)
\* collinear _compute_scale_factor reads cn(2); triangular _compute_scale_factor(idx) reads linear_modes (idx # 2)
CSf(c, a) == IF Has(c, SfKey(a)) THEN c
             ELSE Fill(IF Collinear THEN CCn(c, "k2") ELSE (IF a = "i2" THEN c ELSE CLm(c)), SfKey(a), <<"sf", a>>)
\* which scale factors a normal-form transform built NOW from cache c1 would contain
SfContent(c1) == IF Collinear THEN Lookup(c1, SfKey("own"))[2]
                 ELSE IF \A a \in SfArgs : Lookup(c1, SfKey(a)) = <<"sf", a>> THEN "own" ELSE "mixed"
\* _build_normal_form: linear_modes, cn(2), scale_factor(lambda1, omega1)   /   _get_eigvs, scale_factor(0..2)
CNft(c) == IF Has(c, NftKey) THEN c
           ELSE LET c0 == CLm(c)
                    c1 == IF Collinear THEN CSf(CCn(c0, "k2"), "own") ELSE CSf(CSf(CSf(c0, "i0"), "i1"), "i2")
                IN  Fill(c1, NftKey, <<"nft", SfContent(c1)>>)
NftContent(c) == Lookup(c, NftKey)[2]
CLd(c) == IF Has(c, LdKey) THEN c ELSE LET c1 == CNft(CLm(c)) IN Fill(c1, LdKey, <<"ld", NftContent(c1)>>)
CEn(c)  == IF Has(c, EnKey) THEN c ELSE Fill(CPos(c), EnKey, <<"energy">>)
CJac(c) == IF Has(c, JacKey) THEN c ELSE Fill(CEn(c), JacKey, <<"jacobi">>)
\* compute_stability(options): _LibrationPointInterface.create_problem reads point.position
CStab(c, o, cf) == IF Has(c, StabKey(o, cf)) THEN c ELSE Fill(CPos(c), StabKey(o, cf), <<"stab", o, cf>>)

\* center_manifold(d): cached mutable object; (after fix b6f53b6) replaced when its degree was re-targeted
CCm(c, d) == IF Has(c, CMKey(d)) /\ (Lookup(c, CMKey(d))[2] = d \/ ~CMRecheck) THEN c ELSE Put(c, CMKey(d), <<"cm", d>>)
CmDeg(c, d) == Lookup(c, CMKey(d))[2]
\* CenterManifold.compute() at degree dd reads gamma, c_2..c_dd, linear modes and the normal-form transform
RECURSIVE CCns(_, _)
CCns(c, ks) == IF ks = {} THEN c ELSE LET k == CHOOSE x \in ks : TRUE IN CCns(CCn(c, k), ks \ {k})
CCompute(c, dd) == CCns(CNft(c), CnUpTo[dd])
FormContent(f, c) == IF f = "physical" THEN "-" ELSE NftContent(c)
FreshContent(f)   == IF f = "physical" THEN "-" ELSE "own"
CHam(c, d, f) == IF Has(c, HamKey(d, f)) THEN c
                 ELSE LET c1 == CCm(c, d)
                          dd == CmDeg(c1, d)
                          c2 == CCompute(c1, dd)
                      IN  Fill(c2, HamKey(d, f), <<"ham", dd, f, FormContent(f, c2)>>)
CHs(c, d, f) == IF Has(c, HsKey(d, f)) THEN c
                ELSE LET c1 == CHam(c, d, f) IN Fill(c1, HsKey(d, f), <<"hamsys">> \o Tail(Lookup(c1, HamKey(d, f))))
\* the generating functions of the lowest degree are trivial (nothing to normalise at degree 2): they do not
\* depend on the normal-form transform
GfContent(dd, c) == IF dd \in FlatDegrees THEN "-" ELSE NftContent(c)
CGf(c, d) == IF Has(c, GfKey(d)) THEN c
             ELSE LET c1 == CCm(c, d)
                      dd == CmDeg(c1, d)
                      c2 == CCompute(c1, dd)
                  IN  Fill(c2, GfKey(d), <<"gf", dd, GfContent(dd, c2)>>)

(***************************************************************************)
(* Fresh(q, L)                                                             *)
(***************************************************************************)
Val(s)  == <<"val", s>>
Nothing == <<"none">>
FreshStab == Val(<<"stab", Lo, Lc>>)

Init ==
    /\ Lo = DefaultOpt /\ Lc = DefaultCfg /\ Lpts = {Self}
    /\ Io = "none" /\ Ic = "none" /\ Ipts = {Self}
    /\ pc = {} /\ sc = {} /\ left = [o |-> "none", c |-> "none"] /\ saved = <<>>
    /\ last = [op |-> "init", arg |-> <<>>, ret |-> Nothing, exp |-> Nothing, hit |-> "-"]
    /\ hist = <<>>

\* expv: for discrete observables the value itself crosses to the harness ("" = none)
RecordV(op, arg, ret, exp, hit, expv) ==
    /\ last' = [op |-> op, arg |-> arg, ret |-> ret, exp |-> exp, hit |-> hit]
    /\ hist' = Append(hist, [op |-> op, arg |-> arg, hit |-> hit, stale |-> (ret # exp), expv |-> expv])
Record(op, arg, ret, exp, hit) == RecordV(op, arg, ret, exp, hit, "")
HM(h) == IF h THEN "H" ELSE "M"

Attr == <<Lo, Lc, Lpts, Io, Ic, Ipts, sc, left, saved>>

(***************************************************************************)
(* ALGORITHM TRANSCRIPTION: one action per public operation                *)
(***************************************************************************)
\* a memoised read: top-level key k, cache transformer result c2, fresh value e
MemoRead(op, arg, k, c2, e) ==
    /\ op \in Enabled
    /\ pc' = c2
    /\ Record(op, arg, Val(Lookup(c2, k)), Val(e), HM(Has(pc, k)))
    /\ UNCHANGED Attr

Position     == MemoRead("Position", <<>>, PosKey, CPos(pc), <<"position">>)
Gamma        == Collinear /\ MemoRead("Gamma", <<>>, GamKey, CGam(pc), <<"gamma">>)
Cn(k)        == Collinear /\ MemoRead("Cn", <<k>>, CnKey(k), CCn(pc, k), <<"cn", k>>)
LinearModes  == MemoRead("LinearModes", <<>>, LmKey, CLm(pc), <<"linear_modes">>)
NormalForm   == MemoRead("NormalForm", <<>>, NftKey, CNft(pc), <<"nft", "own">>)
LinearData   == MemoRead("LinearData", <<>>, LdKey, CLd(pc), <<"ld", "own">>)
Energy       == MemoRead("Energy", <<>>, EnKey, CEn(pc), <<"energy">>)
Jacobi       == MemoRead("Jacobi", <<>>, JacKey, CJac(pc), <<"jacobi">>)
\* point.dynamics.scale_factor(lambda1, omega1) [collinear]  /  scale_factor(idx) [triangular]
ScaleFactor(a) == MemoRead("ScaleFactor", <<a>>, SfKey(a), CSf(pc, a), <<"sf", a>>)
Hamiltonian(d, f) == Collinear /\ MemoRead("Hamiltonian", <<d, f>>, HamKey(d, f), CHam(pc, d, f), <<"ham", d, f, FreshContent(f)>>)
HamSys(d, f)      == Collinear /\ MemoRead("HamSys", <<d, f>>, HsKey(d, f), CHs(pc, d, f), <<"hamsys", d, f, FreshContent(f)>>)
GenFuncs(d)       == Collinear /\ MemoRead("GenFuncs", <<d>>, GfKey(d), CGf(pc, d), <<"gf", d, IF d \in FlatDegrees THEN "-" ELSE "own">>)

\* point.eigenvalues / is_stable -> compute_stability() with the options and config in force
\* (the getters materialise the default objects into the attributes)
StabRead(op) ==
    LET o == EffO(Io)  c == EffC(Ic)  k == StabKey(o, c)  c2 == CStab(pc, o, c)
    IN  /\ op \in Enabled
        /\ pc' = c2 /\ Io' = o /\ Ic' = c
        /\ Record(op, <<>>, Val(Lookup(c2, k)), FreshStab, HM(Has(pc, k)))
        /\ UNCHANGED <<Lo, Lc, Lpts, Ipts, sc, left, saved>>
Eigenvalues == StabRead("Eigenvalues")
IsStable    == StabRead("IsStable")

\* point.get_center_manifold(d).degree
GetCM(d) ==
    LET c2 == CCm(pc, d)
    IN  /\ Collinear /\ "GetCM" \in Enabled
        /\ pc' = c2
        /\ RecordV("GetCM", <<d>>, Val(<<"deg", CmDeg(c2, d)>>), Val(<<"deg", d>>), HM(Has(pc, CMKey(d))), d)
        /\ UNCHANGED Attr

\* cm = point.get_center_manifold(d); cm.degree = d2      (a mutation through a handed-out object)
RetargetCM(d, d2) ==
    /\ Collinear /\ "RetargetCM" \in Enabled /\ d # d2
    /\ pc' = Put(CCm(pc, d), CMKey(d), <<"cm", d2>>)
    /\ Record("RetargetCM", <<d, d2>>, Nothing, Nothing, HM(Has(pc, CMKey(d))))
    /\ UNCHANGED Attr

\* point.create_orbit("lyapunov", amplitude_x=...).initial_state : the analytic guess reads position, cn(2), linear_modes
CreateOrbit ==
    LET c2 == CLm(CCn(CPos(pc), "k2"))
    IN  /\ Collinear /\ "CreateOrbit" \in Enabled
        /\ pc' = c2
        /\ Record("CreateOrbit", <<>>, Val(<<"guess", Lookup(c2, PosKey), Lookup(c2, CnKey("k2")), Lookup(c2, LmKey)>>),
                  Val(<<"guess", <<"position">>, <<"cn", "k2">>, <<"linear_modes">>>>), HM(Has(pc, PosKey)))
        /\ UNCHANGED Attr

\* point.dynamics.eigendecomposition_options (getter) / = value (setter: NO invalidation)
ReadOptions ==
    /\ "ReadOptions" \in Enabled
    /\ Io' = EffO(Io)
    /\ RecordV("ReadOptions", <<>>, Val(<<"opts", EffO(Io)>>), Val(<<"opts", Lo>>), "-", Lo)
    /\ UNCHANGED <<Lo, Lc, Lpts, Ic, Ipts, pc, sc, left, saved>>
SetOptions(o) ==
    /\ "SetOptions" \in Enabled
    /\ Io' = o /\ Lo' = EffO(o)
    /\ Record("SetOptions", <<o>>, Nothing, Nothing, "-")
    /\ UNCHANGED <<Lc, Lpts, Ic, Ipts, pc, sc, left, saved>>
\* eigendecomposition_config getter / setter (setter: _generator = None, the cache is NOT touched)
ReadConfig ==
    /\ "ReadConfig" \in Enabled
    /\ Ic' = EffC(Ic)
    /\ RecordV("ReadConfig", <<>>, Val(<<"cfg", EffC(Ic)>>), Val(<<"cfg", Lc>>), "-", Lc)
    /\ UNCHANGED <<Lo, Lc, Lpts, Io, Ipts, pc, sc, left, saved>>
SetConfig(c) ==
    /\ "SetConfig" \in Enabled
    /\ Ic' = c /\ Lc' = EffC(c)
    /\ Record("SetConfig", <<c>>, Nothing, Nothing, "-")
    /\ UNCHANGED <<Lo, Lpts, Io, Ipts, pc, sc, left, saved>>

\* system.get_libration_point(i) for another index; sorted(system.libration_points)
SysGetPoint(i) ==
    /\ "SysGetPoint" \in Enabled
    /\ Ipts' = Ipts \cup {i} /\ Lpts' = Lpts \cup {i}
    /\ RecordV("SysGetPoint", <<i>>, Val(<<"point", i>>), Val(<<"point", i>>), "-", i)
    /\ UNCHANGED <<Lo, Lc, Io, Ic, pc, sc, left, saved>>
\* system.propagate(state0, tf=t, steps, method, order): memoised in the System's cache; a pure function of the arguments
SysPropagate(t) ==
    LET g == GetOrCreate(sc, SysPropKey(t), <<"traj", t>>)
    IN  /\ "SysPropagate" \in Enabled
        /\ sc' = g[2]
        /\ Record("SysPropagate", <<t>>, Val(g[1]), Val(<<"traj", t>>), HM(g[3]))
        /\ UNCHANGED <<Lo, Lc, Lpts, Io, Ic, Ipts, pc, left, saved>>
SysPoints ==
    /\ "SysPoints" \in Enabled
    /\ RecordV("SysPoints", <<>>, Val(<<"pts", Ipts>>), Val(<<"pts", Lpts>>), "-", Lpts)
    /\ UNCHANGED <<Lo, Lc, Lpts, Io, Ic, Ipts, pc, sc, left, saved>>

(* point.save(path) = pickle of __getstate__.  _HitenBase.__getstate__ starts from a copy of the point's    *)
(* __dict__ (which holds `left`), then reads EVERY attribute of the dynamics service in dir() order: the   *)
(* underscore attributes first (_eigendecomposition_config/_options enter the state when not None), then    *)
(* every property -- a, eigenvalues, energy, gamma, jacobi, linear_data, ... -- which computes and caches   *)
(* those quantities on the object being saved and materialises the default options/config.                  *)
FileO == IF Io # "none" THEN Io ELSE left.o
FileC == IF Ic # "none" THEN Ic ELSE left.c
CSave(c) == CLd(CJac(CStab(IF Collinear THEN CGam(c) ELSE c, EffO(Io), EffC(Ic))))
SaveFirstKey == IF Collinear THEN GamKey ELSE StabKey(EffO(Io), EffC(Ic))
Save ==
    /\ "Save" \in Enabled
    /\ saved' = <<[Lo |-> Lo, Lc |-> Lc, Lpts |-> Lpts, o |-> FileO, c |-> FileC, pts |-> Ipts]>>
    /\ pc' = CSave(pc) /\ Io' = EffO(Io) /\ Ic' = EffC(Ic)
    /\ Record("Save", <<>>, Nothing, Nothing, HM(Has(pc, SaveFirstKey)))
    /\ UNCHANGED <<Lo, Lc, Lpts, Ipts, sc, left>>

\* LibrationPoint.load(path) / point.load_inplace(path): services rebuilt (empty cache), the saved
\* _eigendecomposition_* restored onto the new service; the System travels inside the pickle
Restore(s) ==
    /\ Io' = s.o /\ Ic' = s.c /\ Ipts' = s.pts /\ pc' = {} /\ sc' = {}
    /\ left' = IF LeftoverFix THEN [o |-> "none", c |-> "none"] ELSE [o |-> s.o, c |-> s.c]
Load(op) ==
    /\ op \in Enabled /\ saved # <<>>
    /\ Restore(saved[1])
    /\ Lo' = saved[1].Lo /\ Lc' = saved[1].Lc /\ Lpts' = saved[1].Lpts
    /\ Record(op, <<>>, Nothing, Nothing, "-")
    /\ UNCHANGED saved

\* system.save(path); system = System.load(path)  [or system.load_inplace(path)];
\* point = system.get_libration_point(Self): the points are pickled inside the System through the same __getstate__
SysSaveLoad(mode) ==
    /\ "SysSaveLoad" \in Enabled
    /\ Restore([o |-> FileO, c |-> FileC, pts |-> Ipts])
    /\ Record("SysSaveLoad", <<mode>>, Nothing, Nothing, HM(Has(pc, SaveFirstKey)))
    /\ UNCHANGED <<Lo, Lc, Lpts, saved>>

Next ==
    \/ Position \/ Gamma \/ LinearModes \/ NormalForm \/ LinearData \/ Energy \/ Jacobi
    \/ Eigenvalues \/ IsStable \/ CreateOrbit \/ ReadOptions \/ ReadConfig \/ SysPoints
    \/ \E k \in CnOrders : Cn(k)
    \/ \E a \in SfArgs : ScaleFactor(a)
    \/ \E d \in Degrees, f \in Forms : Hamiltonian(d, f) \/ HamSys(d, f)
    \/ \E d \in Degrees : GenFuncs(d) \/ GetCM(d)
    \/ \E d \in Degrees, d2 \in Degrees : RetargetCM(d, d2)
    \/ \E o \in UserOpts \cup {"none"} : SetOptions(o)
    \/ \E c \in {"cD", "none"} : SetConfig(c)
    \/ \E i \in OtherPoints : SysGetPoint(i)
    \/ \E t \in PropTimes : SysPropagate(t)
    \/ Save \/ Load("Load") \/ Load("LoadInplace") \/ SysSaveLoad("load") \/ SysSaveLoad("inplace")

\* the operation named (op, arg): lets a test-generation module take ONE given operation without
\* evaluating the whole alphabet
Do(op, arg) ==
    \/ op = "Position" /\ Position
    \/ op = "Gamma" /\ Gamma
    \/ op = "LinearModes" /\ LinearModes
    \/ op = "NormalForm" /\ NormalForm
    \/ op = "LinearData" /\ LinearData
    \/ op = "Energy" /\ Energy
    \/ op = "Jacobi" /\ Jacobi
    \/ op = "Eigenvalues" /\ Eigenvalues
    \/ op = "IsStable" /\ IsStable
    \/ op = "CreateOrbit" /\ CreateOrbit
    \/ op = "ReadOptions" /\ ReadOptions
    \/ op = "ReadConfig" /\ ReadConfig
    \/ op = "SysPoints" /\ SysPoints
    \/ op = "Cn" /\ Cn(arg[1])
    \/ op = "ScaleFactor" /\ ScaleFactor(arg[1])
    \/ op = "Hamiltonian" /\ Hamiltonian(arg[1], arg[2])
    \/ op = "HamSys" /\ HamSys(arg[1], arg[2])
    \/ op = "GenFuncs" /\ GenFuncs(arg[1])
    \/ op = "GetCM" /\ GetCM(arg[1])
    \/ op = "RetargetCM" /\ RetargetCM(arg[1], arg[2])
    \/ op = "SetOptions" /\ SetOptions(arg[1])
    \/ op = "SetConfig" /\ SetConfig(arg[1])
    \/ op = "SysGetPoint" /\ SysGetPoint(arg[1])
    \/ op = "Save" /\ Save
    \/ op \in {"Load", "LoadInplace"} /\ Load(op)
    \/ op = "SysSaveLoad" /\ SysSaveLoad(arg[1])
    \/ op = "SysPropagate" /\ SysPropagate(arg[1])

Spec == Init /\ [][Next]_vars
HistBound == Len(hist) <= MaxLen

(***************************************************************************)
(* REQUIREMENT -- X02                                                      *)
(***************************************************************************)
\* every value returned equals what a freshly constructed point in the same logical state computes
ReturnedIsFresh == last.ret = last.exp

\* the object is in the logical state its history defines
ImplTracksLogical == EffO(Io) = Lo /\ EffC(Ic) = Lc /\ Ipts = Lpts

\* a save/load round trip preserves all observable state
SaveLoadPreservesObservables ==
    (last.op \in {"Load", "LoadInplace"}) =>
        /\ Lo = saved[1].Lo /\ Lc = saved[1].Lc /\ Lpts = saved[1].Lpts
        /\ EffO(Io) = Lo /\ EffC(Ic) = Lc /\ Ipts = Lpts

\* requests that differ in quantity or in any parameter have different keys
Requests ==
    {<<"pos">>, <<"gam">>, <<"lm">>, <<"nft">>, <<"ld">>, <<"en">>, <<"jac">>}
    \cup {<<"cn", k>> : k \in CnOrders \cup {"k2"}} \cup {<<"sf", a>> : a \in SfArgs}
    \cup {<<"stab", o, c>> : o \in UserOpts \cup {DefaultOpt}, c \in {"cC", "cD"}}
    \cup {<<"cm", d>> : d \in Degrees} \cup {<<"gf", d>> : d \in Degrees}
    \cup {<<"ham", d, f>> : d \in Degrees, f \in Forms} \cup {<<"hs", d, f>> : d \in Degrees, f \in Forms}
KeyOf(r) ==
    CASE r[1] = "pos" -> PosKey [] r[1] = "gam" -> GamKey [] r[1] = "lm" -> LmKey [] r[1] = "nft" -> NftKey
      [] r[1] = "ld" -> LdKey [] r[1] = "en" -> EnKey [] r[1] = "jac" -> JacKey
      [] r[1] = "cn" -> CnKey(r[2]) [] r[1] = "sf" -> SfKey(r[2]) [] r[1] = "stab" -> StabKey(r[2], r[3])
      [] r[1] = "cm" -> CMKey(r[2]) [] r[1] = "gf" -> GfKey(r[2])
      [] r[1] = "ham" -> HamKey(r[2], r[3]) [] r[1] = "hs" -> HsKey(r[2], r[3])
DistinctQuantitiesDistinctKeys ==
    /\ \A r1 \in Requests, r2 \in Requests : r1 # r2 => KeyOf(r1) # KeyOf(r2)
    /\ \A t1 \in PropTimes, t2 \in PropTimes : t1 # t2 => SysPropKey(t1) # SysPropKey(t2)

(***************************************************************************)
(* Structural invariants of the transcription                              *)
(***************************************************************************)
\* every cache entry holds the value a fresh point computes for the request of its key, for the state it
\* was computed in; in particular the normal-form transform is built from this point's own scale factors
CacheCoherent ==
    /\ Has(pc, NftKey) => Lookup(pc, NftKey) = <<"nft", "own">>
    /\ Has(pc, LdKey) => Lookup(pc, LdKey) = <<"ld", "own">>
    /\ \A e \in pc : e[2][1] \in {"ham", "hamsys"} => e[2][4] \in {"-", "own"}
    /\ \A e \in pc : e[2][1] = "gf" => e[2][3] \in {"-", "own"}
\* a Hamiltonian cached under degree d has degree d
HamDegreeCoherent ==
    \A d \in Degrees, f \in Forms : Has(pc, HamKey(d, f)) => Lookup(pc, HamKey(d, f))[2] = d
=============================================================================
