--------------------------- MODULE MCServiceCache ---------------------------
(* Model-checking instance of ServiceCache: the universe of argument tuples  *)
(* (shaped like the library's call sites) over which make_key is checked for *)
(* "distinct content => distinct key", and the JSON emission used to bind    *)
(* the transcription to the real make_key (conformance, value by value).     *)
EXTENDS ServiceCache, Json

MCKeyNames == <<"base", "fwd", "rtol", "tol">>          \* alphabetical

Leaf == {Atom("1"), Atom("2")}
Scalars == Leaf \cup {Atom("None")}

\* array-like arguments (state0 of System.propagate): lists and tuples of scalars
Arrays == {Lst(<<x>>) : x \in Leaf} \cup {Lst(<<x, y>>) : x \in Leaf, y \in Leaf}
          \cup {Tup(<<x, y>>) : x \in Leaf, y \in Leaf}

\* flat dicts (extra_kwargs, EigenDecompositionOptions.to_dict()), both insertion orders
FlatDicts == {Dct(<<<<k, x>>>>) : k \in {"rtol", "tol"}, x \in Leaf}
             \cup {Dct(<<<<"rtol", x>>, <<"tol", y>>>>) : x \in Leaf, y \in Leaf}
             \cup {Dct(<<<<"tol", y>>, <<"rtol", x>>>>) : x \in Leaf, y \in Leaf}

\* nested dicts (OrbitCorrectionOptions.to_dict(): {"base": {...}, "fwd": 1})
NestedDicts == {Dct(<<<<"base", d>>, <<"fwd", f>>>>) : d \in FlatDicts, f \in Leaf}

\* the call-site idiom  tuple(sorted(options.to_dict().items()))
ItemsOf(d) == LET ks == SortedKeys(Pay(d))
              IN  Tup([i \in DOMAIN ks |-> Tup(<<Atom(ks[i]), ValOf(Pay(d), ks[i])>>)])
SortedItemsFlat   == {ItemsOf(d) : d \in FlatDicts}
SortedItemsNested == {ItemsOf(d) : d \in NestedDicts}

Universe == Scalars \cup Arrays \cup FlatDicts \cup NestedDicts \cup SortedItemsFlat \cup SortedItemsNested
Small    == Scalars \cup {Lst(<<Atom("1")>>), Dct(<<<<"rtol", Atom("1")>>>>), Dct(<<<<"rtol", Atom("2")>>>>)}

MCArgs == {<<Atom("q1"), v>> : v \in Universe}
          \cup {<<Atom("q2"), v>> : v \in Small}
          \cup {<<Atom("q1"), v, w>> : v \in Small, w \in Small}

VARIABLES a, b
Init == a \in MCArgs /\ b \in MCArgs
Next == UNCHANGED <<a, b>>
Spec == Init /\ [][Next]_<<a, b>>

\* REQUIREMENT: "distinct quantities never share a cache entry"
DistinctArgsDistinctKeys == DistinctContentDistinctKey(a, b)

\* keys are hashable (make_key never returns something dict lookup would reject)
KeysHashable == \A i \in 2 .. Len(MakeKey(a)) : IsHashable(MakeKey(a)[i])

EmitValue ==
    (a = b) => PrintT(ToJson([kind |-> "value", args |-> a, key |-> MakeKey(a), content |-> ArgsContent(a)]))
EmitCollision ==
    (ArgsContent(a) # ArgsContent(b) /\ MakeKey(a) = MakeKey(b)) =>
        PrintT(ToJson([kind |-> "collision", a |-> a, b |-> b]))
=============================================================================
