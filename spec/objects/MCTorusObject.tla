---------------------------- MODULE MCTorusObject ----------------------------
EXTENDS TorusObject, Json
MCKeyNames == <<"none">>
MCEps == {"eA", "eB"}
MCN1s == {"n16", "n24"}
NoHistView == <<per, lastC, tc, grid, last>>
\* several workers: the history length must be part of the state identity under a length constraint
DepthView == <<NoHistView, Len(hist)>>
EmitState == (Len(hist) <= MaxLen /\ Len(hist) > 0) => PrintT(ToJson(hist))
Violated == {n \in {"ReturnedIsFresh", "GridIsLastCompute", "OperationsDefined"} :
               CASE n = "ReturnedIsFresh" -> ~ReturnedIsFresh
                 [] n = "GridIsLastCompute" -> ~GridIsLastCompute
                 [] n = "OperationsDefined" -> ~OperationsDefined}
EmitViolating == (Violated = {} \/ Len(hist) > MaxLen) \/ PrintT(ToJson([violated |-> Violated, hist |-> hist]))
=============================================================================
