------------------------- MODULE MCLibrationObject -------------------------
EXTENDS LibrationObject
MCQuantities == {"position", "gamma", "cn2"}
MCBounds == [eq_residual |-> -90, symplectic |-> -90]
=============================================================================
