---------------------------- MODULE ServiceCache ----------------------------
(***************************************************************************)
(* The memoisation layer of hiten's object model                           *)
(*   src/hiten/algorithms/types/services/base.py                           *)
(*     _CacheServiceBase.make_key / _make_hashable / get_or_create / reset *)
(*     _DynamicsServiceBase.make_key (prepends the domain object)          *)
(*                                                                         *)
(* A cache is a function  key -> stamp.  make_key is modelled AS WRITTEN:  *)
(*   - the frame tag is the constant "make_key" (inspect.currentframe()    *)
(*     .f_back is always _DynamicsServiceBase.make_key), so quantities are *)
(*     separated only by the hand-written tags among the arguments;        *)
(*   - a hashable argument enters the key by value;                        *)
(*   - an unhashable iterable becomes the tuple of its converted items;    *)
(*   - ITERATING A DICT YIELDS ITS KEYS, so a dict is reduced to the tuple *)
(*     of its keys (DictMode = "keys").  DictMode = "items" is the         *)
(*     repaired design (sorted (key, converted value) pairs, recursively). *)
(*                                                                         *)
(* Python values are trees  <<tag, payload>> :                             *)
(*   <<"atom", s>>   hashable scalar (number, string, None, object id)     *)
(*   <<"tup",  seq>> python tuple (hashable iff every item is)             *)
(*   <<"list", seq>> python list / numpy array (never hashable)            *)
(*   <<"dict", seq>> dict, payload = sequence of <<keyname, value>> in     *)
(*                   insertion order                                       *)
(*                                                                         *)
(* REQUIREMENT (property C20, "distinct quantities never share a cache     *)
(* entry"): the key determines the content of the arguments.               *)
(***************************************************************************)
EXTENDS Integers, Sequences, FiniteSets, TLC

CONSTANTS DictMode,     \* "keys" | "items"
          KeyNames      \* all dict key names, in sorted (alphabetical) order

Tag(v) == v[1]
Pay(v) == v[2]
Atom(s) == <<"atom", s>>
Tup(s)  == <<"tup", s>>
Lst(s)  == <<"list", s>>
Dct(s)  == <<"dict", s>>

RECURSIVE IsHashable(_)
IsHashable(v) ==
    CASE Tag(v) = "atom" -> TRUE
      [] Tag(v) = "tup"  -> \A i \in DOMAIN Pay(v) : IsHashable(Pay(v)[i])
      [] OTHER           -> FALSE            \* list, ndarray, dict: hash() raises TypeError

\* sequence of the (index of the) items of a dict payload ordered by key name
HasKey(p, k) == \E i \in DOMAIN p : p[i][1] = k
ValOf(p, k)  == p[CHOOSE i \in DOMAIN p : p[i][1] = k][2]
SortedKeys(p) == SelectSeq(KeyNames, LAMBDA k : HasKey(p, k))

(* _make_hashable(obj) *)
RECURSIVE Conv(_)
Conv(v) ==
    IF IsHashable(v) THEN v
    ELSE CASE Tag(v) \in {"tup", "list"} ->
                  Tup([i \in DOMAIN Pay(v) |-> Conv(Pay(v)[i])])
           [] Tag(v) = "dict" ->
                  IF DictMode = "keys"
                  THEN Tup([i \in DOMAIN Pay(v) |-> Atom(Pay(v)[i][1])])     \* tuple(iter(dict)) = keys
                  ELSE LET ks == SortedKeys(Pay(v))
                       IN  Tup([i \in DOMAIN ks |-> Tup(<<Atom(ks[i]), Conv(ValOf(Pay(v), ks[i]))>>)])

\* make_key(args...): the tuple (co_name of the calling frame, converted args...)
MakeKey(args) == <<"make_key">> \o [i \in DOMAIN args |-> Conv(args[i])]

(* Content of a value: what a reader of the call site means by "the same  *)
(* argument" -- container flavour (list/tuple/array) and dict insertion    *)
(* order do not matter, every leaf value does.                             *)
RECURSIVE Content(_)
Content(v) ==
    CASE Tag(v) = "atom" -> v
      [] Tag(v) \in {"tup", "list"} -> Tup([i \in DOMAIN Pay(v) |-> Content(Pay(v)[i])])
      [] Tag(v) = "dict" ->
            LET ks == SortedKeys(Pay(v))
            IN  Tup([i \in DOMAIN ks |-> Tup(<<Atom(ks[i]), Content(ValOf(Pay(v), ks[i]))>>)])

ArgsContent(args) == [i \in DOMAIN args |-> Content(args[i])]

(***************************************************************************)
(* REQUIREMENT                                                             *)
(***************************************************************************)
\* two calls whose arguments differ in content never share a key
DistinctContentDistinctKey(a, b) == (ArgsContent(a) # ArgsContent(b)) => (MakeKey(a) # MakeKey(b))

(***************************************************************************)
(* get_or_create / reset on a cache  c  represented as a set of            *)
(* <<key, stamp>> pairs with at most one pair per key.                     *)
(***************************************************************************)
Has(c, k)    == \E e \in c : e[1] = k
Lookup(c, k) == (CHOOSE e \in c : e[1] = k)[2]
Put(c, k, s) == {e \in c : e[1] # k} \cup {<<k, s>>}
Drop(c, k)   == {e \in c : e[1] # k}
\* get_or_create(key, factory): value returned and new cache
GetOrCreate(c, k, fresh) == IF Has(c, k) THEN <<Lookup(c, k), c, TRUE>> ELSE <<fresh, Put(c, k, fresh), FALSE>>
=============================================================================
