---------------------------- MODULE MCPointObject ----------------------------
(* Model-checking instance of PointObject: alphabets, views, JSON emission of histories *)
EXTENDS PointObject, Json
MCKeyNames == <<"delta", "tol">>
MCDegrees == {"d2", "d3"}
MCCnUpTo == [d \in MCDegrees |-> IF d = "d2" THEN {"k2"} ELSE {"k2", "k3"}]
MCCnOrders == {"k2", "k3"}
MCFlat == {"d2"}
MCForms == {"physical", "center_manifold_real"}
MCUserOpts1 == {"o1"}
MCUserOpts2 == {"o1", "o2"}
MCPropTimes == {"t1", "t2"}
MCOther == {"L4"}
MCOtherTri == {"L2"}
NoOther == {}

ReadOps == {"Position", "Gamma", "Cn", "LinearModes", "NormalForm", "LinearData", "Energy", "Jacobi",
            "Eigenvalues", "IsStable", "ScaleFactor", "Hamiltonian", "HamSys", "GenFuncs", "GetCM",
            "CreateOrbit", "ReadOptions", "ReadConfig", "SysPoints", "SysPropagate"}
WriteOps == {"RetargetCM", "SetOptions", "SetConfig", "SysGetPoint", "Save", "Load", "LoadInplace", "SysSaveLoad"}
AllOps == ReadOps \cup WriteOps
\* the linear layer only (cheap: nothing needs a normal form)
LinOps == AllOps \ {"Hamiltonian", "HamSys", "GenFuncs", "GetCM", "RetargetCM"}
\* options / config / persistence sub-alphabet, explored deeper
OptOps == {"SetOptions", "SetConfig", "Save", "Load", "LoadInplace", "SysSaveLoad", "ReadOptions", "ReadConfig", "Eigenvalues"}
\* Hamiltonian layer with the operations that can disturb it
HamOps == {"ScaleFactor", "NormalForm", "Hamiltonian", "HamSys", "GenFuncs", "GetCM", "RetargetCM", "Save", "Load", "SysSaveLoad"}

NoHistView == <<Lo, Lc, Lpts, Io, Ic, Ipts, pc, sc, left, saved, last>>
\* several workers: the history length must be part of the state identity under a length constraint
DepthView == <<NoHistView, Len(hist)>>
EmitState == (Len(hist) <= MaxLen) => PrintT(ToJson(hist))

\* one shortest history per distinct state of the transcription in which an (observable) requirement invariant
\* is false: TLC's own counterexamples, to be confirmed on the real code
Violated == {n \in {"ReturnedIsFresh", "ImplTracksLogical", "SaveLoadPreservesObservables"} :
               CASE n = "ReturnedIsFresh" -> ~ReturnedIsFresh
                 [] n = "ImplTracksLogical" -> ~ImplTracksLogical
                 [] n = "SaveLoadPreservesObservables" -> ~SaveLoadPreservesObservables}
EmitViolating == (Violated = {} \/ Len(hist) > MaxLen) \/ PrintT(ToJson([violated |-> Violated, hist |-> hist]))
=============================================================================
