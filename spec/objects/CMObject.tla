------------------------------ MODULE CMObject ------------------------------
(***************************************************************************)
(* A centre-manifold object and the libration point that hands it out      *)
(*   src/hiten/system/center.py  CenterManifold (degree, hamiltonian,      *)
(*        compute, to_synodic, save/load)                                  *)
(*   services/center.py  _CenterManifoldDynamicsService                    *)
(*        degree.setter       resets the keys ("pipeline", old/new degree) *)
(*                            and _hamsys                                  *)
(*        pipeline            key ("pipeline", degree)                     *)
(*        hamiltonian(d)      key ("hamiltonian", d); its factory calls    *)
(*                            pipeline_for_degree(d), which SETS THE       *)
(*                            DEGREE of the object to d                    *)
(*        hamsys              attribute _hamsys, filled from the pipeline  *)
(*   services/libration.py  center_manifold(d)  key ("center_manifold", d) *)
(*        cached value = a mutable CenterManifold object                   *)
(*                                                                         *)
(* Logical state: the degree the user set (constructor / degree setter).   *)
(* Fresh(hamiltonian(d)) = H(d); Fresh(to_synodic) = S(degree);            *)
(* Fresh(point.get_center_manifold(d)).degree = d.                         *)
(***************************************************************************)
EXTENDS ServiceCache

CONSTANTS HamNoSideEffect,   \* repaired design: hamiltonian(d) leaves the object's degree alone
          PointCopies,       \* repaired design: a CM handed out under key d has degree d
          Degrees, MaxLen

VARIABLES Ldeg,    \* logical degree of the CM object the user holds
          Ideg,    \* implementation attribute _degree
          cc,      \* the CM's dynamics-service cache: set of <<key, stamp>>
          hamsys,  \* attribute _hamsys: stamp or <<>>
          pcm,     \* the point's cache of CM objects: set of degrees d for which ("center_manifold", d)
                   \* is cached; the object cached under the constructor degree IS the user's object
          deg0,    \* the degree the user's object was created with (its key in the point's cache)
          last, hist
vars == <<Ldeg, Ideg, cc, hamsys, pcm, deg0, last, hist>>

Obj == Atom("cm")
PipeKey(d) == MakeKey(<<Obj, Atom("pipeline"), Atom(d)>>)
HamKey(d)  == MakeKey(<<Obj, Atom("hamiltonian"), Atom(d)>>)
H(d) == <<"H", d>>
P(d) == <<"pipeline", d>>
S(d) == <<"synodic", d>>

Init == /\ deg0 \in Degrees /\ Ldeg = deg0 /\ Ideg = deg0 /\ cc = {} /\ hamsys = <<>> /\ pcm = {deg0}
        /\ last = [op |-> "init", arg |-> <<>>, ret |-> <<"none">>, exp |-> <<"none">>, hit |-> "-"]
        /\ hist = <<>>

Record(op, arg, ret, exp, hit) ==
    /\ last' = [op |-> op, arg |-> arg, ret |-> ret, exp |-> exp, hit |-> hit]
    /\ hist' = Append(hist, [op |-> op, arg |-> arg, hit |-> hit, stale |-> (ret # exp), deg0 |-> deg0])
HM(h) == IF h THEN "H" ELSE "M"

\* degree.setter
ImplSetDegree(c, hs, old, d) ==
    IF d # old THEN [cc |-> Drop(Drop(c, PipeKey(old)), PipeKey(d)), hamsys |-> <<>>, deg |-> d]
               ELSE [cc |-> c, hamsys |-> hs, deg |-> old]

SetDegree(d) ==
    /\ LET r == ImplSetDegree(cc, hamsys, Ideg, d) IN cc' = r.cc /\ hamsys' = r.hamsys /\ Ideg' = r.deg
    /\ Ldeg' = d
    /\ Record("SetDegree", <<d>>, <<"none">>, <<"none">>, "-")
    /\ UNCHANGED <<pcm, deg0>>

ReadDegree ==
    /\ Record("ReadDegree", <<>>, <<"val", <<"deg", Ideg>>>>, <<"val", <<"deg", Ldeg>>>>, "-")
    /\ UNCHANGED <<Ldeg, Ideg, cc, hamsys, pcm, deg0>>

\* cm.hamiltonian(d)
Hamiltonian(d) ==
    LET h == Has(cc, HamKey(d))
        r == IF HamNoSideEffect THEN [cc |-> cc, hamsys |-> hamsys, deg |-> Ideg]
             ELSE ImplSetDegree(cc, hamsys, Ideg, d)                \* pipeline_for_degree(d)
        c1 == Put(r.cc, PipeKey(d), P(d))                           \* self.pipeline (get_or_create)
    IN  /\ IF h THEN /\ UNCHANGED <<cc, hamsys, Ideg>>
                     /\ Record("Hamiltonian", <<d>>, <<"val", Lookup(cc, HamKey(d))>>, <<"val", H(d)>>, "H")
                ELSE /\ cc' = Put(IF HamNoSideEffect THEN cc ELSE c1, HamKey(d), H(d))
                     /\ hamsys' = r.hamsys /\ Ideg' = r.deg
                     /\ Record("Hamiltonian", <<d>>, <<"val", H(d)>>, <<"val", H(d)>>, "M")
        /\ UNCHANGED <<Ldeg, pcm, deg0>>

\* cm.to_synodic(point): uses self.pipeline (key by current degree) and self.hamsys
ToSynodic ==
    LET g  == GetOrCreate(cc, PipeKey(Ideg), P(Ideg))
        hs == IF hamsys = <<>> THEN <<"hamsys", g[1][2]>> ELSE hamsys
    IN  /\ cc' = g[2] /\ hamsys' = hs
        /\ Record("ToSynodic", <<>>, <<"val", <<"synodic", g[1][2], hs[2]>>>>, <<"val", <<"synodic", Ldeg, Ldeg>>>>, HM(g[3]))
        /\ UNCHANGED <<Ldeg, Ideg, pcm, deg0>>

\* point.get_center_manifold(d).degree  (the object cached under deg0 is the user's own object)
PointGetDegree(d) ==
    /\ pcm' = pcm \cup {d}
    /\ Record("PointGetDegree", <<d>>,
              <<"val", <<"deg", IF d = deg0 /\ ~PointCopies THEN Ideg ELSE d>>>>, <<"val", <<"deg", d>>>>,
              HM(d \in pcm))
    /\ UNCHANGED <<Ldeg, Ideg, cc, hamsys, deg0>>

\* cm.save(path); CenterManifold.load(path): _degree restored onto a rebuilt service (empty cache, no _hamsys).
\* __getstate__ evaluates every property of the dynamics service of the object being SAVED (hamsys, pipeline, ...):
\* the first memoised call it makes is get_or_create(("pipeline", degree)); that object is then left behind.
SaveLoad ==
    /\ cc' = {} /\ hamsys' = <<>>
    /\ Record("SaveLoad", <<>>, <<"none">>, <<"none">>, HM(Has(cc, PipeKey(Ideg))))
    /\ UNCHANGED <<Ldeg, Ideg, pcm, deg0>>

Next == \/ \E d \in Degrees : SetDegree(d) \/ Hamiltonian(d) \/ PointGetDegree(d)
        \/ ReadDegree \/ ToSynodic \/ SaveLoad
Spec == Init /\ [][Next]_vars
HistBound == Len(hist) <= MaxLen

ReturnedIsFresh == last.ret = last.exp
ImplTracksLogical == Ideg = Ldeg
\* structural: the pipeline/hamsys in use belong to the implementation degree
PipelineCoherent == /\ \A e \in cc : e[2][1] = "pipeline" => e[1] = PipeKey(e[2][2])
                    /\ hamsys # <<>> => hamsys[2] = Ideg
DistinctQuantitiesDistinctKeys ==
    \A d1 \in Degrees, d2 \in Degrees : /\ PipeKey(d1) # HamKey(d2)
                                        /\ (d1 # d2 => PipeKey(d1) # PipeKey(d2) /\ HamKey(d1) # HamKey(d2))
=============================================================================
