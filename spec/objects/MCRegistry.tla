----------------------------- MODULE MCRegistry -----------------------------
(* Sample instance of Registry.tla: the 13 edges wrappers.py registers on    *)
(* the pinned tree, every edge executable, exact round trips.  The check     *)
(* (harness/c18.py) does NOT use these constants: it generates the same      *)
(* module shape from the live _CONVERSION_REGISTRY and from measurements on  *)
(* the real pipeline under the per-run work directory.                       *)
EXTENDS Registry, Json

MCEdgeSeq == << <<"physical", "real_modal">>, <<"real_modal", "physical">>,
                <<"real_modal", "complex_modal">>, <<"complex_modal", "real_modal">>,
                <<"complex_modal", "complex_partial_normal">>,
                <<"complex_partial_normal", "real_partial_normal">>, <<"real_partial_normal", "complex_partial_normal">>,
                <<"complex_partial_normal", "center_manifold_complex">>,
                <<"center_manifold_complex", "center_manifold_real">>, <<"center_manifold_real", "center_manifold_complex">>,
                <<"complex_modal", "complex_full_normal">>,
                <<"complex_full_normal", "real_full_normal">>, <<"real_full_normal", "complex_full_normal">> >>
MCEdges == {MCEdgeSeq[i] : i \in DOMAIN MCEdgeSeq}
MCOutcome == [e \in MCEdges |-> "ok"]
MCPairs == {e \in MCEdges : <<e[2], e[1]>> \in MCEdges}
MCDefect == [p \in MCPairs |-> -9999]
MCBound == [p \in MCPairs |-> -110]

NoHistView == <<cache, last>>
\* exhaustive verification runs use several workers: TLC's parallel breadth-first search does not reach a
\* state first through its SHORTEST history, so with a history-length constraint the history length must be
\* part of the state identity (otherwise which successors are cut off depends on the schedule)
DepthView == <<NoHistView, Len(hist)>>
EmitState == (Len(hist) <= MaxLen) => PrintT(ToJson(hist))
EmitFollow == (hist = <<>>) => PrintT(ToJson([follow |-> [s \in Forms |-> [t \in Forms |-> Follow(s, t)]],
                                               dist |-> [s \in Forms |-> [t \in Forms |-> Dist(s, t)]]]))
=============================================================================
