---------------------------- MODULE MCOrbitProbe ----------------------------
(***************************************************************************)
(* Conformance-test generation for OrbitObject in the style of the         *)
(* W-method (transition cover x observation suffix).                       *)
(*                                                                         *)
(* MCOrbitObject's emission prints ONE shortest history per distinct state *)
(* of the transcription.  That is state coverage: a change to the code     *)
(* that makes a setter skip its invalidation on SOME path to a state the   *)
(* correct code reaches on a shorter path (e.g. "period changed while only *)
(* the monodromy is cached") is never exercised, because the model merges  *)
(* the two paths.  Here every TRANSITION out of every core state is taken  *)
(* (source reached through its shortest history, CoreLen operations at     *)
(* most) when its operation is a writer, and is followed by the full       *)
(* battery of reads, so that whatever the transition left behind in the    *)
(* real object is observed and compared with the fresh twin.               *)
(*                                                                         *)
(*   probe = 0        core exploration (states merged by CoreView)         *)
(*   probe = 1        the writer has just been applied                     *)
(*   probe = 1 + k    k reads of ReadSeq applied                           *)
(***************************************************************************)
EXTENDS MCOrbitObject
CONSTANTS CoreLen,        \* core exploration: this many operations after the prefix
          Prefix,         \* fixed sequence of <<op, arg>> every history starts with (<<>> = none)
          CoreOps,        \* operations allowed in the core exploration after the prefix
          ProbeWriters    \* operations taken as the probed transition
VARIABLE probe
pvars == <<vars, probe>>

WriterOps == {"SetPeriod", "Correct", "Propagate", "SetCorrOpts", "Save", "Load", "LoadInplace"}
\* attribute reads come FIRST (a stale _stability_info / _trajectory must be seen before a computing read refreshes it:
\* compute_stability() on a miss re-assigns the attribute), then the memoised computations, then the attribute again
ReadSeq == << <<"ReadStability", <<>>>>, <<"ReadTrajectory", <<>>>>, <<"ReadMonodromy", <<>>>>,
              <<"ComputeStability", <<>>>>, <<"ReadStability", <<>>>>, <<"ReadPeriod", <<>>>>, <<"ReadInit", <<>>>>,
              <<"ReadCorrOpts", <<>>>>, <<"ReadEnergy", <<>>>> >>

LastRec == hist'[Len(hist')]
IsOp(e) == LastRec.op = e[1] /\ LastRec.arg = e[2]

ProbeInit == Init /\ probe = 0
ProbeNext ==
    \/ probe = 0 /\ Len(hist) < Len(Prefix) /\ Next /\ IsOp(Prefix[Len(hist) + 1]) /\ probe' = 0
    \/ probe = 0 /\ Len(hist) >= Len(Prefix) /\ Len(hist) < Len(Prefix) + CoreLen /\ Next /\ LastRec.op \in CoreOps /\ probe' = 0
    \/ probe = 0 /\ Len(hist) >= Len(Prefix) /\ Next /\ LastRec.op \in ProbeWriters /\ probe' = 1
    \/ probe \in 1 .. Len(ReadSeq) /\ Next /\ IsOp(ReadSeq[probe]) /\ probe' = probe + 1
ProbeSpec == ProbeInit /\ [][ProbeNext]_pvars

CoreView  == <<L, I, dyn, cor, saved, left, alias>>
ProbeView == IF probe = 0 THEN <<CoreView, 0, <<>>>> ELSE <<CoreView, probe, hist>>
EmitProbe == (probe = Len(ReadSeq) + 1) => PrintT(ToJson(hist))

AllOps == WriterOps \cup {e[1] : e \in {ReadSeq[i] : i \in DOMAIN ReadSeq}}
NoPrefix == <<>>
\* the save/load family behind a prefix that leaves the object re-loaded with a trajectory and stability information restored:
\* two more writers, then a (re-)load, then every read
LoadWriters == {"Load", "LoadInplace"}
=============================================================================
