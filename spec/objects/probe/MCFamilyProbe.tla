---------------------------- MODULE MCFamilyProbe ----------------------------
(* transition cover x read battery for FamilyObject; see MCOrbitProbe / DESIGN 11.5 *)
EXTENDS MCFamilyObject
CONSTANT CoreLen
VARIABLE probe
pvars == <<vars, probe>>

WriterOps == {"Propagate", "ToDf", "ToCsv", "MemberSetPeriod", "MemberPropagate", "Rename", "Save", "Load", "LoadInplace"}
ReadSeq == << <<"Len", <<>>>>, <<"ParamName", <<>>>>, <<"ParamValues", <<>>>>, <<"Periods", <<>>>>, <<"Jacobis", <<>>>>,
              <<"Iterate", <<>>>>, <<"GetItem", <<1>>>>, <<"GetItem", <<2>>>>,
              <<"MemberReadTrajectory", <<1>>>>, <<"MemberReadTrajectory", <<2>>>>,
              <<"ToDf", <<"s1">>>>, <<"MemberReadTrajectory", <<1>>>>, <<"MemberReadTrajectory", <<2>>>>,
              <<"Propagate", <<"s2">>>>, <<"ToCsv", <<"s1">>>>, <<"Propagate", <<"s1">>>>, <<"ToDf", <<"s2">>>> >>

LastRec == hist'[Len(hist')]
ProbeInit == Init /\ probe = 0
ProbeNext ==
    \/ probe = 0 /\ Len(hist) < CoreLen /\ Next /\ probe' = 0
    \/ probe = 0 /\ Next /\ LastRec.op \in WriterOps /\ probe' = 1
    \/ probe \in 1 .. Len(ReadSeq) /\ Do(ReadSeq[probe][1], ReadSeq[probe][2]) /\ probe' = probe + 1
ProbeSpec == ProbeInit /\ [][ProbeNext]_pvars

CoreView  == <<ctor, nm, L, I, saved>>
ProbeView == IF probe = 0 THEN <<CoreView, 0, <<>>>> ELSE <<CoreView, probe, hist>>
EmitProbe == (probe = Len(ReadSeq) + 1) => PrintT(ToJson(hist))
=============================================================================
