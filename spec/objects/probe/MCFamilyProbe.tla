---------------------------- MODULE MCFamilyProbe ----------------------------
(* transition cover x read battery for FamilyObject; see MCOrbitProbe / DESIGN 11.5 *)
EXTENDS MCFamilyObject
CONSTANT CoreLen
VARIABLE probe
pvars == <<vars, probe>>

WriterOps == {"Propagate", "ToDf", "ToCsv", "MemberSetPeriod", "MemberPropagate", "Rename", "Save", "Load", "LoadInplace"}
ReadSeq == << <<"Len", <<>>>>, <<"ParamName", <<>>>>, <<"ParamValues", <<>>>>, <<"Periods", <<>>>>, <<"Jacobis", <<>>>>,
              <<"Iterate", <<>>>>, <<"GetItem", <<1>>>>, <<"GetItem", <<2>>>>,
              <<"MemberReadTrajectory", <<1>>>>, <<"MemberReadTrajectory", <<2>>>>,
              <<"ToDf", <<"s1">>>>, <<"MemberReadTrajectory", <<1>>>>, <<"MemberReadTrajectory", <<2>>>>,
              <<"Propagate", <<"s2">>>>, <<"ToCsv", <<"s1">>>>, <<"Propagate", <<"s1">>>>, <<"ToDf", <<"s2">>>> >>

LastRec == hist'[Len(hist')]
ProbeInit == Init /\ probe = 0
ProbeNext ==
    \/ probe = 0 /\ Len(hist) < CoreLen /\ Next /\ probe' = 0
    \/ probe = 0 /\ Next /\ LastRec.op \in WriterOps /\ probe' = 1
    \/ probe \in 1 .. Len(ReadSeq) /\ Do(ReadSeq[probe][1], ReadSeq[probe][2]) /\ probe' = probe + 1
ProbeSpec == ProbeInit /\ [][ProbeNext]_pvars

(* Persistence probe: [writer A;] Save; writer B; Load | LoadInplace; reads.  A state-changing operation between *)
(* the save and the load leads back to a state the model already knows through a shorter history, so neither the   *)
(* state cover nor the transition cover above exercises "load must undo B" unless CoreLen >= 3.                     *)
StateWriters == {"Rename", "MemberSetPeriod", "MemberPropagate", "Propagate", "ToDf"}
PReadSeq == << <<"ParamName", <<>>>>, <<"ParamValues", <<>>>>, <<"Periods", <<>>>>, <<"MemberReadTrajectory", <<1>>>>,
               <<"MemberReadTrajectory", <<2>>>>, <<"ToDf", <<"s1">>>> >>
PersistInit == Init /\ probe = -4
PersistNext ==
    \/ probe = -4 /\ Next /\ LastRec.op \in StateWriters /\ probe' = -3
    \/ probe = -4 /\ UNCHANGED vars /\ probe' = -3
    \/ probe = -3 /\ Do("Save", <<>>) /\ probe' = -2
    \/ probe = -2 /\ Next /\ LastRec.op \in StateWriters /\ probe' = -1
    \/ probe = -1 /\ (Do("Load", <<>>) \/ Do("LoadInplace", <<>>)) /\ probe' = 1
    \/ probe \in 1 .. Len(PReadSeq) /\ Do(PReadSeq[probe][1], PReadSeq[probe][2]) /\ probe' = probe + 1
PersistSpec == PersistInit /\ [][PersistNext]_pvars
PersistView == <<probe, hist>>
EmitPersist == (probe = Len(PReadSeq) + 1) => PrintT(ToJson(hist))

CoreView  == <<ctor, nm, L, I, saved>>
ProbeView == IF probe = 0 THEN <<CoreView, 0, <<>>>> ELSE <<CoreView, probe, hist>>
EmitProbe == (probe = Len(ReadSeq) + 1) => PrintT(ToJson(hist))
=============================================================================
