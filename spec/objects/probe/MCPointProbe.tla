----------------------------- MODULE MCPointProbe -----------------------------
(* transition cover x read battery for PointObject (Chow's W-method with the reads as characterisation *)
(* set; see MCOrbitProbe / DESIGN 11.5): every writer out of every core state, then every read.        *)
EXTENDS MCPointObject
CONSTANTS CoreLen, Battery,     \* Battery: which read sequence follows the writer
          CoreOps               \* operations allowed while the core states are explored (tier-dependent: cost)
VARIABLE probe
pvars == <<vars, probe>>

\* memoised computations are writers too (they fill caches); pure attribute reads are not
ProbeWriters == WriteOps \cup {"ScaleFactor", "NormalForm", "Eigenvalues", "Hamiltonian", "GenFuncs", "CreateOrbit", "SysPropagate"}

LinBattery == << <<"ReadOptions", <<>>>>, <<"ReadConfig", <<>>>>, <<"SysPoints", <<>>>>, <<"SysPropagate", <<"t1">>>>, <<"SysPropagate", <<"t2">>>>, <<"Eigenvalues", <<>>>>, <<"IsStable", <<>>>>,
                 <<"Position", <<>>>>, <<"Gamma", <<>>>>, <<"Cn", <<"k2">>>>, <<"Cn", <<"k3">>>>, <<"ScaleFactor", <<"own">>>>,
                 <<"ScaleFactor", <<"alt">>>>, <<"LinearModes", <<>>>>, <<"NormalForm", <<>>>>, <<"LinearData", <<>>>>,
                 <<"Energy", <<>>>>, <<"Jacobi", <<>>>>, <<"CreateOrbit", <<>>>> >>
HamBattery == << <<"GetCM", <<"d2">>>>, <<"GetCM", <<"d3">>>>,
                 <<"Hamiltonian", <<"d2", "physical">>>>, <<"Hamiltonian", <<"d3", "center_manifold_real">>>>,
                 <<"Hamiltonian", <<"d2", "center_manifold_real">>>>, <<"Hamiltonian", <<"d3", "physical">>>>,
                 <<"HamSys", <<"d2", "center_manifold_real">>>>, <<"HamSys", <<"d3", "physical">>>>,
                 <<"GenFuncs", <<"d2">>>>, <<"GenFuncs", <<"d3">>>>, <<"NormalForm", <<>>>>, <<"ScaleFactor", <<"own">>>> >>
TriBattery == << <<"ReadOptions", <<>>>>, <<"ReadConfig", <<>>>>, <<"SysPoints", <<>>>>, <<"SysPropagate", <<"t1">>>>, <<"Eigenvalues", <<>>>>, <<"IsStable", <<>>>>,
                 <<"Position", <<>>>>, <<"ScaleFactor", <<"i0">>>>, <<"ScaleFactor", <<"i1">>>>, <<"ScaleFactor", <<"i2">>>>,
                 <<"LinearModes", <<>>>>, <<"NormalForm", <<>>>>, <<"LinearData", <<>>>>, <<"Energy", <<>>>>, <<"Jacobi", <<>>>> >>
\* quick tier: the Hamiltonian layer and the reads it can disturb (the whole linear battery follows every writer at L3)
ShortLin == << <<"ReadOptions", <<>>>>, <<"ReadConfig", <<>>>>, <<"SysPoints", <<>>>>, <<"Eigenvalues", <<>>>>, <<"ScaleFactor", <<"alt">>>>,
               <<"LinearData", <<>>>>, <<"Cn", <<"k3">>>>, <<"Jacobi", <<>>>>, <<"CreateOrbit", <<>>>>, <<"SysPropagate", <<"t1">>>> >>
ReadSeq == CASE Battery = "lin" -> LinBattery [] Battery = "ham" -> HamBattery \o LinBattery
             [] Battery = "hamq" -> HamBattery \o ShortLin [] Battery = "tri" -> TriBattery

LastRec == hist'[Len(hist')]
IsOp(e) == LastRec.op = e[1] /\ LastRec.arg = e[2]

ProbeInit == Init /\ probe = 0
ProbeNext ==
    \/ probe = 0 /\ Len(hist) < CoreLen /\ Next /\ LastRec.op \in CoreOps /\ probe' = 0
    \/ probe = 0 /\ Next /\ LastRec.op \in ProbeWriters /\ probe' = 1
    \/ probe \in 1 .. Len(ReadSeq) /\ Do(ReadSeq[probe][1], ReadSeq[probe][2]) /\ probe' = probe + 1
ProbeSpec == ProbeInit /\ [][ProbeNext]_pvars

(* Persistence probe: [writer A;] Save; writer B; Load | LoadInplace; reads  (see MCFamilyProbe) *)
StateWriters == {"SetOptions", "SetConfig", "SysGetPoint"}
PReadSeq == << <<"ReadOptions", <<>>>>, <<"ReadConfig", <<>>>>, <<"SysPoints", <<>>>>, <<"Eigenvalues", <<>>>>, <<"Position", <<>>>> >>
PersistInit == Init /\ probe = -4
PersistNext ==
    \/ probe = -4 /\ Next /\ LastRec.op \in StateWriters /\ probe' = -3
    \/ probe = -4 /\ UNCHANGED vars /\ probe' = -3
    \/ probe = -3 /\ Do("Save", <<>>) /\ probe' = -2
    \/ probe = -2 /\ Next /\ LastRec.op \in StateWriters /\ probe' = -1
    \/ probe = -1 /\ (Do("Load", <<>>) \/ Do("LoadInplace", <<>>)) /\ probe' = 1
    \/ probe \in 1 .. Len(PReadSeq) /\ Do(PReadSeq[probe][1], PReadSeq[probe][2]) /\ probe' = probe + 1
PersistSpec == PersistInit /\ [][PersistNext]_pvars
PersistView == <<probe, hist>>
EmitPersist == (probe = Len(PReadSeq) + 1) => PrintT(ToJson(hist))

CoreView  == <<Lo, Lc, Lpts, Io, Ic, Ipts, pc, sc, left, saved>>
ProbeView == IF probe = 0 THEN <<CoreView, 0, <<>>>> ELSE <<CoreView, probe, hist>>
EmitProbe == (probe = Len(ReadSeq) + 1) => PrintT(ToJson(hist))
=============================================================================
