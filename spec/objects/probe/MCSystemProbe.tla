---------------------------- MODULE MCSystemProbe ----------------------------
(* transition cover x observation suffix for SystemObject; see MCOrbitProbe.  Every operation of this  *)
(* object is a memoised computation: each is a "writer" (fills a cache) and a "read" (returns a value). *)
EXTENDS MCSystemObject
CONSTANT CoreLen
VARIABLE probe
pvars == <<vars, probe>>

WriterOps == {"Propagate", "ComputeStability"}
ReadSeq == << <<"ComputeStability", <<"1">>>>, <<"ComputeStability", <<"2">>>>,
              <<"Propagate", <<"t1", "s1", "none">>>>, <<"Propagate", <<"t1", "s1", "1">>>>,
              <<"Propagate", <<"t1", "s1", "2">>>>, <<"Propagate", <<"t2", "s1", "1">>>>,
              <<"ComputeStability", <<"1">>>> >>

LastRec == hist'[Len(hist')]
IsOp(e) == LastRec.op = e[1] /\ LastRec.arg = e[2]

ProbeInit == Init /\ probe = 0
ProbeNext ==
    \/ probe = 0 /\ Len(hist) < CoreLen /\ Next /\ probe' = 0
    \/ probe = 0 /\ Next /\ LastRec.op \in WriterOps /\ probe' = 1
    \/ probe \in 1 .. Len(ReadSeq) /\ Next /\ IsOp(ReadSeq[probe]) /\ probe' = probe + 1
ProbeSpec == ProbeInit /\ [][ProbeNext]_pvars

CoreView  == <<sc, pc, gen>>
ProbeView == IF probe = 0 THEN <<CoreView, 0, <<>>>> ELSE <<CoreView, probe, hist>>
EmitProbe == (probe = Len(ReadSeq) + 1) => PrintT(ToJson(hist))
=============================================================================
