------------------------------ MODULE MCCMProbe ------------------------------
(* transition cover x observation suffix for CMObject; see MCOrbitProbe *)
EXTENDS MCCMObject
CONSTANTS CoreLen, ProbeOps      \* ProbeOps: the operations allowed in probe histories (tier-dependent: cost)
VARIABLE probe
pvars == <<vars, probe>>

WriterOps == {"SetDegree", "Hamiltonian", "SaveLoad", "PointGetDegree"}
ReadSeq == << <<"ReadDegree", <<>>>>, <<"ToSynodic", <<>>>>, <<"ReadDegree", <<>>>> >>

LastRec == hist'[Len(hist')]
IsOp(e) == LastRec.op = e[1] /\ LastRec.arg = e[2]

ProbeInit == Init /\ probe = 0
ProbeNext ==
    \/ probe = 0 /\ Len(hist) < CoreLen /\ Next /\ LastRec.op \in ProbeOps /\ probe' = 0
    \/ probe = 0 /\ Next /\ LastRec.op \in WriterOps \cap ProbeOps /\ probe' = 1
    \/ probe \in 1 .. Len(ReadSeq) /\ Next /\ IsOp(ReadSeq[probe]) /\ probe' = probe + 1
ProbeSpec == ProbeInit /\ [][ProbeNext]_pvars

CoreView  == <<Ldeg, Ideg, cc, hamsys, pcm, deg0>>
ProbeView == IF probe = 0 THEN <<CoreView, 0, <<>>>> ELSE <<CoreView, probe, hist>>
EmitProbe == (probe = Len(ReadSeq) + 1) => PrintT(ToJson(hist))
AllCMOps == {"SetDegree", "Hamiltonian", "SaveLoad", "PointGetDegree", "ReadDegree", "ToSynodic"}
NoHamOps == AllCMOps \ {"Hamiltonian"}
=============================================================================
