--------------------------- MODULE MCManifoldProbe ---------------------------
(* transition cover x observation suffix for ManifoldObject; see MCOrbitProbe *)
EXTENDS MCManifoldObject
CONSTANT CoreLen
VARIABLE probe
pvars == <<vars, probe>>

WriterOps == {"OrbitSetPeriod", "Compute", "NewManifold", "SaveLoad"}
ReadSeq == << <<"ReadResult", <<>>>>, <<"ReadEigenvalues", <<>>>>, <<"ComputeStm", <<"n1">>>>,
              <<"Compute", <<"cA">>>>, <<"ReadResult", <<>>>> >>

LastRec == hist'[Len(hist')]
IsOp(e) == LastRec.op = e[1] /\ LastRec.arg = e[2]

ProbeInit == Init /\ probe = 0
ProbeNext ==
    \/ probe = 0 /\ Len(hist) < CoreLen /\ Next /\ probe' = 0
    \/ probe = 0 /\ Next /\ LastRec.op \in WriterOps /\ probe' = 1
    \/ probe \in 1 .. Len(ReadSeq) /\ Next /\ IsOp(ReadSeq[probe]) /\ probe' = probe + 1
ProbeSpec == ProbeInit /\ [][ProbeNext]_pvars

CoreView  == <<per, lastC, mc, res>>
ProbeView == IF probe = 0 THEN <<CoreView, 0, <<>>>> ELSE <<CoreView, probe, hist>>
EmitProbe == (probe = Len(ReadSeq) + 1) => PrintT(ToJson(hist))
=============================================================================
