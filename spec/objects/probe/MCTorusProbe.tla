----------------------------- MODULE MCTorusProbe -----------------------------
(* transition cover x read battery for TorusObject; see MCOrbitProbe / DESIGN 11.5 *)
EXTENDS MCTorusObject
CONSTANT CoreLen
VARIABLE probe
pvars == <<vars, probe>>

WriterOps == {"OrbitSetPeriod", "Compute", "AsTorus", "State", "ReadEigenvalues", "NewTori", "SaveLoad"}
ReadSeq == << <<"ReadGrid", <<>>>>, <<"ReadParams", <<>>>>, <<"ReadEigenvalues", <<>>>>, <<"State", <<"n16">>>>,
              <<"Compute", <<"eA", "n16">>>>, <<"ReadGrid", <<>>>>, <<"Compute", <<"eB", "n24">>>>, <<"ReadParams", <<>>>>,
              <<"AsTorus", <<"eA", "n16">>>>, <<"ReadGrid", <<>>>> >>

LastRec == hist'[Len(hist')]
ProbeInit == Init /\ probe = 0
ProbeNext ==
    \/ probe = 0 /\ Len(hist) < CoreLen /\ Next /\ probe' = 0
    \/ probe = 0 /\ Next /\ LastRec.op \in WriterOps /\ probe' = 1
    \/ probe \in 1 .. Len(ReadSeq) /\ Do(ReadSeq[probe][1], ReadSeq[probe][2]) /\ probe' = probe + 1
ProbeSpec == ProbeInit /\ [][ProbeNext]_pvars

CoreView  == <<per, lastC, tc, grid>>
ProbeView == IF probe = 0 THEN <<CoreView, 0, <<>>>> ELSE <<CoreView, probe, hist>>
EmitProbe == (probe = Len(ReadSeq) + 1) => PrintT(ToJson(hist))
=============================================================================
