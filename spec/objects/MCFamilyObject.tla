---------------------------- MODULE MCFamilyObject ----------------------------
(* Model-checking instance of FamilyObject: alphabets, views, JSON emission of histories *)
EXTENDS FamilyObject, Json
MCKeyNames == <<"none">>
MCProps == {"s1", "s2"}
MCUserPeriods == {"P1", "none"}
MCCtors == {"list", "nan", "result1", "result2"}
MCCtors1 == {"list"}

NoHistView == <<ctor, nm, L, I, saved, last>>
\* several workers: the history length must be part of the state identity under a length constraint
DepthView == <<NoHistView, Len(hist)>>
EmitState == (Len(hist) <= MaxLen /\ Len(hist) > 0) => PrintT(ToJson(hist))
Violated == {n \in {"ReturnedIsFresh", "ImplTracksLogical", "SaveLoadPreservesObservables"} :
               CASE n = "ReturnedIsFresh" -> ~ReturnedIsFresh
                 [] n = "ImplTracksLogical" -> ~ImplTracksLogical
                 [] n = "SaveLoadPreservesObservables" -> ~SaveLoadPreservesObservables}
EmitViolating == (Violated = {} \/ Len(hist) > MaxLen) \/ PrintT(ToJson([violated |-> Violated, hist |-> hist]))
=============================================================================
