---------------------------- MODULE MCStmConfigs ----------------------------
EXTENDS StmConfigs
QuickSystems == {"earth-moon"}
QuickDurations == {15}
ThoroughSystems == {"earth-moon", "sun-jupiter", "mu3"}
ThoroughDurations == {5, 25}
=============================================================================
