-------------------------- MODULE LibrationObject --------------------------
(***************************************************************************)
(* Object-level specification of a libration point (properties C04, C20).  *)
(*   src/hiten/system/libration/*.py, services/libration.py                *)
(*                                                                         *)
(* A libration point has no mutators: every derived quantity (position,    *)
(* gamma, c_n, linear modes, normal-form transform) is a pure function of  *)
(* (mu, index).  The service memoises each quantity under its own key.     *)
(* Requirement: every read of a quantity returns the same value, each      *)
(* quantity is computed at most once per object, and the contract          *)
(* observables recorded with the reads (all in units of 0.1 decade,        *)
(* i.e. ceil(10*log10(defect))) stay below their bounds.                   *)
(***************************************************************************)
EXTENDS Integers, Sequences, FiniteSets, TLC

CONSTANTS Quantities,   \* names of derived quantities
          Bounds        \* function observable name -> bound (0.1 decades)

VARIABLES val,       \* quantity -> stamp of the value first returned (0 = not yet read)
          computed,  \* set of quantities whose factory ran
          worst      \* observable name -> worst magnitude seen (-9999 = none)

vars == <<val, computed, worst>>

Init ==
    /\ val = [qn \in Quantities |-> 0]
    /\ computed = {}
    /\ worst = [o \in DOMAIN Bounds |-> -9999]

\* first read of a quantity on this object: the memoised factory may run (miss) or the quantity
\* is a plain, unmemoised property (no factory observed)
ReadFirst(qn, stamp, miss) ==
    /\ val[qn] = 0 /\ stamp # 0
    /\ val' = [val EXCEPT ![qn] = stamp]
    /\ computed' = IF miss = 1 THEN computed \cup {qn} ELSE computed
    /\ UNCHANGED worst

\* later read: same value; the factory of a memoised quantity never runs twice
ReadAgain(qn, stamp, miss) ==
    /\ val[qn] # 0
    /\ stamp = val[qn]
    /\ miss = 0
    /\ UNCHANGED vars

Observe(o, mag) ==
    /\ o \in DOMAIN Bounds
    /\ worst' = [worst EXCEPT ![o] = IF mag > @ THEN mag ELSE @]
    /\ UNCHANGED <<val, computed>>

Next == \/ \E qn \in Quantities, s \in 1 .. 3, m \in {0, 1} : ReadFirst(qn, s, m) \/ ReadAgain(qn, s, m)
        \/ \E o \in DOMAIN Bounds, m \in {-200, -100, 0} : Observe(o, m)

Spec == Init /\ [][Next]_vars

\* REQUIREMENT
ContractsHold == \A o \in DOMAIN Bounds : worst[o] <= Bounds[o]
ComputedOnce == \A qn \in Quantities : (qn \in computed) => (val[qn] # 0)
=============================================================================
