----------------------------- MODULE TorusObject -----------------------------
(***************************************************************************)
(* An invariant-torus object interleaved with its generating orbit         *)
(* (growth check X02; DESIGN section 10 item 2) -- cheap operations only   *)
(*   src/hiten/system/torus.py  InvariantTori (compute, grid, save/load)   *)
(*   src/hiten/algorithms/types/services/torus.py  _TorusDynamicsService   *)
(*       eigen_data     key (id(orbit))                                    *)
(*       prepare        key (id(orbit), n_theta1, method, order)           *)
(*       compute_grid   key (epsilon, n_theta1, n_theta2, method, order);  *)
(*                      _latest_grid/_latest_params assigned after lookup  *)
(*       state, as_torus  (no key of their own; use prepare/compute_grid)  *)
(*                                                                         *)
(* As for the manifold before fix cfc8d89, none of the keys contains the   *)
(* STATE of the generating orbit: id(orbit) is the same before and after   *)
(* orbit.period = ... / orbit.correct().  The orbit itself is taken to be  *)
(* correct (OrbitObject.tla: its monodromy follows its state); its logical *)
(* state is one version `per`.  Stamps name the orbit version each         *)
(* ingredient was computed from:                                           *)
(*   Eig(p)            monodromy + eigen-data of orbit version p           *)
(*   Prep(pe, p, n)    STM samples of version p, eigen-data of version pe  *)
(*   Grid(pe, p, e, n) grid built from Prep(pe, p, n) with amplitude e     *)
(*                                                                         *)
(* REQUIREMENT (X02): every value returned equals what a freshly           *)
(* constructed InvariantTori of the orbit in its current state computes;   *)
(* tori.grid is what the last compute() had to return; save/load keeps it; *)
(* every operation of the alphabet is defined on a fresh object.           *)
(***************************************************************************)
EXTENDS ServiceCache

CONSTANTS KeyHasOrbitState,   \* repaired design: the keys contain the orbit's state
          AsTorusWorks,       \* as_torus can construct its result (the name Torus is bound at run time)
          Eps, N1s,           \* epsilon names, n_theta1 names
          MaxLen

OrbitVersions == {"T", "P1", "P2"}

VARIABLES per,     \* the orbit's current state version
          lastC,   \* logical: <<eps, n1, orbit version>> of the last compute_grid (<<>> = none)
          tc,      \* the torus dynamics-service cache
          grid,    \* attributes _latest_grid/_latest_params: <<stamp, eps, n1>> or <<>>
          last, hist
vars == <<per, lastC, tc, grid, last, hist>>

Eig(p)            == <<"eig", p>>
Prep(pe, p, n)    == <<"prep", pe, p, n>>
Grid(pe, p, e, n) == <<"grid", pe, p, e, n>>
FreshGrid(e, n)   == Grid(per, per, e, n)
GridAt(c)         == Grid(c[3], c[3], c[1], c[2])

Obj == Atom("tori")
StP(p) == IF KeyHasOrbitState THEN <<Atom(p)>> ELSE <<>>
EigKeyP(p)        == MakeKey(<<Obj, Atom("id(orbit)")>> \o StP(p))
PrepKeyP(p, n)    == MakeKey(<<Obj, Atom("id(orbit)"), Atom(n), Atom("fixed"), Atom("o4")>> \o StP(p))
GridKeyP(p, e, n) == MakeKey(<<Obj, Atom(e), Atom(n), Atom("n2"), Atom("fixed"), Atom("o4")>> \o StP(p))
\* constant-level table (TLC evaluates it once)
KeyTab == [p \in OrbitVersions |-> [eig |-> EigKeyP(p), prep |-> [n \in N1s |-> PrepKeyP(p, n)],
                                    grid |-> [x \in Eps \X N1s |-> GridKeyP(p, x[1], x[2])]]]
EigKey        == KeyTab[per].eig
PrepKey(n)    == KeyTab[per].prep[n]
GridKey(e, n) == KeyTab[per].grid[<<e, n>>]

Val(s)     == <<"val", s>>
Nothing    == <<"none">>
RaiseV     == <<"raise", "ValueError">>
RaiseName  == <<"raise", "NameError">>
HM(h) == IF h THEN "H" ELSE "M"

Init ==
    /\ per = "T" /\ lastC = <<>> /\ tc = {} /\ grid = <<>>
    /\ last = [op |-> "init", arg |-> <<>>, ret |-> Nothing, exp |-> Nothing, hit |-> "-"]
    /\ hist = <<>>

Record(op, arg, ret, exp, hit) ==
    /\ last' = [op |-> op, arg |-> arg, ret |-> ret, exp |-> exp, hit |-> hit]
    /\ hist' = Append(hist, [op |-> op, arg |-> arg, hit |-> hit, stale |-> (ret # exp)])

\* eigen_data(): monodromy of the orbit AS IT IS NOW, on a miss
ImplEig(c) == GetOrCreate(c, EigKey, Eig(per))
\* prepare(n): on a miss eigen_data() and _compute_stm over the orbit's current state and period
ImplPrep(c, n) ==
    IF Has(c, PrepKey(n)) THEN <<Lookup(c, PrepKey(n)), c, TRUE>>
    ELSE LET g == ImplEig(c)
             v == Prep(g[1][2], per, n)
         IN  <<v, Put(g[2], PrepKey(n), v), FALSE>>
\* compute_grid(e, n): value, cache, hit
ImplGrid(c, e, n) ==
    IF Has(c, GridKey(e, n)) THEN <<Lookup(c, GridKey(e, n)), c, TRUE>>
    ELSE LET p == ImplPrep(c, n)
             v == Grid(p[1][2], p[1][3], e, n)
         IN  <<v, Put(p[2], GridKey(e, n), v), FALSE>>

\* orbit.period = v  (the torus object is not told)
OrbitSetPeriod(v) ==
    /\ per' = v
    /\ Record("OrbitSetPeriod", <<v>>, Nothing, Nothing, "-")
    /\ UNCHANGED <<lastC, tc, grid>>

\* tori.compute(epsilon=e, n_theta1=n, n_theta2, method, order)
Compute(e, n) ==
    LET g == ImplGrid(tc, e, n)
    IN  /\ tc' = g[2] /\ grid' = <<g[1], e, n>> /\ lastC' = <<e, n, per>>
        /\ Record("Compute", <<e, n>>, Val(g[1]), Val(FreshGrid(e, n)), HM(g[3]))
        /\ UNCHANGED per

\* tori.grid / tori.dynamics.params
ReadGrid ==
    /\ Record("ReadGrid", <<>>, IF grid = <<>> THEN RaiseV ELSE Val(grid[1]),
              IF lastC = <<>> THEN RaiseV ELSE Val(GridAt(lastC)), "-")
    /\ UNCHANGED <<per, lastC, tc, grid>>
ReadParams ==
    /\ Record("ReadParams", <<>>, IF grid = <<>> THEN RaiseV ELSE Val(<<grid[2], grid[3]>>),
              IF lastC = <<>> THEN RaiseV ELSE Val(<<lastC[1], lastC[2]>>), "-")
    /\ UNCHANGED <<per, lastC, tc, grid>>

\* tori.dynamics.eigenvalues
ReadEigenvalues ==
    LET g == ImplEig(tc)
    IN  /\ tc' = g[2]
        /\ Record("ReadEigenvalues", <<>>, Val(g[1]), Val(Eig(per)), HM(g[3]))
        /\ UNCHANGED <<per, lastC, grid>>

\* tori.dynamics.state(theta1, theta2, epsilon=, n_theta1=n, method, order)
State(n) ==
    LET p == ImplPrep(tc, n)
    IN  /\ tc' = p[2]
        /\ Record("State", <<n>>, Val(<<"state", p[1]>>), Val(<<"state", Prep(per, per, n)>>), HM(p[3]))
        /\ UNCHANGED <<per, lastC, grid>>

\* tori.dynamics.as_torus(epsilon=e, n_theta1=n, ...): compute_grid (with all its effects), prepare, then
\* Torus(grid, omega(orbit.period, eigenvalues), C0, system).  In the working tree the class name Torus is
\* imported under TYPE_CHECKING only: the call raises NameError after the effects have happened.
AsTorus(e, n) ==
    LET g == ImplGrid(tc, e, n)
        p == ImplPrep(g[2], n)
    IN  /\ tc' = p[2] /\ grid' = <<g[1], e, n>> /\ lastC' = <<e, n, per>>
        /\ Record("AsTorus", <<e, n>>, IF AsTorusWorks THEN Val(<<"torus", g[1], p[1], per>>) ELSE RaiseName,
                  Val(<<"torus", FreshGrid(e, n), Prep(per, per, n), per>>), HM(g[3]))
        /\ UNCHANGED per

\* InvariantTori(orbit): a new object of the same orbit
NewTori ==
    /\ tc' = {} /\ grid' = <<>> /\ lastC' = <<>>
    /\ Record("NewTori", <<>>, Nothing, Nothing, "-")
    /\ UNCHANGED per

\* tori.save(path); InvariantTori.load(path): services rebuilt, _latest_grid/_latest_params restored, the
\* generating orbit travels inside the pickle.  __getstate__ evaluates every property of the dynamics
\* service: eigenvalues/eigenvectors/monodromy call eigen_data() on the object being saved.
SaveLoad ==
    /\ tc' = {}
    /\ Record("SaveLoad", <<>>, Nothing, Nothing, HM(Has(tc, EigKey)))
    /\ UNCHANGED <<per, lastC, grid>>

Next ==
    \/ \E v \in OrbitVersions : OrbitSetPeriod(v)
    \/ \E e \in Eps, n \in N1s : Compute(e, n) \/ AsTorus(e, n)
    \/ \E n \in N1s : State(n)
    \/ ReadGrid \/ ReadParams \/ ReadEigenvalues \/ NewTori \/ SaveLoad

Do(op, arg) ==
    \/ op = "OrbitSetPeriod" /\ OrbitSetPeriod(arg[1])
    \/ op = "Compute" /\ Compute(arg[1], arg[2])
    \/ op = "AsTorus" /\ AsTorus(arg[1], arg[2])
    \/ op = "State" /\ State(arg[1])
    \/ op = "ReadGrid" /\ ReadGrid
    \/ op = "ReadParams" /\ ReadParams
    \/ op = "ReadEigenvalues" /\ ReadEigenvalues
    \/ op = "NewTori" /\ NewTori
    \/ op = "SaveLoad" /\ SaveLoad

Spec == Init /\ [][Next]_vars
HistBound == Len(hist) <= MaxLen

(***************************************************************************)
(* REQUIREMENT                                                             *)
(***************************************************************************)
ReturnedIsFresh == last.ret = last.exp
\* ImplTracksLogical: tori.grid / params are what the last compute had to produce (for the orbit as it was then)
GridIsLastCompute == grid = (IF lastC = <<>> THEN <<>> ELSE <<GridAt(lastC), lastC[1], lastC[2]>>)
SaveLoadPreservesObservables == (last.op = "SaveLoad") => GridIsLastCompute
\* every operation of the alphabet is defined on a freshly constructed object
OperationsDefined == last.ret # RaiseName
DistinctQuantitiesDistinctKeys ==
    LET Req == {<<"eig", "-", "-">>} \cup {<<"prep", n, "-">> : n \in N1s} \cup {<<"grid", e, n>> : e \in Eps, n \in N1s}
        K(p, r) == CASE r[1] = "eig" -> EigKeyP(p) [] r[1] = "prep" -> PrepKeyP(p, r[2]) [] OTHER -> GridKeyP(p, r[2], r[3])
    IN  /\ \A p \in OrbitVersions : \A r1 \in Req, r2 \in Req : r1 # r2 => K(p, r1) # K(p, r2)
        \* requests for different orbit states never share an entry
        /\ KeyHasOrbitState => \A p1 \in OrbitVersions, p2 \in OrbitVersions : \A r \in Req : p1 # p2 => K(p1, r) # K(p2, r)
\* whatever the cache serves for the orbit's CURRENT state was computed from that state
CacheCoherent ==
    /\ Has(tc, EigKey) => Lookup(tc, EigKey) = Eig(per)
    /\ \A n \in N1s : Has(tc, PrepKey(n)) => Lookup(tc, PrepKey(n)) = Prep(per, per, n)
    /\ \A e \in Eps, n \in N1s : Has(tc, GridKey(e, n)) => Lookup(tc, GridKey(e, n)) = FreshGrid(e, n)
=============================================================================
