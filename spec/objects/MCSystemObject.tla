--------------------------- MODULE MCSystemObject ---------------------------
EXTENDS SystemObject, Json
MCKeyNames == <<"delta", "rtol", "tol">>
MCPropArgs == [tf : {"t1", "t2"}, steps : {"s1", "s2"}, kw : {"none", "1", "2"}]
MCStabOpts == {"1", "2"}
MCPropArgsSmall == [tf : {"t1", "t2"}, steps : {"s1"}, kw : {"none", "1", "2"}]
NoHistView == <<sc, pc, gen, last>>
\* exhaustive verification runs use several workers: TLC's parallel breadth-first search does not reach a
\* state first through its SHORTEST history, so with a history-length constraint the history length must be
\* part of the state identity (otherwise which successors are cut off depends on the schedule)
DepthView == <<NoHistView, Len(hist)>>
EmitState == (Len(hist) <= MaxLen) => PrintT(ToJson(hist))
=============================================================================
