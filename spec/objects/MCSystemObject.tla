--------------------------- MODULE MCSystemObject ---------------------------
EXTENDS SystemObject, Json
MCKeyNames == <<"delta", "rtol", "tol">>
MCPropArgs == [tf : {"t1", "t2"}, steps : {"s1", "s2"}, kw : {"none", "1", "2"}]
MCStabOpts == {"1", "2"}
MCPropArgsSmall == [tf : {"t1", "t2"}, steps : {"s1"}, kw : {"none", "1", "2"}]
NoHistView == <<sc, pc, gen, last>>
EmitState == (Len(hist) <= MaxLen) => PrintT(ToJson(hist))
=============================================================================
