---------------------------- MODULE ManifoldObject ----------------------------
(***************************************************************************)
(* An invariant manifold object interleaved with its generating orbit      *)
(*   src/hiten/system/manifold.py  (Manifold.compute, result, save/load)   *)
(*   src/hiten/algorithms/types/services/manifold.py                       *)
(*       compute_stm        key (id(orbit), steps, forward)                *)
(*       compute_stability  key (id(manifold), sorted option items)        *)
(*       compute_manifold   key (id(orbit), stable, direction, params...)  *)
(*       _manifold_result   assigned inside the compute_manifold factory   *)
(*                                                                         *)
(* None of the three keys contains the STATE of the generating orbit (its  *)
(* initial state and period): id(orbit) is the same before and after       *)
(* orbit.period = ... or orbit.correct().  The orbit itself is taken to    *)
(* be correct here (OrbitObject.tla); its logical state is one version     *)
(* `per`.  Stamps name the orbit version each ingredient was computed      *)
(* from:  Man(stmPer, stabPer, nowPer, params).                            *)
(*                                                                         *)
(* REQUIREMENT (C20): every value returned equals what a freshly           *)
(* constructed manifold of the orbit in its current state would compute.   *)
(***************************************************************************)
EXTENDS ServiceCache

CONSTANTS KeyHasOrbitState,   \* repaired design: the keys contain the orbit's state
          ResultOnHit,        \* repaired design: _manifold_result assigned after get_or_create
          Params,             \* compute() parameter sets (strings)
          StmSteps,           \* compute_stm(steps=...) values (strings); "2000" is used internally
          MaxLen

OrbitVersions == {"T", "P1", "P2"}       \* corrected period / user-set periods

VARIABLES per,     \* the orbit's current (logical = implementation) state version
          lastC,   \* logical: <<params, orbit version>> of the last compute() (<<>> = none)
          mc,      \* the manifold's dynamics-service cache: set of <<key, stamp>>
          res,     \* implementation attribute _manifold_result (stamp or <<>>)
          last, hist

vars == <<per, lastC, mc, res, last, hist>>

Stm(p, n)          == <<"stm", p, n>>
Stab(p)            == <<"stab", p>>
Man(ps, pe, pn, c) == <<"man", ps, pe, pn, c>>
FreshMan(c)        == Man(per, per, per, c)
ManAt(c, p)        == Man(p, p, p, c)

Obj == Atom("manifold")
St  == IF KeyHasOrbitState THEN <<Atom(per)>> ELSE <<>>
StmKey(n)  == MakeKey(<<Obj, Atom("id(orbit)"), Atom(n), Atom("fwd")>> \o St)
StabKey    == MakeKey(<<Obj, Atom("id(manifold)"), Tup(<<Tup(<<Atom("delta"), Atom("1")>>), Tup(<<Atom("tol"), Atom("1")>>)>>)>> \o St)
CompKey(c) == MakeKey(<<Obj, Atom("id(orbit)"), Atom("stable"), Atom("dir"), Atom(c)>> \o St)

Init ==
    /\ per = "T" /\ lastC = <<>> /\ mc = {} /\ res = <<>>
    /\ last = [op |-> "init", arg |-> <<>>, ret |-> <<"none">>, exp |-> <<"none">>, hit |-> "-"]
    /\ hist = <<>>

Record(op, arg, ret, exp, hit) ==
    /\ last' = [op |-> op, arg |-> arg, ret |-> ret, exp |-> exp, hit |-> hit]
    /\ hist' = Append(hist, [op |-> op, arg |-> arg, hit |-> hit, stale |-> (ret # exp)])

HM(h) == IF h THEN "H" ELSE "M"

\* orbit.period = v  (the manifold is not told)
OrbitSetPeriod(v) ==
    /\ per' = v
    /\ Record("OrbitSetPeriod", <<v>>, <<"none">>, <<"none">>, "-")
    /\ UNCHANGED <<lastC, mc, res>>

\* manifold.dynamics.compute_stm(steps=n)
ComputeStm(n) ==
    LET g == GetOrCreate(mc, StmKey(n), Stm(per, n))
    IN  /\ mc' = g[2]
        /\ Record("ComputeStm", <<n>>, <<"val", g[1]>>, <<"val", Stm(per, n)>>, HM(g[3]))
        /\ UNCHANGED <<per, lastC, res>>

\* compute_stability(): on a miss the factory takes the monodromy from compute_stm(steps=2000)
ImplStability(c) ==
    LET s == GetOrCreate(c, StmKey("2000"), Stm(per, "2000"))
        g == GetOrCreate(s[2], StabKey, Stab(s[1][2]))
    IN  IF Has(c, StabKey) THEN <<Lookup(c, StabKey), c, TRUE>> ELSE <<g[1], g[2], FALSE>>

ReadEigenvalues ==
    LET g == ImplStability(mc)
    IN  /\ mc' = g[2]
        /\ Record("ReadEigenvalues", <<>>, <<"val", g[1]>>, <<"val", Stab(per)>>, HM(g[3]))
        /\ UNCHANGED <<per, lastC, res>>

\* manifold.compute(params): _run_compute uses the (cached) stability and the (cached) STM with
\* 2000 steps, and the orbit's CURRENT period for the phase of each seed
Compute(c) ==
    LET k  == CompKey(c)
        h  == Has(mc, k)
        sb == ImplStability(mc)
        sm == GetOrCreate(sb[2], StmKey("2000"), Stm(per, "2000"))
        v  == Man(sm[1][2], sb[1][2], per, c)
    IN  /\ IF h THEN /\ mc' = mc
                     /\ res' = IF ResultOnHit THEN Lookup(mc, k) ELSE res
                     /\ Record("Compute", <<c>>, <<"val", Lookup(mc, k)>>, <<"val", FreshMan(c)>>, "H")
                ELSE /\ mc' = Put(sm[2], k, v)
                     /\ res' = v
                     /\ Record("Compute", <<c>>, <<"val", v>>, <<"val", FreshMan(c)>>, "M")
        /\ lastC' = <<c, per>>
        /\ UNCHANGED per

\* manifold.result
ReadResult ==
    /\ Record("ReadResult", <<>>, IF res = <<>> THEN <<"none">> ELSE <<"val", res>>,
              IF lastC = <<>> THEN <<"none">> ELSE <<"val", ManAt(lastC[1], lastC[2])>>, "-")
    /\ UNCHANGED <<per, lastC, mc, res>>

\* orbit.manifold(...): a new Manifold object of the same orbit
NewManifold ==
    /\ mc' = {} /\ res' = <<>> /\ lastC' = <<>>
    /\ Record("NewManifold", <<>>, <<"none">>, <<"none">>, "-")
    /\ UNCHANGED per

\* manifold.save(path); Manifold.load(path): services rebuilt, _manifold_result restored, the
\* generating orbit travels inside the pickle.  __getstate__ evaluates every property of the
\* dynamics service (cn, eigenvalues, stm, ...), i.e. computes stability and STM as a side effect
\* on the object being saved; the first memoised call it makes is compute_stability().
SaveLoad ==
    /\ mc' = {}
    /\ Record("SaveLoad", <<>>, <<"none">>, <<"none">>, HM(Has(mc, StabKey)))
    /\ UNCHANGED <<per, lastC, res>>

Next ==
    \/ \E v \in OrbitVersions : OrbitSetPeriod(v)
    \/ \E n \in StmSteps : ComputeStm(n)
    \/ \E c \in Params : Compute(c)
    \/ ReadEigenvalues \/ ReadResult \/ NewManifold \/ SaveLoad

Spec == Init /\ [][Next]_vars
HistBound == Len(hist) <= MaxLen

(***************************************************************************)
(* REQUIREMENT                                                             *)
(***************************************************************************)
ReturnedIsFresh == last.ret = last.exp
\* manifold.result is what the last compute() call had to return (for the orbit as it was then)
ResultIsLastCompute == res = (IF lastC = <<>> THEN <<>> ELSE ManAt(lastC[1], lastC[2]))
\* every cache entry was computed from the orbit's current state
CacheCoherent == \A e \in mc : \A i \in 2 .. 4 : (e[2][1] = "man" => e[2][i] = per)
DistinctQuantitiesDistinctKeys ==
    LET Req == {<<"stm", n>> : n \in StmSteps \cup {"2000"}} \cup {<<"comp", c>> : c \in Params} \cup {<<"stab", "-">>}
        K(r) == CASE r[1] = "stm" -> StmKey(r[2]) [] r[1] = "comp" -> CompKey(r[2]) [] OTHER -> StabKey
    IN  \A r1 \in Req, r2 \in Req : r1 # r2 => K(r1) # K(r2)
=============================================================================
