-------------------------- MODULE MCManifoldObject --------------------------
EXTENDS ManifoldObject, Json
MCKeyNames == <<"delta", "tol">>
MCParams == {"cA", "cB"}
MCStmSteps == {"n1", "n2"}
NoHistView == <<per, lastC, mc, res, last>>
\* exhaustive verification runs use several workers: TLC's parallel breadth-first search does not reach a
\* state first through its SHORTEST history, so with a history-length constraint the history length must be
\* part of the state identity (otherwise which successors are cut off depends on the schedule)
DepthView == <<NoHistView, Len(hist)>>
EmitState == (Len(hist) <= MaxLen) => PrintT(ToJson(hist))
EmitWalk == (Len(hist) = MaxLen) => PrintT(ToJson(hist))
=============================================================================
