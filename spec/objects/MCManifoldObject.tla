-------------------------- MODULE MCManifoldObject --------------------------
EXTENDS ManifoldObject, Json
MCKeyNames == <<"delta", "tol">>
MCParams == {"cA", "cB"}
MCStmSteps == {"n1", "n2"}
NoHistView == <<per, lastC, mc, res, last>>
EmitState == (Len(hist) <= MaxLen) => PrintT(ToJson(hist))
EmitWalk == (Len(hist) = MaxLen) => PrintT(ToJson(hist))
=============================================================================
