---------------------------- MODULE SystemObject ----------------------------
(***************************************************************************)
(* The memoised operations of a System and of a libration point that take  *)
(* OPTIONS (the libration point's plain memoised reads are specified in    *)
(* LibrationObject.tla and not repeated here).                             *)
(*   services/system.py    _SystemsDynamicsService.propagate               *)
(*        key make_key("propagate", state0, tf, steps, method, order,      *)
(*                      forward, extra_kwargs)         extra_kwargs a dict *)
(*   services/libration.py _LibrationDynamicsService.compute_stability     *)
(*        key make_key(id(point), tuple(sorted(options.to_dict().items())))*)
(*        cached VALUE = self.generator, ONE StabilityPipeline object per  *)
(*        point whose results are overwritten by every compute(): every    *)
(*        cache entry aliases the same mutable object                      *)
(*                                                                         *)
(* Neither object has mutators, so the logical state is empty and          *)
(* Fresh(q, args) depends on the arguments only.                           *)
(* REQUIREMENT (C20): every value returned equals what a freshly           *)
(* constructed object computes for the same arguments.                     *)
(***************************************************************************)
EXTENDS ServiceCache

CONSTANTS PipelinePerKey,   \* repaired design: a cache entry owns its results
          PropArgs,         \* argument records of propagate: [tf, steps, kw]
          StabOpts,         \* option names of compute_stability
          MaxLen

VARIABLES sc,     \* system dynamics-service cache: set of <<key, stamp>>
          pc,     \* libration dynamics-service cache: set of <<key, stamp-or-pointer>>
          gen,    \* content of the point's single StabilityPipeline: option name last computed, "" = none
          last, hist
vars == <<sc, pc, gen, last, hist>>

Obj == Atom("obj")
KwVal(kw) == IF kw = "none" THEN Atom("None") ELSE Dct(<<<<"rtol", Atom(kw)>>>>)
PropKey(a) == MakeKey(<<Obj, Atom("propagate"), Lst(<<Atom("x"), Atom("y")>>), Atom(a.tf), Atom(a.steps),
                        Atom("adaptive"), Atom("8"), Atom("1"), KwVal(a.kw)>>)
StabKey(o) == MakeKey(<<Obj, Atom("id(point)"), Tup(<<Tup(<<Atom("delta"), Atom(o)>>), Tup(<<Atom("tol"), Atom("1")>>)>>)>>)

Traj(a) == <<"traj", a.tf, a.steps, a.kw>>
Stab(o) == <<"stab", o>>

Init == /\ sc = {} /\ pc = {} /\ gen = ""
        /\ last = [op |-> "init", arg |-> <<>>, ret |-> <<"none">>, exp |-> <<"none">>, hit |-> "-"]
        /\ hist = <<>>

Record(op, arg, ret, exp, hit) ==
    /\ last' = [op |-> op, arg |-> arg, ret |-> ret, exp |-> exp, hit |-> hit]
    /\ hist' = Append(hist, [op |-> op, arg |-> arg, hit |-> hit, stale |-> (ret # exp)])
HM(h) == IF h THEN "H" ELSE "M"

\* system.dynamics.propagate(state0, tf=, steps=, method=, order=, forward=, extra_kwargs=)
Propagate(a) ==
    LET g == GetOrCreate(sc, PropKey(a), Traj(a))
    IN  /\ sc' = g[2]
        /\ Record("Propagate", <<a.tf, a.steps, a.kw>>, <<"val", g[1]>>, <<"val", Traj(a)>>, HM(g[3]))
        /\ UNCHANGED <<pc, gen>>

\* point.dynamics.compute_stability(options): returns the pipeline; the caller reads its results
ComputeStability(o) ==
    LET k == StabKey(o)
        h == Has(pc, k)
    IN  /\ IF PipelinePerKey
             THEN /\ pc' = Put(pc, k, IF h THEN Lookup(pc, k) ELSE Stab(o))
                  /\ gen' = gen
                  /\ Record("ComputeStability", <<o>>, <<"val", IF h THEN Lookup(pc, k) ELSE Stab(o)>>, <<"val", Stab(o)>>, HM(h))
             ELSE /\ pc' = Put(pc, k, <<"the-generator">>)
                  /\ gen' = IF h THEN gen ELSE o
                  /\ Record("ComputeStability", <<o>>, <<"val", Stab(IF h THEN gen ELSE o)>>, <<"val", Stab(o)>>, HM(h))
        /\ UNCHANGED sc

Next == \/ \E a \in PropArgs : Propagate(a)
        \/ \E o \in StabOpts : ComputeStability(o)
Spec == Init /\ [][Next]_vars
HistBound == Len(hist) <= MaxLen

ReturnedIsFresh == last.ret = last.exp
DistinctQuantitiesDistinctKeys ==
    /\ \A a \in PropArgs, b \in PropArgs : a # b => PropKey(a) # PropKey(b)
    /\ \A o \in StabOpts, q \in StabOpts : o # q => StabKey(o) # StabKey(q)
=============================================================================
