----------------------------- MODULE MCCMConfigs -----------------------------
EXTENDS CMConfigs
QuickSystems == {"earth-moon"}
QuickPoints == {1}
QuickDegrees == {4}
ThoroughSystems == {"earth-moon", "sun-earth"}
ThoroughPoints == {1, 2}
ThoroughDegrees == {4, 6}
=============================================================================
