----------------------------- MODULE MCCMConfigs -----------------------------
EXTENDS CMConfigs
QuickSystems == {"earth-moon"}
QuickPoints == {1}
QuickDegrees == {4}
QuickDirs == {"planar", "mixed"}
ThoroughDirs == {"planar", "vertical", "mixed", "mixed2"}
ThoroughSystems == {"earth-moon", "sun-earth"}
ThoroughPoints == {1, 2}
ThoroughDegrees == {4, 6}
=============================================================================
