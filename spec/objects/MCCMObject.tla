----------------------------- MODULE MCCMObject -----------------------------
EXTENDS CMObject, Json
MCKeyNames == <<"none">>
MCDegrees == {"dA", "dB"}
NoHistView == <<Ldeg, Ideg, cc, hamsys, pcm, deg0, last>>
EmitState == (Len(hist) <= MaxLen) => PrintT(ToJson(hist))
=============================================================================
