----------------------------- MODULE MCCMObject -----------------------------
EXTENDS CMObject, Json
MCKeyNames == <<"none">>
MCDegrees == {"dA", "dB"}
NoHistView == <<Ldeg, Ideg, cc, hamsys, pcm, deg0, last>>
\* exhaustive verification runs use several workers: TLC's parallel breadth-first search does not reach a
\* state first through its SHORTEST history, so with a history-length constraint the history length must be
\* part of the state identity (otherwise which successors are cut off depends on the schedule)
DepthView == <<NoHistView, Len(hist)>>
EmitState == (Len(hist) <= MaxLen) => PrintT(ToJson(hist))
=============================================================================
