----------------------------- MODULE StmConfigs -----------------------------
(* Configuration space of a variational propagation (_compute_stm /        *)
(* System.propagate): which (method, order) pairs exist, both directions,  *)
(* planar and spatial initial states, several systems and durations.       *)
(* TLC enumerates the valid configurations; each becomes one contract      *)
(* trace recorded from the real library (harness/c03.py).                  *)
EXTENDS Integers, TLC, Json

CONSTANTS Systems, Durations     \* Durations in tenths of a time unit

Methods == {"fixed", "adaptive"}
Orders(m) == IF m = "fixed" THEN {4, 6, 8} ELSE {5, 8}
Kinds == {"planar", "spatial"}
Directions == {1, -1}

VARIABLES c
Cfgs == [system : Systems, method : Methods, order : {4, 5, 6, 8}, tf10 : Durations, kind : Kinds, forward : Directions]
Valid(x) == x.order \in Orders(x.method)
Init == c \in {x \in Cfgs : Valid(x)}
Next == UNCHANGED c
Spec == Init /\ [][Next]_c
Emit == PrintT(ToJson(c))
=============================================================================
