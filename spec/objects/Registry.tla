------------------------------ MODULE Registry ------------------------------
(***************************************************************************)
(* The conversion registry between Hamiltonian representations and the     *)
(* pipeline that walks it                                                  *)
(*   src/hiten/algorithms/hamiltonian/wrappers.py   register_conversion    *)
(*   src/hiten/algorithms/types/services/hamiltonian.py                    *)
(*        _CONVERSION_REGISTRY  (src, dst) -> (function, context, defaults)*)
(*        _HamiltonianConversionService.convert  (direct edges only)       *)
(*   src/hiten/algorithms/hamiltonian/pipeline.py  HamiltonianPipeline     *)
(*        get_hamiltonian / _compute_hamiltonian / _find_conversion_source *)
(*        / _follow_conversion_path / _execute_conversion_path             *)
(*                                                                         *)
(* The graph (EdgeSeq, in registration order = dict iteration order, which *)
(* the breadth-first searches depend on), the outcome of executing each    *)
(* edge and the round-trip defect of each inverse pair are CONSTANTS read  *)
(* from the live registry / measured on the real pipeline at run time.     *)
(*                                                                         *)
(* REQUIREMENT (C18): every registered edge is executable; edges           *)
(* registered in both directions are mutually inverse up to the cleaning   *)
(* tolerance; the pipeline's search finds a (shortest) registered path     *)
(* exactly when the graph has one; the pipeline cache keyed by form holds  *)
(* the form asked for.                                                     *)
(***************************************************************************)
EXTENDS Integers, Sequences, FiniteSets, TLC

CONSTANTS EdgeSeq,     \* sequence of <<src, dst>> in registration order
          Usable,      \* edges the searches may use (required context empty or containing "point")
          Outcome,     \* function edge -> "ok" or the name of the exception class it raises
          Defect,      \* function <<a, b>> (both directions registered) -> round-trip defect a->b->a
                       \*   in units of 0.1 decade: ceiling(10 log10 defect), -9999 for an exact round trip
          Bound,       \* function <<a, b>> -> admissible defect, same units (10 x cleaning tolerance)
          MaxLen       \* bound on the number of get_hamiltonian calls in a walk

Edges == {EdgeSeq[i] : i \in DOMAIN EdgeSeq}
Forms == {e[1] : e \in Edges} \cup {e[2] : e \in Edges} \cup {"physical"}
Pairs == {e \in Edges : <<e[2], e[1]>> \in Edges}

(***************************************************************************)
(* Graph facts computed by TLC independently of the search transcription   *)
(***************************************************************************)
Step(S) == S \cup {e[2] : e \in {x \in Edges : x[1] \in S /\ x \in Usable}}
RECURSIVE Closure(_)
Closure(S) == IF Step(S) = S THEN S ELSE Closure(Step(S))
Reach(s) == Closure({s})
\* distance = number of Step iterations until t appears
RECURSIVE DistFrom(_, _, _)
DistFrom(S, t, n) == IF t \in S THEN n ELSE IF Step(S) = S THEN -1 ELSE DistFrom(Step(S), t, n + 1)
Dist(s, t) == DistFrom({s}, t, 0)

(***************************************************************************)
(* ALGORITHM TRANSCRIPTION                                                 *)
(***************************************************************************)
\* inner for-loop over the registry items for one dequeued (form, path)
RECURSIVE Scan(_, _, _, _, _, _)
Scan(cur, path, queue, visited, target, i) ==
    IF i > Len(EdgeSeq) THEN [found |-> <<>>, queue |-> queue, visited |-> visited]
    ELSE LET e == EdgeSeq[i]
         IN  IF e[1] = cur /\ e[2] \notin visited /\ e \in Usable
             THEN IF e[2] = target THEN [found |-> Append(path, e[2]), queue |-> queue, visited |-> visited]
                  ELSE Scan(cur, path, Append(queue, Append(path, e[2])), visited \cup {e[2]}, target, i + 1)
             ELSE Scan(cur, path, queue, visited, target, i + 1)
\* while queue: popleft ...
RECURSIVE Bfs(_, _, _)
Bfs(queue, visited, target) ==
    IF queue = <<>> THEN <<>>
    ELSE LET path == Head(queue)
             r == Scan(path[Len(path)], path, Tail(queue), visited, target, 1)
         IN  IF r.found # <<>> THEN r.found ELSE Bfs(r.queue, r.visited, target)
\* _follow_conversion_path(start, target): the path it executes, <<>> = NotImplementedError
Follow(start, target) == Bfs(<<<<start>>>>, {start}, target)

\* _find_conversion_source(target) given the cache (sequence of forms in insertion order): "" = None
FindSource(cache, target) ==
    LET direct == SelectSeq(cache, LAMBDA c : <<c, target>> \in Edges)
    IN  IF direct # <<>> THEN direct[1]
        ELSE IF <<"physical", target>> \in Edges THEN "physical"
        ELSE IF Follow("physical", target) # <<>> THEN "physical"
        ELSE ""

InSeq(s, x) == \E i \in DOMAIN s : s[i] = x
AddTo(cache, f) == IF InSeq(cache, f) THEN cache ELSE Append(cache, f)

\* execute the hops of a path starting from a cached form; stops at the first edge that raises
RECURSIVE Exec(_, _, _, _)
Exec(path, i, cache, hops) ==
    IF i >= Len(path) THEN [ok |-> TRUE, cache |-> cache, hops |-> hops, err |-> ""]
    ELSE LET e == <<path[i], path[i + 1]>>
         IN  IF Outcome[e] # "ok" THEN [ok |-> FALSE, cache |-> cache, hops |-> Append(hops, e), err |-> Outcome[e]]
             ELSE Exec(path, i + 1, AddTo(cache, path[i + 1]), Append(hops, e))

\* get_hamiltonian(form): result record [ok, cache, hops, err]
GetHam(cache, f) ==
    IF InSeq(cache, f) THEN [ok |-> TRUE, cache |-> cache, hops |-> <<>>, err |-> ""]
    ELSE IF f = "physical" THEN [ok |-> TRUE, cache |-> Append(cache, f), hops |-> <<>>, err |-> ""]
    ELSE LET src == FindSource(cache, f)
             c1  == AddTo(cache, src)                    \* get_hamiltonian(source) builds "physical" if needed
         IN  IF src = "" THEN [ok |-> FALSE, cache |-> cache, hops |-> <<>>, err |-> "NotImplementedError"]
             ELSE IF <<src, f>> \in Edges THEN Exec(<<src, f>>, 1, c1, <<>>)
             ELSE Exec(Follow(src, f), 1, c1, <<>>)

VARIABLES cache,   \* the pipeline's _hamiltonian_cache: forms in insertion order
          last,    \* result of the last get_hamiltonian
          hist
vars == <<cache, last, hist>>

Init == cache = <<>> /\ last = [f |-> "", ok |-> TRUE, hops |-> <<>>, err |-> ""] /\ hist = <<>>

Get(f) ==
    LET r == GetHam(cache, f)
    IN  /\ cache' = r.cache
        /\ last' = [f |-> f, ok |-> r.ok, hops |-> r.hops, err |-> r.err]
        /\ hist' = Append(hist, [f |-> f, ok |-> r.ok, hops |-> r.hops, err |-> r.err, cache |-> r.cache])

Next == \E f \in Forms : Get(f)
Spec == Init /\ [][Next]_vars
HistBound == Len(hist) <= MaxLen

(***************************************************************************)
(* REQUIREMENT                                                             *)
(***************************************************************************)
\* "every registered conversion can be executed"
EveryEdgeExecutable == \A e \in Edges : Outcome[e] = "ok"

\* "conversions registered in both directions are inverses of each other up to the cleaning tolerance"
BidirectionalEdgesInverse == \A p \in Pairs : (Outcome[p] = "ok" /\ Outcome[<<p[2], p[1]>>] = "ok") => Defect[p] <= Bound[p]

\* the path search finds a registered, shortest path exactly when the graph has one
ValidPath(p, s, t) == /\ Len(p) >= 2 /\ p[1] = s /\ p[Len(p)] = t
                      /\ \A i \in 1 .. Len(p) - 1 : <<p[i], p[i + 1]>> \in Edges
PathSearchFindsRegisteredPath ==
    \A s \in Forms, t \in Forms :
        LET p == Follow(s, t)
        IN  IF t \in Reach(s) \ {s}
            THEN ValidPath(p, s, t) /\ Len(p) - 1 = Dist(s, t)
            ELSE p = <<>>
\* and the pipeline serves every form the graph can reach from the physical Hamiltonian,
\* from any cache content (given executable edges)
PipelineServesReachableForms ==
    (last.f # "" /\ EveryEdgeExecutable) => (last.ok <=> last.f \in Reach("physical"))

\* "the pipeline cache keyed by form returns the form asked for": every hop executed is a registered
\* edge, consecutive hops chain, the last one ends in the requested form, which is then cached
CachedFormIsForm ==
    (last.f # "" /\ last.ok) =>
        /\ InSeq(cache, last.f)
        /\ \A i \in DOMAIN last.hops : last.hops[i] \in Edges
        /\ \A i \in 1 .. Len(last.hops) - 1 : last.hops[i][2] = last.hops[i + 1][1]
        /\ last.hops # <<>> => last.hops[Len(last.hops)][2] = last.f
NoDuplicatesInCache == \A i, j \in DOMAIN cache : i # j => cache[i] # cache[j]
=============================================================================
