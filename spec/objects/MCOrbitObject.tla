--------------------------- MODULE MCOrbitObject ---------------------------
(* Model-checking instance of OrbitObject: the operation alphabet (2 values *)
(* per parameter) and the JSON emission of histories for spec -> code       *)
(* replay.                                                                  *)
EXTENDS OrbitObject, Json

MCKeyNames == <<"base", "fwd", "tol">>
\* steps x (method, order): two values per parameter
MCProps == {<<"s1", "fixed", "o4">>, <<"s2", "fixed", "o4">>, <<"s1", "fixed", "o6">>, <<"s2", "adaptive", "o8">>}
MCExtraPeriods == {<<"T", "tight">>}
MCNoExtraPeriods == {}
MCPropsSmall == {<<"s1", "fixed", "o4">>, <<"s2", "fixed", "o4">>}

\* hist is bookkeeping only; states are identified by everything else
NoHistView == <<L, I, dyn, cor, saved, left, alias, last>>

\* every transition TLC generates (also those leading to an already known state) prints the
\* history that ends with it: transition coverage of the abstract state graph, each transition
\* reached through a shortest history (breadth-first search)
EmitTransition == PrintT(ToJson(hist'))

\* one history per distinct state (the VIEW contains the last operation and its outcome, so this
\* is one shortest history per distinct (state, last operation, outcome))
\* exhaustive verification runs use several workers: TLC's parallel breadth-first search does not reach a
\* state first through its SHORTEST history, so with a history-length constraint the history length must be
\* part of the state identity (otherwise which successors are cut off depends on the schedule)
DepthView == <<NoHistView, Len(hist)>>
EmitState == (Len(hist) <= MaxLen) => PrintT(ToJson(hist))

\* Deep exploration behind a fixed prefix that leaves the object re-loaded from disk with a
\* trajectory and stability information restored (the states short histories cannot reach):
\* only histories extending the prefix are explored, MaxLen further operations.
DeepPrefix == << <<"Correct", <<"default">>>>, <<"Propagate", <<"s1", "fixed", "o4">>>>,
                 <<"ReadStability", <<>>>>, <<"Save", <<>>>>, <<"Load", <<>>>> >>
MinLen(a, b) == IF a < b THEN a ELSE b
OnPrefix == \A i \in 1 .. MinLen(Len(hist), Len(DeepPrefix)) :
                hist[i].op = DeepPrefix[i][1] /\ hist[i].arg = DeepPrefix[i][2]
HistBoundDeep == OnPrefix /\ Len(hist) <= Len(DeepPrefix) + MaxLen
EmitStateDeep == (HistBoundDeep /\ Len(hist) >= Len(DeepPrefix)) => PrintT(ToJson(hist))

\* -simulate: print the walk when it reaches the length bound
EmitWalk == (Len(hist) = MaxLen) => PrintT(ToJson(hist))
=============================================================================
