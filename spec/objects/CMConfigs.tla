------------------------------ MODULE CMConfigs ------------------------------
(* Configuration space of centre-manifold <-> synodic conversions (C09): which   *)
(* points have a centre manifold in the library (L1, L2; L3 and the triangular   *)
(* points raise NotImplementedError), degrees, CM direction classes and the four *)
(* section coordinates.  TLC enumerates the valid configurations; each becomes   *)
(* one contract trace recorded from the real library (harness/c09.py).           *)
EXTENDS Integers, TLC, Json
CONSTANTS Systems, Points, Degrees, DirClasses
Sections == {"q2", "p2", "q3", "p3"}
VARIABLES c
Cfgs == [system : Systems, point : 1 .. 5, degree : Degrees, kind : {"direction", "section"}, what : DirClasses \cup Sections]
Supported(x) == x.point \in Points
Valid(x) == /\ Supported(x)
            /\ (x.kind = "direction" => x.what \in DirClasses)
            /\ (x.kind = "section" => x.what \in Sections)
Init == c \in {x \in Cfgs : Valid(x)}
Next == UNCHANGED c
Spec == Init /\ [][Next]_c
Emit == PrintT(ToJson(c))
=============================================================================
