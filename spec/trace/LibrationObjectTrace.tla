----------------------- MODULE LibrationObjectTrace -----------------------
(* Trace validation: reads of derived quantities of real libration points  *)
(* (stamp = rank of the returned value among the values seen for that      *)
(* quantity on that object; miss = the memoised factory ran) and contract  *)
(* observables.                                                            *)
EXTENDS LibrationObject, Json, IOUtils, TLCExt

Traces == JsonDeserialize(IOEnv.TRACE_FILE)
TQuantities == {"position", "gamma", "cn2", "cn3", "cn4", "cn5", "cn6", "linear_modes", "normal_form", "sign", "a",
                "energy", "jacobi"}
TBounds == [eq_residual |-> -70, gamma_vs_position |-> -80, position_vs_exact |-> -80, gamma_vs_exact |-> -90,
            cn_vs_exact |-> -65, charpoly |-> -60, jac_eig |-> -50, symplectic |-> -80, normal_form |-> -80,
            mu_binding |-> -140, map_constants |-> -100, quintic_coeffs |-> -120]

VARIABLES tid, l
tvars == <<vars, tid, l>>
Ev == Traces[tid].ev
Reached(n) == TLCSet(tid, IF TLCGet(tid) < n THEN n ELSE TLCGet(tid))

TraceInit == /\ tid \in 1 .. Len(Traces) /\ l = 1 /\ Init /\ TLCSet(tid, 1)
\* NB: the register update Reached(l + 1) is conjoined AFTER the disjunction of trace actions in TraceNext:
\* TLC evaluates conjuncts in order and TLCSet is a side effect, so it must only run for an enabled action.
IsEvent(e) == l <= Len(Ev) /\ Ev[l].e = e /\ l' = l + 1 /\ tid' = tid

TraceRead ==
    /\ IsEvent("read")
    /\ (ReadFirst(Ev[l].q, Ev[l].stamp, Ev[l].miss) \/ ReadAgain(Ev[l].q, Ev[l].stamp, Ev[l].miss))

TraceObs ==
    /\ IsEvent("obs")
    /\ Observe(Ev[l].name, Ev[l].mag)

TraceNext == (TraceRead \/ TraceObs) /\ Reached(l + 1)
TraceSpec == TraceInit /\ [][TraceNext]_tvars

AllAccepted ==
    LET bad == {t \in 1 .. Len(Traces) : TLCGet(t) # Len(Traces[t].ev) + 1}
    IN  PrintT(<<"REJECTED", {<<t, TLCGet(t)>> : t \in bad}>>) /\ bad = {}
=============================================================================
