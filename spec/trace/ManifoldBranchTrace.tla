------------------------ MODULE ManifoldBranchTrace ------------------------
(* Traces of the real _run_compute with a scripted _propagate_dynsys: one "integrate" event per call (the     *)
(* direction the service asked for and the scripted outcome), "skip" for an exception before the call, "final".*)
EXTENDS ManifoldBranch, Json, IOUtils, TLCExt
Traces == JsonDeserialize(IOEnv.TRACE_FILE)
TOutcomes == {"ok", "near1", "near2", "drift", "raise"}
VARIABLES tid, l
tvars == <<vars, tid, l>>
Ev == Traces[tid].ev
Reached(n) == TLCSet(tid, IF TLCGet(tid) < n THEN n ELSE TLCGet(tid))
TraceInit == /\ tid \in 1 .. Len(Traces) /\ l = 1 /\ InitBr(Traces[tid].br) /\ TLCSet(tid, 1)
IsEvent(e) == l <= Len(Ev) /\ Ev[l].e = e /\ l' = l + 1 /\ tid' = tid
TraceIntegrate ==
    /\ IsEvent("integrate")
    /\ Ev[l].forward = Forward(br)          \* stable => backward, unstable => forward
    /\ Ev[l].flip_all = 1                     \* the 6-D state system is reversed as a whole
    /\ Step(Ev[l].outcome)
TraceFinal ==
    /\ IsEvent("final")
    /\ pc = "done"
    /\ attempts = Ev[l].attempts /\ successes = Ev[l].successes /\ Len(kept) = Ev[l].nstates /\ Len(kept) = Ev[l].ntimes
    /\ kept = Ev[l].kept
    /\ UNCHANGED vars
TraceNext == (TraceIntegrate \/ TraceFinal) /\ Reached(l + 1)
TraceSpec == TraceInit /\ [][TraceNext]_tvars
AllAccepted ==
    LET bad == {t \in 1 .. Len(Traces) : TLCGet(t) # Len(Traces[t].ev) + 1}
    IN  PrintT(<<"REJECTED", {<<t, TLCGet(t)>> : t \in bad}>>) /\ bad = {}
=============================================================================
