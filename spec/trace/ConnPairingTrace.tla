-------------------------- MODULE ConnPairingTrace --------------------------
(***************************************************************************)
(* code -> spec direction for C19: observations recorded from the real     *)
(* connections backend are judged by TLC against the REQUIREMENT sections  *)
(* of SegDist / ConnPairing (verdict) and compared with the ALGORITHM      *)
(* sections (conformance flag, not a verdict).                             *)
(*   k = "seg": one call of _closest_points_on_segments_2d or one pair of  *)
(*              _refine_pairs_on_section: end points + returned (s, t)     *)
(*   k = "run": one call of _ConnectionsBackend.run on two grid clouds     *)
(* sflag carries the exact state/point checks of the harness.  The verdict *)
(* is a pure function of the observation (no registers).                   *)
(***************************************************************************)
EXTENDS ConnPairing, Json, IOUtils, TLCExt

Obs == JsonDeserialize(IOEnv.TRACE_FILE)

VARIABLE tid

ObsVerdict(o) ==
    LET v == CASE o.k = "seg" -> IF IsClosestPair(o.seg, o.s, o.t) THEN "ok" ELSE SegClass(o.seg)
               [] o.k = "run" -> RunVerdict(o.pu, o.ps, o.r2, o.dv2, o.au, o.bs, o.res)
    IN  IF v = "ok" /\ o.sflag # "" THEN o.sflag ELSE v
ObsConforms(o) ==
    CASE o.k = "seg" -> <<o.s, o.t>> = AlgST(o.seg)
      [] o.k = "run" -> RunConforms(o.pu, o.ps, o.r2, o.dv2 > 10000, o.res, o.arr, o.nnu, o.nns)

JudgeInit == tid \in 1 .. Len(Obs) /\ pu = <<>> /\ ps = <<>> /\ seg = <<>>
JudgeNext == UNCHANGED <<pu, ps, seg, tid>>
JudgeSpec == JudgeInit /\ [][JudgeNext]_<<pu, ps, seg, tid>>

Judge == LET v == ObsVerdict(Obs[tid])
             c == ObsConforms(Obs[tid])
         IN  (v # "ok" \/ ~c) => PrintT(ToJson([tid |-> tid, v |-> v, conf |-> c]))
=============================================================================
