--------------------------- MODULE StepDriverTrace ---------------------------
(***************************************************************************)
(* Trace validation for StepDriver.tla.                                    *)
(*                                                                         *)
(* Traces are recorded by running the Python source of the real drivers    *)
(* (_integrate_rk45 / _integrate_dop853 and their _ham twins, .py_func)    *)
(* with the helpers they call replaced by recording wrappers (binding B2). *)
(* Floating-point numbers never cross into TLC: every time-like float of a *)
(* trace is replaced by its RANK among all time-like floats of that trace  *)
(* (nodes, requested times, t + h sums), every step-like float by its rank *)
(* among the step-like floats (h values, min_step, max_step, |tf - t|).    *)
(* Order comparisons inside one pool are exact; the results of the float   *)
(* operations t + h, |tf - t|, h * factor are taken from the log (they are *)
(* parameters of the core actions of StepDriver).                          *)
(*                                                                         *)
(* Strict = TRUE : every event must be a step of the ALGORITHM.            *)
(* Strict = FALSE: only the dense-output phase is replayed on the node     *)
(*   list the driver really produced ("nodes" event first); used to decide *)
(*   whether a strict rejection also breaks a REQUIREMENT clause.          *)
(***************************************************************************)
EXTENDS StepDriver, Json, IOUtils, TLCExt

CONSTANT Strict

Traces == JsonDeserialize(IOEnv.TRACE_FILE)

VARIABLES tid, l
tvars == <<vars, tid, l>>

Ev == Traces[tid].ev
Reached(n) == TLCSet(tid, IF TLCGet(tid) < n THEN n ELSE TLCGet(tid))

TraceInit ==
    /\ tid \in 1 .. Len(Traces)
    /\ l = 1
    /\ InitCfg(Traces[tid].cfg)
    /\ TLCSet(tid, 1)

\* NB: Reached(l + 1) is conjoined after the disjunction of event actions in TraceNext (TLCSet is a
\* side effect evaluated in conjunct order; it must only run for an enabled action).
IsEvent(e) == l <= Len(Ev) /\ Ev[l].e = e /\ l' = l + 1 /\ tid' = tid
NoF == <<0, 1>>

(* ---- internal steps of the algorithm that leave no event ---- *)
Internal ==
    /\ Strict
    /\ (LoopTest \/ ReuseCache)
    /\ l' = l /\ tid' = tid
InternalLoose ==
    /\ ~Strict
    /\ ReuseCache
    /\ l' = l /\ tid' = tid

(* ---- loop phase (Strict only) ---- *)
TraceSelect ==
    /\ Strict /\ IsEvent("init")
    /\ SelectInitialCore(Ev[l].h)
    /\ cfg.hmin <= Ev[l].h /\ Ev[l].h <= cfg.hmax          \* requirement: initial step within the limits

TraceClamp ==
    /\ Strict /\ IsEvent("clamp")
    /\ Clamp
    /\ Ev[l].hin = h
    /\ h' = Ev[l].hout

TraceAdjust ==
    /\ Strict /\ IsEvent("adjust")
    /\ AdjustCore(Ev[l].tph, Ev[l].d)
    /\ Ev[l].t = t /\ Ev[l].hin = h
    /\ h' = Ev[l].hout

\* the step kernel is invoked with the current time and the adjusted step
TraceStep ==
    /\ Strict /\ IsEvent("step")
    /\ pc = "adjusted"
    /\ Ev[l].t = t /\ Ev[l].h = h
    /\ UNCHANGED vars

TraceAccept ==
    /\ Strict /\ IsEvent("accept")
    /\ AcceptCore(Ev[l].tnew, Ev[l].hnext, NoF)
    /\ Ev[l].ok = 1                     \* accepted only when err_norm <= 1
    /\ Ev[l].normok = 1                 \* err_norm is the scaled RMS norm of the kernel's error estimate
    /\ Ev[l].ep = errPrev               \* controller memory = error of the last accepted step
    /\ Ev[l].sumok = 1                  \* the node appended is the float t + h
    /\ Ev[l].endok = 1                  \* a step adjusted to the end point lands on it (to rounding)
    /\ Ev[l].tnew > t                   \* progress
    /\ Ev[l].facok = 1                  \* controller factor within [MIN_FACTOR, MAX_FACTOR]

TraceReject ==
    /\ Strict /\ IsEvent("reject")
    /\ RejectCore(Ev[l].hmul, NoF)
    /\ Ev[l].ok = 0                     \* rejected only when err_norm > 1
    /\ Ev[l].normok = 1
    /\ Ev[l].hmul < h                   \* requirement: a rejected step shrinks
    /\ Ev[l].facok = 1
    /\ h' = Ev[l].hout

\* node list seen by the dense-output phase
TraceNodes ==
    /\ IsEvent("nodes")
    /\ IF Strict
       THEN /\ pc = "dense" /\ idx = 1 /\ nout = 0
            /\ Ev[l].ts = ts
            /\ UNCHANGED vars
       ELSE /\ pc = "init"
            /\ ts' = Ev[l].ts /\ segAtt' = Ev[l].segAtt
            /\ t' = SDLast(Ev[l].ts)
            /\ errPrev' = SDLast(Ev[l].segAtt)
            /\ pc' = "dense"
            /\ UNCHANGED <<cfg, h, att, hist>> /\ UNCHANGED denseVars

TraceLocate ==
    /\ IsEvent("locate")
    /\ Locate
    /\ Ev[l].idx = idx
    /\ Ev[l].q = cfg.teval[idx]
    /\ Ev[l].cnt = SearchRight(ts, cfg.teval[idx])

\* the cache is built from the stage array of the attempt that produced segment j, from the
\* states at both ends of that segment
TraceBuild ==
    /\ IsEvent("build")
    /\ BuildCache
    /\ cache' = Ev[l].katt
    \* DOP853 passes the end states of the segment (0 = the RK45 builder takes no such argument)
    /\ (Ev[l].yold # 0) => (Ev[l].yold = j /\ Ev[l].ynew = j + 1)
    /\ Ev[l].argsok = 1                \* t_old, hseg, f_old, f_new belong to the same segment

TraceEval ==
    /\ IsEvent("eval")
    /\ EvalDense
    /\ Ev[l].idx = idx
    /\ Ev[l].yold = j                   \* interpolated from the left node of segment j
    /\ Ev[l].cache = cache              \* with the cache that was built last
    /\ Ev[l].x0 = 1 /\ Ev[l].x1 = 1     \* 0 <= x <= 1 as floats
    /\ Ev[l].hsok = 1                   \* hseg = ts[j+1] - ts[j] of the same segment
    /\ (idx = 1) => Ev[l].xz = 1        \* first sample at x = 0

TraceDone ==
    /\ IsEvent("done")
    /\ Finish
    /\ Ev[l].m = nout
    /\ Ev[l].first = 1                  \* y_out[0] equals y0 bit for bit

TraceNext ==
    \/ Internal \/ InternalLoose
    \/ (  (TraceSelect \/ TraceClamp \/ TraceAdjust \/ TraceStep \/ TraceAccept \/ TraceReject
           \/ TraceNodes \/ TraceLocate \/ TraceBuild \/ TraceEval \/ TraceDone)
       /\ Reached(l + 1))

TraceSpec == TraceInit /\ [][TraceNext]_tvars

\* ordinal form of NeverPastEnd for real traces (t + (tf - t) may differ from tf by rounding when
\* t0 < 0 < tf; the logged flag `endok` bounds that by 128 ulp): the driver never STARTS a step at
\* or beyond the end, and the node list covers [t0, tf]
NeverPastEndOrdinal ==
    /\ \A i \in 1 .. (Len(ts) - 1) : ts[i] < cfg.tf
    /\ ts[1] = cfg.t0
    /\ (pc \in {"dense", "located", "ready", "done"}) => SDLast(ts) >= cfg.tf

AllAccepted ==
    LET bad == {x \in 1 .. Len(Traces) : TLCGet(x) # Len(Traces[x].ev) + 1}
    IN  PrintT(<<"REJECTED", {<<x, TLCGet(x)>> : x \in bad}>>) /\ bad = {}
=============================================================================
