---------------------------- MODULE NewtonTrace ----------------------------
(* Trace validation for Newton.tla: event traces recorded from the real    *)
(* _NewtonBackend.run (scripted residual map, recording stepper wrapper).  *)
(* One "eval" event per residual_fn call, one "step" event per stepper     *)
(* return, then "return" or "raise".                                       *)
EXTENDS Newton, Json, IOUtils, TLCExt

Traces == JsonDeserialize(IOEnv.TRACE_FILE)

VARIABLES tid, l
tvars == <<vars, tid, l>>

Ev == Traces[tid].ev
Reached(n) == TLCSet(tid, IF TLCGet(tid) < n THEN n ELSE TLCGet(tid))

TraceVals == -64 .. 64

TraceInit ==
    /\ tid \in 1 .. Len(Traces)
    /\ l = 1
    /\ InitCfg(Traces[tid].cfg)
    /\ TLCSet(tid, 1)

\* NB: the register update Reached(l + 1) is conjoined AFTER the disjunction of trace actions in TraceNext:
\* TLC evaluates conjuncts in order and TLCSet is a side effect, so it must only run for an enabled action.
IsEvent(e) == l <= Len(Ev) /\ Ev[l].e = e /\ l' = l + 1 /\ tid' = tid

LoggedVal == [t |-> Ev[l].t, v |-> Ev[l].v]

\* where the algorithm evaluates the residual next
EvalPos == CASE pc = "top" -> x
             [] pc = "plain" -> Move(x, delta, 0)
             [] pc = "ls" -> Move(x, delta, a)
             [] OTHER -> NanPos + 1

TraceEval ==
    /\ IsEvent("eval")
    /\ Ev[l].x = EvalPos
    /\ \/ Top(LoggedVal) \/ Plain(LoggedVal) \/ LsTrial(LoggedVal) \/ Final(LoggedVal)

TraceStep ==
    /\ IsEvent("step")
    /\ StepReturn
    /\ x' = Ev[l].x

TraceReturn ==
    /\ IsEvent("return")
    /\ pc = "done" /\ out.kind = "returned"
    /\ out.x = Ev[l].x /\ out.norm = Ev[l].norm /\ out.iters = Ev[l].iters
    /\ UNCHANGED vars

TraceRaise ==
    /\ IsEvent("raise")
    /\ \/ pc = "done" /\ out.kind = Ev[l].kind /\ UNCHANGED vars
       \/ LsFail /\ Ev[l].kind = "conv"

TraceNext == (TraceEval \/ TraceStep \/ TraceReturn \/ TraceRaise) /\ Reached(l + 1)

TraceSpec == TraceInit /\ [][TraceNext]_tvars

AllAccepted ==
    LET bad == {t \in 1 .. Len(Traces) : TLCGet(t) # Len(Traces[t].ev) + 1}
    IN  PrintT(<<"REJECTED", {<<t, TLCGet(t)>> : t \in bad}>>) /\ bad = {}
=============================================================================
