------------------------ MODULE SectionDetectTrace ------------------------
(***************************************************************************)
(* code -> spec direction for C15: observations recorded from the real     *)
(* detector (hiten.algorithms.poincare.synodic.backend) are judged by TLC  *)
(* against the REQUIREMENT section of SectionDetect / SectionDetectCurves. *)
(*                                                                         *)
(* An observation is one call of detect_on_trajectory (or one trajectory   *)
(* of SynodicMap.compute) projected to integers by harness/c15.py:         *)
(*   k = "exact"  : g = section values at the samples (integers), hits as  *)
(*                  exact positions <<i, <<num, den>>>>                    *)
(*   k = "bracket": g = signs of the section values, hits coded <<i, c>>   *)
(*   k = "curve"  : a curve of SectionDetectCurves, hits <<i, c, seg, q>>  *)
(* sflag carries the result of the exact state checks of the harness       *)
(* ("" = hit states are the chord points and lie on the plane).            *)
(*                                                                         *)
(* The verdict is a function of the observation (no registers, no side     *)
(* effects in conjunct order): every observation is one initial state and  *)
(* Judge prints <<tid, verdict>> for each one that is not accepted.        *)
(***************************************************************************)
EXTENDS SectionDetectCurves, Json, IOUtils, TLCExt

Obs == JsonDeserialize(IOEnv.TRACE_FILE)

VARIABLE tid

ObsVerdict(o) ==
    LET v == CASE o.k = "exact"   -> Verdict(o.g, o.d, o.mh, o.hits)
               [] o.k = "bracket" -> VerdictBracket(o.g, o.d, o.mh, o.hits)
               [] o.k = "curve"   -> VerdictCurve(o.c, o.h, o.grid, o.n, o.d, o.hits)
    IN  IF v = "ok" /\ o.sflag # "" THEN o.sflag ELSE v

JudgeInit == tid \in 1 .. Len(Obs) /\ g = <<>> /\ cv = 0
JudgeNext == UNCHANGED <<g, cv, tid>>
JudgeSpec == JudgeInit /\ [][JudgeNext]_<<g, cv, tid>>

Judge == LET v == ObsVerdict(Obs[tid]) IN (v # "ok") => PrintT(ToJson([tid |-> tid, v |-> v]))
=============================================================================
