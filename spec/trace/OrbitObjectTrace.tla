-------------------------- MODULE OrbitObjectTrace --------------------------
(* Trace validation for OrbitObject.tla.  Each trace is the sequence of      *)
(* public operations executed on a REAL orbit object; every event carries    *)
(* what the harness observed:                                                *)
(*   op, arg   the operation                                                 *)
(*   hits      the get_or_create calls on the orbit's own service caches     *)
(*             (service, tag, "H"/"M") logged by the wrapped get_or_create   *)
(*   rk        "val" | "raise" | "none"                                      *)
(*   fresh     returned value == value returned by a freshly constructed     *)
(*             twin in the same logical state (bit-for-bit stamp equality)   *)
(*   post      public state of the object after the operation == the twin's  *)
(*                                                                           *)
(* Strict = TRUE : every event must be a step of the algorithm transcription *)
(*   AND the transcription must predict hits, outcome kind, freshness and    *)
(*   post-state agreement exactly (code == model, including the model's      *)
(*   prediction of WHICH returns are stale).                                 *)
(* Strict = FALSE: requirement only -- every returned value is fresh and the *)
(*   object is in its logical state (property C20 evaluated on the trace).   *)
EXTENDS OrbitObject, Json, IOUtils, TLCExt

CONSTANT Strict

Traces == JsonDeserialize(IOEnv.TRACE_FILE)
TraceKeyNames == <<"base", "fwd", "tol">>

VARIABLES tid, l
tvars == <<vars, tid, l>>

Ev == Traces[tid].ev
Reached(n) == TLCSet(tid, IF TLCGet(tid) < n THEN n ELSE TLCGet(tid))

TraceInit ==
    /\ tid \in 1 .. Len(Traces)
    /\ l = 1
    /\ Init
    /\ TLCSet(tid, 1)

IsEvent(op) == l <= Len(Ev) /\ Ev[l].op = op /\ l' = l + 1 /\ tid' = tid

Matches ==
    IF Strict
    THEN /\ last'.hits = Ev[l].hits
         /\ last'.ret[1] = Ev[l].rk
         /\ (last'.ret = last'.exp) = Ev[l].fresh
         /\ ImplTracksLogical' = Ev[l].post
    ELSE Ev[l].fresh /\ Ev[l].post

Step(op, A) == IsEvent(op) /\ A /\ Matches

TraceNext ==
    ( \/ Step("SetPeriod", SetPeriod(Ev[l].arg))
      \/ Step("Correct", Correct(Ev[l].arg[1]))
      \/ Step("Propagate", Propagate(Ev[l].arg))
      \/ Step("ReadTrajectory", ReadTrajectory)
      \/ Step("ReadMonodromy", ReadMonodromy)
      \/ Step("ComputeStability", ComputeStability)
      \/ Step("ReadStability", ReadStability)
      \/ Step("ReadEnergy", ReadEnergy)
      \/ Step("ReadPeriod", ReadPeriod)
      \/ Step("ReadInit", ReadInit)
      \/ Step("ReadCorrOpts", ReadCorrOpts)
      \/ Step("SetCorrOpts", SetCorrOpts(Ev[l].arg[1]))
      \/ Step("Save", Save)
      \/ Step("Load", Load("Load"))
      \/ Step("LoadInplace", Load("LoadInplace")) )
    /\ Reached(l + 1)

TraceSpec == TraceInit /\ [][TraceNext]_tvars

\* debugging aid (not used by the check): print the transcription's prediction along a trace
DebugPrint == PrintT(<<"DBG", tid, l - 1, last.op, last.hits, last.ret[1], last.ret = last.exp, ImplTracksLogical>>)

AllAccepted ==
    LET bad == {t \in 1 .. Len(Traces) : TLCGet(t) # Len(Traces[t].ev) + 1}
    IN  PrintT(<<"REJECTED", {<<t, TLCGet(t)>> : t \in bad}>>) /\ bad = {}
=============================================================================
