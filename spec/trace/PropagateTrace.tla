--------------------------- MODULE PropagateTrace ---------------------------
(* Trace validation for Propagate.tla.  One trace = one configuration run   *)
(* through the real entry point (_propagate_dynsys / System.propagate /     *)
(* Integrator.integrate) with recorders at the stage boundaries:            *)
(*   wrap  sign the system handed to the integrator puts on the base field  *)
(*         per component class (measured by evaluating both fields), `_fwd` *)
(*   call  the time grid handed to Integrator.integrate (ticks)             *)
(*   iret  what integrate returned: raised | times (ticks), clock positions *)
(*   out   what the entry point returned, same projection                   *)
(*                                                                         *)
(* Strict = TRUE : every event must be the corresponding step of the        *)
(*   algorithm transcription (with the plumbing variant Impl of the cfg).   *)
(* Strict = FALSE: events are loaded as they are (in any order); TLC        *)
(*   evaluates every clause of the requirement on the final state and       *)
(*   prints the verdict {tid, failed clauses} -- this run decides           *)
(*   violations.                                                            *)
EXTENDS MCPropagate, IOUtils, TLCExt

CONSTANT Strict

Traces == JsonDeserialize(IOEnv.TRACE_FILE)

VARIABLES tid, l
tvars == <<vars, tid, l>>

Ev == Traces[tid].ev
Reached(n) == TLCSet(tid, IF TLCGet(tid) < n THEN n ELSE TLCGet(tid))

TraceInit ==
    /\ tid \in 1 .. Len(Traces)
    /\ l = 1
    /\ cfg = Traces[tid].cfg
    /\ stage = "request"
    /\ wsign = [a |-> 1, b |-> 1]
    /\ sysfwd = 1
    /\ gridIn = <<>>
    /\ iret = Nothing
    /\ out = Nothing
    /\ TLCSet(tid, 1)

\* NB: the register update Reached(l + 1) is conjoined AFTER the disjunction of trace actions in
\* TraceNext (TLCSet is a side effect evaluated in conjunct order).
IsEvent(e) == l <= Len(Ev) /\ Ev[l].e = e /\ l' = l + 1 /\ tid' = tid

Res(e) == Result(e.raised, e.times, e.pa, e.pb)

TraceWrap ==
    /\ IsEvent("wrap")
    /\ IF Strict THEN Wrap
       ELSE stage # "done" /\ stage' = "wrapped" /\ UNCHANGED <<cfg, gridIn, iret, out>>
    /\ wsign' = [a |-> Ev[l].wa, b |-> Ev[l].wb]
    /\ sysfwd' = Ev[l].sf

TraceCall ==
    /\ IsEvent("call")
    /\ IF Strict THEN Call /\ stage' = "called"
       ELSE stage # "done" /\ stage' = "called" /\ UNCHANGED <<cfg, wsign, sysfwd, iret, out>>
    /\ gridIn' = Ev[l].grid

TraceIret ==
    /\ IsEvent("iret")
    /\ IF Strict THEN Integrate
       ELSE stage # "done" /\ stage' = "iret" /\ UNCHANGED <<cfg, wsign, sysfwd, gridIn, out>>
    /\ iret' = Res(Ev[l])

TraceOut ==
    /\ IsEvent("out")
    /\ IF Strict THEN (Return \/ (Call /\ stage' = "done"))
       ELSE stage # "done" /\ stage' = "done" /\ UNCHANGED <<cfg, wsign, sysfwd, gridIn, iret>>
    /\ out' = Res(Ev[l])

TraceNext == (TraceWrap \/ TraceCall \/ TraceIret \/ TraceOut) /\ Reached(l + 1)

TraceSpec == TraceInit /\ [][TraceNext]_tvars

Clauses ==
    [BackwardMeansInverseFlow |-> BackwardMeansInverseFlow,
     RoundTrip |-> RoundTrip,
     TimesSigned |-> TimesSigned,
     FirstSampleInitial |-> FirstSampleInitial,
     SamplesAtRequestedTimes |-> SamplesAtRequestedTimes,
     DescendingGridCorrectOrRejected |-> DescendingGridCorrectOrRejected,
     WellFormedRequestServed |-> WellFormedRequestServed]

\* printed once per finished trace: the clauses of C10 the real run violates (decided by TLC)
EmitVerdict ==
    (stage = "done" /\ l = Len(Ev) + 1) =>
        PrintT(ToJson([tid |-> tid, failed |-> {n \in DOMAIN Clauses : ~Clauses[n]}]))

AllAccepted ==
    LET bad == {t \in 1 .. Len(Traces) : TLCGet(t) # Len(Traces[t].ev) + 1}
    IN  PrintT(<<"REJECTED", {<<t, TLCGet(t)>> : t \in bad}>>) /\ bad = {}
=============================================================================
