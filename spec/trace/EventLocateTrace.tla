-------------------------- MODULE EventLocateTrace --------------------------
(* Trace validation for EventLocate.tla.  Three kinds of traces, all        *)
(* recorded from the real driver / refine *source* run as .py_func with     *)
(* recorders on the helpers it calls (binding technique B2):                *)
(*                                                                         *)
(* kind = "step"   step layer.  Header: dir, g0 (sign of g at the start     *)
(*    point).  Events: node(s, crossed) per accepted step (sign of g at the *)
(*    new node and what the real _event_crossed returned), reject (rejected *)
(*    adaptive attempt), then hit(step, y0, y1) (which step was handed to   *)
(*    the refine function: node indices of its end states) or end(node)     *)
(*    (index of the node whose state was returned).                         *)
(*    Real runs on an exact flow add the oracle: header s1 (sign of g just  *)
(*    after the start), xdirs (directions of the true crossings in the      *)
(*    span, in time order); header ivs[k] = number of true crossings *)
(*    before node k's time (a rank); a final located(near) says which       *)
(*    true crossing the returned time is within tolerance of (0 = none).    *)
(* kind = "refine" refine layer.  Header: dir, n (grid cells), xtol (cells),*)
(*    gl0, optionally f (the scripted sign function, n+1 values).  Events:  *)
(*    zero(mid) | upd(mid, gm, crossed, a, b), conv(v), ..., stop(x, reason)*)
(*                                                                         *)
(* Strict = TRUE : every event must be a step of the algorithm.             *)
(* Strict = FALSE: events are loaded as logged and TLC prints, per trace,   *)
(*    the clauses of the requirement the real outcome violates.             *)
EXTENDS MCEventLocate, IOUtils, TLCExt

CONSTANT Strict

Traces == JsonDeserialize(IOEnv.TRACE_FILE)

VARIABLES tid, l, near
tvars == <<vars, tid, l, near>>

T == Traces[tid]
Ev == T.ev
Reached(n) == TLCSet(tid, IF TLCGet(tid) < n THEN n ELSE TLCGet(tid))
HasOracle == "xdirs" \in DOMAIN T

InitStepTrace ==
    /\ T.kind = "step"
    /\ layer = "step" /\ dir = T.dir /\ g = <<T.g0>> /\ pc = "step" /\ hitStep = 0
    /\ NoRefine

InitRefineTrace ==
    /\ T.kind = "refine"
    /\ layer = "refine" /\ dir = T.dir
    /\ f = IF "f" \in DOMAIN T THEN [x \in 0 .. T.n |-> T.f[x + 1]] ELSE <<>>
    /\ ncross = IF "ncross" \in DOMAIN T THEN T.ncross ELSE 0
    /\ xtol = T.xtol
    /\ g = <<>> /\ hitStep = 0 /\ pc = "mid"
    /\ a = 0 /\ b = T.n /\ gl = T.gl0
    /\ xhit = 0 /\ reason = "" /\ path = <<>>

TraceInit ==
    /\ tid \in 1 .. Len(Traces)
    /\ l = 1
    /\ near = -1
    /\ InitStepTrace \/ InitRefineTrace
    /\ TLCSet(tid, 1)

\* NB: the register update Reached(l + 1) is conjoined AFTER the disjunction of trace actions in
\* TraceNext (TLCSet is a side effect evaluated in conjunct order).
IsEvent(e) == l <= Len(Ev) /\ Ev[l].e = e /\ l' = l + 1 /\ tid' = tid

\* ---------------- step layer
TraceNode ==
    /\ IsEvent("node")
    /\ IF Strict
         THEN /\ Advance(Ev[l].s) /\ ((pc' = "hit") <=> Ev[l].crossed)
              /\ Ev[l].gp = g[Len(g)]          \* the driver's g_prev is the sign at the previous accepted node
              /\ Ev[l].d = dir                 \* ... and it passes the requested direction on
         ELSE /\ layer = "step"               \* loaded whatever the driver did before (even after a hit)
              /\ g' = Append(g, Ev[l].s)
              /\ IF Ev[l].crossed THEN pc' = "hit" /\ hitStep' = Len(g) ELSE pc' = "step" /\ hitStep' = 0
              /\ UNCHANGED <<layer, dir, f, ncross, xtol, a, b, gl, xhit, reason, path>>
    /\ UNCHANGED near

TraceReject ==
    /\ IsEvent("reject")
    /\ layer = "step" /\ (Strict => pc = "step")
    /\ UNCHANGED <<vars, near>>

TraceHit ==
    /\ IsEvent("hit")
    /\ layer = "step" /\ (Strict => pc = "hit")
    /\ Strict => (Ev[l].step = hitStep /\ Ev[l].y0 = hitStep - 1 /\ Ev[l].y1 = hitStep /\ Ev[l].d = dir)
    /\ IF Strict THEN UNCHANGED vars
       ELSE hitStep' = Ev[l].step /\ pc' = "hit"
            /\ UNCHANGED <<layer, dir, g, f, ncross, xtol, a, b, gl, xhit, reason, path>>
    /\ UNCHANGED near

TraceEnd ==
    /\ IsEvent("end")
    /\ IF Strict THEN NoEventEnd /\ Ev[l].node = Len(g) - 1
       ELSE /\ layer = "step" /\ pc' = "end" /\ hitStep' = 0
            /\ UNCHANGED <<layer, dir, g, f, ncross, xtol, a, b, gl, xhit, reason, path>>
    /\ UNCHANGED near

TraceLocated ==
    /\ IsEvent("located")
    /\ layer = "step" /\ (Strict => pc = "hit")
    /\ near' = Ev[l].near
    /\ UNCHANGED vars

\* ---------------- refine layer
TraceZero ==
    /\ IsEvent("zero")
    /\ IF Strict THEN GtolHitWith(0) /\ Ev[l].mid = Mid
       ELSE /\ layer = "refine" /\ pc' = "done" /\ xhit' = Ev[l].mid /\ reason' = "gtol"
            /\ UNCHANGED <<layer, dir, g, hitStep, f, ncross, xtol, a, b, gl, path>>
    /\ UNCHANGED near

TraceUpd ==
    /\ IsEvent("upd")
    /\ IF Strict
         THEN /\ UpdateWith(Ev[l].gm)
              /\ Ev[l].mid = Mid
              /\ a' = Ev[l].a /\ b' = Ev[l].b
              /\ Ev[l].crossed <=> CrossedDirection(gl, Ev[l].gm, dir)
         ELSE /\ layer = "refine" /\ pc' = "conv"
              /\ a' = Ev[l].a /\ b' = Ev[l].b /\ gl' = IF Ev[l].crossed THEN gl ELSE Ev[l].gm
              /\ UNCHANGED <<layer, dir, g, hitStep, f, ncross, xtol, xhit, reason, path>>
    /\ UNCHANGED near

TraceConv ==
    /\ IsEvent("conv")
    /\ IF Strict THEN (IF Ev[l].v THEN XtolStop ELSE Continue)
       ELSE /\ layer = "refine"
            /\ IF Ev[l].v THEN pc' = "done" /\ xhit' = b /\ reason' = "xtol"
                          ELSE pc' = "mid" /\ UNCHANGED <<xhit, reason>>
            /\ UNCHANGED <<layer, dir, g, hitStep, f, ncross, xtol, a, b, gl, path>>
    /\ UNCHANGED near

TraceStop ==
    /\ IsEvent("stop")
    /\ layer = "refine" /\ (Strict => pc = "done")
    /\ Strict => (Ev[l].x = xhit /\ Ev[l].reason = reason)
    /\ IF Strict THEN UNCHANGED vars
       ELSE xhit' = Ev[l].x /\ reason' = Ev[l].reason /\ pc' = "done"
            /\ UNCHANGED <<layer, dir, g, hitStep, f, ncross, xtol, a, b, gl, path>>
    /\ UNCHANGED near

TraceNext == (TraceNode \/ TraceReject \/ TraceHit \/ TraceEnd \/ TraceLocated
              \/ TraceZero \/ TraceUpd \/ TraceConv \/ TraceStop) /\ Reached(l + 1)

TraceSpec == TraceInit /\ [][TraceNext]_tvars

(***************************************************************************)
(* Exact-flow oracle for real runs ("first ... on the trajectory" as order  *)
(* statements about ranks): the sign seen at a node is the sign the exact   *)
(* flow has in the node's interval between true crossings; the reported     *)
(* step is the one that contains the first true crossing admitted by dir;   *)
(* the returned time is within tolerance of that crossing.                  *)
(***************************************************************************)
SignInInterval(k) == IF k = 0 THEN T.s1 ELSE T.xdirs[k]
AdmittedCrossings == {j \in 1 .. Len(T.xdirs) : dir = 0 \/ T.xdirs[j] = dir}
JStar == IF AdmittedCrossings = {} THEN 0
         ELSE CHOOSE j \in AdmittedCrossings : \A k \in AdmittedCrossings : j <= k

\* the instance family must keep "at most one crossing per accepted step" (otherwise the run is
\* outside the property's quantifier: machinery failure, not a violation)
OraclePrecondition ==
    (layer = "step" /\ HasOracle) =>
        \A k \in 2 .. Len(T.ivs) : T.ivs[k] - T.ivs[k - 1] \in {0, 1}

SignsOnTrajectory ==
    (layer = "step" /\ HasOracle) =>
        \A k \in 2 .. Len(g) : g[k] = SignInInterval(T.ivs[k])

FirstOnTrajectory ==
    (layer = "step" /\ HasOracle /\ l = Len(Ev) + 1) =>
        IF JStar = 0 \/ JStar > T.ivs[Len(T.ivs)]
          THEN pc = "end"                              \* the admitted crossing (if any) lies beyond the nodes walked
          ELSE /\ pc = "hit"
               /\ T.ivs[hitStep] = JStar - 1 /\ T.ivs[hitStep + 1] = JStar
               /\ near = JStar

Clauses ==
    [FirstAdmissibleStep |-> FirstAdmissibleStep,
     NoAdmissibleStepSkipped |-> NoAdmissibleStepSkipped,
     FilteredDirectionIgnored |-> FilteredDirectionIgnored,
     StartOnSurfaceNotAHit |-> StartOnSurfaceNotAHit,
     ZeroAtStepEndIsHit |-> ZeroAtStepEndIsHit,
     NoCrossingReturnsEnd |-> NoCrossingReturnsEnd,
     HitWithinTolerances |-> (("f" \in DOMAIN T) => HitWithinTolerances),
     HitInBracket |-> HitInBracket,
     SignsOnTrajectory |-> SignsOnTrajectory,
     FirstOnTrajectory |-> FirstOnTrajectory]

EmitVerdict ==
    (l = Len(Ev) + 1) =>
        PrintT(ToJson([tid |-> tid, failed |-> {n \in DOMAIN Clauses : ~Clauses[n]},
                       pre |-> OraclePrecondition]))

AllAccepted ==
    LET bad == {t \in 1 .. Len(Traces) : TLCGet(t) # Len(Traces[t].ev) + 1}
    IN  PrintT(<<"REJECTED", {<<t, TLCGet(t)>> : t \in bad}>>) /\ bad = {}
=============================================================================
