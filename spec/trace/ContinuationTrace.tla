------------------------- MODULE ContinuationTrace -------------------------
(* Trace validation for Continuation.tla: batches of traces recorded from  *)
(* the real _PredictorCorrectorContinuationBackend.run (scripted corrector,*)
(* recording stepper) are replayed event by event.                         *)
(*                                                                         *)
(* Strict = TRUE : every event must be a step of the algorithm spec.       *)
(* Strict = FALSE: the step vector after accept/reject is taken from the   *)
(*   log and only has to satisfy what property C13 says about it (keeps    *)
(*   sign, within [smin, smax], shrinks on reject); everything else is     *)
(*   still the algorithm.  Used to classify a strict rejection as a        *)
(*   property violation or a mere divergence from the transcription.       *)
EXTENDS Continuation, Json, IOUtils, TLCExt

CONSTANT Strict

Traces == JsonDeserialize(IOEnv.TRACE_FILE)

VARIABLES tid, l
tvars == <<vars, tid, l>>

Ev == Traces[tid].ev
Reached(n) == TLCSet(tid, IF TLCGet(tid) < n THEN n ELSE TLCGet(tid))

TraceInit ==
    /\ tid \in 1 .. Len(Traces)
    /\ l = 1
    /\ InitCfg(Traces[tid].cfg)
    /\ TLCSet(tid, 1)

\* NB: the register update Reached(l + 1) is conjoined AFTER the disjunction of trace actions in TraceNext:
\* TLC evaluates conjuncts in order and TLCSet is a side effect, so it must only run for an enabled action.
IsEvent(e) == l <= Len(Ev) /\ Ev[l].e = e /\ l' = l + 1 /\ tid' = tid

ReqStepAfterAccept(s2) ==
    /\ Sign(s2) = Sign(step)
    /\ cfg.smin <= Abs(s2) /\ Abs(s2) <= cfg.smax
ReqStepAfterReject(s2) ==
    /\ Sign(s2) = Sign(step)
    /\ cfg.smin <= Abs(s2) /\ Abs(s2) <= cfg.smax
    /\ (cfg.policy # "double") => (Abs(s2) < Abs(step) \/ Abs(s2) = cfg.smin)

TracePredict ==
    /\ IsEvent("predict")
    /\ Predict
    /\ Ev[l].last = Last(fam)
    /\ Ev[l].step = step
    /\ pred' = Ev[l].pred

TraceAccept ==
    /\ IsEvent("accept")
    /\ IF Strict THEN Accept(Ev[l].x - pred)
       ELSE AcceptCore(Ev[l].x - pred) /\ ReqStepAfterAccept(Ev[l].newstep) /\ step' = Ev[l].newstep
    /\ step' = Ev[l].newstep

TraceReject ==
    /\ IsEvent("reject")
    /\ IF Strict THEN Reject(Ev[l].kind)
       ELSE RejectCore(Ev[l].kind) /\ ReqStepAfterReject(Ev[l].newstep) /\ step' = Ev[l].newstep
    /\ step' = Ev[l].newstep

TraceFinish ==
    /\ IsEvent("finish")
    /\ pc = "done"
    /\ fam = Ev[l].fam
    /\ acc = Ev[l].acc
    /\ rej = Ev[l].rej
    /\ iters = Ev[l].iters
    /\ step = Ev[l].fstep
    /\ UNCHANGED vars

TraceNext == (TracePredict \/ TraceAccept \/ TraceReject \/ TraceFinish) /\ Reached(l + 1)

TraceSpec == TraceInit /\ [][TraceNext]_tvars

AllAccepted ==
    LET bad == {t \in 1 .. Len(Traces) : TLCGet(t) # Len(Traces[t].ev) + 1}
    IN  PrintT(<<"REJECTED", {<<t, TLCGet(t)>> : t \in bad}>>) /\ bad = {}
=============================================================================
