#!/bin/bash
# Offline setup: syntax-check every specification with SANY and byte-compile the harness.
set -e
cd "$(dirname "$0")"
LIB=$(pwd)/spec/lib:$(pwd)/spec/algo:$(pwd)/spec/kernels:$(pwd)/spec/objects:$(pwd)/spec/trace
fail=0
for f in spec/*/*.tla spec/*/*/*.tla; do
  d=$(dirname "$f"); b=$(basename "$f")
  if ! (cd "$d" && java -DTLA-Library="$LIB" -cp /opt/veriftools/tla/tla2tools.jar:/opt/veriftools/tla/CommunityModules-deps.jar tla2sany.SANY "$b" > /tmp/sany.$$ 2>&1) || grep -q "Semantic errors\|Parse Error\|Fatal errors\|Could not" /tmp/sany.$$; then
    echo "SANY FAILED: $f"; tail -20 /tmp/sany.$$; fail=1
  fi
done
rm -f /tmp/sany.$$
/venv/bin/python -m compileall -q harness tools > /dev/null
mkdir -p evidence replays
[ $fail = 0 ] && echo "setup ok"
exit $fail
