"""C07 -- the polynomial Hamiltonian is the Taylor expansion of the true CR3BP Hamiltonian.

[M] spec/kernels/Legendre.tla (over spec/lib/IPoly.tla): T_n and the general-direction A_n via the integral
    form of the three-term recurrence; laws independent of the recurrence (homogeneous, harmonic, axially
    symmetric, x^n on the axis / value on the direction line) checked by TLC; assembly
    H = 1/2 p^2 + y px - x py - sum c_n T_n with symbolic (prime) c_n and its velocity relations.
    TLC emits the exact polynomials; they are replayed into _build_T_polynomials, _build_A_polynomials and
    _build_physical_hamiltonian_collinear (stub point whose cn(n) are the primes).
[M/exact] local <-> synodic maps against the transcription in Libration.tla on the rational witness family
    (C04) and exact round trips.
[T] the property's own statement in two-point form (Contracts.tla): |H_poly(z) - (E(syn(z)) - E_L)/gamma^2|
    at r and 2r must scale like 2^(N+1) and the mapped Hamilton equations must reproduce the CR3BP
    accelerations with defect ratio 2^N, for L1..L3 x mu x N x directions; for L4/L5 the preconditions
    (origin is an equilibrium of the polynomial, the map sends it to the point) are checked first.
"""
from __future__ import annotations

import json
import math
import random
import sys
from fractions import Fraction as F

import numpy as np

from common import SPEC, Check, ContractSet, MachineryError, tlc
import polyutil as pu


def block_to_dict(arr, d):
    ks = pu.enum(d)
    a = np.asarray(arr)
    if len(ks) != a.shape[0]:
        raise MachineryError(f"block of degree {d} has length {a.shape[0]}, expected {len(ks)}")
    return {tuple(k): complex(a[i]) for i, k in enumerate(ks) if a[i] != 0}


def compare_poly(ck, name, got_blocks, expect: dict, scale: int, tol, key, data):
    """expect: exponent tuple -> integer (scaled by `scale`); got_blocks: list of coefficient arrays by degree."""
    got = {}
    for d, blk in enumerate(got_blocks):
        got.update(block_to_dict(blk, d))
    worst = 0.0
    for k in set(got) | set(expect):
        g = got.get(k, 0.0)
        e = expect.get(k, 0) / scale
        err = abs(g - e) / max(1.0, abs(e))
        worst = max(worst, err)
        if err > tol:
            ck.violation(key, f"{name}: coefficient of monomial {k} is {g!r}, exact value {e!r}", dict(data, monomial=list(k)))
            return worst
    return worst


class _StubDyn:
    def __init__(self, cn):
        self._cn = cn

    def cn(self, n):
        return float(self._cn[n])


class _StubPoint:
    def __init__(self, cn):
        self.dynamics = _StubDyn(cn)
        self.mu = 0.0


def kernel_part(ck: Check):
    from hiten.algorithms.hamiltonian.hamiltonian import (_build_A_polynomials, _build_physical_hamiltonian_collinear,
                                                         _build_T_polynomials)
    from hiten.algorithms.polynomial.base import _create_encode_dict_from_clmo, _init_index_tables
    from hiten.algorithms.polynomial.operations import _polynomial_variable
    r = tlc(SPEC / "kernels" / "MCLegendre.tla", SPEC / "cfg" / ("Legendre.quick.cfg" if ck.quick else "Legendre.thorough.cfg"), timeout=3000)
    ck.model("Legendre." + ck.tier, r)
    recs = r.printed()
    if not recs:
        raise MachineryError("Legendre model emitted nothing")
    Ts = {x["n"]: x for x in recs if x["job"] == "T"}
    As = {x["n"]: x for x in recs if x["job"] == "A"}
    Hs = {x["n"]: x for x in recs if x["job"] == "H"}
    worst = {}
    # T_n
    N = max(Ts)
    psi, clmo = _init_index_tables(N)
    enc = _create_encode_dict_from_clmo(clmo)
    vx, vy, vz = [_polynomial_variable(i, N, psi, clmo, enc) for i in range(3)]
    T = _build_T_polynomials(vx, vy, vz, N, psi, clmo, enc)
    for n, rec in sorted(Ts.items()):
        exp = {tuple(k): re for k, re, im in rec["poly"]}
        ck.count(("T", n), n >= 2)
        w = compare_poly(ck, f"T_{n} (max_deg {N})", [np.asarray(b).real for b in T[n]], exp, rec["scale"], 1e-12,
                         f"_build_T_polynomials|T_{n}-not-Legendre", {"n": n, "max_deg": N})
        worst["T"] = max(worst.get("T", 0), w)
    ck.sample({"T_4_times_4!": {str(tuple(k)): re for k, re, im in Ts[4]["poly"]}})
    # A_n for the rational unit direction (3/5, 4/5)
    NA = max(As)
    psiA, clmoA = _init_index_tables(NA)
    encA = _create_encode_dict_from_clmo(clmoA)
    ax, ay, az = [_polynomial_variable(i, NA, psiA, clmoA, encA) for i in range(3)]
    A = _build_A_polynomials(ax, ay, az, 0.6, 0.8, NA, psiA, clmoA, encA)
    for n, rec in sorted(As.items()):
        exp = {tuple(k): re for k, re, im in rec["poly"]}
        ck.count(("A", n), n >= 2)
        w = compare_poly(ck, f"A_{n} direction (3/5,4/5)", [np.asarray(b).real for b in A[n]], exp, rec["scale"], 1e-12,
                         f"_build_A_polynomials|A_{n}-not-Legendre", {"n": n, "max_deg": NA})
        worst["A"] = max(worst.get("A", 0), w)
    # assembly with prime c_n
    for n, rec in sorted(Hs.items()):
        cn = {int(k): v for k, v in (rec["cn"].items() if isinstance(rec["cn"], dict) else enumerate(rec["cn"], start=2))}
        exp = {tuple(k): re for k, re, im in rec["poly"]}
        H = _build_physical_hamiltonian_collinear(_StubPoint(cn), n)
        ck.count(("H", n), True)
        w = compare_poly(ck, f"collinear Hamiltonian degree {n} with c_n = {cn}", [np.asarray(b).real for b in H], exp, rec["scale"],
                         1e-12, "_build_physical_hamiltonian_collinear|assembly", {"N": n, "cn": cn})
        worst["H"] = max(worst.get("H", 0), w)
    ck.part("kernels_exact", T_up_to=N, A_up_to=NA, H_degrees=sorted(Hs), worst_relative_error=worst)


def hamilton_accel(J, z, clmo):
    """q-dot-dot of the local polynomial Hamiltonian at z from its (pre-computed) polynomial Jacobian J
    (dq/dt = dH/dp, dp/dt = -dH/dq; for H = p^2/2 + y px - x py + U(q): xdd = pxd + yd, ydd = pyd - xd, zdd = pzd)."""
    from hiten.algorithms.polynomial.operations import _polynomial_evaluate
    zc = z.astype(np.complex128)
    g = np.array([_polynomial_evaluate(J[i], zc, clmo).real for i in range(6)])
    qd, pd = g[3:], -g[:3]
    return np.array([pd[0] + qd[1], pd[1] - qd[0], pd[2]]), qd


def e2e_part(ck: Check, rnd):
    from hiten import System
    from hiten.algorithms.common.energy import crtbp_energy
    from hiten.algorithms.dynamics.rtbp import _crtbp_accel
    from hiten.algorithms.hamiltonian.hamiltonian import (_build_physical_hamiltonian_collinear,
                                                         _build_physical_hamiltonian_triangular)
    from hiten.algorithms.hamiltonian.transforms import (_local2synodic_collinear, _local2synodic_triangular,
                                                         _synodic2local_collinear, _synodic2local_triangular)
    from hiten.algorithms.polynomial.base import _create_encode_dict_from_clmo, _init_index_tables
    from hiten.algorithms.polynomial.operations import _polynomial_evaluate, _polynomial_jacobian
    import numba
    numba.set_num_threads(min(4, numba.get_num_threads()))
    cs = ContractSet(ck, "taylor_two_point")
    systems = [("earth-moon", System.from_bodies("earth", "moon"))]
    if not ck.quick:
        systems += [("sun-earth", System.from_bodies("sun", "earth")), ("mu=0.3", System.from_mu(0.3)), ("mu=1/82", System.from_mu(1 / 82))]
    degrees = (4, 6) if ck.quick else (3, 4, 6, 8)
    rng = np.random.default_rng(ck.seed + 7)
    dirs = {"generic": rng.normal(size=6), "planar": np.array([1.0, -0.7, 0, 0.4, 0.8, 0]), "vertical": np.array([0.2, 0, 1.0, 0, 0.1, -0.6])}
    for sname, system in systems:
        mu = float(system.mu)
        for idx in (1, 2, 3, 4, 5):
            L = system.get_libration_point(idx)
            if idx <= 3:
                build, l2s, s2l, g = _build_physical_hamiltonian_collinear, _local2synodic_collinear, _synodic2local_collinear, float(L.dynamics.gamma)
                z_eq = np.zeros(6)
            else:
                build, l2s, s2l, g = _build_physical_hamiltonian_triangular, _local2synodic_triangular, _synodic2local_triangular, 1.0
                # preconditions of the triangular expansion
                H1 = build(L, 2)
                lin = float(np.max(np.abs(np.asarray(H1[1]))))
                ck.count(("tri-pre", sname, idx), True)
                pre_ok = True
                if lin > 1e-12:
                    pre_ok = False
                    ck.violation("_build_physical_hamiltonian_triangular|origin-not-equilibrium-linear-term",
                                 f"{sname} L{idx}: the degree-1 block of the triangular Hamiltonian is {np.asarray(H1[1]).real.tolist()} "
                                 f"(must vanish: the expansion point is an equilibrium)", {"system": sname, "idx": idx})
                st_eq = np.concatenate([np.asarray(L.position, dtype=float), np.zeros(3)])
                z_eq = s2l(L, st_eq)
                back = l2s(L, np.zeros(6))
                if np.max(np.abs(back[:3] - st_eq[:3])) > 1e-12:
                    pre_ok = False
                    ck.violation("_local2synodic_triangular|origin-not-at-libration-point",
                                 f"{sname} L{idx}: local origin maps to {back[:3].tolist()} but the point is at {st_eq[:3].tolist()}",
                                 {"system": sname, "idx": idx})
                if not pre_ok:
                    continue
            for N in degrees:
                psi, clmo = _init_index_tables(N)
                enc = _create_encode_dict_from_clmo(clmo)
                H = build(L, N)
                Jpoly = _polynomial_jacobian(H, N, psi, clmo, enc)
                E0 = crtbp_energy(l2s(L, z_eq), mu)
                for dname, d in dirs.items():
                    d = d / np.linalg.norm(d)
                    label = f"{sname}|L{idx}|N={N}|dir={dname}"
                    t = cs.trace(label, {"value_defect_small": (-85 if N >= 4 else -65) if g > 0.05 else -60, "value_law_excess": -100, "accel_law_excess": -100, "round_trip": -120},
                                 {"system": sname, "idx": idx, "N": N, "dir": dname})
                    ck.count(("taylor", label), True)
                    vd, ad = [], []
                    for r in (0.01, 0.02, 0.04, 0.08):
                        z = z_eq + r * d
                        s = l2s(L, z)
                        Hv = _polynomial_evaluate(H, z.astype(np.complex128), clmo).real
                        vd.append(abs(Hv - (crtbp_energy(s, mu) - E0) / g ** 2))
                        acc_loc, _ = hamilton_accel(Jpoly, z, clmo)
                        sg = float(L.dynamics.sign) if idx <= 3 else 1.0
                        mapped = np.array([-sg * g * acc_loc[0], sg * g * acc_loc[1], g * acc_loc[2]]) if idx <= 3 else None
                        if mapped is not None:
                            ad.append(float(np.max(np.abs(mapped - np.asarray(_crtbp_accel(s, mu))[3:6]))))
                        cs.obs(t, "round_trip", float(np.max(np.abs(s2l(L, s) - z))))
                    cs.obs(t, "value_defect_small", vd[0])

                    def excess(seq, expo, floor=1e-12):
                        ex = 0.0
                        for a, b in zip(seq, seq[1:]):
                            if a > floor and b > floor:            # above the rounding floor
                                ex = max(ex, max(0.0, (expo - 2.0) - math.log2(b / a)))   # one-sided: decaying faster than the law is fine
                        return ex
                    vfloor = max(1e-12, 1e3 * 2.2e-16 * max(1.0, abs(E0)) / g ** 2)      # rounding of (E - E_L) / gamma^2
                    afloor = max(1e-11, 1e4 * 2.2e-16 * max(1.0, 1.0 / g))                 # accelerations near the secondary
                    cs.obs(t, "value_law_excess", excess(vd, N + 1, vfloor))
                    cs.obs(t, "accel_law_excess", excess(ad, N, afloor) if ad else 0.0)
                    t["data"] = dict(t["data"], value_defects=vd, accel_defects=ad)
                    if len(ck.cov["samples"]) < 4:
                        ck.sample({"case": label, "value_defects_r=0.01..0.08": vd, "accel_defects": ad})
    # history on the OBJECT API: the Hamiltonian system served for the "physical" form after another form was requested for the
    # same point and degree must carry the equations of the physical polynomial built above
    sname, system = systems[0]
    L = system.get_libration_point(1)
    N = 4
    psi, clmo = _init_index_tables(N)
    enc = _create_encode_dict_from_clmo(clmo)
    Jref = _polynomial_jacobian(_build_physical_hamiltonian_collinear(L, N), N, psi, clmo, enc)
    t = cs.trace(f"{sname}|L1|N={N}|object hamiltonian_system after another form", {"object_hamsys_matches_builder": -110},
                 {"system": sname, "idx": 1, "N": N, "dir": "object-history"})
    ck.count(("taylor-object-history", sname), True)
    try:
        L.hamiltonian_system("center_manifold_real", N)
        hs = L.hamiltonian_system("physical", N)
        worst = 0.0
        for r in (0.02, 0.05):
            z = r * dirs["generic"] / np.linalg.norm(dirs["generic"])
            ref, _ = hamilton_accel(Jref, z, clmo)
            got, _ = hamilton_accel(hs.jac_H, z, hs.clmo_H)
            worst = max(worst, float(np.max(np.abs(ref - got))))
        cs.obs(t, "object_hamsys_matches_builder", worst)
    except Exception as ex:
        ck.violation("point.hamiltonian_system|raises", f"{sname} L1 N={N}: {ex!r}"[:300], {"system": sname})
        cs.traces.remove(t)
    cs.decide(key_fn=lambda t, n: f"physical-hamiltonian|L{t['data']['idx']}|{n}")
    cs.selftest()


def maps_part(ck: Check):
    """local -> synodic position map on the exact witness family of C04 (transcribed in Libration.tla: X = -(sgn g xi + mu + a))."""
    from hiten import System
    from hiten.algorithms.hamiltonian.transforms import _local2synodic_collinear
    import c04
    worst = 0.0
    for i in (1, 2, 3):
        for q in (4, 7, 10, 25):
            g = c04.gamma_of(i, q)
            mu = c04.mu_of(i, g)
            if not (0 < mu <= F(1, 2)):
                continue
            L = System.from_mu(float(mu)).get_libration_point(i)
            sgn = 1 if i == 3 else -1
            a = {1: -1 + g, 2: -1 - g, 3: g}[i]
            for loc in ([1, 0, 0, 0, 0, 0], [0, 2, -1, 0, 0, 0], [-3, 1, 2, 1, -2, 3]):
                ck.count(("map", i, q, tuple(loc)), True)
                got = _local2synodic_collinear(L, np.array(loc, dtype=float))
                X = -(sgn * g * loc[0] + mu + a)
                Y = sgn * g * loc[1]
                Z = g * loc[2]
                V = (-g * (loc[3] + loc[1]), g * (loc[4] - loc[0]), g * loc[5])
                exp = [float(v) for v in (X, Y, Z) + V]
                err = float(np.max(np.abs(got - np.array(exp))))
                worst = max(worst, err)
                if err > 1e-9:
                    ck.violation("_local2synodic_collinear|differs-from-affine-map", f"L{i} gamma={g}: local {loc} -> {got.tolist()}, exact {exp}",
                                 {"i": i, "q": q, "loc": loc})
    ck.part("maps_exact", worst_abs_error=worst)


def main(tier=None, replay=None):
    ck = Check("C07", "model_checking", tier)
    rnd = random.Random(ck.seed)
    if replay:
        d = json.load(open(replay))["data"]
        print(json.dumps(d, indent=1, default=str)[:3000])
        print("re-run ./check C07 to re-evaluate (cases are deterministic)")
        return 0
    kernel_part(ck)
    maps_part(ck)
    e2e_part(ck, rnd)
    ck.cov["rule"] = ("kernel instances = T_n, A_n, assembled H per degree emitted by TLC; map instances = witness family x integer local "
                      "points; Taylor contracts = (system x L1..L5 x N x direction), four amplitudes each")
    ck.assumptions += ["value-level law checked in two-point form at r = 0.01..0.08 (ratio within a factor 4 of 2^(N+1) resp. 2^N, only above the 1e-12 floor)",
                      "the triangular expansion is not reachable through the public API (NotImplementedError); its builder and map are checked directly"]
    return ck.finish()


if __name__ == "__main__":
    sys.exit(main())
