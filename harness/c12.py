"""C12 -- invariant-manifold seeds lie on the true stable/unstable directions of the orbit.

[M] spec/algo/ManifoldBranch.tla: the per-fraction loop of _run_compute as a state machine (phase index
    selection on an integer grid, filters, counters, aligned result lists) with scripted integration outcomes;
    TLC exhaustive; every behaviour replayed into the real service with a scripted _propagate_dynsys.
[T] Contracts.tla over the four branches (stable/unstable x positive/negative) x phase fractions of real
    corrected orbits:
      times_signed      stable branches have non-positive, decreasing times; unstable non-negative, increasing
      displacement      | |seed - x(tau)|_pos - d | / d
      floquet_angle     angle between the seed direction and the eigenvector of M_tau = Phi(tau) M Phi(tau)^-1
                        (formed from a FORWARD variational propagation, independent of the manifold service's own
                        STM) with multiplier inside (stable) / outside (unstable) the unit circle
      opposite_sides    positive and negative branches are displaced to opposite sides
      jacobi_drift      every retained trajectory keeps the Jacobi constant of its seed within energy_tol
"""
from __future__ import annotations

import itertools
import json
import math
import random
import sys

import numpy as np

from common import SPEC, Check, ContractSet, MachineryError, tlc


def jacobi(states, mu):
    x, y, z, vx, vy, vz = np.asarray(states).T
    r1 = np.sqrt((x + mu) ** 2 + y * y + z * z)
    r2 = np.sqrt((x - 1 + mu) ** 2 + y * y + z * z)
    return x * x + y * y + 2 * ((1 - mu) / r1 + mu / r2) - (vx * vx + vy * vy + vz * vz)


def angle(u, v):
    c = abs(float(np.dot(u, v))) / (np.linalg.norm(u) * np.linalg.norm(v))
    return math.acos(min(1.0, c))


def orbit_reference(system, orbit):
    """Forward monodromy and a function tau -> (x(tau), Phi(tau)) by an independent forward variational propagation."""
    from hiten.algorithms.dynamics.rtbp import _compute_stm
    x0 = np.asarray(orbit.initial_state, dtype=float)
    T = float(orbit.period)
    _, _, M, _ = _compute_stm(system.var_dynsys, x0, T, steps=2, forward=1, method="adaptive", order=8, rtol=1e-13, atol=1e-13)

    def at(tau):
        if tau <= 0:
            return x0.copy(), np.eye(6)
        xs, _, Phi, _ = _compute_stm(system.var_dynsys, x0, tau, steps=2, forward=1, method="adaptive", order=8, rtol=1e-13, atol=1e-13)
        return np.asarray(xs[-1], dtype=float), Phi
    return x0, T, M, at


def branch_contracts(ck, cs, system, orbit, label, fractions_step, disp, n_stm=2000):
    x0, T, M, at = orbit_reference(system, orbit)
    mu = float(system.mu)
    seeds = {}
    for stable in (True, False):
        for direction in ("positive", "negative"):
            man = orbit.manifold(stable=stable, direction=direction)
            energy_tol = 1e-6
            res = man.compute(step=fractions_step, integration_fraction=0.25, displacement=disp, dt=1e-2,
                              show_progress=False, energy_tol=energy_tol)
            _, _, states_list, times_list, successes, attempts = res
            fracs = list(np.arange(0.0, 1.0, fractions_step))
            blabel = f"{label}|stable={stable}|direction={direction}"
            ck.count(("branch", blabel), True)
            t = cs.trace(blabel, {"times_signed": -100, "displacement": -40, "floquet_angle": -27, "jacobi_drift": -60,
                                  "bookkeeping": -100},
                         {"orbit": label, "stable": stable, "direction": direction})
            cs.obs(t, "bookkeeping", 0.0 if (successes == len(states_list) == len(times_list) and attempts == len(fracs)) else 1.0)
            if successes != len(fracs):
                ck.notes.append(f"{blabel}: {successes}/{attempts} trajectories retained")
            grid = np.linspace(0.0, T, n_stm)
            for times, states in zip(times_list, states_list):
                times = np.asarray(times)
                states = np.asarray(states)
                d = np.diff(times)
                if stable:
                    ok = times[0] == 0.0 and np.all(times <= 0.0) and np.all(d < 0)
                else:
                    ok = times[0] == 0.0 and np.all(times >= 0.0) and np.all(d > 0)
                cs.obs(t, "times_signed", 0.0 if ok else 1.0)
                C = jacobi(states, mu)
                cs.obs(t, "jacobi_drift", float(np.max(np.abs(C - C[0])) / abs(C[0])))
                seed = states[0]
                # which phase?  the sample of the service's 2000-point grid nearest to fraction*T, forward or backward
                best = None
                for f in fracs:
                    k = int(np.argmin(np.abs(f * T - grid)))
                    for tau in {grid[k], (T - grid[k]) if grid[k] > 0 else 0.0}:
                        xt, Phi = at(float(tau))
                        dist = np.linalg.norm(seed[:3] - xt[:3])
                        if best is None or abs(dist - disp) < best[0]:
                            best = (abs(dist - disp), tau, xt, Phi, f)
                _, tau, xt, Phi, f = best
                w = seed - xt
                cs.obs(t, "displacement", abs(np.linalg.norm(w[:3]) - disp) / disp)
                Mt = Phi @ M @ np.linalg.inv(Phi)
                ev, V = np.linalg.eig(Mt)
                real = [i for i in range(6) if abs(ev[i].imag) < 1e-8 * max(1.0, abs(ev[i]))]
                cand = [i for i in real if (abs(ev[i]) < 0.5 if stable else abs(ev[i]) > 2.0)]
                if not cand:
                    raise MachineryError(f"{blabel}: orbit has no hyperbolic real multiplier (eigenvalues {ev})")
                i = min(cand, key=lambda i: abs(ev[i])) if stable else max(cand, key=lambda i: abs(ev[i]))
                v = np.real(V[:, i])
                cs.obs(t, "floquet_angle", angle(w, v))
                seeds[(stable, direction, round(float(f), 6))] = w
                if len(ck.cov["samples"]) < 4:
                    ck.sample({"branch": blabel, "fraction": float(f), "tau": float(tau), "seed_offset": w.tolist(),
                               "floquet_vector": v.tolist(), "multiplier": float(ev[i].real), "angle_rad": angle(w, v)})
    # "stable branches are integrated backward and unstable ones forward in time", for every integration method: the END state of
    # each retained trajectory is the flow of its own seed over the signed time span it reports (re-integrated with the adaptive
    # DOP853 path of _propagate_dynsys, whose direction handling is decided by C10)
    from hiten.algorithms.dynamics.base import _propagate_dynsys
    for (method, order), stable in itertools.product((("adaptive", 8), ("fixed", 8), ("fixed", 4), ("adaptive", 5)), (True, False)):
        man = orbit.manifold(stable=stable, direction="positive")
        res = man.compute(step=0.25, integration_fraction=0.2, displacement=disp, dt=2e-3, method=method, order=order,
                          show_progress=False, energy_tol=1e-6)
        _, _, states_list, times_list, _, _ = res
        blabel = f"{label}|stable={stable}|method={method}{order}"
        ck.count(("branch-method", blabel), True)
        t = cs.trace(blabel, {"times_signed": -100, "end_state_on_signed_flow": -50}, {"orbit": label, "stable": stable, "direction": f"method={method}{order}"})
        for times, states in zip(times_list, states_list):
            times, states = np.asarray(times, dtype=float), np.asarray(states, dtype=float)
            d = np.diff(times)
            ok = times[0] == 0.0 and (np.all(times <= 0.0) and np.all(d < 0) if stable else np.all(times >= 0.0) and np.all(d > 0))
            cs.obs(t, "times_signed", 0.0 if ok else 1.0)
            ref = _propagate_dynsys(system.dynsys, states[0], 0.0, abs(float(times[-1])), forward=(-1 if stable else 1), steps=2,
                                    method="adaptive", order=8, rtol=1e-13, atol=1e-13)
            cs.obs(t, "end_state_on_signed_flow", float(np.max(np.abs(np.asarray(ref.states[-1]) - states[-1]))))
        if not t["ev"]:
            cs.traces.remove(t)
            ck.notes.append(f"{blabel}: no trajectory retained")
    # opposite sides
    for stable in (True, False):
        t = cs.trace(f"{label}|stable={stable}|sides", {"opposite_sides": -30}, {"orbit": label, "stable": stable, "direction": "both"})
        for (s, dname, f), w in seeds.items():
            if s == stable and dname == "positive" and (s, "negative", f) in seeds:
                w2 = seeds[(s, "negative", f)]
                cs.obs(t, "opposite_sides", float(np.linalg.norm(w + w2) / np.linalg.norm(w)))
        if not t["ev"]:
            cs.traces.remove(t)


def seed_observables(system, orbit, man, res, stable, disp, step):
    """(displacement defect, Floquet angle) of every retained trajectory of one compute() result."""
    x0, T, M, at = orbit_reference(system, orbit)
    _, _, states_list, times_list, successes, attempts = res
    grid = np.linspace(0.0, T, 2000)
    fracs = list(np.arange(0.0, 1.0, step))
    out = []
    for states in states_list:
        seed = np.asarray(states)[0]
        best = None
        for f in fracs:
            k = int(np.argmin(np.abs(f * T - grid)))
            xt, Phi = at(float(grid[k]))
            dist = np.linalg.norm(seed[:3] - xt[:3])
            if best is None or abs(dist - disp) < best[0]:
                best = (abs(dist - disp), xt, Phi)
        _, xt, Phi = best
        w = seed - xt
        Mt = Phi @ M @ np.linalg.inv(Phi)
        ev, V = np.linalg.eig(Mt)
        real = [i for i in range(6) if abs(ev[i].imag) < 1e-8 * max(1.0, abs(ev[i]))]
        cand = [i for i in real if (abs(ev[i]) < 0.5 if stable else abs(ev[i]) > 2.0)]
        i = min(cand, key=lambda i: abs(ev[i])) if stable else max(cand, key=lambda i: abs(ev[i]))
        out.append((abs(np.linalg.norm(w[:3]) - disp) / disp, angle(w, np.real(V[:, i]))))
    return out


def history_contracts(ck, cs, system, orbitA, orbitB):
    """The same contracts after a history: repeated compute() on one Manifold object with a changed displacement, and
    a manifold of another orbit computed in between (values must be those of a fresh object in the same state)."""
    step = 0.34
    for stable in (True, False):
        manA = orbitA.manifold(stable=stable, direction="positive")
        t = cs.trace(f"history|stable={stable}", {"displacement": -40, "floquet_angle": -27}, {"orbit": "A-B-A", "stable": stable, "direction": "positive"})
        ck.count(("history", stable), True)
        r1 = manA.compute(step=step, integration_fraction=0.2, displacement=1e-4, dt=1e-2, show_progress=False)
        for d, a in seed_observables(system, orbitA, manA, r1, stable, 1e-4, step):
            cs.obs(t, "displacement", d)
            cs.obs(t, "floquet_angle", a)
        # same object, only the displacement changes
        r2 = manA.compute(step=step, integration_fraction=0.2, displacement=3e-5, dt=1e-2, show_progress=False)
        for d, a in seed_observables(system, orbitA, manA, r2, stable, 3e-5, step):
            cs.obs(t, "displacement", d)
            cs.obs(t, "floquet_angle", a)
        # a manifold of another orbit in between, then the first object again with another argument changed
        manB = orbitB.manifold(stable=stable, direction="positive")
        rB = manB.compute(step=step, integration_fraction=0.2, displacement=1e-4, dt=1e-2, show_progress=False)
        for d, a in seed_observables(system, orbitB, manB, rB, stable, 1e-4, step):
            cs.obs(t, "displacement", d)
            cs.obs(t, "floquet_angle", a)
        r3 = manA.compute(step=step, integration_fraction=0.15, displacement=1e-4, dt=1e-2, show_progress=False)
        for d, a in seed_observables(system, orbitA, manA, r3, stable, 1e-4, step):
            cs.obs(t, "displacement", d)
            cs.obs(t, "floquet_angle", a)
        # a manifold object that went through save / load (both stabilities, both sides) and is computed AFTER loading: it is still
        # the manifold it was created as
        from common import workdir as _workdir
        from hiten.system.manifold import Manifold
        for direction in ("positive", "negative"):
            m0 = orbitA.manifold(stable=stable, direction=direction)
            pth = _workdir("c12") / f"manifold_{int(stable)}_{direction}.pkl"
            m0.save(pth)
            m1 = Manifold.load(pth)
            tl = cs.trace(f"history|loaded|stable={stable}|direction={direction}", {"displacement": -40, "floquet_angle": -27, "times_signed": -100,
                                                                                    "same_side_as_unsaved": -30},
                          {"orbit": "A-loaded", "stable": stable, "direction": direction})
            ck.count(("history-loaded", stable, direction), True)
            rl = m1.compute(step=step, integration_fraction=0.2, displacement=1e-4, dt=1e-2, show_progress=False)
            r0 = m0.compute(step=step, integration_fraction=0.2, displacement=1e-4, dt=1e-2, show_progress=False)
            for d, a in seed_observables(system, orbitA, m1, rl, stable, 1e-4, step):
                cs.obs(tl, "displacement", d)
                cs.obs(tl, "floquet_angle", a)
            for times in rl[3]:
                times = np.asarray(times, dtype=float)
                dd = np.diff(times)
                cs.obs(tl, "times_signed", 0.0 if (times[0] == 0.0 and (np.all(times <= 0) and np.all(dd < 0) if stable else np.all(times >= 0) and np.all(dd > 0))) else 1.0)
            for sa, sb in zip(rl[2], r0[2]):
                wa, wb = np.asarray(sa)[0], np.asarray(sb)[0]
                cs.obs(tl, "same_side_as_unsaved", float(np.linalg.norm(wa - wb)) / 1e-4)
        # displacement at the edge of the range (1e-9): the seed is still the orbit point plus displacement * eigenvector, also at
        # phase 0 where the orbit's own y and vx vanish exactly
        mt = orbitA.manifold(stable=stable, direction="positive")
        rt = mt.compute(step=0.5, integration_fraction=0.1, displacement=1e-9, dt=1e-2, show_progress=False)
        tt = cs.trace(f"history|tiny-displacement|stable={stable}", {"displacement": -25, "floquet_angle": -15}, {"orbit": "A-tiny", "stable": stable, "direction": "positive"})
        ck.count(("history-tiny", stable), True)
        for d, a in seed_observables(system, orbitA, mt, rt, stable, 1e-9, 0.5):
            cs.obs(tt, "displacement", d)          # the orbit point itself is known to ~1e-12: a few per cent of 1e-9
            cs.obs(tt, "floquet_angle", a)


def main(tier=None, replay=None):
    ck = Check("C12", "model_checking", tier)
    rnd = random.Random(ck.seed)
    from hiten import System
    if replay:
        d = json.load(open(replay))["data"]
        print(json.dumps(d, indent=1, default=str)[:3000])
        print("re-run ./check C12 to re-evaluate (cases are deterministic)")
        return 0
    import branchmodel
    branchmodel.run(ck, rnd)
    system = System.from_bodies("earth", "moon")
    cs = ContractSet(ck, "manifold_contracts")
    orbs = [("L1-halo-Az0.2S", 1, "halo", dict(amplitude_z=0.2, zenith="southern"))]
    if not ck.quick:
        orbs += [("L1-lyapunov-Ax4e-3", 1, "lyapunov", dict(amplitude_x=4e-3)),
                 ("L2-halo-Az0.1N", 2, "halo", dict(amplitude_z=0.1, zenith="northern"))]
    first = None
    for label, li, fam, kw in orbs:
        L = system.get_libration_point(li)
        orbit = L.create_orbit(fam, **kw)
        orbit.correct()
        first = first or orbit
        branch_contracts(ck, cs, system, orbit, label, 0.34 if ck.quick else 0.19, 1e-4)
    L1 = system.get_libration_point(1)
    orbitB = L1.create_orbit("lyapunov", amplitude_x=6e-3)
    orbitB.correct()
    history_contracts(ck, cs, system, first, orbitB)
    cs.decide(key_fn=lambda t, n: f"manifold|stable={t['data']['stable']}|{n}")
    cs.selftest()
    ck.cov["rule"] = ("branches = {stable, unstable} x {positive, negative} of corrected periodic orbits x phase fractions "
                      "arange(0, 1, step); one contract trace per branch; plus the ManifoldBranch.tla behaviours")
    ck.assumptions += ["the reference monodromy and phase transport come from the library's own FORWARD variational propagation "
                      "(adaptive DOP853, 1e-13), not from a tool outside the library",
                      "floquet_angle bound 2e-3 rad (0.1 deg): unchanged-tree unstable branches are ~1e-6 rad, a wrong direction is >0.1 rad"]
    return ck.finish()


if __name__ == "__main__":
    sys.exit(main())
