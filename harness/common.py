"""Shared machinery for every check: TLC driver, evidence writer, known-findings
matching, VIOLATION / KNOWN-FINDING reporting.

Runs under /venv/bin/python.  hiten is imported from /repo/src (the current
working tree), never from a snapshot.
"""
from __future__ import annotations

import hashlib
import json
import os
import re
import shutil
import subprocess
import sys
import tempfile
import time
from pathlib import Path

VERIF = Path(__file__).resolve().parent.parent
REPO = Path(os.environ.get("HITEN_REPO", "/repo"))
SPEC = VERIF / "spec"
EVID = VERIF / "evidence"
REPLAYS = VERIF / "replays"
WORK = VERIF / ".work" / f"p{os.getpid()}"
KNOWN = VERIF / "known_findings.json"

os.environ.setdefault("HITEN_VERIF", "1")
# numba's OpenMP workers spin while idle; on a shared machine that starves everybody (measured: 20 min -> see DESIGN 9)
os.environ.setdefault("OMP_WAIT_POLICY", "passive")
os.environ.setdefault("KMP_BLOCKTIME", "0")
os.environ.setdefault("GOMP_SPINCOUNT", "0")
os.environ.setdefault("PYTHONHASHSEED", "0")
if str(REPO / "src") not in sys.path:
    sys.path.insert(0, str(REPO / "src"))


class MachineryError(RuntimeError):
    """Raised when the checking machinery itself failed (exit 2)."""


# --------------------------------------------------------------------------
# TLC
# --------------------------------------------------------------------------

_TLC_JAR = "/opt/veriftools/tla/tla2tools.jar:/opt/veriftools/tla/CommunityModules-deps.jar"


class TLCResult:
    def __init__(self, out: str, rc: int, wall: float):
        self.out = out
        self.rc = rc
        self.wall = wall
        m = re.search(r"(\d+) states generated, (\d+) distinct states found", out)
        self.generated = int(m.group(1)) if m else 0
        self.distinct = int(m.group(2)) if m else 0
        m = re.search(r"depth of the complete state graph search is (\d+)", out)
        self.depth = int(m.group(1)) if m else 0
        self.invariant_violated = None
        m = re.search(r"Invariant (\S+) is violated", out)
        if m:
            self.invariant_violated = m.group(1)
        m = re.search(r"Action property (\S+) is violated", out)
        if m:
            self.invariant_violated = m.group(1)
        if "Temporal properties were violated" in out:
            self.invariant_violated = self.invariant_violated or "temporal"
        self.postcondition_failed = "Postcondition" in out and "is false" in out
        self.deadlock = "Deadlock reached" in out
        self.finished = "Model checking completed" in out or "Finished in" in out
        self.error = None
        if rc != 0 and not (self.invariant_violated or self.postcondition_failed or self.deadlock):
            m = re.search(r"(Error: .*|\*\*\* Errors.*|Parsing or semantic analysis failed.*)", out)
            self.error = m.group(1) if m else f"tlc rc={rc}"

    @property
    def ok(self) -> bool:
        return (self.rc == 0 and self.finished and not self.invariant_violated
                and not self.postcondition_failed and not self.deadlock)

    def printed(self):
        """Values printed by PrintT that look like JSON strings (one per line, quoted)."""
        res = []
        for line in self.out.splitlines():
            line = line.strip()
            if line.startswith('"{') or line.startswith('"['):
                try:
                    s = json.loads(line)  # TLA+ string literal == JSON string literal for our payloads
                    res.append(json.loads(s))
                except Exception:
                    pass
        return res

    def coverage(self):
        """Parse `-coverage` output: {action name: (distinct, total)}."""
        cov = {}
        for m in re.finditer(r"<(\w+) line \d+, col \d+ to line \d+, col \d+ of module \w+>: (\d+):(\d+)", self.out):
            name, d, t = m.group(1), int(m.group(2)), int(m.group(3))
            a, b = cov.get(name, (0, 0))
            cov[name] = (max(a, d), max(b, t))
        return cov

    def counterexample(self) -> str:
        i = self.out.find("Error:")
        return self.out[i:i + 6000] if i >= 0 else ""


def workdir(tag: str) -> Path:
    WORK.mkdir(parents=True, exist_ok=True)
    d = Path(tempfile.mkdtemp(prefix=f"{tag}-", dir=WORK))
    return d


def tlc(spec: Path, cfg: Path, *, workers: int | str = "auto", env: dict | None = None,
        timeout: int = 900, coverage: bool = False, simulate: str | None = None,
        depth: int | None = None, seed: int | None = None, extra: list[str] | None = None,
        deque: bool = False, heap: str = "8g", xss: str | None = None) -> TLCResult:
    """Run TLC on `spec` with `cfg`.  Scratch (-metadir) lives under /verif/.work and is removed."""
    md = workdir("tlc")
    lib = ":".join(str(SPEC / d) for d in ("lib", "algo", "kernels", "objects", "trace"))
    cmd = ["java", "-XX:+UseParallelGC", f"-Xmx{heap}", f"-DTLA-Library={lib}"]
    if xss:
        cmd.append(f"-Xss{xss}")       # deep recursive operators (polynomial folds) need a larger thread stack
    if deque:
        cmd.append("-Dtlc2.tool.queue.IStateQueue=StateDeque")
    cmd += ["-cp", _TLC_JAR, "tlc2.TLC", "-workers", str(workers), "-metadir", str(md / "m"),
            "-noGenerateSpecTE", "-config", str(cfg)]
    if coverage:
        cmd += ["-coverage", "1"]
    if simulate is not None:
        cmd += ["-simulate", simulate]
    if depth is not None:
        cmd += ["-depth", str(depth)]
    if seed is not None:
        cmd += ["-seed", str(seed)]
    if extra:
        cmd += extra
    cmd.append(str(spec))
    e = dict(os.environ)
    e.pop("JAVA_TOOL_OPTIONS", None)
    if env:
        e.update({k: str(v) for k, v in env.items()})
    t0 = time.time()
    try:
        p = subprocess.run(cmd, cwd=str(spec.parent), env=e, capture_output=True, text=True, timeout=timeout)
        out, rc = p.stdout + p.stderr, p.returncode
    except subprocess.TimeoutExpired as ex:
        out = (ex.stdout or b"").decode() if isinstance(ex.stdout, bytes) else (ex.stdout or "")
        out += "\nTLC TIMEOUT"
        rc = 124
    finally:
        shutil.rmtree(md, ignore_errors=True)
    return TLCResult(out, rc, time.time() - t0)


def validate_traces(spec: Path, cfg: Path, traces: list, *, timeout: int = 900, env: dict | None = None,
                    chunk: int = 4000):
    """Batch trace validation.  `traces` is a list of JSON-able records, each with an `ev` list.
    The trace spec follows the idiom in spec/lib/TraceLib: register tid holds the furthest
    line reached; POSTCONDITION prints <<"REJECTED", {<<tid, l>>,...}>>.
    Returns (n_states, rejected: dict tid(0-based) -> line(1-based event index that failed))."""
    rejected = {}
    states = 0
    for base in range(0, len(traces), chunk):
        idx = list(range(base, min(base + chunk, len(traces))))
        reruns = 0
        while idx:
            part = [traces[k] for k in idx]
            wd = workdir("trace")
            try:
                tf = wd / "traces.json"
                tf.write_text(json.dumps(part))
                e = {"TRACE_FILE": str(tf)}
                if env:
                    e.update(env)
                r = tlc(spec, cfg, workers=1, env=e, timeout=timeout)
            finally:
                shutil.rmtree(wd, ignore_errors=True)
            if r.error or not r.finished or r.rc == 124:
                raise MachineryError(f"trace validation failed to run: {r.error}\n{r.out[-3000:]}")
            if r.invariant_violated:
                # an invariant of the trace spec failed on a real trace: TLC stops there, so record
                # the offending trace and validate the others again without it
                m = re.search(r"/\\ tid = (\d+)", r.counterexample()) or re.search(r"tid = (\d+)", r.counterexample())
                if m is None:
                    raise MachineryError("invariant violated in trace spec but no tid in counterexample\n" + r.out[-3000:])
                t = int(m.group(1)) - 1
                rejected[idx[t]] = ("invariant:" + r.invariant_violated, r.counterexample()[:1500])
                del idx[t]
                reruns += 1
                if reruns > 60:
                    raise MachineryError("more than 60 traces violate trace-spec invariants in one chunk")
                continue
            states += r.distinct
            m = re.search(r'<<\s*"REJECTED",\s*\{(.*?)\}\s*>>', r.out, re.S)
            if m is None:
                raise MachineryError("trace spec did not print a REJECTED line\n" + r.out[-3000:])
            for t, l in re.findall(r"<<(\d+), (\d+)>>", m.group(1)):
                rejected[idx[int(t) - 1]] = (int(l), "")
            break
    return states, rejected


def sany(spec: Path) -> bool:
    p = subprocess.run(["java", "-cp", _TLC_JAR, "tla2sany.SANY", str(spec)], cwd=str(spec.parent),
                       capture_output=True, text=True)
    return p.returncode == 0 and "Semantic errors" not in p.stdout and "Parse Error" not in p.stdout \
        and "Fatal" not in p.stdout


# --------------------------------------------------------------------------
# Check object: verdicts, evidence, known findings
# --------------------------------------------------------------------------

def load_known():
    if KNOWN.exists():
        return json.loads(KNOWN.read_text())
    return {"findings": [], "fixed": []}


def import_hiten():
    """Import hiten from the working tree with its logging silenced.  hiten's log_config creates
    results/logs relative to the cwd at import time, so the process moves to the scratch dir first."""
    import logging
    WORK.mkdir(parents=True, exist_ok=True)
    os.chdir(WORK)
    import hiten  # noqa
    try:
        # hiten launches many tiny parallel kernels; with 16 OpenMP threads the wake-ups dominate (C09: 204 s -> 32 s with 2).
        # Checks that sweep thread counts (C06, C14) set the count explicitly, up to numba.config.NUMBA_NUM_THREADS.
        import numba
        numba.set_num_threads(min(2, numba.config.NUMBA_NUM_THREADS))
    except Exception:
        pass
    root = logging.getLogger()
    root.setLevel(logging.CRITICAL)
    for h in list(root.handlers):
        if isinstance(h, logging.FileHandler):
            root.removeHandler(h)
            h.close()
        else:
            h.setLevel(logging.CRITICAL)
    return hiten


class Check:
    def __init__(self, pid: str, level: str, tier: str | None = None, seed: int | None = None):
        import_hiten()
        self.pid = pid
        self.level = level
        self.tier = tier or os.environ.get("VERIF_TIER", "quick")
        if self.tier not in ("quick", "thorough"):
            self.tier = "quick"
        self.seed = int(seed if seed is not None else os.environ.get("VERIF_SEED", "0") or 0)
        self.t0 = time.time()
        self.cov = {"evaluations": 0, "distinct_nontrivial": 0, "rule": "", "samples": [],
                    "states": 0, "transitions": 0, "traces_validated_against_impl": 0,
                    "parts": {}}
        self.assumptions: list[str] = []
        self.viol: list[dict] = []
        self.known_hit: list[dict] = []
        self._known = [f for f in load_known().get("findings", []) if f.get("property") == pid]
        self._distinct: set = set()
        self.notes: list[str] = []

    @property
    def quick(self):
        return self.tier == "quick"

    # ---- coverage bookkeeping
    def count(self, case_key, nontrivial: bool = True, n: int = 1):
        self.cov["evaluations"] += n
        if nontrivial:
            h = hashlib.sha1(repr(case_key).encode()).digest()[:8]
            self._distinct.add(h)

    def sample(self, s, cap: int = 6):
        if len(self.cov["samples"]) < cap:
            self.cov["samples"].append(s)

    def model(self, name: str, r: TLCResult, *, expect_ok=True, required_actions=()):
        """Record a TLC model-checking run.  A model-level failure is machinery failure unless
        the caller handles it (models are validated against code by replay before anything
        is reported as a violation)."""
        self.cov["states"] += r.distinct
        self.cov["transitions"] += r.generated
        self.cov["parts"][name] = {"distinct_states": r.distinct, "states_generated": r.generated,
                                   "depth": r.depth, "wall_s": round(r.wall, 1)}
        if r.error or r.rc == 124:
            raise MachineryError(f"TLC failed on {name}: {r.error}\n{r.out[-4000:]}")
        if expect_ok and not r.ok:
            raise MachineryError(f"model {name}: TLC reports {r.invariant_violated or 'failure'}\n{r.counterexample()}")
        cov = r.coverage()
        for a in required_actions:
            if a in cov and cov[a][1] == 0:
                raise MachineryError(f"model {name}: action {a} never taken (vacuous)")
        return r

    def part(self, name, **kw):
        self.cov["parts"].setdefault(name, {}).update(kw)

    # ---- verdicts
    def violation(self, key: str, desc: str, data=None):
        """Report a property violation observed on the REAL code.  `key` is the structural key
        matched against known_findings.json (exact match or listed prefix)."""
        for f in self._known:
            if f.get("status", "known") != "known":
                continue
            k = f["key"]
            if key == k or (k.endswith("*") and key.startswith(k[:-1])):
                if not any(h["key"] == k for h in self.known_hit):
                    self.known_hit.append({"key": k, "desc": f.get("what", desc)})
                return False
        if any(v["key"] == key for v in self.viol):
            return True
        self.viol.append({"key": key, "desc": desc, "data": data})
        return True

    def finish(self) -> int:
        self.cov["distinct_nontrivial"] = len(self._distinct)
        wall = time.time() - self.t0
        EVID.mkdir(exist_ok=True)
        lines = []
        for h in self.known_hit:
            lines.append(f"KNOWN-FINDING: property={self.pid} {h['key']} :: {h['desc']}")
        REPLAYS.mkdir(exist_ok=True)
        for v in self.viol:
            hsh = hashlib.sha1((v["key"] + json.dumps(v["data"], sort_keys=True, default=str)).encode()).hexdigest()[:10]
            path = REPLAYS / f"{self.pid}-{hsh}.json"
            path.write_text(json.dumps({"property": self.pid, "key": v["key"], "desc": v["desc"],
                                        "data": v["data"]}, indent=1, default=str))
            lines.append(f"VIOLATION property={self.pid} replay={path}")
            lines.append(f"  key={v['key']} :: {v['desc']}")
        ev = {
            "property_id": self.pid, "tier": self.tier, "seed": self.seed, "level": self.level,
            "coverage": self.cov, "assumptions": self.assumptions, "wall_s": round(wall, 2),
            "violations": len(self.viol),
            "known_findings_reported": [h["key"] for h in self.known_hit],
            "notes": self.notes,
        }
        if not self.cov["samples"]:
            self.cov["samples"].append("(no sample recorded)")
        (EVID / f"{self.pid}.json").write_text(json.dumps(ev, indent=1, default=str))
        for ln in lines:
            print(ln)
        print(f"[{self.pid}] tier={self.tier} seed={self.seed} evaluations={self.cov['evaluations']} "
              f"distinct={self.cov['distinct_nontrivial']} states={self.cov['states']} "
              f"traces={self.cov['traces_validated_against_impl']} violations={len(self.viol)} "
              f"known={len(self.known_hit)} wall={wall:.1f}s")
        shutil.rmtree(WORK, ignore_errors=True) if not os.environ.get("VERIF_KEEP_WORK") else None
        return 1 if self.viol else 0


def frac_to_pair(fr):
    from fractions import Fraction
    fr = Fraction(fr)
    return [fr.numerator, fr.denominator]


def exact_int(x) -> int:
    """Convert a float that must be an exact integer into int, else raise."""
    xi = int(round(float(x)))
    if float(xi) != float(x):
        raise ValueError(f"not an exact integer: {x!r}")
    return xi


# --------------------------------------------------------------------------
# [T]-tier contracts (spec/lib/Contracts.tla)
# --------------------------------------------------------------------------

def mag(v) -> int:
    """defect magnitude in units of 0.1 decade: ceil(10*log10|v|); exact zero -> -3000; nan/inf -> 9999."""
    import math
    v = abs(float(v))
    if not math.isfinite(v):
        return 9999
    if v == 0.0:
        return -3000
    return int(math.ceil(10 * math.log10(v)))


class ContractSet:
    """Collects contract traces (one per configuration/execution) and lets TLC decide them."""

    def __init__(self, ck: "Check", part: str):
        self.ck, self.part, self.traces = ck, part, []

    def trace(self, label: str, bounds: dict, data=None):
        t = {"label": label, "bounds": dict(bounds), "ev": [], "data": data}
        self.traces.append(t)
        return t

    @staticmethod
    def obs(t, name, value):
        t["ev"].append({"name": name, "mag": mag(value), "value": float(value) if value == value else None})

    def decide(self, key_fn=None, timeout=1800):
        """Run TLC on all traces; report violations through ck.violation(key_fn(trace, name), ...)."""
        if not self.traces:
            raise MachineryError(f"{self.part}: no contract traces recorded")
        wire = [{"bounds": t["bounds"], "ev": [{"name": e["name"], "mag": e["mag"]} for e in t["ev"]]} for t in self.traces]
        # batch configuration: TLC evaluates the bounds per trace through registers and reports ALL offending traces
        rej, states = {}, 0
        for base in range(0, len(wire), 3000):
            part = wire[base:base + 3000]
            wd = workdir("contracts")
            try:
                tf = wd / "traces.json"
                tf.write_text(json.dumps(part))
                r = tlc(SPEC / "lib" / "Contracts.tla", SPEC / "cfg" / "Contracts.batch.cfg", workers=1, env={"TRACE_FILE": str(tf)}, timeout=timeout)
            finally:
                shutil.rmtree(wd, ignore_errors=True)
            if r.error or not r.finished or r.rc == 124:
                raise MachineryError(f"contract validation failed to run: {r.error}\n{r.out[-3000:]}")
            states += r.distinct
            for tag, why in (("REJECTED", "rejected"), ("OUTOFBOUNDS", "bound"), ("UNOBSERVED", "unobserved")):
                m = re.search(r'<<\s*"%s",\s*\{(.*?)\}\s*>>' % tag, r.out, re.S)
                if m is None:
                    raise MachineryError(f"Contracts.tla did not print a {tag} line\n" + r.out[-3000:])
                for t_, l_ in re.findall(r"<<(\d+), (\d+)>>", m.group(1)):
                    rej.setdefault(base + int(t_) - 1, (why, ""))
        self.ck.cov["traces_validated_against_impl"] += len(wire)
        worst, margin = {}, {}
        for t in self.traces:
            for e in t["ev"]:
                worst[e["name"]] = max(worst.get(e["name"], -9999), e["mag"])
                if e["name"] in t["bounds"]:
                    margin[e["name"]] = min(margin.get(e["name"], 9999), t["bounds"][e["name"]] - e["mag"])
        self.ck.part(self.part, traces=len(wire), trace_states=states, rejected=len(rej),
                     worst_magnitude_tenth_decades=worst, smallest_margin_tenth_decades=margin)
        for tix, (where, detail) in sorted(rej.items()):
            t = self.traces[tix]
            bad = [e for e in t["ev"] if e["name"] in t["bounds"] and e["mag"] > t["bounds"][e["name"]]]
            if bad:
                seen_names = set()
                for e in bad:
                    if e["name"] in seen_names:
                        continue
                    seen_names.add(e["name"])
                    key = key_fn(t, e["name"]) if key_fn else f"{self.part}|contract:{e['name']}"
                    self.ck.violation(key, f"{t['label']}: {e['name']} = {e['value']!r} (10^{e['mag'] / 10:.1f}) exceeds bound "
                                           f"10^{t['bounds'][e['name']] / 10:.1f}", {"label": t["label"], "trace": t["ev"], "cfg": t["data"]})
            else:
                missing = [n for n in t["bounds"] if n not in {e["name"] for e in t["ev"]}]
                raise MachineryError(f"{self.part}: contract trace '{t['label']}' rejected without a bound violation "
                                     f"(unobserved: {missing}; at {where})")
        return rej

    def selftest(self):
        """A trace with one observable pushed over its bound must be rejected by TLC."""
        good = [t for t in self.traces if t["ev"]]
        if not good:
            return
        t = json.loads(json.dumps({"bounds": good[0]["bounds"], "ev": [{"name": e["name"], "mag": e["mag"]} for e in good[0]["ev"]]}))
        t["ev"][-1]["mag"] = t["bounds"][t["ev"][-1]["name"]] + 1
        t2 = json.loads(json.dumps(t))
        t2["ev"][-1]["mag"] = -3000
        t2["ev"] = t2["ev"][:-1] if len({e["name"] for e in t2["ev"][:-1]}) < len(t2["bounds"]) else t2["ev"]
        _, rj = validate_traces(SPEC / "lib" / "Contracts.tla", SPEC / "cfg" / "Contracts.cfg", [t])
        if 0 not in rj:
            raise MachineryError(f"{self.part}: binding self-test failed: an out-of-bound observable was accepted")
