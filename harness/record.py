"""Shared recorder helpers (binding technique B3): wrap the memoisation layer of hiten's
services from outside, without touching the repository.

* CacheRecorder -- context manager that replaces `_CacheServiceBase.get_or_create/reset/set`
  by logging wrappers.  Every call is appended to `.log` as a dict
  {"cache": id(cache service), "key": key, "hit": bool, "seq": n, "depth": nesting depth}
  AFTER the state change (the linearisation point of a sequential library is the return).
* stamp(obj) -- projection of a returned value to a short hash of its exact bytes
  (arrays, floats, tuples/lists of those, Trajectory-like objects with .times/.states).
"""
from __future__ import annotations

import hashlib

import numpy as np


def _feed(h, obj, decimals):
    if obj is None:
        h.update(b"N")
    elif isinstance(obj, (bool, np.bool_)):
        h.update(b"b1" if obj else b"b0")
    elif isinstance(obj, (int, np.integer)):
        h.update(b"i" + str(int(obj)).encode())
    elif isinstance(obj, (float, np.floating, complex, np.complexfloating)):
        _feed(h, np.asarray(obj), decimals)
    elif isinstance(obj, str):
        h.update(b"s" + obj.encode())
    elif isinstance(obj, np.ndarray):
        a = np.ascontiguousarray(obj)
        if decimals is not None and a.dtype.kind in "fc":
            a = np.round(a, decimals) + 0.0          # + 0.0 folds -0.0 into 0.0
        h.update(b"a" + str(a.dtype).encode() + str(a.shape).encode())
        h.update(a.tobytes())
    elif isinstance(obj, (tuple, list)):
        h.update(b"(" + str(len(obj)).encode())
        for o in obj:
            _feed(h, o, decimals)
        h.update(b")")
    elif isinstance(obj, dict):
        h.update(b"{")
        for k in sorted(obj, key=repr):
            _feed(h, repr(k), decimals)
            _feed(h, obj[k], decimals)
        h.update(b"}")
    elif hasattr(obj, "times") and hasattr(obj, "states"):
        h.update(b"T")
        _feed(h, np.asarray(obj.times), decimals)
        _feed(h, np.asarray(obj.states), decimals)
    else:
        raise TypeError(f"stamp: cannot project {type(obj)!r}")


def stamp(obj, decimals=None) -> str:
    """Hash of the exact bytes of `obj` (or of its rounding to `decimals` decimals)."""
    h = hashlib.sha1()
    _feed(h, obj, decimals)
    return h.hexdigest()[:16]


class MemoDynsys:
    """While active, `rtbp_dynsys / variational_dynsys / jacobian_dynsys` as seen by the system
    service are memoised by (mu, name).  A CR3BP vector field is a pure function of mu; without this
    every un-pickled System recompiles its right-hand sides with numba (1.5-5 s per operation after
    each load).  The service caches under test are not touched."""

    NAMES = ("rtbp_dynsys", "variational_dynsys", "jacobian_dynsys")

    def __enter__(self):
        import hiten.algorithms.types.services.system as ssys
        self._mod = ssys
        self._orig = {n: getattr(ssys, n) for n in self.NAMES}
        memo = self.memo = {}
        for n, f in self._orig.items():
            def g(mu, name=None, _f=f, _n=n):
                k = (_n, float(mu), name)
                if k not in memo:
                    memo[k] = _f(mu) if name is None else _f(mu, name=name)
                return memo[k]
            setattr(ssys, n, g)
        return self

    def __exit__(self, *exc):
        for n, f in self._orig.items():
            setattr(self._mod, n, f)
        return False


class CacheRecorder:
    """Wraps _CacheServiceBase.get_or_create / reset / set process-wide while active."""

    def __init__(self):
        self.log: list[dict] = []
        self._seq = 0
        self._depth = 0
        self._orig = None

    def __enter__(self):
        from hiten.algorithms.types.services.base import _CacheServiceBase
        rec = self
        cls = _CacheServiceBase
        self._cls = cls
        self._orig = (cls.get_or_create, cls.reset, cls.set)
        o_goc, o_reset, o_set = self._orig

        def get_or_create(self_, key, factory):
            hit = key in self_._cache
            rec._depth += 1
            try:
                val = o_goc(self_, key, factory)
            finally:
                rec._depth -= 1
            rec._seq += 1
            rec.log.append({"e": "goc", "cache": id(self_), "key": key, "hit": hit, "seq": rec._seq,
                            "depth": rec._depth})
            return val

        def reset(self_, key=None):
            r = o_reset(self_, key)
            rec._seq += 1
            rec.log.append({"e": "reset", "cache": id(self_), "key": key, "seq": rec._seq, "depth": rec._depth})
            return r

        def set_(self_, key, value):
            r = o_set(self_, key, value)
            rec._seq += 1
            rec.log.append({"e": "set", "cache": id(self_), "key": key, "seq": rec._seq, "depth": rec._depth})
            return r

        cls.get_or_create, cls.reset, cls.set = get_or_create, reset, set_
        return self

    def __exit__(self, *exc):
        cls = self._cls
        cls.get_or_create, cls.reset, cls.set = self._orig
        return False

    def mark(self) -> int:
        return len(self.log)

    def since(self, mark: int) -> list[dict]:
        return self.log[mark:]

    def clear(self):
        self.log.clear()
