"""BracketSearch.tla <-> expand_bracket (rootfinding.py) and solve_missing_coord (CM interface): every terminal
behaviour of the model (lazily chosen sign landscape on the integer grid) is replayed with a scripted function."""
from __future__ import annotations

import numpy as np

from common import SPEC, Check, MachineryError, tlc


class _Unprobed(BaseException):
    pass


def run(ck: Check):
    import hiten.algorithms.poincare.centermanifold.interfaces as itf_mod
    from hiten.algorithms.types.exceptions import BackendError
    from hiten.algorithms.utils.rootfinding import expand_bracket
    cfgname = "BracketSearch.quick.cfg" if ck.quick else "BracketSearch.thorough.cfg"
    r = tlc(SPEC / "algo" / "MCBracketSearch.tla", SPEC / "cfg" / cfgname, timeout=1800)
    ck.model("BracketSearch." + ck.tier, r)
    beh = r.printed()
    if len(beh) < 200:
        raise MachineryError("BracketSearch emitted too few behaviours")
    max_expand = 3 if ck.quick else 5
    itf = itf_mod._CenterManifoldInterface()
    orig = (itf_mod._polynomial_evaluate, itf_mod.solve_bracketed_brent)
    n = 0
    try:
        for b in beh:
            land = {int(p): int(s) for p, s in b["land"]}
            mode, exp = b["mode"], b["out"]

            def f(x):
                xi = int(round(float(x)))
                if float(xi) != float(x) or xi not in land:
                    raise _Unprobed(f"function evaluated at unscripted point {x!r}")
                return float(land[xi])
            ck.count(("bracket", mode, tuple(sorted(land.items()))), len(land) >= 3)
            n += 1
            got = None
            try:
                if mode.startswith("expand"):
                    try:
                        a, bb = expand_bracket(f, 0.0, dx0=1.0, grow=2.0, max_expand=max_expand,
                                               crossing_test=lambda u, v: u * v < 0, symmetric=(mode == "expand-sym"))
                        got = {"kind": "bracket", "a": int(a), "b": int(bb)}
                    except BackendError:
                        got = {"kind": "raise", "a": 0, "b": 0}
                else:
                    calls = []
                    itf_mod._polynomial_evaluate = lambda H, state, clmo: complex(f(np.real(state[2])))
                    itf_mod.solve_bracketed_brent = lambda fn, a, bb, **kw: (calls.append((a, bb)) or 0.5 * (a + bb))
                    root = itf.solve_missing_coord("q3", {"q2": 0.0, "p2": 0.0, "p3": 0.0}, h0=0.0, H_blocks=None, clmo_table=None,
                                                   initial_guess=1.0, expand_factor=2.0, max_expand=max_expand,
                                                   symmetric=(mode == "lift-sym"))
                    if calls:
                        got = {"kind": "brent", "a": int(calls[0][0]), "b": int(calls[0][1])}
                        if root != 0.5 * (calls[0][0] + calls[0][1]):
                            got["kind"] = "brent-result-not-returned"
                    else:
                        got = {"kind": "none" if root is None else "value-without-brent", "a": 0, "b": 0}
            except _Unprobed as ex:
                got = {"kind": "unscripted", "detail": str(ex)}
            finally:
                itf_mod._polynomial_evaluate, itf_mod.solve_bracketed_brent = orig
            ek = "none" if exp["kind"] == "none-outside" else exp["kind"]
            if got["kind"] != ek or (ek in ("bracket", "brent") and (got["a"], got["b"]) != (exp["a"], exp["b"])):
                site = "expand_bracket" if mode.startswith("expand") else "solve_missing_coord"
                ck.violation(f"{site}|wrong-bracket:{mode}", f"{site} ({mode}) on sign landscape {sorted(land.items())}: got {got}, expected {exp}",
                             {"mode": mode, "land": sorted(land.items()), "expected": exp})
                break
    finally:
        itf_mod._polynomial_evaluate, itf_mod.solve_bracketed_brent = orig
    ck.part("bracket_binding", behaviours=len(beh), replays=n)
