"""X01 -- growth check: Fourier-Taylor kernels and the normal-form -> action-angle transform.

Specs: spec/kernels/FourierPoly.tla (+ MCFourierPoly.tla), requirement side on spec/lib/IPoly.tla,
       spec/lib/PolyIndex.tla, spec/lib/GaussInt.tla.  No listed property anchors this code.

  A. index scheme (fourier/base.py).  TLC checks R1-R4 of FourierPoly (pack/decode mutually inverse on the
     valid box and rejecting outside it; the table of (d, K) lists every admissible index exactly once;
     encoder = inverse of the table = closed form RankF; everything else -> -1) and prints the probes, the
     table rows and the encoder probes; _pack_fourier_index / _decode_fourier_index / _init_fourier_tables /
     _create_encode_dict_fourier / _encode_fourier_index are compared with them as raw integers.  The
     vectorised transcription of PackF / RankF is validated against the TLC rows and then used for complete
     sweeps of large tables (k_max = 63, the silent truncation of k_max > 63).
  B. block algebra (fourier/algebra.py).  TLC generates instances (exhaustive monomial pairs, seeded walks),
     checks the laws of the mathematical definitions (ring, Leibniz, antisymmetry, derivation, Jacobi,
     canonical relations) and that the transcription of the kernels through table/decoder/encoder returns
     the (K-truncated) defined result, and prints what every call must return; each is replayed into the
     compiled kernels and compared exactly (Gaussian integers, == on binary64).
  C. evaluation / gradient / Hessian (algebra.py block level, operations.py list level) at exact points
     (dyadic actions, quarter-turn angles) against the value of the symbolic derivative computed by TLC:
     compiled kernels exactly where binary64 is exact (theta = 0), with a measured tolerance at quarter
     turns, and the py_func source with exp replaced by the exact unit i^(k.t), exactly.
  D. _nf2aa_ee / _nf2aa_sc (bifurcation/transforms.py) against TSubst, the substitution
     q = sqrt(I) e^{i th}, p = -i sqrt(I) e^{-i th}, which TLC validates as an algebra homomorphism that maps
     the (q,p) bracket to the (th,I) bracket and against point evaluation.
"""
from __future__ import annotations

import json
import os
import re
import sys
import threading
import time
from types import SimpleNamespace

import numpy as np

from common import SPEC, Check, MachineryError, tlc

CFG = SPEC / "cfg"
MC = SPEC / "kernels" / "MCFourierPoly.tla"
SENT = (1 << 64) - 1

_L = None


def lib():
    global _L
    if _L is None:
        import numba
        from numba.typed import List
        import hiten.algorithms.bifurcation.transforms as tr
        import hiten.algorithms.fourier.algebra as alg
        import hiten.algorithms.fourier.base as base
        import hiten.algorithms.fourier.operations as ops
        _L = SimpleNamespace(numba=numba, List=List, tr=tr, alg=alg, base=base, ops=ops)
    return _L


_TABS: dict = {}


def tables(D: int, K: int):
    """The library's own tables (in-process memo only; their content is decided in part A)."""
    if (D, K) not in _TABS:
        b = lib().base
        psiF, clmoF = b._init_fourier_tables(D, K)
        _TABS[(D, K)] = (psiF, clmoF, b._create_encode_dict_fourier(clmoF))
    return _TABS[(D, K)]


def word(w) -> int:
    return int(w[0]) + (int(w[1]) << 25) + (int(w[2]) << 39)


# --------------------------------------------------------------------------
# vectorised transcription of FourierPoly.PackF / the enumeration (validated against TLC rows)
# --------------------------------------------------------------------------

def enum3(d: int) -> np.ndarray:
    return np.array([(a, b, d - a - b) for a in range(d, -1, -1) for b in range(d - a, -1, -1)], dtype=np.int64).reshape(-1, 3)


def table_array(d: int, K: int):
    """(tuples (N,6), words (N,) uint64) of FourierPoly.TableF(d, K) for K <= 63."""
    A = enum3(d)
    M = 2 * K + 1
    ks = np.arange(-K, K + 1, dtype=np.int64)
    k1, k2, k3 = np.meshgrid(ks, ks, ks, indexing="ij")
    kk = np.stack([k1.ravel(), k2.ravel(), k3.ravel()], axis=1)
    T = np.empty((A.shape[0] * M ** 3, 6), dtype=np.int64)
    T[:, :3] = np.repeat(A, M ** 3, axis=0)
    T[:, 3:] = np.tile(kk, (A.shape[0], 1))
    W = (T[:, 0] | (T[:, 1] << 6) | (T[:, 2] << 12) | ((T[:, 3] + 64) << 18) | ((T[:, 4] + 64) << 25) | ((T[:, 5] + 64) << 32))
    return T, W.astype(np.uint64)


# --------------------------------------------------------------------------
# observation helpers
# --------------------------------------------------------------------------

def exact_int(x) -> int:
    xf = float(x)
    if not np.isfinite(xf) or float(int(round(xf))) != xf:
        raise ValueError(f"not an exact integer: {x!r}")
    return int(round(xf))


def gauss(z):
    z = complex(z)
    return [exact_int(z.real), exact_int(z.imag)]


def block_obs(arr):
    """{'len', 'c': sorted [[pos, re, im]]} of a coefficient array; ValueError if inexact / wrong kind."""
    arr = np.asarray(arr)
    if arr.ndim != 1:
        raise ValueError(f"result has shape {arr.shape}")
    if arr.dtype != np.complex128:
        raise ValueError(f"result has dtype {arr.dtype}")
    if not np.all(np.isfinite(arr.view(np.float64))):
        raise ValueError("non-finite coefficient")
    return {"len": int(arr.shape[0]), "c": [[int(i)] + gauss(arr[i]) for i in np.flatnonzero(arr != 0)]}


def block_norm(b):
    return {"len": int(b["len"]), "c": sorted([int(t[0]), int(t[1]), int(t[2])] for t in b["c"] if (t[1], t[2]) != (0, 0))}


def place(terms, n, posfield=3):
    a = np.zeros(n, dtype=np.complex128)
    for t in terms:
        a[t[posfield]] += complex(t[1], t[2])
    return a


def deg_of(t):
    return t[0][0] + t[0][1] + t[0][2]


def point_arrays(pt, quarter_units=False):
    I = np.array([m / pt["b"] for m in pt["m"]], dtype=np.float64)
    th = np.array([float(t) for t in pt["t"]], dtype=np.float64)
    if not quarter_units:
        th = th * (np.pi / 2)
    return I, th


def is_pow2_or_zero(m):
    m = abs(int(m))
    return m == 0 or (m & (m - 1)) == 0


class _ExactExpNP:
    """numpy stand-in for the py_func runs: angles are given in quarter turns, exp(1j * n) is the exact unit i^n."""

    def __getattr__(self, name):
        return getattr(np, name)

    @staticmethod
    def exp(z):
        z = complex(z)
        n = int(round(z.imag))
        if z.real != 0.0 or float(n) != z.imag:
            raise MachineryError(f"exact-exp stand-in called with {z!r}")
        return (1 + 0j, 1j, -1 + 0j, -1j)[n % 4]


_PATCH = threading.Lock()


def with_exact_exp(fn, *args):
    alg = lib().alg
    with _PATCH:
        saved = alg.np
        try:
            alg.np = _ExactExpNP()
            return fn(*args)
        finally:
            alg.np = saved


# --------------------------------------------------------------------------
# one case = one call of one library function on one TLC-generated input
# --------------------------------------------------------------------------

def coeff_list(c):
    """typed List of blocks 0..D for the polynomial c['p'] (terms [idx, re, im, pos]); c['empty'] replaces blocks
    without terms by zero-length arrays (the list-level functions skip them)."""
    L = lib()
    psiF, _, _ = tables(c["D"], c["K"])
    lst = L.List()
    for d in range(c["D"] + 1):
        terms = [t for t in c["p"] if deg_of(t) == d]
        if not terms and c.get("empty"):
            lst.append(np.zeros(0, dtype=np.complex128))
        else:
            lst.append(place(terms, int(psiF[d])))
    return lst


def run_case(c: dict):
    L = lib()
    A, O, B, T = L.alg, L.ops, L.base, L.tr
    fn = c["fn"]
    if fn == "_pack_fourier_index":
        w = B._pack_fourier_index(*c["t"])
        out = {"word": int(w)}
        if int(w) != SENT:
            out["decode"] = [int(x) for x in B._decode_fourier_index(np.uint64(int(w)))]
        return out
    if fn == "_encode_fourier_index":
        _, _, enc = tables(c["D"], c["K"])
        return int(B._encode_fourier_index(tuple(int(x) for x in c["t"]), int(c["d"]), enc))
    if fn in ("_nf2aa_ee", "_nf2aa_sc"):
        src = place(c["src"], c["srclen"])
        return block_obs(getattr(T, fn)(src))
    if fn == "nf2aa+evaluate":
        src = place(c["src"], c["srclen"])
        out = T._nf2aa_ee(src)
        daa = c["deg"] // 2
        _, clmoF, _ = tables(daa, c["K"])
        pt = c["pt"]
        I = np.array([float(m * m) for m in pt["m"]])
        th = np.array([float(t) for t in pt["t"]]) * (np.pi / 2)
        return complex(A._fpoly_block_evaluate(out, daa, I, th, clmoF))
    psiF, clmoF, enc = tables(c["D"], c["K"])
    if fn == "_fpoly_add":
        out = np.full(int(psiF[c["dp"]]), np.nan + 0j)
        A._fpoly_add(place(c["p"], int(psiF[c["dp"]])), place(c["q"], int(psiF[c["dq"]])), out)
        return block_obs(out)
    if fn == "_fpoly_scale":
        out = np.full(int(psiF[c["dp"]]), np.nan + 0j)
        A._fpoly_scale(place(c["p"], int(psiF[c["dp"]])), complex(*c["alpha"]), out)
        return block_obs(out)
    if fn == "_fpoly_mul":
        return block_obs(A._fpoly_mul(place(c["p"], int(psiF[c["dp"]])), c["dp"], place(c["q"], int(psiF[c["dq"]])), c["dq"],
                                      psiF, clmoF, enc))
    if fn == "_fpoly_diff_action":
        return block_obs(A._fpoly_diff_action(place(c["p"], int(psiF[c["dp"]])), c["dp"], c["v"], psiF, clmoF, enc))
    if fn == "_fpoly_diff_angle":
        return block_obs(A._fpoly_diff_angle(place(c["p"], int(psiF[c["dp"]])), c["dp"], c["v"], clmoF))
    if fn == "_fpoly_poisson":
        return block_obs(A._fpoly_poisson(place(c["p"], int(psiF[c["dp"]])), c["dp"], place(c["q"], int(psiF[c["dq"]])), c["dq"],
                                          psiF, clmoF, enc))
    if fn == "_make_fourier_poly":
        return block_obs(O._make_fourier_poly(c["d"], psiF))
    # ---- evaluation family: returns {'val': complex, 'grad': [6 complex], 'hess': 6x6 complex} (those that apply)
    pyf = c.get("mode") == "pyfunc"
    I, th = point_arrays(c["pt"], quarter_units=pyf)
    if fn.startswith("_fpoly_block_"):
        blk = place(c["p"], int(psiF[c["dp"]]))
        args = (blk, c["dp"], I, th, clmoF)
        f = getattr(A, fn)
    else:
        args = (coeff_list(c), I, th, clmoF)
        f = getattr(O, fn)
    if pyf:
        if not fn.startswith("_fpoly_block_"):
            raise MachineryError("py_func mode is for the block kernels")
        r = with_exact_exp(f.py_func, *args)
    else:
        r = f(*args)
    if fn in ("_fpoly_block_evaluate", "_fourier_evaluate"):
        return {"val": complex(r)}
    if fn in ("_fpoly_block_gradient", "_fourier_evaluate_with_grad"):
        v, gI, gT = r
        return {"val": complex(v), "grad": [complex(x) for x in gI] + [complex(x) for x in gT]}
    if fn in ("_fpoly_block_hessian", "_fourier_hessian"):
        H = np.asarray(r)
        if H.shape != (6, 6):
            raise ValueError(f"Hessian has shape {H.shape}")
        return {"hess": [[complex(H[i, j]) for j in range(6)] for i in range(6)]}
    raise MachineryError(f"unknown case fn {fn}")


class Bag:
    """Mismatches by structural key: count and the smallest failing input (list-like: append((key, desc, data)))."""

    def __init__(self):
        self.k: dict = {}
        self.n = 0

    def append(self, item):
        key, desc, data = item
        self.n += 1
        size = len(json.dumps(data, default=str))
        cnt, best = self.k.get(key, (0, None))
        if best is None or size < best[2]:
            best = (desc, data, size)
        self.k[key] = (cnt + 1, best)

    def __len__(self):
        return self.n

    def __bool__(self):
        return self.n > 0

    def __getitem__(self, i):
        key = list(self.k)[i]
        return (key, self.k[key][1][0], self.k[key][1][1])

    def other_than(self, suffix):
        return sum(c for key, (c, _) in self.k.items() if not key.endswith(suffix))


def _num_cmp(obs: complex, want, scale_pow: float, tol: float):
    """|obs * scale - want| with want a Gaussian integer [re, im]; returns the error (0.0 = exact)."""
    z = complex(obs) * scale_pow
    if not (np.isfinite(z.real) and np.isfinite(z.imag)):
        return float("inf")
    return abs(z - complex(want[0], want[1]))


def compare(c: dict, obs, stats=None, expect=None):
    """None if the observation agrees with the expectation, else a short description."""
    exp = c["expect"] if expect is None else expect
    fn = c["fn"]
    if fn == "_pack_fourier_index":
        want = SENT if exp == [-1] else word(exp)
        if obs["word"] != want:
            return f"word {obs['word']:#x}, required {want:#x}"
        if want != SENT and obs.get("decode") != list(c["t"]):
            return f"decode(pack(t)) = {obs.get('decode')}"
        return None
    if fn == "_encode_fourier_index":
        return None if obs == exp else f"returned {obs}, required {exp}"
    if fn == "nf2aa+evaluate" or "pt" in c:
        pt = c["pt"]
        scale = float(pt["b"] ** c["evald"]) if fn != "nf2aa+evaluate" else 1.0
        tol = c.get("tol", 0.0)
        worst = None
        items = []
        if fn == "nf2aa+evaluate":
            items.append(("val", obs, exp, tol))
        else:
            if "val" in obs:
                items.append(("val", obs["val"], exp["val"], tol))
            if "grad" in obs:
                for i in range(6):
                    items.append((f"grad[{i}]", obs["grad"][i], exp["grad"][i], tol))
            if "hess" in obs:
                for i in range(6):
                    for j in range(6):
                        mixed = (i < 3) != (j < 3)
                        items.append((f"hess[{i}][{j}]", obs["hess"][i][j], exp["hess"][i][j],
                                      max(tol, c.get("tol_mixed", 0.0)) if mixed else tol))
        ratio = 0.0
        for name, o, w, t in items:
            err = _num_cmp(o, w, scale, t)
            if t > 0.0:
                ratio = max(ratio, err / t)
            if err > t:
                worst = worst or f"{name} = {complex(o) * scale!r} / {pt['b']}^{c.get('evald', 0)}, required {w} / {pt['b']}^{c.get('evald', 0)}"
        if worst is None and stats is not None:          # margins are measured on agreeing cases only
            stats["max_err_over_tol"] = max(stats.get("max_err_over_tol", 0.0), ratio)
            stats["tolerance_cases"] = stats.get("tolerance_cases", 0) + (1 if any(t > 0.0 for *_, t in items) else 0)
        return worst
    # blocks
    if block_norm(obs) != block_norm(exp):
        if obs["len"] != exp["len"]:
            return f"array length {obs['len']}, required {exp['len']}"
        return f"coefficients {str(block_norm(obs)['c'])[:240]}, required {str(block_norm(exp)['c'])[:240]}"
    return None


_OOT_SEEN: dict = {}


def check_case(ck: Check, c: dict, bad: list, nontrivial=True, stats=None):
    if c.get("oot"):
        # DevOutTab: the result degree has no table, so no array can hold the defined bracket; what the kernel does
        # there is recorded as an observation and never judged (the requirement is silent outside the tables)
        try:
            o = run_case(c)
            beh = f"returns an array of length {o['len']} with {len(o['c'])} non-zero entries"
        except MachineryError:
            raise
        except Exception as ex:
            beh = f"raises {type(ex).__name__}"
        _OOT_SEEN[beh] = _OOT_SEEN.get(beh, 0) + 1
        ck.count(("oot", json.dumps(c.get("p")), json.dumps(c.get("q"))), False)
        return True
    try:
        obs = run_case(c)
        err = None
    except MachineryError:
        raise
    except Exception as ex:
        obs, err = None, f"{type(ex).__name__}: {str(ex)[:200]}"
    ck.count((c["fn"], c.get("mode"), json.dumps(c.get("p")), json.dumps(c.get("q")), json.dumps(c.get("src")), json.dumps(c.get("t")),
              c.get("d"), c.get("v"), json.dumps(c.get("pt")), c.get("empty"), c.get("K"), c.get("D")), nontrivial)
    if err is not None:
        bad.append((f"{c['fn']}|raises-or-inexact", f"{c['fn']} on an exact instance: {err}", dict(c, observed=err)))
        return False
    why = compare(c, obs, stats)
    if why is None:
        return True
    key = f"{c['fn']}|result-differs-from-definition"
    if "asis" in c and compare(c, obs, None, expect=c["asis"]) is None:
        key = f"{c['fn']}|derivative-lost-at-zero-action"
        why += "  [the value is the one of the divide-by-I formula with its I = 0 guard, FourierPoly.CodeGradN/CodeHessN]"
    bad.append((key, f"{c['fn']}{' (py_func)' if c.get('mode') == 'pyfunc' else ''}: {why}", dict(c, observed=json.loads(json.dumps(obs, default=str)))))
    return False


# --------------------------------------------------------------------------
# A. index scheme
# --------------------------------------------------------------------------

def check_pack(ck: Check, bad: list, r):
    B = lib().base
    recs = [x for x in r.printed() if x.get("kind") == "pack"]
    if len(recs) != 1 or len(recs[0]["probes"]) < 1000:
        raise MachineryError("pack family printed no probes")
    if (B._N_MASK, B._K_MASK, B._K_OFFSET, B._MAX_N, B._MAX_K) != (63, 127, 64, 63, 63):
        bad.append(("fourier.base|bit-field-constants", f"constants {(B._N_MASK, B._K_MASK, B._K_OFFSET, B._MAX_N, B._MAX_K)} differ from the "
                    "documented 6/7-bit layout (63, 127, 64, 63, 63)", {"fn": "constants"}))
    nvalid = 0
    for t, w in recs[0]["probes"]:
        c = dict(fn="_pack_fourier_index", t=t, expect=w)
        nvalid += w != [-1]
        check_case(ck, c, bad, w != [-1])
    sent = [int(x) for x in B._decode_fourier_index(np.uint64(SENT))]
    ck.count(("decode-sentinel",), False)
    if sent != [63] * 6:
        bad.append(("_decode_fourier_index|sentinel", f"decode(0xFFFFFFFFFFFFFFFF) = {sent}, bit fields give (63,)*6", {"fn": "decode-sentinel"}))
    ck.part("pack", probes=len(recs[0]["probes"]), valid=nvalid)
    return recs[0]["probes"]


def check_index(ck: Check, bad: list, r):
    L = lib()
    B, nb = L.base, L.numba
    rows = [x for x in r.printed() if x.get("kind") == "table"]
    if not rows:
        raise MachineryError("index family printed no table rows")
    nprobe = 0
    for row in rows:
        d, K, D = row["d"], row["K"], row["D"]
        # (1) the harness' vectorised transcription against TLC (machinery self-check)
        T, W = table_array(d, K)
        if T.tolist() != row["tuples"] or [int(w) for w in W] != [word(w) for w in row["words"]] or row["psi"] != T.shape[0]:
            raise MachineryError(f"harness transcription of TableF disagrees with TLC at d={d}, K={K}")
        # (2) the library's tables against TLC's row
        psiF, clmoF, enc = tables(D, K)
        ck.count(("table-row", d, K), True, n=T.shape[0])
        data = {"fn": "table", "d": d, "K": K, "D": D}
        if psiF.shape != (D + 1,) or len(clmoF) != D + 1 or len(enc) != D + 1:
            bad.append(("_init_fourier_tables|shape", f"tables for degree {D}: psiF {psiF.shape}, {len(clmoF)} arrays, {len(enc)} dictionaries", data))
            continue
        if int(psiF[d]) != row["psi"]:
            bad.append(("_init_fourier_tables|psiF", f"psiF[{d}] = {int(psiF[d])} for k_max {K}, number of admissible indices is {row['psi']}", data))
        arr = np.asarray(clmoF[d])
        if arr.dtype != np.uint64 or arr.shape != W.shape or not np.array_equal(arr, W):
            pos = int(np.flatnonzero(arr != W)[0]) if arr.shape == W.shape else -1
            bad.append(("_init_fourier_tables|clmoF", f"clmoF[{d}] (k_max {K}) differs from the table of the specification "
                        f"(first at slot {pos}, lengths {arr.shape[0]} / {W.shape[0]}, dtype {arr.dtype})", data))
        ed = enc[d]
        if len(ed) != W.shape[0] or any((np.int64(w) not in ed) or int(ed[np.int64(w)]) != j for j, w in enumerate(W.astype(np.int64))):
            bad.append(("_create_encode_dict_fourier|not-inverse", f"encode dictionary of degree {d} (k_max {K}) is not the inverse of the table", data))
        for j in range(T.shape[0]):
            dec = [int(x) for x in B._decode_fourier_index(arr[j] if j < arr.shape[0] else np.uint64(0))]
            if dec != row["tuples"][j]:
                bad.append(("_decode_fourier_index|wrong-index", f"decode(clmoF[{d}][{j}]) = {dec}, slot holds {row['tuples'][j]}", dict(data, pos=j)))
                break
        for t, e, want in row["probes"]:
            nprobe += 1
            check_case(ck, dict(fn="_encode_fourier_index", t=t, d=e, D=D, K=K, expect=want), bad, want >= 0)
    ck.part("index", table_rows=len(rows), encoder_probes=nprobe)

    # (3) complete sweeps with the validated transcription: large k_max, the silent truncation of k_max > 63
    @nb.njit(cache=False)
    def sweep(W, T, d, clmo_, enc_):
        nbad = 0
        if clmo_[d].shape[0] != W.shape[0] or len(enc_[d]) != W.shape[0]:
            return -1
        for pos in range(W.shape[0]):
            if clmo_[d][pos] != W[pos]:
                nbad += 1
                continue
            key = np.int64(W[pos])
            if key not in enc_[d] or enc_[d][key] != pos:
                nbad += 1
                continue
            n1, n2, n3, k1, k2, k3 = B._decode_fourier_index(clmo_[d][pos])
            if n1 != T[pos, 0] or n2 != T[pos, 1] or n3 != T[pos, 2] or k1 != T[pos, 3] or k2 != T[pos, 4] or k3 != T[pos, 5]:
                nbad += 1
                continue
            if B._encode_fourier_index((n1, n2, n3, k1, k2, k3), d, enc_) != pos:
                nbad += 1
        return nbad

    plans = [(2, 7, 7), (0, 70, 63)] if ck.quick else [(3, 9, 9), (1, 63, 63), (0, 64, 63), (0, 70, 63), (6, 3, 3)]
    total = 0
    t0 = time.time()
    for D, kreq, keff in plans:
        try:
            psiF, clmoF = B._init_fourier_tables(D, kreq)
            enc = B._create_encode_dict_fourier(clmoF)
        except Exception as ex:
            bad.append(("_init_fourier_tables|raises", f"_init_fourier_tables({D}, {kreq}) / _create_encode_dict_fourier raised {type(ex).__name__}: "
                        f"{str(ex)[:160]} (documented: k_max <= 63, larger values are truncated)", {"fn": "table-sweep", "D": D, "kreq": kreq, "keff": keff, "d": 0}))
            continue
        for d in range(D + 1):
            T, W = table_array(d, keff)
            total += T.shape[0]
            ck.count(("table-sweep", D, kreq, d), True, n=T.shape[0])
            nbad = -1 if int(psiF[d]) != T.shape[0] else int(sweep(W, T, d, clmoF, enc))
            if nbad != 0:
                bad.append(("_init_fourier_tables|sweep", f"k_max {kreq} (effective {keff}), degree {d}: {nbad} of {T.shape[0]} slots disagree with "
                            "PackF/RankF (clmoF, encode dictionary, decoder or encoder)", {"fn": "table-sweep", "D": D, "kreq": kreq, "keff": keff, "d": d}))
        del psiF, clmoF, enc
    ck.part("index", sweep_entries=total, sweep_plans=[list(p) for p in plans], sweep_s=round(time.time() - t0, 1))
    # observation (DevKTrunc): the degree limit is not enforced
    try:
        psi64, clmo64 = B._init_fourier_tables(64, 0)
        ns = int(np.sum(np.asarray(clmo64[64]) == np.uint64(SENT)))
    except Exception as ex:
        ns = f"(raises {type(ex).__name__})"
    ck.notes.append(f"_init_fourier_tables(64, 0): clmoF[64] contains {ns} sentinel words (n_i = 64 does not fit 6 bits); k_max > 63 is "
                    "truncated silently but degree > 63 is not rejected (outside the admissible domain, not decided)")


def replay_table(data):
    """--replay of a table-level finding: rebuild and compare with the harness transcription."""
    B = lib().base
    D, K = data.get("D", data.get("d", 0)), data.get("kreq", data.get("K", 0))
    keff = data.get("keff", min(K, 63))
    psiF, clmoF = B._init_fourier_tables(D, K)
    enc = B._create_encode_dict_fourier(clmoF)
    d = data["d"]
    T, W = table_array(d, keff)
    arr = np.asarray(clmoF[d])
    ok = int(psiF[d]) == T.shape[0] and arr.shape == W.shape and np.array_equal(arr, W) and len(enc[d]) == W.shape[0] and \
        all(int(enc[d][np.int64(w)]) == j for j, w in enumerate(W.astype(np.int64)) if np.int64(w) in enc[d]) and \
        all([int(x) for x in B._decode_fourier_index(arr[j])] == T[j].tolist() for j in range(0, T.shape[0], max(1, T.shape[0] // 5000)))
    print(json.dumps({"table": [D, K, d], "agrees": bool(ok)}))
    return ok


# --------------------------------------------------------------------------
# B + C. cases of one algebra instance
# --------------------------------------------------------------------------

def alg_cases(x: dict, pyfunc: bool):
    K, D, dp, dq = x["K"], x["D"], x["dp"], x["dq"]
    P, Q = x["p"], x["q"]
    base = dict(K=K, D=D, p=P, dp=dp)
    out = []
    hom = x["shape"] in ("hom", "mono")
    if hom:
        if x["add"]["len"] >= 0:
            out.append(dict(base, fn="_fpoly_add", q=Q, dq=dq, expect=x["add"]))
        out.append(dict(base, fn="_fpoly_scale", alpha=x["scalec"], expect=x["scale"]))
        if x["mul"]["len"] >= 0:
            out.append(dict(base, fn="_fpoly_mul", q=Q, dq=dq, expect=x["mul"]))
        for v in range(3):
            out.append(dict(base, fn="_fpoly_diff_action", v=v, expect=x["diffI"][v]))
            out.append(dict(base, fn="_fpoly_diff_angle", v=v, expect=x["diffT"][v]))
        out.append(dict(base, fn="_fpoly_poisson", q=Q, dq=dq, expect=x["poisson"], oot=x["poissonoot"]))
    # scale of the rounding error for the tolerance runs: sum of |term| (numerator units) times the largest derivative factor
    for i, pt in enumerate(x["pts"]):
        S = sum(abs(complex(t[1], t[2])) * np.prod([max(abs(float(m)), 1.0) ** n for m, n in zip(pt["m"], t[0][:3])]) * pt["b"] ** (x["evald"] - deg_of(t))
                * max(1, max(t[0][:3])) ** 2 * max(1, max(abs(k) for k in t[0][3:])) ** 2 * 16 for t in P) + 1.0
        exact = all(t == 0 for t in pt["t"])
        tol = 0.0 if exact else 1e-10 * S
        pow2 = all(is_pow2_or_zero(m) for m in pt["m"])
        tol_mixed = 0.0 if pow2 else 1e-10 * S       # Hessian action-angle block forms n/I first: inexact unless I is a power of two
        zero = any(m == 0 for m in pt["m"])
        e = dict(val=x["val"][i], grad=x["grad"][i], hess=x["hess"][i])
        ev = dict(base, pt=pt, evald=x["evald"], tol=tol, tol_mixed=tol_mixed, expect=e, tag=i)
        if zero:
            ev["asis"] = dict(val=x["val"][i], grad=x["gradasis"][i], hess=x["hessasis"][i])
        if hom:
            for fn in ("_fpoly_block_evaluate", "_fpoly_block_gradient", "_fpoly_block_hessian"):
                out.append(dict(ev, fn=fn))
                if pyfunc and not exact:
                    out.append(dict(ev, fn=fn, mode="pyfunc", tol=0.0))
        for fn in ("_fourier_evaluate", "_fourier_evaluate_with_grad", "_fourier_hessian"):
            out.append(dict(ev, fn=fn, empty=bool(i % 2)))
    return out


def nf_cases(h: dict):
    out = []
    exp = {"len": h["len"], "c": [[t[0], t[1], t[2]] for t in h["c"]]}
    for fn in ("_nf2aa_ee", "_nf2aa_sc"):
        out.append(dict(fn=fn, src=h["src"], srclen=h["srclen"], deg=h["deg"], expect=exp))
    if h["deg"] % 2 == 0:
        for i, pt in enumerate(h["pts"]):
            S = sum(abs(complex(t[1], t[2])) * np.prod([float(m) ** (a + b) for m, a, b in zip(pt["m"], t[0][:3], t[0][3:])]) for t in h["src"]) + 1.0
            exact = all(t == 0 for t in pt["t"])
            out.append(dict(fn="nf2aa+evaluate", src=h["src"], srclen=h["srclen"], deg=h["deg"], K=h["K"], pt=pt, evald=0,
                            tol=0.0 if exact else 1e-10 * S, expect=h["val"][i]))
    return out


# --------------------------------------------------------------------------
# binding self-test: a corrupted expectation must be reported
# --------------------------------------------------------------------------

def selftest(ck: Check, alg_insts: list, nf_insts: list, pack_probes: list):
    """Each comparator must reject a corrupted expectation.  The corruption is applied to a case that agrees
    uncorrupted (on a tree where the case itself disagrees a violation is reported anyway and the self-test of that
    comparator is skipped: a corrupted expectation could coincide with the wrong result)."""
    probe = Check.__new__(Check)          # throw-away counter, nothing is recorded in the evidence
    probe.cov = {"evaluations": 0}
    probe._distinct = set()
    done = {}

    def must_fail(name, c, corrupt):
        c = json.loads(json.dumps(c))
        c.pop("asis", None)
        bad = Bag()
        check_case(probe, c, bad)
        if bad:
            done[name] = "skipped: the uncorrupted case disagrees (" + bad[0][0] + ")"
            return
        corrupt(c)
        check_case(probe, c, bad)
        if not bad:
            raise MachineryError(f"binding self-test '{name}': a corrupted expectation was accepted")
        done[name] = bad[0][0]

    def bump(path):
        def f(c):
            o = c["expect"]
            for k in path[:-1]:
                o = o[k]
            o[path[-1]] += 1
        return f

    x = next(x for x in alg_insts if x["shape"] in ("hom", "mono") and x["mul"]["len"] > 0 and x["mul"]["c"] and x["poisson"]["c"]
             and any(g != [0, 0] for g in x["grad"][1]))
    cs = {c["fn"] + str(c.get("tag", "")): c for c in alg_cases(x, False)}
    must_fail("mul-coefficient+1", cs["_fpoly_mul"], bump(["c", 0, 1]))
    must_fail("mul-slot+1", cs["_fpoly_mul"], bump(["c", 0, 0]))
    must_fail("mul-length+1", cs["_fpoly_mul"], bump(["len"]))
    must_fail("poisson-coefficient+1", cs["_fpoly_poisson"], bump(["c", 0, 2]))
    must_fail("diff_angle-length+1", cs["_fpoly_diff_angle0"] if "_fpoly_diff_angle0" in cs else cs["_fpoly_diff_angle"], bump(["len"]))
    j = next(j for j, g in enumerate(cs["_fpoly_block_gradient1"]["expect"]["grad"]) if g != [0, 0])
    must_fail("gradient+1unit-at-quarter-turn", cs["_fpoly_block_gradient1"], bump(["grad", j, 0]))     # one unit of 4^-D must exceed the tolerance
    must_fail("value+1unit-at-quarter-turn", cs["_fpoly_block_evaluate3"], bump(["val", 1]))
    must_fail("hessian+1unit", cs["_fourier_hessian0"], bump(["hess", 3, 3, 0]))
    h = next(h for h in nf_insts if h["c"] and h["deg"] % 2 == 0)
    ncs = nf_cases(h)
    must_fail("nf2aa-coefficient+1", ncs[0], bump(["c", 0, 1]))
    must_fail("nf2aa-slot+1", ncs[1], bump(["c", 0, 0]))

    def bump_val(c):
        c["expect"][0] += 1
    must_fail("nf2aa+evaluate-value+1", ncs[3], bump_val)
    t, w = next((t, w) for t, w in pack_probes if w != [-1])
    must_fail("pack-word+2^25", dict(fn="_pack_fourier_index", t=t, expect=w), bump([1]))
    ck.part("selftest", corrupted_expectations_detected=done)


# --------------------------------------------------------------------------
# main
# --------------------------------------------------------------------------

def _bg(fn):
    box = {}

    def run():
        try:
            box["r"] = fn()
        except BaseException as ex:  # noqa
            box["e"] = ex
    th = threading.Thread(target=run, daemon=True)
    th.start()
    return th, box


def main(tier=None, replay=None):
    if replay:
        replay = os.path.abspath(replay)          # Check() moves the process to the scratch directory
    ck = Check("X01", "model_checking", tier)
    if replay:
        return replay_one(json.load(open(replay))["data"], replay)
    q = ck.quick

    def gen():
        out = {}
        out["pack"] = tlc(MC, CFG / "FourierPoly.pack.cfg", workers=2, timeout=600)
        out["index"] = tlc(MC, CFG / f"FourierPoly.index.{ck.tier}.cfg", workers=2, timeout=1500)
        return out

    def gen2():
        out = {}
        out["mono"] = tlc(MC, CFG / f"FourierPoly.{ck.tier}.cfg", workers=6, timeout=1500)
        if not q:          # K = 1 tables as well: products of |k| = 1 terms leave the table there (DevTrunc)
            out["mono1"] = tlc(MC, CFG / "FourierPoly.quick.cfg", workers=6, timeout=1500)
        return out

    def gen4():
        return {"zeroaction": tlc(MC, CFG / "FourierPoly.zeroaction.cfg", workers=2, timeout=600)}

    def gen3():
        out = {}
        out["walk"] = tlc(MC, CFG / "FourierPoly.walk.cfg", simulate="num=%d" % (60 if q else 1500), seed=ck.seed, depth=100,
                          workers=4, timeout=1500)
        out["walkbig"] = tlc(MC, CFG / "FourierPoly.walkbig.cfg", simulate="num=%d" % (15 if q else 600), seed=ck.seed + 1, depth=140,
                             workers=4, timeout=1500)
        out["nfmono"] = tlc(MC, CFG / f"FourierPoly.nfmono.{ck.tier}.cfg", workers=4, timeout=1500)
        out["nfwalk"] = tlc(MC, CFG / "FourierPoly.nfwalk.cfg", simulate="num=%d" % (100 if q else 2000), seed=ck.seed + 2, depth=100,
                            workers=4, timeout=1500)
        return out
    ths = [_bg(g) for g in (gen, gen2, gen3, gen4)]
    lib()
    runs = {}
    bad = Bag()

    def join(i):
        th, box = ths[i]
        th.join()
        if "e" in box:
            raise box["e"]
        runs.update(box["r"])

    # A
    join(0)
    ck.model("FourierPoly.pack", runs["pack"])
    ck.model("FourierPoly.index." + ck.tier, runs["index"])
    t0 = time.time()
    pack_probes = check_pack(ck, bad, runs["pack"])
    check_index(ck, bad, runs["index"])
    ck.part("index", wall_s=round(time.time() - t0, 1))

    # B, C
    join(1)
    join(2)
    join(3)
    ck.model("FourierPoly.mono." + ck.tier, runs["mono"])
    ck.model("FourierPoly.nfmono." + ck.tier, runs["nfmono"])
    if "mono1" in runs:
        ck.model("FourierPoly.mono.quick", runs["mono1"])
    rz = runs["zeroaction"]
    ck.model("FourierPoly.zeroaction", rz, expect_ok=False)
    if rz.invariant_violated != "InvDerivEverywhere":
        raise MachineryError("the as-found transcription of the gradient/Hessian formulas satisfies the requirement at zero actions in the "
                             "model: the transcription or the points changed\n" + rz.out[-1500:])
    ck.part("FourierPoly.zeroaction", refuted="InvDerivEverywhere (model of the divide-by-I formulas, DevZeroI)")
    for nm in ("walk", "walkbig", "nfwalk"):
        if runs[nm].error or not runs[nm].ok:
            raise MachineryError(f"FourierPoly {nm} generation failed: {runs[nm].error or runs[nm].invariant_violated}\n"
                                 + runs[nm].counterexample()[:3000] + runs[nm].out[-1500:])
        m = re.search(r"The number of states generated: (\d+)", runs[nm].out)
        nst = int(m.group(1)) if m else 0
        ck.part("FourierPoly." + nm, states_checked=nst, wall_s=round(runs[nm].wall, 1))
        ck.cov["states"] += nst
        ck.cov["transitions"] += nst
    alg_insts, seen = [], set()
    for nm in ("mono", "mono1", "walk", "walkbig"):
        for x in (runs[nm].printed() if nm in runs else []):
            if x.get("kind") == "alg":
                k = json.dumps([x["p"], x["q"], x["shape"], x["K"], x["D"], x["dp"], x["dq"]], sort_keys=True)
                if k not in seen:
                    seen.add(k)
                    alg_insts.append(x)
    nf_insts, seen = [], set()
    for nm in ("nfmono", "nfwalk"):
        for x in runs[nm].printed():
            if x.get("kind") == "nf":
                for h in (x["f"], x["g"]):
                    k = json.dumps([h["deg"], h["src"]], sort_keys=True)
                    if k not in seen:
                        seen.add(k)
                        nf_insts.append(h)
    if len(alg_insts) < 200 or len(nf_insts) < 100:
        raise MachineryError(f"too few instances generated (algebra {len(alg_insts)}, nf2aa {len(nf_insts)})")
    ck.part("instances", algebra=len(alg_insts), algebra_with_truncation=sum(1 for x in alg_insts if x["trunc"]),
            poisson_out_of_table=sum(1 for x in alg_insts if x["poissonoot"]),
            nf2aa=len(nf_insts), nf2aa_with_dropped_monomials=sum(1 for h in nf_insts if h["dropped"]),
            nf2aa_nonzero=sum(1 for h in nf_insts if h["c"]))

    # tables used by the algebra are the ones decided in A (or swept here)
    for (D, K) in sorted({(x["D"], x["K"]) for x in alg_insts}):
        psiF, clmoF, enc = tables(D, K)
        for d in range(D + 1):
            T, W = table_array(d, K)
            if int(psiF[d]) != T.shape[0] or not np.array_equal(np.asarray(clmoF[d]), W):
                bad.append(("_init_fourier_tables|clmoF", f"clmoF[{d}] for (degree {D}, k_max {K}) differs from the table of the specification",
                            {"fn": "table", "d": d, "K": K, "D": D}))
        check_case(ck, dict(fn="_make_fourier_poly", d=D, D=D, K=K, expect={"len": int(table_array(D, K)[0].shape[0]), "c": []}), bad, False)

    t0 = time.time()
    stats: dict = {}
    ncases = 0
    npy = 120 if q else 1200
    for n, x in enumerate(alg_insts):
        nt = bool(x["p"]) and bool(x["q"])
        for c in alg_cases(x, pyfunc=n < npy):
            check_case(ck, c, bad, nt, stats)
            ncases += 1
        if bad.other_than("|derivative-lost-at-zero-action") > 3000:
            break
    ck.part("replay_algebra", cases=ncases, mismatches=len(bad), wall_s=round(time.time() - t0, 1),
            tolerance_rule="quarter-turn points: 1e-10 * sum|term| * derivative factors (numerator units); theta = 0: exact",
            tolerance_cases=stats.get("tolerance_cases", 0), max_err_over_tol=stats.get("max_err_over_tol", 0.0),
            margin_low=(1.0 / stats["max_err_over_tol"]) if stats.get("max_err_over_tol") else None,
            margin_high="a wrong Gaussian-integer numerator differs by >= 1 unit; tol <= 1e-10 * S with S < 1e8, i.e. >= 100x below one unit")
    if stats.get("max_err_over_tol", 0.0) > 1e-2:
        ck.notes.append(f"tolerance margin below 100x: max err/tol = {stats['max_err_over_tol']:.2e}")

    # D
    t0 = time.time()
    nb0 = len(bad)
    stats2: dict = {}
    ncases = 0
    for h in nf_insts:
        for c in nf_cases(h):
            check_case(ck, c, bad, bool(h["c"]), stats2)
            ncases += 1
    ck.part("replay_nf2aa", cases=ncases, mismatches=len(bad) - nb0, wall_s=round(time.time() - t0, 1),
            max_err_over_tol=stats2.get("max_err_over_tol", 0.0))

    selftest(ck, alg_insts, nf_insts, pack_probes)
    if _OOT_SEEN:
        ck.notes.append("DevOutTab observation (not judged): _fpoly_poisson with deg_p + deg_q - 1 beyond the tables " +
                        "; ".join(f"{k} [{v} calls]" for k, v in sorted(_OOT_SEEN.items())) +
                        "; the as-found model (FourierPoly.CodePoisson) predicts a 1-element zero array")
    for x in alg_insts:
        if len(x["p"]) >= 2 and len(x["q"]) >= 2 and x["poisson"]["c"]:
            ck.sample({"p": x["p"], "q": x["q"], "K": x["K"], "poisson": x["poisson"]}, cap=3)
    for h in nf_insts:
        if len(h["c"]) >= 2:
            ck.sample({"nf": h["src"], "aa": h["c"], "K": h["K"]}, cap=5)

    for key, (n, (desc, data, _)) in sorted(bad.k.items()):
        ck.violation(key, f"{desc}  [{n} failing case(s) with this key]", data)

    ck.cov["rule"] = ("one evaluation = one call of one library function on one TLC-generated input (or one table slot in the sweeps); "
                      "distinct = distinct (function, mode, inputs, point, parameters); non-trivial = non-zero operands / valid probe; "
                      "instances = exhaustive monomial pairs + -simulate walks seeded by VERIF_SEED")
    ck.cov["exhaustive"] = True
    ck.assumptions += [
        "coefficients are Gaussian integers and actions dyadic, so every partial sum is exact in binary64 and == is the correct comparison; "
        "rounding-level behaviour for general coefficients is not decided",
        "non-zero angles are quarter turns: the compiled kernels are compared with a measured tolerance there (exp is not exact), the "
        "py_func source is compared exactly with exp replaced by the exact unit; other angles are not decided",
        "complex128 blocks only (float64 blocks do not compile in _fpoly_diff_action/_fpoly_diff_angle: return/element types do not unify)",
        "_fpoly_mul / _fpoly_add are called only with operands and result degree inside the tables (no bounds guard in the kernels)",
        "tables up to degree 6 and k_max 63; the cap min(k, 63) inside _nf2aa is unreachable (the global polynomial tables end at degree 30)",
    ]
    ck.notes.append("named deviations modelled in FourierPoly.tla: DevTrunc (K-truncated product), DevOutTab (_fpoly_poisson returns a 1-element "
                    "zero array when the result degree has no table), DevOddDrop, DevSC (_nf2aa_sc = _nf2aa_ee), DevKTrunc, DevZeroI")
    return ck.finish()


def replay_one(data: dict, path: str) -> int:
    lib()
    if data.get("fn") in ("table", "table-sweep"):
        ok = replay_table(data)
    elif data.get("fn") in ("constants", "decode-sentinel"):
        B = lib().base
        print((B._N_MASK, B._K_MASK, B._K_OFFSET, B._MAX_N, B._MAX_K), B._decode_fourier_index(np.uint64(SENT)))
        ok = (B._N_MASK, B._K_MASK, B._K_OFFSET, B._MAX_N, B._MAX_K) == (63, 127, 64, 63, 63) and \
            [int(v) for v in B._decode_fourier_index(np.uint64(SENT))] == [63] * 6
    else:
        c = {k: v for k, v in data.items() if k != "observed"}
        try:
            obs = run_case(c)
            why = compare(c, obs)
        except MachineryError:
            raise
        except Exception as ex:
            obs, why = None, f"{type(ex).__name__}: {ex}"
        print(json.dumps({"fn": c["fn"], "observed": obs, "expected": c["expect"], "verdict": why}, default=str)[:4000])
        ok = why is None
    if not ok:
        print(f"VIOLATION property=X01 replay={path}")
        return 1
    return 0


if __name__ == "__main__":
    sys.exit(main())
