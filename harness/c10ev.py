"""C10 add-on: direction and time stamps of `_propagate_dynsys` when a terminal event fires.  Decided by TLC (Contracts.tla).

"Propagating with direction -1 for a duration t yields the state the flow had at time -t ... returned time stamps are
non-positive and decreasing for every method": the model-bound family of c10.py runs `_propagate_dynsys` without events;
with a terminal event the integrators take a different return path (two samples: start, hit).  Flow: the rotation
x' = y, y' = -x (generic) / the harmonic polynomial Hamiltonian (fast paths and the symplectic scheme), event x = 0.3.
      stamp_sign   max(0, forward * t_k) over the returned time stamps (0 = all stamps have the sign of the direction)
      monotone     0 if |t| increases strictly along the returned samples, else 1
      hit_time     | |t_last| - t* |, t* = first crossing time of x = 0.3 along the requested direction
      on_flow      | y_last - exact flow(t_last as returned) |   -- the stamp and the state belong together
"""
from __future__ import annotations

import itertools
import math

import numpy as np

from common import Check, ContractSet


def run(ck: Check):
    import numba
    from numba import types
    from numba.typed import List
    from hiten.algorithms.dynamics.base import _propagate_dynsys
    from hiten.algorithms.dynamics.hamiltonian import create_hamiltonian_system
    from hiten.algorithms.dynamics.rhs import create_rhs_system
    from hiten.algorithms.polynomial.base import _create_encode_dict_from_clmo, _init_index_tables
    from hiten.algorithms.types.configs import EventConfig
    from hiten.algorithms.types.options import EventOptions
    import polyutil as pu

    rot = create_rhs_system(numba.njit(cache=False)(lambda t, y: np.array([y[1], -y[0]])), 2, "rotation")
    psi, clmo = _init_index_tables(2)
    enc = _create_encode_dict_from_clmo(clmo)
    ks = pu.enum(2)
    blk = np.zeros(len(ks), dtype=np.complex128)
    for i, k in enumerate(ks):
        if tuple(k) in ((2, 0, 0, 0, 0, 0), (0, 0, 0, 2, 0, 0)):
            blk[i] = 0.5
    H = List()
    H.append(np.zeros(1, dtype=np.complex128))
    H.append(np.zeros(6, dtype=np.complex128))
    H.append(blk)
    ham = create_hamiltonian_system(H, 2, psi, clmo, enc, n_dof=3)
    g = numba.njit(types.float64(types.float64, types.float64[:]), cache=False)(lambda t, y: y[0] - 0.3)
    th0 = 0.4                       # x(t) = cos(t - th0), y(t) = -sin(t - th0)
    a = math.acos(0.3)

    def first_crossing(sgn):
        # smallest s > 0 with cos(sgn * s - th0) = 0.3
        cands = [sgn * (th0 + a + 2 * math.pi * k) for k in range(-2, 3)] + [sgn * (th0 - a + 2 * math.pi * k) for k in range(-2, 3)]
        return min(s for s in cands if s > 1e-9)

    cs = ContractSet(ck, "propagate_with_event_contracts")
    T = 3.0
    cases = [("fixed", 8, False), ("fixed", 4, True), ("adaptive", 8, False), ("adaptive", 5, True), ("adaptive", 8, True), ("adaptive", 5, False),
             ("symplectic", 4, True), ("symplectic", 6, True)]
    for (method, order, hamlike), fwd in itertools.product(cases, (1, -1)):
        dim, ip = (6, 3) if hamlike else (2, 1)
        y0 = np.zeros(dim)
        y0[0], y0[ip] = math.cos(th0), math.sin(th0)
        label = f"_propagate_dynsys|{method}{order}|{'ham' if hamlike else 'generic'}|forward={fwd}|terminal-event"
        kw = dict(rtol=1e-11, atol=1e-11, max_step=0.2) if method == "adaptive" else {}
        try:
            sol = _propagate_dynsys(ham if hamlike else rot, y0.copy(), 0.0, T, forward=fwd, steps=3001, method=method, order=order,
                                    event_fn=g, event_cfg=EventConfig(direction=0, terminal=True),
                                    event_options=EventOptions(xtol=1e-10, gtol=1e-12), **kw)
        except Exception as ex:  # noqa
            ck.notes.append(f"{label} raised {type(ex).__name__}: {str(ex)[:120]} (a rejection is allowed)")
            continue
        ts, ys = np.asarray(sol.times, dtype=float), np.asarray(sol.states, dtype=float)
        bnd = -35 if method == "symplectic" else -60
        tr = cs.trace(label, {"stamp_sign": -120, "monotone": -100, "hit_time": bnd, "on_flow": bnd},
                      {"method": method, "order": order, "ham": hamlike, "forward": fwd})
        ck.count(("propagate-event", label), True)
        cs.obs(tr, "stamp_sign", float(max(0.0, np.max(-fwd * ts))))
        cs.obs(tr, "monotone", 0.0 if (len(ts) >= 2 and np.all(np.diff(np.abs(ts)) > 0)) else 1.0)
        cs.obs(tr, "hit_time", abs(abs(ts[-1]) - first_crossing(fwd)))
        tl = float(ts[-1])
        cs.obs(tr, "on_flow", max(abs(ys[-1, 0] - math.cos(tl - th0)), abs(ys[-1, ip] + math.sin(tl - th0))))
        if len(ck.cov["samples"]) < 16 and fwd == -1:
            ck.sample({"propagate_event_case": label, "times": ts.tolist(), "t_exact": -first_crossing(-1)})
    # short spans on fine grids: "samples are returned exactly at the requested times" also when the grid spacing is tiny.  The
    # implementation answers spans with |tf - t0| <= 1e-8 (np.isclose default) without integrating - a deliberate shortcut whose
    # error is below 1e-8 |f|; the cases here stay above that threshold (and include the exact zero span)
    for (method, order, hamlike), fwd, (tf, steps) in itertools.product(cases[:5], (1, -1), ((1e-5, 2001), (2e-5, 2000), (1e-7, 11), (0.0, 4))):
        dim, ip = (6, 3) if hamlike else (2, 1)
        y0 = np.zeros(dim)
        y0[0], y0[ip] = math.cos(th0), math.sin(th0)
        label = f"_propagate_dynsys|{method}{order}|{'ham' if hamlike else 'generic'}|forward={fwd}|short-span tf={tf:g} steps={steps}"
        kw = dict(rtol=1e-12, atol=1e-12) if method == "adaptive" else {}
        try:
            sol = _propagate_dynsys(ham if hamlike else rot, y0.copy(), 0.0, tf, forward=fwd, steps=steps, method=method, order=order, **kw)
        except Exception as ex:  # noqa
            ck.notes.append(f"{label} raised {type(ex).__name__}: {str(ex)[:120]} (a rejection is allowed)")
            continue
        ts, ys = np.asarray(sol.times, dtype=float), np.asarray(sol.states, dtype=float)
        tr = cs.trace(label, {"stamps_are_the_grid": -160, "samples_on_flow": -130},
                      {"method": method, "order": order, "ham": hamlike, "forward": fwd, "part": "short-span"})
        ck.count(("propagate-short-span", label), True)
        grid = fwd * np.linspace(0.0, tf, steps)
        cs.obs(tr, "stamps_are_the_grid", float(np.max(np.abs(ts - grid))) if ts.shape == grid.shape else 1.0)
        ex = np.column_stack([np.cos(ts - th0), -np.sin(ts - th0)])
        cs.obs(tr, "samples_on_flow", float(np.max(np.abs(ys[:, [0, ip]] - ex))) if len(ts) == len(ys) else 1.0)
    # a non-zero epoch: _propagate_dynsys(t0, tf) samples the grid linspace(t0, tf) of ELAPSED integrator time and stamps it with
    # the direction (forward * grid): the k-th state is the flow over forward * (grid[k] - t0) from the initial state, and the
    # zero-length call at the same epoch carries the same first stamp
    for (method, order, hamlike), fwd in itertools.product(cases[:5] + cases[6:7], (1, -1)):
        dim, ip = (6, 3) if hamlike else (2, 1)
        y0 = np.zeros(dim)
        y0[0], y0[ip] = math.cos(th0), math.sin(th0)
        t0e, tfe, steps = 0.75, 2.25, 601      # (the fixed-step drivers integrate ON this grid: h = 0.0025)
        label = f"_propagate_dynsys|{method}{order}|{'ham' if hamlike else 'generic'}|forward={fwd}|epoch t0={t0e}"
        kw = dict(rtol=1e-12, atol=1e-12) if method == "adaptive" else {}
        try:
            sol = _propagate_dynsys(ham if hamlike else rot, y0.copy(), t0e, tfe, forward=fwd, steps=steps, method=method, order=order, **kw)
            zero = _propagate_dynsys(ham if hamlike else rot, y0.copy(), t0e, t0e, forward=fwd, steps=3, method=method, order=order, **kw)
        except Exception as ex:  # noqa
            ck.notes.append(f"{label} raised {type(ex).__name__}: {str(ex)[:120]} (a rejection is allowed)")
            continue
        ts, ys = np.asarray(sol.times, dtype=float), np.asarray(sol.states, dtype=float)
        grid = np.linspace(t0e, tfe, steps)
        bnd = -35 if method == "symplectic" else -90
        tr = cs.trace(label, {"stamps_are_the_grid": -140, "samples_on_flow": bnd, "zero_span_same_epoch": -140},
                      {"method": method, "order": order, "ham": hamlike, "forward": fwd, "part": "non-zero-epoch"})
        ck.count(("propagate-epoch", label), True)
        cs.obs(tr, "stamps_are_the_grid", float(np.max(np.abs(ts - fwd * grid))) if ts.shape == grid.shape else 1.0)
        el = fwd * (grid - t0e)
        ex = np.column_stack([np.cos(el - th0), -np.sin(el - th0)])
        cs.obs(tr, "samples_on_flow", float(np.max(np.abs(ys[:, [0, ip]] - ex))) if len(ys) == len(grid) else 1.0)
        cs.obs(tr, "zero_span_same_epoch", abs(float(np.asarray(zero.times, dtype=float)[0]) - float(ts[0])))
    cs.decide(key_fn=lambda tr, n: f"_propagate_dynsys|{tr['data']['method']}|{'ham' if tr['data']['ham'] else 'generic'}|"
                                   f"forward={tr['data']['forward']}|{tr['data'].get('part', 'terminal-event')}|{n}")
    cs.selftest()
