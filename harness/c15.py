"""C15 -- synodic section detection: every crossing once, on the plane, in order.

Specs: spec/algo/SectionDetect.tla (requirement + transcription of synodic/backend.py, linear paths),
       spec/algo/SectionDetectCurves.tla (accuracy clauses on analytic curves, Hermite kernels),
       spec/trace/SectionDetectTrace.tla (TLC judge of observations recorded from the real code).

  1. TLC exhaustive: transcription (with the last sample examined) => requirement for every sample
     pattern over {-3,-1,0,1,3} up to MaxN, x direction x segment_refine x max_hits; the transcription
     of the unchanged tail handling ("asis") is run too and its outcome recorded.
  2. every pattern TLC enumerated is replayed into _SynodicDetectionBackend.detect_on_trajectory on
     exact (dyadic) instances: 3 time grids, 3 planes, linear (all refine values) and cubic;
     hit times are converted exactly to positions and the observation is judged by TLC.
  3. analytic curves with rational crossings: TLC checks chord crossing within the second-order bound
     and emits true crossings + bounds; linear hits judged exactly, cubic hits against the bound.
  4. _hermite_scalar / _hermite_der replayed exactly against the rational kernels of the spec.
  5. real CR3BP trajectory: detect_on_trajectory, backend.run and SynodicMap.compute observations
     (sign pattern of g, bracket code of the hits) judged by TLC.
  6. binding self-test: corrupted observations (incl. the LAST hit dropped) must be rejected.
"""
from __future__ import annotations

import bisect
import itertools
import json
import math
import os
import random
import shutil
import sys
from fractions import Fraction as Fr

import numpy as np

from common import SPEC, VERIF, Check, MachineryError, tlc, workdir

ALGO = SPEC / "algo" / "MCSectionDetect.tla"
CURVES = SPEC / "algo" / "MCSectionDetectCurves.tla"
JUDGE = SPEC / "trace" / "SectionDetectTrace.tla"
CFG = SPEC / "cfg"

SNAP_DEN = 20000        # chord crossings of every instance have denominators below this (TLC: curves S <= 5776)
SNAP_TOL = 1e-9         # a hit time counts as the rational it snaps to when closer than this (interval units)
SCALE = 100000          # = Scale in SectionDetectCurves.tla
ONPLANE_TOL = 1e-9      # real trajectories: |n.x_hit - c| of a linearly interpolated hit

PLANES = [
    # (normal, offset): the section value of sample k is made equal to the pattern value exactly
    ((1.0, 0.0, 0.0, 0.0, 0.0, 0.0), 0.0),
    ((0.0, 0.0, 1.0, 0.0, 0.0, 0.0), 2.0),
    ((2.0, -1.0, 0.0, 0.0, 1.0, 0.0), 3.0),
]


# --------------------------------------------------------------------------------------------
# binding: instances -> real detector -> integer observations
# --------------------------------------------------------------------------------------------

def base_states(times):
    """Integer-valued trajectory skeleton: y = time (strictly monotone, so distinct hits project to
    distinct (y, vy) plane points -- premise of the point de-duplication), other coordinates small ints."""
    n = len(times)
    k = np.arange(n, dtype=float)
    st = np.zeros((n, 6))
    st[:, 0] = 5.0 - k
    st[:, 1] = np.asarray(times, dtype=float)
    st[:, 2] = k % 3
    st[:, 3] = 2.0 * k + 1.0
    st[:, 4] = k * k - 3.0 * k
    st[:, 5] = -k
    return st


def states_for(gvals, base, plane):
    st = base.copy()
    gv = np.asarray(gvals, dtype=float)
    if plane == 0:
        st[:, 0] = gv
    elif plane == 1:
        st[:, 2] = gv + 2.0
    else:
        st[:, 0] = (gv + 3.0 + st[:, 1] - st[:, 4]) / 2.0
    return st


_backend = None


def backend():
    global _backend
    if _backend is None:
        from hiten.algorithms.poincare.synodic.backend import _SynodicDetectionBackend
        _backend = _SynodicDetectionBackend()
    return _backend


def detect(times, states, plane, interp, r, d, mh):
    normal, offset = PLANES[plane]
    return backend().detect_on_trajectory(
        times, states, normal=np.asarray(normal), offset=offset, plane_coords=("y", "vy"), interp_kind=interp,
        segment_refine=r, direction=(None if d == 0 else d), max_hits_per_traj=(None if mh == 0 else mh))


def locate(th, tl):
    """1-based index i of the last sample with t_i <= th; 0 if before the first; len+1 if after the last."""
    n = len(tl)
    if th < tl[0]:
        return 0
    if th > tl[-1]:
        return n + 1
    return bisect.bisect_right(tl, th)


class Dev:
    state = 0.0      # largest relative distance of an accepted hit state from the chord point / the plane
    snap = 0.0       # largest distance of an accepted hit time from the rational it was identified with
    plane = 0.0      # largest |n.x - c| of an accepted real-trajectory hit


def exact_positions(hits, tl, states, plane, check_state=True):
    """Exact positions <<i, <<num, den>>>> of the hits plus the state flag.  tl: list of float times."""
    n = len(tl)
    pos = []
    sflag = ""
    normal, offset = PLANES[plane]
    for h in hits:
        th = float(h.time)
        i = locate(th, tl)
        if i == 0 or i == n + 1:
            pos.append((n + 1, 0, 1))
            continue
        if i == n or th == tl[i - 1]:
            pos.append((i, 0, 1))
            exp = states[i - 1]
        else:
            dt = tl[i] - tl[i - 1]
            a = (th - tl[i - 1]) / dt
            a64 = a * 64.0
            if a64 == math.floor(a64) and abs(th) < 1e6:
                fr = Fr(int(a64), 64)           # dyadic: float arithmetic above was exact
            else:
                ex = (Fr(th) - Fr(tl[i - 1])) / (Fr(tl[i]) - Fr(tl[i - 1]))
                fr = ex.limit_denominator(SNAP_DEN)
                dev = abs(float(ex - fr))
                if dev > SNAP_TOL:
                    sflag = sflag or "hit-time-not-chord-crossing"
                else:
                    Dev.snap = max(Dev.snap, dev)
                a = float(fr)
            pos.append((i, fr.numerator, fr.denominator))
            exp = None
            if check_state and not sflag:
                if fr.denominator in (1, 2, 4, 8, 16, 32, 64):
                    exp = states[i - 1] + a * (states[i] - states[i - 1])     # exact in binary64 on dyadic instances
                else:
                    exp = None
                    sx = [Fr(float(v)) for v in h.state]
                    lo = [Fr(float(v)) for v in states[i - 1]]
                    hi = [Fr(float(v)) for v in states[i]]
                    want = [l + fr * (u - l) for l, u in zip(lo, hi)]
                    dv = max(abs(float(s - w)) / (1 + abs(float(w))) for s, w in zip(sx, want))
                    gval = abs(float(sum(Fr(nv) * s for nv, s in zip(normal, sx)) - Fr(offset)))
                    if dv > SNAP_TOL:
                        sflag = sflag or "hit-state-not-on-chord"
                    elif gval > SNAP_TOL * 100:
                        sflag = sflag or "hit-state-off-plane"
                    else:
                        Dev.state = max(Dev.state, dv, gval)
        if check_state and exp is not None and not sflag:
            hs = np.asarray(h.state, dtype=float)
            if not np.array_equal(hs, exp):
                dev = float(np.max(np.abs(hs - exp) / (1.0 + np.abs(exp))))
                if dev > SNAP_TOL:
                    sflag = "hit-state-not-on-chord"
                else:
                    Dev.state = max(Dev.state, dev)
            res = abs(float(np.dot(np.asarray(normal), hs) - offset))
            if not sflag and res != 0.0:
                if res > 100 * SNAP_TOL:
                    sflag = "hit-state-off-plane"
                else:
                    Dev.state = max(Dev.state, res)
            if not sflag and (float(h.point2d[0]), float(h.point2d[1])) != (float(hs[1]), float(hs[4])):
                sflag = "hit-point-not-projection-of-state"
    return pos, sflag


def bracket_codes(hits, tl):
    n = len(tl)
    out = []
    for h in hits:
        th = float(h.time)
        i = locate(th, tl)
        if i == 0 or i == n + 1:
            out.append((n + 1, 0))
        elif th == tl[i - 1]:
            out.append((i, 0))
        else:
            out.append((i, 1))
    return out


def obs_exact(g, d, mh, pos, sflag):
    return ("exact", tuple(g), d, mh, tuple(pos), sflag)


def obs_bracket(g, d, mh, codes, sflag=""):
    return ("bracket", tuple(g), d, mh, tuple(codes), sflag)


def obs_to_json(o):
    if o[0] == "exact":
        return {"k": "exact", "g": list(o[1]), "d": o[2], "mh": o[3],
                "hits": [[p[0], [p[1], p[2]]] for p in o[4]], "sflag": o[5]}
    if o[0] == "bracket":
        return {"k": "bracket", "g": list(o[1]), "d": o[2], "mh": o[3], "hits": [list(p) for p in o[4]], "sflag": o[5]}
    return {"k": "curve", "c": dict(o[1]), "h": o[2], "grid": o[3], "d": o[4], "hits": [list(p) for p in o[5]],
            "sflag": o[6], "n": o[7]}


def judge(observations, *, timeout=1500, chunk=20000):
    """TLC decides: returns {index: verdict} for the observations that are NOT accepted, and the number
    of states TLC evaluated (must equal the number of observations)."""
    bad = {}
    states = 0
    for base in range(0, len(observations), chunk):
        part = observations[base:base + chunk]
        wd = workdir("judge")
        try:
            tf = wd / "obs.json"
            tf.write_text(json.dumps([obs_to_json(o) for o in part]))
            r = tlc(JUDGE, CFG / "SectionDetectTrace.cfg", workers=8, timeout=timeout,
                    env={"TRACE_FILE": str(tf), "JAVA_TOOL_OPTIONS": "-Xss64m"})     # recursive operators on long patterns
            if not r.ok or r.distinct != len(part):
                raise MachineryError(f"judge run failed: ok={r.ok} distinct={r.distinct} expected={len(part)} "
                                     f"{r.error}\n{r.out[-3000:]}")
            states += r.distinct
            for rec in r.printed():
                bad[base + int(rec["tid"]) - 1] = rec["v"]
        finally:
            shutil.rmtree(wd, ignore_errors=True)
    return bad, states


# --------------------------------------------------------------------------------------------
# one case = everything needed to re-run it (used for replay files)
# --------------------------------------------------------------------------------------------

def run_pattern_case(case, header):
    g, grid, d, r, mh, interp, plane = (case[k] for k in ("g", "grid", "d", "r", "mh", "interp", "plane"))
    tl = [float(t) for t in header["grids"][grid][:len(g)]]
    times = np.asarray(tl)
    st = states_for(g if not case.get("eps") else [(case["eps"] if v == 0 else v) for v in g], base_states(tl), plane)
    hits = detect(times, st, plane, interp, r, d, mh)
    if case.get("eps"):
        return obs_bracket(g, d, mh, bracket_codes(hits, tl)), [float(h.time) for h in hits]
    if interp == "linear":
        pos, sflag = exact_positions(hits, tl, st, plane)
        return obs_exact(g, d, mh, pos, sflag), [float(h.time) for h in hits]
    return obs_bracket(g, d, mh, bracket_codes(hits, tl)), [float(h.time) for h in hits]


def curve_instance(rec):
    h = rec["h"]
    tl = [j / h for j in rec["J"]]          # exact: h in {1, 2, 4}
    st = states_for(rec["S"], base_states(tl), 0)
    return tl, st


def curve_roots(rec):
    """ToJson prints a function whose domain happens to be 1..n as an array, any other as an object."""
    rr = rec["roots"]
    if isinstance(rr, dict):
        return {int(k): v for k, v in rr.items()}
    return {i + 1: v for i, v in enumerate(rr)}


def run_curve_case(case):
    rec, d, r, interp = case["curve"], case["d"], case["r"], case["interp"]
    tl, st = curve_instance(rec)
    hits = detect(np.asarray(tl), st, 0, interp, r, d, 0)
    times = [float(x.time) for x in hits]
    if interp == "linear":
        pos, sflag = exact_positions(hits, tl, st, 0)
        return obs_exact(rec["S"], d, 0, pos, sflag), times
    S = rec["S"]
    n = len(S)
    roots = curve_roots(rec)
    out = []
    for x in hits:
        th = float(x.time)
        i = locate(th, tl)
        if i == 0 or i == n + 1:
            out.append((n + 1, 0, 0, 0))
            continue
        c = 0 if th == tl[i - 1] else 1
        if c == 0 and S[i - 1] == 0:
            out.append((i, 0, 0, 0))
            continue
        # attribute to a sign-change interval: the one containing it, or (hit exactly at a sample
        # that is not on the surface) the adjacent one
        def compatible(sg):     # StrictChange(gs, sg, d) of the spec, for the attribution only (TLC re-checks it)
            return sg in roots and (d == 0 or d * S[sg - 1] < 0)
        if c == 1:
            seg = i
        else:
            seg = i - 1 if compatible(i - 1) else i
        if seg in roots and 1 <= seg < n:
            al = Fr(roots[seg]["alpha"][0], roots[seg]["alpha"][1])
            a_hit = (Fr(th) - Fr(tl[seg - 1])) / (Fr(tl[seg]) - Fr(tl[seg - 1]))
            q = min(2 * SCALE, int(math.ceil(abs(a_hit - al) * SCALE)))
        else:
            q = 0
        out.append((i, c, seg, q))
    c = rec["c"]
    return ("curve", tuple(sorted(c.items())), rec["h"], rec["grid"], d, tuple(out), "", n), times


# --------------------------------------------------------------------------------------------

def _tlc_ok(ck, name, r):
    ck.model(name, r)
    return r


def main(tier=None, replay=None):
    ck = Check("C15", "model_checking", tier)
    rnd = random.Random(ck.seed)

    if replay:
        rp = replay if os.path.exists(replay) else str(VERIF / replay)
        data = json.load(open(rp))["data"]
        if data["kind"] == "pattern":
            o, times = run_pattern_case(data["case"], data["header"])
        elif data["kind"] == "curve":
            o, times = run_curve_case(data["case"])
        else:
            o, times = RealWorkload().case_obs(data["case"]), None
        bad, _ = judge([o])
        print(json.dumps({"case": data["case"], "hit_times": times, "observation": obs_to_json(o),
                          "verdict": bad.get(0, "ok")}, default=str)[:4000])
        if bad:
            print(f"VIOLATION property=C15 replay={replay}")
            return 1
        return 0

    # ---- 1. model: algorithm (with the last sample examined) => requirement; emission of patterns
    r = tlc(ALGO, CFG / f"SectionDetect.{ck.tier}.cfg", timeout=1500)
    _tlc_ok(ck, "SectionDetect." + ck.tier, r)
    recs = r.printed()
    header = next(x for x in recs if x.get("header"))
    patterns = sorted((x["g"] for x in recs if "g" in x), key=lambda g: (len(g), g))   # TLC's print order varies with workers
    if not patterns:
        raise MachineryError("TLC emitted no patterns")
    r2 = tlc(ALGO, CFG / "SectionDetect.asis.cfg", timeout=600)
    ck.model("SectionDetect.asis", r2, expect_ok=False)
    ck.part("SectionDetect.asis", transcription_of_unchanged_tail_violates=str(r2.invariant_violated))
    long_patterns = []
    if not ck.quick:
        r3 = tlc(ALGO, CFG / "SectionDetect.sim.cfg", simulate="num=100", depth=41, seed=ck.seed, workers=8, timeout=1500)
        if r3.error or r3.invariant_violated or r3.rc == 124:
            raise MachineryError(f"simulation run failed: {r3.error or r3.invariant_violated}\n{r3.out[-2000:]}")
        seen = set()
        for x in r3.printed():
            if "g" in x and tuple(x["g"]) not in seen:
                seen.add(tuple(x["g"]))
                long_patterns.append(x["g"])
        long_patterns.sort(key=lambda g: (len(g), g))
        ck.part("SectionDetect.sim", long_patterns=len(long_patterns))
    dirs, refines, maxhits = header["dirs"], header["refines"], header["maxhits"]
    grids = sorted(header["grids"])
    combos = [("uni", mh) for mh in maxhits] + [(gk, 0) for gk in grids if gk != "uni"]

    # ---- 2. spec -> code replay of every pattern
    obs_index = {}      # observation -> (count, first case)
    n_runs = 0

    def record(o, case):
        e = obs_index.get(o)
        if e is None:
            obs_index[o] = [1, case, [case] if "real" in case else []]
        else:
            e[0] += 1
            if "real" in case:
                e[2].append(case)       # few: every real-trajectory case is kept

    base_cache = {}
    for pi, g in enumerate(patterns + long_patterns):
        n = len(g)
        nontrivial = any(a * b <= 0 for a, b in zip(g, g[1:]))
        is_long = pi >= len(patterns)
        for (gk, mh) in combos:
            key = (gk, n)
            if key not in base_cache:
                tl = [float(t) for t in header["grids"][gk][:n]]
                base_cache[key] = (tl, np.asarray(tl), base_states(tl))
            tl, times, base = base_cache[key]
            planes = range(len(PLANES)) if (not ck.quick and not is_long and n <= 5) else [(pi + mh + len(gk)) % len(PLANES)]
            for plane in planes:
                st = states_for(g, base, plane)
                for d in dirs:
                    for rr in refines:
                        hits = detect(times, st, plane, "linear", rr, d, mh)
                        pos, sflag = exact_positions(hits, tl, st, plane)
                        record(obs_exact(g, d, mh, pos, sflag),
                               {"g": g, "grid": gk, "d": d, "r": rr, "mh": mh, "interp": "linear", "plane": plane})
                        n_runs += 1
                    if d == 0 and mh == 0 and plane == 0 and 0 in g and len({v > 0 for v in g if v != 0}) == 1:
                        # one-sided pattern with on-surface samples: realise "on the surface" as a residual BELOW the tolerance with
                        # the sign of the side (|g| = 5e-13 < tol_on_surface = 1e-12) instead of an exact zero; same requirement
                        sg = 1.0 if any(v > 0 for v in g) else -1.0
                        st_eps = states_for([(sg * 5e-13 if v == 0 else v) for v in g], base, plane)
                        for interp_e, rr_e in (("linear", 0), ("linear", 2), ("cubic", 0)):
                            hits = detect(times, st_eps, plane, interp_e, rr_e, 0, 0)
                            record(obs_bracket(g, 0, 0, bracket_codes(hits, tl), ""),
                                   {"g": g, "grid": gk, "d": 0, "r": rr_e, "mh": 0, "interp": interp_e, "plane": plane, "eps": sg * 5e-13})
                            n_runs += 1
                    if mh == 0 and (d == 0 or not is_long):
                        # (long patterns: without direction only -- the bracket form of the requirement
                        # enumerates subsets of optional on-surface samples, of which long patterns have many)
                        hits = detect(times, st, plane, "cubic", 0, d, 0)
                        record(obs_bracket(g, d, 0, bracket_codes(hits, tl)),
                               {"g": g, "grid": gk, "d": d, "r": 0, "mh": 0, "interp": "cubic", "plane": plane})
                        n_runs += 1
        ck.count(("pattern", tuple(g)), nontrivial, n=0)
    ck.cov["evaluations"] += n_runs
    ck.part("pattern_replay", patterns=len(patterns), long_patterns=len(long_patterns), detector_runs=n_runs,
            distinct_observations=len(obs_index))

    # ---- 3. analytic curves + 4. Hermite kernels
    rc = tlc(CURVES, CFG / f"SectionDetectCurves.{ck.tier}.cfg", timeout=1500)
    _tlc_ok(ck, "SectionDetectCurves." + ck.tier, rc)
    crecs = rc.printed()
    curves = sorted((x for x in crecs if "c" in x), key=lambda x: json.dumps([x["c"], x["h"], x["grid"]], sort_keys=True))
    herm = sorted((x for x in crecs if "herm" in x), key=lambda x: json.dumps(x["herm"], sort_keys=True))
    if not curves or not herm:
        raise MachineryError("TLC emitted no curve / Hermite instances")
    n_curve_runs = 0
    for rec in curves:
        ncross = len(curve_roots(rec))
        ck.count(("curve", json.dumps(rec["c"], sort_keys=True), rec["h"], rec["grid"]), ncross > 0, n=0)
        for d in dirs:
            for rr, interp in ((0, "linear"), (1, "linear"), (2, "linear"), (0, "cubic")):
                    # cubic with sub-interval scanning may legitimately find crossings the sample signs do not show
                    case = {"curve": rec, "d": d, "r": rr, "interp": interp}
                    o, _ = run_curve_case(case)
                    record(o, case)
                    n_curve_runs += 1
    ck.cov["evaluations"] += n_curve_runs
    ck.part("curve_replay", curves=len(curves), detector_runs=n_curve_runs)

    from hiten.algorithms.poincare import utils as putils
    herm_bad = []
    for x in herm:
        hh = x["herm"]
        s = hh["a"] / hh["b"]
        args = (float(hh["y0"]), float(hh["y1"]), float(hh["d0"]), float(hh["d1"]), float(hh["dt"]))
        val = Fr(float(putils._hermite_scalar(s, *args)))
        der = Fr(float(putils._hermite_der(s, *args)))
        ok_v = val == Fr(x["val"], hh["b"] ** 3)
        ok_d = der == Fr(x["der"], hh["b"] ** 2)
        ck.count(("hermite", json.dumps(hh, sort_keys=True)), True)
        if not (ok_v and ok_d):
            herm_bad.append({"instance": hh, "value_ok": ok_v, "derivative_ok": ok_d,
                             "observed": [float(val), float(der)],
                             "expected": [x["val"] / hh["b"] ** 3, x["der"] / hh["b"] ** 2]})
    ck.part("hermite_kernels", instances=len(herm), mismatches=len(herm_bad))

    # ---- 5. real CR3BP trajectory
    real_obs = real_trajectory_observations(ck, dirs)
    for o, case in real_obs:
        record(o, case)

    # ---- TLC judges every distinct observation
    olist = list(obs_index)
    bad, jstates = judge(olist)
    ck.cov["states"] += jstates
    ck.cov["traces_validated_against_impl"] += len(olist)
    ck.part("judge", observations=len(olist), rejected=len(bad), snap_tolerance=SNAP_TOL, max_snap_deviation=Dev.snap,
            onplane_tolerance=ONPLANE_TOL, max_onplane_residual=Dev.plane, state_tolerance=SNAP_TOL,
            max_state_deviation=Dev.state, smallest_mutant_deviation="1/4 interval (mirrored or shifted hit), see report")

    # verdicts -> violations (smallest instance first so that the replay file is minimal)
    def size(i):
        o = olist[i]
        return (len(o[1]) if o[0] != "curve" else 100 + o[2] * 10, {"exact": 0, "bracket": 1, "curve": 2}[o[0]], str(o))

    fresh_facade_bad = {(c["axis"], c["offset"], c["d"]) for i in bad for c in obs_index[olist[i]][2]
                        if c.get("facade") and c["history"] == "fresh"}
    for i in sorted(bad, key=size):
        o = olist[i]
        cnt, case, real_cases = obs_index[o]
        v0 = bad[i]
        variants = []           # (site, kind, case, verdict)
        if real_cases:
            for c in real_cases:
                if c.get("facade"):
                    v = v0
                    if c["history"] != "fresh" and (c["axis"], c["offset"], c["d"]) not in fresh_facade_bad:
                        # the same request on a fresh map is answered correctly: the defect is the history
                        v = f"direction={'None' if c['d'] == 0 else c['d']}-requested-after-another-direction|{v0}"
                    variants.append(("SynodicMap.compute", "real", c, v))
                elif c.get("run"):
                    variants.append(("_SynodicDetectionBackend.run", "real", c, v0))
                else:
                    variants.append(("detect_on_trajectory", "real", c, v0))
        elif "curve" in case:
            variants.append(("detect_on_trajectory", "curve", case, v0))
        else:
            variants.append(("detect_on_trajectory", "pattern", case, v0))
        for site, kind, case, v in variants:
            desc = (f"{v}: detector output rejected by the C15 requirement (TLC judge) on {cnt} run(s); first: "
                    f"{json.dumps({k: case[k] for k in case if k not in ('curve',)}, default=str)[:300]} "
                    f"observation={json.dumps(obs_to_json(o))[:400]}")
            if v == "cubic-hit-error-exceeds-linear-interpolation-bound" and herm_bad:
                desc += (f" ;; cause located by the exact kernel replay: poincare/utils._hermite_der differs from the "
                         f"derivative of _hermite_scalar on {len(herm_bad)} of {len(herm)} exact instances, e.g. {herm_bad[0]}")
            data = {"kind": kind, "case": case, "header": {"grids": header["grids"]} if kind == "pattern" else None,
                    "verdict": v, "observation": obs_to_json(o)}
            ck.violation(f"{site}|{v}", desc, data)
    if herm_bad and not any(v == "cubic-hit-error-exceeds-linear-interpolation-bound" for v in bad.values()):
        ck.notes.append(f"_hermite_scalar/_hermite_der differ from the exact kernels on {len(herm_bad)} instances "
                        f"(no C15 clause observed to fail because of it): {herm_bad[:2]}")

    # ---- 6. binding self-test
    selftest(ck, olist, bad, rnd, obs_index)

    ck.sample({"pattern": patterns[len(patterns) // 2], "note": "replayed on 3 grids x dirs x refine x max_hits"})
    ck.sample({"curve": curves[len(curves) // 2]["c"], "h": curves[len(curves) // 2]["h"]})
    ck.cov["rule"] = ("cases = sample patterns enumerated by TLC (all sequences over {-3,-1,0,1,3} up to MaxN, plus "
                      "-simulate walks up to 40 samples in the thorough tier) and analytic curves/Hermite instances "
                      "enumerated by TLC; evaluations = calls of the real detector/kernels; distinct non-trivial = "
                      "patterns with at least one sign change or on-surface sample, curves with a crossing")
    ck.cov["exhaustive"] = True
    ck.assumptions += [
        "on-surface = exactly 0 (|g| < tol with g != 0 is not explored)",
        "distinct hits of an instance are >= 1/4 sample interval apart in time and project to distinct plane points "
        "(dedup tolerances 1e-9 / 1e-12 never merge distinct hits); dedup semantics for closer hits not decided",
        "with a direction filter an on-surface sample MUST be reported when no existing neighbour contradicts the "
        "direction; any on-surface sample MAY be reported (the statement's parenthesis does not say more)",
        "cubic path: judged on count/bracket/order for arbitrary patterns (segment_refine=0) and against the linear "
        "interpolation bound on analytic curves (uniform grids); super-quadratic rate not decided",
    ]
    return ck.finish()


NAMES = ["x", "y", "z", "vx", "vy", "vz"]


class _TimeOnly:
    def __init__(self, t):
        self.time = t


class RealWorkload:
    """code -> spec on real CR3BP trajectories: a propagated orbit, sections on every axis.  Every observation
    is described by a small case record from which it can be re-run (replay)."""

    def __init__(self):
        from hiten.system.base import System
        self.system = System.from_bodies("earth", "moon")
        self.l1 = self.system.get_libration_point(1)
        self._orbits = {}

    def orbit(self, ti, steps):
        key = (ti, steps)
        if key not in self._orbits and ti == 2:
            # a CLOSED trajectory: a corrected planar Lyapunov orbit sampled over exactly one period (last sample = first to 1e-10)
            orb = self.l1.create_orbit("lyapunov", amplitude_x=4e-3)
            orb.correct()
            orb.propagate(steps=steps)
            tr = orb.trajectory
            self._orbits[key] = (orb, np.asarray(tr.times, dtype=float), np.asarray(tr.states, dtype=float))
        if key not in self._orbits:
            from hiten.system.orbits import GenericOrbit
            x1 = float(self.l1.position[0])
            ic = [np.array([x1 + 0.01, 0.0, 0.02, 0.0, 0.1, 0.05]), np.array([x1 - 0.02, 0.0, 0.01, 0.0, 0.15, 0.0])][ti]
            orb = GenericOrbit(self.l1, initial_state=ic)
            orb.period = 6.0
            orb.propagate(steps=steps)
            tr = orb.trajectory
            self._orbits[key] = (orb, np.asarray(tr.times, dtype=float), np.asarray(tr.states, dtype=float))
        return self._orbits[key]

    @staticmethod
    def signs(states, ax, off):
        return [0 if abs(v) < 1e-12 else (1 if v > 0 else -1) for v in (states[:, ax] - off).tolist()]

    @staticmethod
    def plane_coords(ax):
        return ("y", "vy") if ax not in (1, 4) else ("x", "vx")

    def direct_obs(self, case):
        _, times, states = self.orbit(case["traj"], case["steps"])
        ax, off, d = NAMES.index(case["axis"]), case["offset"], case["d"]
        normal = np.zeros(6)
        normal[ax] = 1.0
        hits = backend().detect_on_trajectory(
            times, states, normal=normal, offset=off, plane_coords=self.plane_coords(ax), interp_kind=case["interp"],
            segment_refine=case["r"], direction=(None if d == 0 else d))
        sflag = ""
        if case["interp"] == "linear":
            for h in hits:
                res = abs(float(np.dot(normal, h.state) - off))
                if res > ONPLANE_TOL:
                    sflag = "hit-state-off-plane"
                else:
                    Dev.plane = max(Dev.plane, res)
        return obs_bracket(self.signs(states, ax, off), d, 0, bracket_codes(hits, times.tolist()), sflag)

    def facade_obs(self, case, smap=None):
        """SynodicMap.compute (service + pipeline + engine + interface + backend.run); case["seq"] is the sequence of
        directions requested from ONE map object, the observation is the answer to the last request."""
        from hiten.algorithms.poincare.synodic.options import SynodicMapOptions
        from hiten.algorithms.types.options import RefineOptions, WorkerOptions
        from hiten.system.maps import SynodicMap
        orb, times, states = self.orbit(case["traj"], case["steps"])
        ax, off = NAMES.index(case["axis"]), case["offset"]
        opt = SynodicMapOptions(
            refine=RefineOptions(segment_refine=1, tol_on_surface=1e-12, dedup_time_tol=1e-9, dedup_point_tol=1e-12,
                                 max_hits_per_traj=None, newton_max_iter=4),
            workers=WorkerOptions(n_workers=1))
        todo = case["seq"]
        if smap is None:
            smap = SynodicMap(orb)
        else:
            todo = todo[-1:]            # the earlier requests were already made on this map
        for d in todo:
            res = smap.compute(section_axis=case["axis"], section_offset=off, plane_coords=self.plane_coords(ax),
                               direction=(None if d == 0 else d), options=opt)
        d = case["seq"][-1]
        ts = [] if res.times is None else list(np.asarray(res.times, dtype=float))
        return obs_bracket(self.signs(states, ax, off), d, 0, bracket_codes([_TimeOnly(t) for t in ts], times.tolist()), ""), smap

    def run_obs(self, case):
        """backend.run with two trajectories: per-trajectory order, labelling, flattened arrays."""
        from hiten.algorithms.poincare.synodic.types import SynodicBackendRequest
        _, times, states = self.orbit(case["traj"], case["steps"])
        n = len(times)
        req = SynodicBackendRequest(
            trajectories=[(times, states), (times[: n // 2], states[: n // 2])], normal=np.eye(6)[1],
            trajectory_indices=[7, 3], offset=0.0, plane_coords=("x", "vx"), interp_kind="linear", segment_refine=0,
            tol_on_surface=1e-12, dedup_time_tol=1e-9, dedup_point_tol=1e-12, max_hits_per_traj=None,
            newton_max_iter=4, direction=None)
        resp = backend().run(req)
        sg = self.signs(states, 1, 0.0)
        k = case["which"]
        hl, lab, m = resp.hits[k], (7, 3)[k], (n, n // 2)[k]
        sflag = "" if all(h.trajectory_index == lab for h in hl) else "trajectory-index-mislabelled"
        flat = [] if resp.times is None else [float(t) for t in resp.times]
        if flat != [float(h.time) for hs in resp.hits for h in hs]:
            sflag = sflag or "flattened-times-differ-from-per-trajectory-hits"
        return obs_bracket(sg[:m], 0, 0, bracket_codes(hl, times.tolist()[:m]), sflag)

    def engine_obs(self, case):
        """_SynodicEngine.solve on THREE trajectories (two periods of the orbit: the same section points recur), with a user-chosen
        pair of duplicate tolerances, through the serial (n_workers = 1) and the thread-pool path.  The observation is trajectory
        `which` as answered by the path with case["workers"] workers; it is flagged when the two paths disagree."""
        from hiten.algorithms.poincare.synodic.backend import _SynodicDetectionBackend
        from hiten.algorithms.poincare.synodic.config import SynodicMapConfig
        from hiten.algorithms.poincare.synodic.engine import _SynodicEngine
        from hiten.algorithms.poincare.synodic.interfaces import _SynodicInterface
        from hiten.algorithms.poincare.synodic.strategies import _NoOpStrategy
        from hiten.algorithms.poincare.synodic.types import _SynodicMapProblem
        _, times, states = self.orbit(case["traj"], case["steps"])
        n = len(times)
        # three different arcs (distinct crossings are far apart in the section plane compared with the point tolerance: the
        # detector also merges CONSECUTIVE hits whose projected points coincide, whatever their times)
        trajs = [(times, states), (times[n // 3:], states[n // 3:]), (times[: n // 2], states[: n // 2])]
        ax, off = NAMES.index(case["axis"]), case["offset"]
        normal = np.zeros(6)
        normal[ax] = 1.0
        cfg = SynodicMapConfig(section_axis=case["axis"], section_offset=off, plane_coords=self.plane_coords(ax))

        def solve(nw):
            eng = _SynodicEngine(backend=_SynodicDetectionBackend(), seed_strategy=_NoOpStrategy(cfg), map_config=cfg, interface=_SynodicInterface())
            prob = _SynodicMapProblem(plane_coords=self.plane_coords(ax), direction=None, n_workers=nw, normal=normal, offset=off,
                                      trajectories=trajs, interp_kind="linear", segment_refine=0, tol_on_surface=1e-12,
                                      dedup_time_tol=case["ttol"], dedup_point_tol=case["ptol"], max_hits_per_traj=None, newton_max_iter=4)
            res = eng.solve(prob)
            idx = np.asarray(res.trajectory_indices).tolist() if res.trajectory_indices is not None else []
            tt = np.asarray(res.times, dtype=float).tolist() if res.times is not None else []
            return {k: [t for t, i in zip(tt, idx) if i == k] for k in range(3)}
        serial, pooled = solve(1), solve(case["workers"])
        k = case["which"]
        tk, sk = trajs[k]
        sflag = ""
        if any(len(serial[j]) != len(pooled[j]) or any(abs(a - b) > 1e-12 for a, b in zip(serial[j], pooled[j])) for j in range(3)):
            sflag = "serial-and-thread-pool-paths-disagree"
        return obs_bracket(self.signs(sk, ax, off), 0, 0, bracket_codes([_TimeOnly(t) for t in pooled[k]], tk.tolist()), sflag)

    def case_obs(self, case):
        if case.get("engine"):
            return self.engine_obs(case)
        if case.get("facade"):
            return self.facade_obs(case)[0]
        if case.get("run"):
            return self.run_obs(case)
        return self.direct_obs(case)


def real_trajectory_observations(ck, dirs):
    wl = RealWorkload()
    steps = 400 if ck.quick else 800
    out = []
    n_calls = 0
    for ti in ((0,) if ck.quick else (0, 1)):
        _, times, states = wl.orbit(ti, steps)
        for ax in range(6):
            col = states[:, ax]
            offs = [float(col[0]), float(np.round(np.median(col), 3))]     # first sample exactly on the surface; generic level
            for off in offs:
                base = {"real": True, "traj": ti, "steps": steps, "axis": NAMES[ax], "offset": off}
                for d in dirs:
                    for interp in ("linear", "cubic"):
                        for rr in ((0, 1) if ck.quick else (0, 1, 2)):
                            if interp == "cubic" and rr > 0:
                                continue        # cubic sub-interval scanning may legitimately find extra crossings
                            case = dict(base, d=d, interp=interp, r=rr)
                            out.append((wl.direct_obs(case), case))
                            n_calls += 1
                if ti == 0:
                    # (a) a fresh map per request; (b) one map asked for several directions in a row (the property
                    # speaks about the REQUESTED direction of each call)
                    for d in dirs:
                        case = dict(base, facade=True, history="fresh", seq=[d], d=d)
                        out.append((wl.facade_obs(case)[0], case))
                        n_calls += 1
                    if off == offs[-1]:
                        smap, seq = None, []
                        for d in (1, 0, -1, 0):
                            hist = "fresh" if not seq else "after-direction=" + ("None" if seq[-1] == 0 else str(seq[-1]))
                            seq = seq + [d]
                            case = dict(base, facade=True, history=hist, seq=list(seq), d=d)
                            o, smap = wl.facade_obs(case, smap)
                            out.append((o, case))
                            n_calls += 1
        for which in (0, 1):
            case = {"real": True, "run": True, "traj": ti, "steps": steps, "which": which}
            out.append((wl.run_obs(case), case))
            n_calls += 1
        if ti == 0:
            # the public pipeline on a closed trajectory: sections just above / below the start level, so that one of them is crossed
            # in the FIRST sample interval and the other in the LAST one
            _, tcl, scl = wl.orbit(2, steps)
            for off in (1e-4, -1e-4):
                for d in dirs:
                    case = {"real": True, "traj": 2, "steps": steps, "axis": "y", "offset": off, "facade": True, "history": "fresh", "seq": [d], "d": d}
                    out.append((wl.facade_obs(case)[0], case))
                    n_calls += 1
        # the engine: serial vs thread-pool path, with duplicate tolerances in a regime where EACH of them matters: sections
        # whose successive crossings are closer in the section plane than in time (min point distance < time tol < min time gap)
        eng_cases = []
        for axn in NAMES:
            ax = NAMES.index(axn)
            col = states[:, ax]
            for q in (0.5, 0.8):
                offv = float(np.round(np.quantile(col, q), 3))
                sc = np.nonzero(np.diff(np.sign(col - offv)) != 0)[0]
                if len(sc) < 3:
                    continue
                gap = float(np.min(np.diff(times[sc])))
                ii = [NAMES.index(c) for c in wl.plane_coords(ax)]
                dmin = float(np.min(np.linalg.norm(np.diff(states[sc][:, ii], axis=0), axis=1)))
                if 1.5 * dmin < gap / 1.5:
                    eng_cases.append((gap / dmin, axn, offv, math.sqrt(dmin * gap)))
        eng_cases.sort(reverse=True)
        for (_, axn, offv, ttol), workers in itertools.product(eng_cases[: (2 if ck.quick else 5)], (2, 3)):
            for (tt, pp) in ((ttol, 1e-12), (1e-9, 1e-12)):
                for which in (0, 2):
                    case = {"real": True, "engine": True, "traj": ti, "steps": steps, "axis": axn, "offset": offv,
                            "ttol": tt, "ptol": pp, "workers": workers, "which": which}
                    out.append((wl.engine_obs(case), case))
                    n_calls += 1
        if not eng_cases:
            raise MachineryError("no section of the real trajectory separates the two duplicate tolerances")
    ck.cov["evaluations"] += n_calls
    ck.part("real_trajectories", trajectories=1 if ck.quick else 2, detector_calls=n_calls, observations=len(out))
    ck.count(("real", len(out)), True, n=0)
    return out


def selftest(ck, olist, bad, rnd, obs_index):
    """The judge must reject corrupted observations (and keep accepting the uncorrupted ones).
    Observations without direction filter are used, so that every hit is a required one."""
    good = [o for i, o in enumerate(olist) if i not in bad]
    ex = [o for o in good if o[0] == "exact" and len(o[4]) >= 2 and o[3] == 0 and o[2] == 0]
    br = [o for o in good if o[0] == "bracket" and len(o[4]) >= 2 and o[2] == 0]

    def bounded_cross_hit(o):
        roots = curve_roots(obs_index[o][1]["curve"])
        for k, p in enumerate(o[5]):
            if p[2] != 0 and p[2] in roots and roots[p[2]]["mono"]:
                return k
        return None
    cu = [o for o in good if o[0] == "curve" and o[3] == "uni" and o[4] == 0 and bounded_cross_hit(o) is not None]
    if not ex or not br or not cu:
        raise MachineryError("self-test: no accepted observation with >= 2 hits to corrupt")
    e, b, c = rnd.choice(ex), rnd.choice(br), rnd.choice(cu)
    mut = []
    mut.append(("drop-last-hit", e[:4] + (e[4][:-1],) + e[5:]))
    mut.append(("drop-first-hit", e[:4] + (e[4][1:],) + e[5:]))
    mut.append(("swap-two-hits", e[:4] + ((e[4][1], e[4][0]) + e[4][2:],) + e[5:]))
    mut.append(("duplicate-hit", e[:4] + ((e[4][0],) + e[4],) + e[5:]))
    cross = [o for o in ex if any(p[1] != 0 for p in o[4])]
    if cross:
        e2 = rnd.choice(cross)
        j = next(k for k, p in enumerate(e2[4]) if p[1] != 0)
        p = e2[4][j]
        moved = (p[0], p[2] - p[1], p[2]) if 2 * p[1] != p[2] else (p[0], 1, 8)
        mut.append(("mirror-hit-fraction", e2[:4] + (e2[4][:j] + (moved,) + e2[4][j + 1:],) + e2[5:]))
    mut.append(("bracket-drop-last-hit", b[:4] + (b[4][:-1],) + b[5:]))
    mut.append(("bracket-last-hit-outside", b[:4] + (b[4][:-1] + ((len(b[1]) + 1, 0),),) + b[5:]))
    mut.append(("bracket-extra-hit", b[:4] + (b[4] + (b[4][-1],),) + b[5:]))
    j = bounded_cross_hit(c)
    far = c[5][:j] + ((c[5][j][0], c[5][j][1], c[5][j][2], 2 * SCALE),) + c[5][j + 1:]
    mut.append(("curve-hit-far-from-root", c[:5] + (far,) + c[6:]))
    mut.append(("curve-drop-last-hit", c[:5] + (c[5][:-1],) + c[6:]))
    verdicts, _ = judge([m[1] for m in mut] + [e, b, c])
    accepted = [mut[i][0] for i in range(len(mut)) if i not in verdicts]
    if accepted:
        raise MachineryError(f"binding self-test: corrupted observations accepted by the judge: {accepted}")
    if any(i in verdicts for i in range(len(mut), len(mut) + 3)):
        raise MachineryError("binding self-test: an uncorrupted accepted observation was rejected on re-judging")
    ck.part("selftest", corrupted_observations_rejected=len(mut), kinds=[m[0] for m in mut])


if __name__ == "__main__":
    sys.exit(main())
