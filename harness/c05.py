"""C05 -- a successful differential correction yields a genuinely periodic orbit.

Part 1 [M]  spec/algo/Newton.tla: Newton + plain/Armijo stepping over lazily chosen residual
            landscapes; TLC exhaustive (never returns unconverged, monotone under line search, step
            cap, iteration bound, termination); every terminal behaviour replayed into the real
            _NewtonBackend.run / _ArmijoLineSearch with a scripted residual map; recorded traces
            validated by TLC against NewtonTrace.tla.
Part 2 [T]  end-to-end contract on real orbit.correct(): success => residual below the tolerance
            *requested in that call*, and the state closes after one period under a different
            integrator family than the one used by the corrector.
"""
from __future__ import annotations

import json
import math
import random
import sys

import numpy as np

from common import SPEC, Check, MachineryError, tlc, validate_traces

ALGO = SPEC / "algo" / "MCNewton.tla"
TRACE = SPEC / "trace" / "NewtonTrace.tla"
CFG = SPEC / "cfg"
NANPOS = 99999


class _Unscripted(BaseException):
    pass


def _pos(xarr) -> int:
    v = float(np.asarray(xarr).ravel()[0])
    if math.isnan(v):
        return NANPOS
    iv = int(round(v))
    if float(iv) != v:
        raise _Unscripted(f"non-lattice point {v!r}")
    return iv


_ROUTE = [0]


def run_landscape(cfg: dict, land: dict) -> dict:
    """Run the real Newton backend on the scripted landscape.  land: {pos:int -> (t, v)}."""
    from hiten.algorithms.corrector.backends.newton import _NewtonBackend
    from hiten.algorithms.corrector.stepping import make_armijo_stepper, make_plain_stepper
    from hiten.algorithms.corrector.types import CorrectorInput
    from hiten.algorithms.types.exceptions import ConvergenceError

    events = []

    def residual(xarr):
        p = _pos(xarr)
        if p == NANPOS:
            events.append({"e": "eval", "x": p, "t": "nan", "v": 0})
            return np.array([float("nan")])
        if p not in land:
            raise _Unscripted(f"evaluated unscripted point {p}")
        t, v = land[p]
        events.append({"e": "eval", "x": p, "t": t, "v": int(v)})
        if t == "raise":
            raise RuntimeError("scripted residual failure")
        if t == "nan":
            return np.array([float("nan")])
        return np.array([float(v)])

    base = (make_armijo_stepper(alpha_reduction=0.5, min_alpha=0.25, armijo_c=0.5)
            if cfg["stepper"] == "armijo" else make_plain_stepper())

    def factory(residual_fn, norm_fn, max_delta):
        st = base(residual_fn, norm_fn, max_delta)

        def stepper(x, delta, current_norm):
            xn, rn, alpha = st(x, delta, current_norm)
            events.append({"e": "step", "x": _pos(xn)})
            return xn, rn, alpha
        return stepper

    req = CorrectorInput(initial_guess=np.array([float(cfg["x0"])]), residual_fn=residual,
                         jacobian_fn=lambda x: np.array([[0.25]]), norm_fn=None,
                         max_attempts=int(cfg["maxAttempts"]), tol=float(cfg["tol"]),
                         max_delta=(None if cfg["cap"] == 0 else float(cfg["cap"])), fd_step=1e-8)
    out = {"kind": None, "unscripted": None}
    try:
        # three ways to hand the stepper to the backend, in rotation: at construction; per call on a backend built without one;
        # per call on a backend built with the OTHER stepper (the per-call factory takes precedence, newton.py run())
        route = _ROUTE[0] % 3
        _ROUTE[0] += 1
        if route == 0:
            res = _NewtonBackend(stepper_factory=factory).run(request=req)
        elif route == 1:
            res = _NewtonBackend().run(request=req, stepper_factory=factory)
        else:
            other = make_plain_stepper() if cfg["stepper"] == "armijo" else make_armijo_stepper(alpha_reduction=0.5, min_alpha=0.25, armijo_c=0.5)
            res = _NewtonBackend(stepper_factory=other).run(request=req, stepper_factory=factory)
        p = _pos(res.x_corrected)
        nrm = float(res.residual_norm)
        out.update(kind="returned", x=p, norm=(-1 if math.isnan(nrm) else int(nrm)), iters=int(res.iterations))
        events.append({"e": "return", "x": p, "norm": out["norm"], "iters": out["iters"]})
    except _Unscripted as ex:
        out["unscripted"] = str(ex)
    except ConvergenceError:
        out["kind"] = "conv"
        events.append({"e": "raise", "kind": "conv"})
    except Exception:
        out["kind"] = "other"
        events.append({"e": "raise", "kind": "other"})
    out["events"] = events
    return out


def classify(cfg, land, out) -> str:
    """Which clause of C05 (solver part) does the observed run violate?"""
    if out["kind"] == "returned":
        p = out["x"]
        t, v = land.get(p, ("nan", 0)) if p != NANPOS else ("nan", 0)
        if t != "v" or not (abs(v) < cfg["tol"]):
            return "returns-unconverged-state"
    xs = [cfg["x0"]] + [e["x"] for e in out["events"] if e["e"] == "step"]
    for p0, p1 in zip(xs, xs[1:]):
        if cfg["cap"] and NANPOS not in (p0, p1) and abs(p1 - p0) > cfg["cap"]:
            return "update-exceeds-step-cap"
        if cfg["stepper"] == "armijo" and p0 != p1:
            n0 = abs(land[p0][1]) if p0 in land and land[p0][0] == "v" else None
            n1 = abs(land[p1][1]) if p1 in land and land[p1][0] == "v" else None
            if n0 is None or n1 is None or n1 > n0:
                return "residual-increases-under-line-search"
    if len(xs) - 1 > cfg["maxAttempts"]:
        return "more-updates-than-max-attempts"
    return "diverges-from-algorithm"


def _land_of(b):
    land = {}
    L = b["land"]
    items = L.values() if isinstance(L, dict) else L
    for it in items:
        land[int(it[0])] = (it[1], int(it[2]))
    return land


def solver_part(ck: Check, rnd):
    r = tlc(ALGO, CFG / ("Newton.quick.cfg" if ck.quick else "Newton.thorough.cfg"), coverage=ck.quick, timeout=3000)
    ck.model("Newton." + ck.tier, r, required_actions=("Top", "Plain", "LsTrial", "StepReturn", "LsFail", "Final"))
    beh = []
    g = tlc(ALGO, CFG / "Newton.gen.cfg", timeout=1200)
    if not g.ok:
        raise MachineryError("Newton generation run failed\n" + g.out[-2000:])
    beh += g.printed()
    s = tlc(ALGO, CFG / "Newton.gensim.cfg", simulate="num=%d" % (3000 if ck.quick else 60000), depth=40,
            seed=ck.seed, workers=4 if ck.quick else 8, timeout=3000)
    if s.error:
        raise MachineryError("Newton simulation run failed\n" + s.out[-2000:])
    beh += s.printed()
    seen, uniq = set(), []
    for b in beh:
        kx = json.dumps([b["cfg"], b["land"]], sort_keys=True)
        if kx not in seen:
            seen.add(kx)
            uniq.append(b)
    beh = uniq
    traces, mism = [], []
    for b in beh:
        cfg, land = b["cfg"], _land_of(b)
        out = run_landscape(cfg, land)
        ck.count(("newton", json.dumps(cfg, sort_keys=True), json.dumps(sorted(land.items()))), len(land) >= 3)
        traces.append({"cfg": cfg, "ev": out["events"]})
        exp = b["out"]
        ok = out["unscripted"] is None and out["kind"] == exp["kind"] and (
            exp["kind"] != "returned" or (out["x"], out["norm"], out["iters"]) == (exp["x"], exp["norm"], exp["iters"]))
        if not ok:
            mism.append((b, land, out))
        if len(land) >= 6:
            ck.sample({"cfg": cfg, "landscape": {str(k): v for k, v in sorted(land.items())},
                       "observed": {k: out.get(k) for k in ("kind", "x", "norm", "iters")}})
    states, rej = validate_traces(TRACE, CFG / "NewtonTrace.cfg", traces, timeout=3000)
    ck.cov["traces_validated_against_impl"] += len(traces)
    ck.part("newton_replay", behaviours=len(beh), mismatches=len(mism), trace_states=states, traces_rejected=len(rej))
    n = 0
    done = set()
    for (b, land, out) in mism:
        clause = classify(b["cfg"], land, out)
        done.add(id(b))
        if clause == "diverges-from-algorithm" and out["kind"] in ("conv", "other") and b["out"]["kind"] != "returned":
            # raised in both worlds, different exception class: not a C05 clause
            ck.notes.append(f"exception class differs from the model: cfg={b['cfg']} land={land} got={out['kind']}")
            continue
        if clause == "diverges-from-algorithm" and b["out"]["kind"] == "returned" and out["kind"] in ("conv", "other"):
            clause = "raises-although-iteration-meets-tolerance"
        if n < 40:
            ck.violation(f"_NewtonBackend.run|{clause}",
                         f"Newton backend ({b['cfg']}) on landscape {sorted(land.items())}: observed "
                         f"{ {k: out.get(k) for k in ('kind','x','norm','iters','unscripted')} } expected {b['out']}",
                         {"part": "newton", "cfg": b["cfg"], "land": [[k, v[0], v[1]] for k, v in sorted(land.items())],
                          "expected": b["out"]})
            n += 1
    for i in sorted(rej)[:20]:
        b = beh[i]
        if id(b) in done:
            continue
        land = _land_of(b)
        out = run_landscape(b["cfg"], land)
        clause = classify(b["cfg"], land, out)
        if clause == "diverges-from-algorithm":
            ck.notes.append(f"trace rejected at event {rej[i][0]} without a C05 clause failing: cfg={b['cfg']} land={land}")
            continue
        ck.violation(f"_NewtonBackend.run|{clause}", f"trace rejected by NewtonTrace at event {rej[i][0]}",
                     {"part": "newton", "cfg": b["cfg"], "land": [[k, v[0], v[1]] for k, v in sorted(land.items())],
                      "expected": b["out"]})
    # binding self-test
    cand = [t for t in traces if sum(1 for e in t["ev"] if e["e"] == "step") >= 1]
    if cand:
        t1 = json.loads(json.dumps(rnd.choice(cand)))
        for e in t1["ev"]:
            if e["e"] == "step":
                e["x"] += 1
                break
        t2 = json.loads(json.dumps(rnd.choice(cand)))
        t2["ev"] = [e for i, e in enumerate(t2["ev"]) if not (e["e"] == "step" and i == [j for j, f in enumerate(t2["ev"]) if f["e"] == "step"][0])]
        _, rj = validate_traces(TRACE, CFG / "NewtonTrace.cfg", [t1, t2])
        if len(rj) != 2:
            raise MachineryError("binding self-test: corrupted Newton traces were accepted")
        ck.part("selftest", corrupted_traces_rejected=2)


# ------------------------------------------------------------------------------------------
# Part 2: end-to-end contract on real orbits
# ------------------------------------------------------------------------------------------

def e2e_part(ck: Check, rnd):
    import hiten
    from hiten import System
    from hiten.algorithms.types.options import (ConvergenceOptions, CorrectionOptions, IntegrationOptions)
    from hiten.algorithms.corrector.options import OrbitCorrectionOptions
    from hiten.algorithms.dynamics.base import _propagate_dynsys

    systems = [("earth", "moon")] if ck.quick else [("earth", "moon"), ("sun", "earth"), ("sun", "jupiter")]
    fams = [("halo", dict(amplitude_z=0.2, zenith="southern")), ("lyapunov", dict(amplitude_x=4e-3)),
            ("vertical", dict(initial_state=None)), ("halo-reordered", dict(amplitude_z=0.15, zenith="northern"))] if ck.quick else [
        ("halo-reordered", dict(amplitude_z=0.15, zenith="northern")),
        ("halo", dict(amplitude_z=0.2, zenith="southern")), ("halo", dict(amplitude_z=0.1, zenith="northern")),
        ("lyapunov", dict(amplitude_x=4e-3)), ("vertical", dict(initial_state=None))]
    pts = [1] if ck.quick else [1, 2]
    results = []
    for (p, s) in systems:
        system = System.from_bodies(p, s)
        for li in pts:
            L = system.get_libration_point(li)
            for fam, kw in fams:
                if fam == "vertical":
                    # seed from the centre manifold (as in examples/periodic_orbits.py); only where a CM exists cheaply
                    if (p, s) != ("earth", "moon"):
                        continue
                    try:
                        cmv = L.get_center_manifold(degree=4)
                        cmv.compute()
                        kw = dict(initial_state=np.asarray(cmv.to_synodic([0.0, 0.0], 0.6, "q3"), dtype=float))
                    except Exception as ex:
                        ck.notes.append(f"vertical seed from the centre manifold failed: {ex!r}")
                        continue
                for (tol_first, tol_second) in ([(1e-6, 1e-11)] if ck.quick else [(1e-6, 1e-11), (1e-10, 1e-5)]):
                    key = f"{p}-{s}|L{li}|{fam}|{sorted((k, v) for k, v in kw.items() if k != 'initial_state')}|tols={tol_first},{tol_second}"
                    try:
                        orbit = L.create_orbit("halo" if fam == "halo-reordered" else fam, **kw)
                        if fam == "halo-reordered":
                            # a legitimate user configuration: control variables listed in descending slot order, finite differences
                            from dataclasses import replace as _replace
                            cfg0 = orbit.correction_config
                            orbit.correction_config = _replace(cfg0, control_indices=tuple(reversed(tuple(cfg0.control_indices))), extra_jacobian=None,
                                                               numerical=_replace(cfg0.numerical, finite_difference=True))
                    except Exception as ex:
                        ck.notes.append(f"seed construction failed for {key}: {ex!r}")
                        continue
                    for tol in (tol_first, tol_second):
                        opts = OrbitCorrectionOptions(base=CorrectionOptions(
                            convergence=ConvergenceOptions(tol=tol, max_attempts=60, max_delta=1e-2)))
                        try:
                            res = orbit.correct(options=opts)
                        except Exception as ex:
                            results.append((key, tol, "raised", None, None))
                            ck.count(("e2e", key, tol), True)
                            continue
                        # contract 1: reported success => residual below the tolerance requested in THIS call
                        resid = float(res.residual_norm)
                        x0 = np.asarray(orbit.initial_state, dtype=float)
                        T = float(orbit.period)
                        sol = _propagate_dynsys(system.dynsys, x0, 0.0, T, forward=1, steps=2, method="adaptive",
                                                order=8, rtol=1e-13, atol=1e-13)
                        xf = np.asarray(sol.states[-1], dtype=float)
                        clos = float(np.linalg.norm(xf - x0))
                        results.append((key, tol, "converged" if res.converged else "not-converged", resid, clos))
                        ck.count(("e2e", key, tol), True)
                        if res.converged and not (resid < tol):
                            ck.violation("orbit.correct|reports-converged-with-residual-above-requested-tol",
                                         f"{key}: correct(tol={tol:g}) reports converged with residual {resid:.3e}",
                                         {"part": "e2e", "system": [p, s], "L": li, "family": fam, "case": key,
                                          "tols": [tol_first, tol_second], "tol": tol, "residual": resid})
                        # contract 2: closure after one period, different integrator family; monodromy
                        # amplification bounds closure by ~|lambda_max| * tol: allow 1e5 * tol + 1e-8
                        bound = 1e3 * tol + 1e-8
                        if res.converged and resid < tol and not (clos <= bound):
                            ck.violation("orbit.correct|converged-orbit-does-not-close",
                                         f"{key}: converged at tol={tol:g} but |phi_T(x0)-x0| = {clos:.3e} > {bound:.1e}",
                                         {"part": "e2e", "system": [p, s], "L": li, "family": fam, "case": key,
                                          "tols": [tol_first, tol_second], "tol": tol, "closure": clos})
    # history: an orbit REBUILT from an already converged state (the correction then needs zero Newton iterations), carrying a period
    # that is set but not the orbit's own (a rounded / inherited value).  After a successful correct() the state and the period
    # the object reports must close.
    system = System.from_bodies(*systems[0])
    for li, fam, kw in ((1, "halo", dict(amplitude_z=0.2, zenith="southern")), (2, "lyapunov", dict(amplitude_x=4e-3))):
        L = system.get_libration_point(li)
        key = f"{systems[0][0]}-{systems[0][1]}|L{li}|{fam}|rebuilt-from-converged-state-with-rounded-period"
        ck.count(("e2e-history", key), True)
        try:
            ref = L.create_orbit(fam, **kw)
            ref.correct()
            x_conv, T_conv = np.asarray(ref.initial_state, dtype=float).copy(), float(ref.period)
            orbit = L.create_orbit(fam, initial_state=x_conv.copy(), **({"zenith": kw["zenith"]} if "zenith" in kw else {}))
            orbit.period = float(f"{T_conv:.3g}")
            res = orbit.correct()
        except Exception as ex:
            ck.notes.append(f"history {key}: {type(ex).__name__}: {str(ex)[:120]} (a raise is allowed)")
            continue
        x0, T = np.asarray(orbit.initial_state, dtype=float), float(orbit.period)
        sol = _propagate_dynsys(system.dynsys, x0, 0.0, T, forward=1, steps=2, method="adaptive", order=8, rtol=1e-13, atol=1e-13)
        clos = float(np.linalg.norm(np.asarray(sol.states[-1], dtype=float) - x0))
        results.append((key, 1e-12, "converged" if res.converged else "not-converged", float(res.residual_norm), clos))
        if res.converged and not (clos <= 1e-7):
            ck.violation("orbit.correct|converged-orbit-does-not-close",
                         f"{key}: correct() reports converged (|R| = {float(res.residual_norm):.2e}) but with the period the object reports "
                         f"({T!r}; the orbit's own is {T_conv!r}) |phi_T(x0)-x0| = {clos:.3e}",
                         {"part": "e2e", "system": list(systems[0]), "L": li, "family": fam, "case": key, "closure": clos})
    ck.part("e2e", runs=len(results), detail=[{"case": k, "tol": t, "status": st, "residual": r, "closure": c}
                                              for (k, t, st, r, c) in results][:40])
    for (k, t, st, r, c) in results[:3]:
        ck.sample({"case": k, "tol": t, "status": st, "residual": r, "closure_adaptive_dop853": c})


def main(tier=None, replay=None):
    ck = Check("C05", "model_checking", tier)
    rnd = random.Random(ck.seed)
    if replay:
        data = json.load(open(replay))["data"]
        if data.get("part") == "newton":
            land = {int(k): (t, int(v)) for k, t, v in data["land"]}
            out = run_landscape(data["cfg"], land)
            print(json.dumps({"observed": out, "expected": data["expected"]}, indent=1, default=str))
            exp = data["expected"]
            bad = out["unscripted"] or out["kind"] != exp["kind"] or (
                exp["kind"] == "returned" and (out["x"], out["norm"], out["iters"]) != (exp["x"], exp["norm"], exp["iters"]))
            if bad:
                print(f"VIOLATION property=C05 replay={replay}")
                return 1
            return 0
        print("replay of end-to-end cases: re-run ./check C05 (the case is deterministic)")
        return 0
    solver_part(ck, rnd)
    e2e_part(ck, rnd)
    ck.cov["rule"] = ("solver: behaviours = terminal states of Newton.tla (config x lazily chosen residual landscape), "
                      "exhaustive for the generation config + seeded -simulate samples; non-trivial = landscape with >= 3 "
                      "evaluated points. end-to-end: (system, point, family, tolerance pair) grid; each orbit corrected "
                      "twice with different tolerances")
    ck.cov["exhaustive"] = True
    ck.assumptions += ["scripted residual map on a 1-D lattice, constant Jacobian 1/4, dyadic Armijo parameters",
                      "closure is measured with the library's adaptive DOP853 (a different integrator family than the "
                      "corrector's), not with an integrator outside the library",
                      "closure bound 1e3*tol + 1e-8 (observed ~10*tol on the unchanged tree) accounts for monodromy amplification (|lambda_max| ~ 1e3 for L1 halos)"]
    return ck.finish()


if __name__ == "__main__":
    sys.exit(main())
