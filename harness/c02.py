"""C02 -- integrators deliver their declared order and requested tolerance.

Three parts (see tools/reports/C02.md):

 1. ORDER CONDITIONS (spec/kernels/RKTableau.tla PART 2, MCRKTableau.tla, MCRKTrees.tla).
    The tableaux are extracted from the working tree at run time: coefficients/{rk4,rk6,rk45,rk8}.py
    are parsed with `ast` into Fractions, every parsed entry is bound to the runtime array element
    the integrators really use (float(Fraction) == element, bit for bit), a TableauData.tla module is
    generated in the per-run work directory and TLC evaluates every rooted-tree order condition in
    Z/p for several primes.  The verdict that is REPORTED is about the runtime floats: a condition is
    violated when its residual, evaluated exactly on the runtime floats, exceeds RESID_TOL.
 2. STAGE LOOPS APPLY THE TABLE (RKTableau.tla PART 1, MCRKStep.tla): exact dyadic instances
    enumerated and solved by TLC are replayed into every copy of the stage loop.
 3. ADAPTIVE DRIVER + DENSE OUTPUT (spec/algo/StepDriver.tla, spec/trace/StepDriverTrace.tla):
    model checking of algorithm => requirement, TLC-generated accept/reject scripts driven through
    the real driver source (.py_func with patched module globals), and real traces on random smooth
    problems validated by TLC.
"""
from __future__ import annotations

import ast
import importlib
import json
import math
import random
import sys
import time
from fractions import Fraction as F

import numpy as np

from common import REPO, SPEC, Check, MachineryError, tlc, validate_traces, workdir

CFG = SPEC / "cfg"
KERN = SPEC / "kernels"
COEF = REPO / "src" / "hiten" / "algorithms" / "integrators" / "coefficients"
JENV = {"JDK_JAVA_OPTIONS": "-Xss64m"}      # deep recursive operators need a larger thread stack

# [T]-tier thresholds (measured on the unchanged tree, see ck.part("float_contract")):
RESID_TOL = 1e-11      # order-condition residual on runtime floats; unchanged tree <= 5.2e-14
ROWSUM_TOL = 2e-13     # |sum_j a_ij - c_i| on runtime floats; unchanged tree <= 1.8e-15


# ======================================================================================
# Part 1: tableaux
# ======================================================================================

def parse_coefficient_source(path):
    """name -> nested list of Fraction for every `NAME = np.array(<literal>)` in the file.
    Integer-valued literals and quotients are exact; a decimal literal is taken at its decimal value."""
    src = path.read_text()
    tree = ast.parse(src)

    def ev(node):
        if isinstance(node, ast.Constant) and not isinstance(node.value, bool):
            if isinstance(node.value, int):
                return F(node.value)
            if isinstance(node.value, float):
                return F(ast.get_source_segment(src, node).replace("_", ""))
        if isinstance(node, ast.BinOp):
            a, b = ev(node.left), ev(node.right)
            if isinstance(node.op, ast.Div):
                return a / b
            if isinstance(node.op, ast.Mult):
                return a * b
            if isinstance(node.op, ast.Add):
                return a + b
            if isinstance(node.op, ast.Sub):
                return a - b
        if isinstance(node, ast.UnaryOp) and isinstance(node.op, ast.USub):
            return -ev(node.operand)
        if isinstance(node, ast.UnaryOp) and isinstance(node.op, ast.UAdd):
            return ev(node.operand)
        if isinstance(node, (ast.List, ast.Tuple)):
            return [ev(e) for e in node.elts]
        raise ValueError(f"not a rational literal: {ast.dump(node)[:80]}")

    out = {}
    for st in tree.body:
        if (isinstance(st, ast.Assign) and len(st.targets) == 1 and isinstance(st.targets[0], ast.Name)
                and isinstance(st.value, ast.Call) and getattr(st.value.func, "attr", "") == "array"
                and st.value.args):
            try:
                out[st.targets[0].id] = ev(st.value.args[0])
            except ValueError:
                pass
    return out


def bound_bitwise(parsed, arr) -> bool:
    """float(parsed Fraction) == runtime element for every element (and same shape)."""
    a = np.asarray(arr, dtype=np.float64)
    p = np.array(parsed, dtype=object)
    if a.shape != p.shape:
        return False
    return all(float(p[i]) == a[i] for i in np.ndindex(a.shape))


def fr_of_floats(arr):
    a = np.asarray(arr, dtype=np.float64)
    if a.ndim == 1:
        return [F(float(x)) for x in a]
    return [[F(float(x)) for x in r] for r in a]


# ---- rooted trees (shapes come from TLC, MCRKTrees) and exact evaluation with Fractions -------------

def tree_size(t):
    return 1 + sum(tree_size(c) for c in t)


def phi_vec(A, t, s):
    """Elementary weights Phi_i(t), i < s (A rows may be shorter than s: missing entries are 0)."""
    res = [F(1)] * s
    for c in t:
        pc = phi_vec(A, c, s)
        w = [sum((A[i][j] * pc[j] for j in range(min(len(A[i]), s)) if A[i][j] != 0), F(0)) for i in range(s)]
        res = [res[i] * w[i] for i in range(s)]
    return res


def order_residual(A, w, t, gamma):
    s = len(w)
    p = phi_vec(A, t, s)
    return sum((w[i] * p[i] for i in range(s)), F(0)) * gamma - 1


def limbs(n: int) -> str:
    s = str(n)
    out = []
    while s:
        out.append(int(s[-4:]))
        s = s[:-4]
    return "<<" + ", ".join(str(x) for x in reversed(out)) + ">>"


def tla_big(fr) -> str:
    fr = F(fr)
    sg = 0 if fr == 0 else (1 if fr > 0 else -1)
    return f"[sg |-> {sg}, n |-> {limbs(abs(fr.numerator))}, d |-> {limbs(fr.denominator)}]"


def tla_vec(v) -> str:
    return "<<" + ", ".join(tla_big(x) for x in v) + ">>"


def tla_mat(A) -> str:
    return "<<" + ",\n      ".join(tla_vec(r) for r in A) + ">>"


def small_primes_desc():
    n = 46340
    sieve = bytearray([1]) * (n + 1)
    sieve[0:2] = b"\0\0"
    for i in range(2, int(n ** 0.5) + 1):
        if sieve[i]:
            sieve[i * i::i] = bytearray(len(sieve[i * i::i]))
    return [i for i in range(n, 1, -1) if sieve[i]]


def numerator_bound(A, ws, qmax, gamma_max):
    """Bound on |numerator| of any condition residual  gamma * sum_i w_i Phi_i(t) - c  (|c| <= 1),
    |t| <= qmax, when written over the denominator D_w * D_A^(qmax-1)."""
    ents = [x for r in A for x in r]
    DA = 1
    for x in ents:
        DA = DA * x.denominator // math.gcd(DA, x.denominator)
    R = max([sum(abs(x) for x in r) for r in A] + [F(1)])
    best = 1
    for w in ws:
        Dw = 1
        for x in w:
            Dw = Dw * x.denominator // math.gcd(Dw, x.denominator)
        W = sum(abs(x) for x in w)
        mag = gamma_max * W * R ** (qmax - 1) + 1
        best = max(best, int(math.ceil(Dw * DA ** (qmax - 1) * mag)) + 1)
    return best


class Scheme:
    """One tableau as the integrators use it, plus the source rationals when the source is literal."""

    def __init__(self, name, kind, declared):
        self.name, self.kind, self.declared = name, kind, declared
        self.rt = {}        # runtime arrays (np.float64) actually held by the integrator objects
        self.src = None     # parsed Fractions (same keys) or None
        self.bound = False  # every parsed entry is, bit for bit, the runtime entry
        self.notes = []


def collect_schemes(ck: Check):
    """Runtime tables from the integrator objects the factories hand out + parsed sources."""
    import hiten.algorithms.integrators.rk as rk
    out = []
    for order, modname in ((4, "rk4"), (6, "rk6"), (8, "rk8")):
        obj = rk.FixedRK(order=order)
        sc = Scheme(modname, "erk", int(obj.order))
        sc.rt = {"A": np.asarray(obj._A, float), "B": np.asarray(obj._B_HIGH, float), "C": np.asarray(obj._C, float)}
        try:
            sc.src = parse_coefficient_source(COEF / f"{modname}.py")
            sc.bound = all(k in sc.src and bound_bitwise(sc.src[k], sc.rt[k]) for k in ("A", "B", "C"))
        except Exception as ex:  # noqa
            sc.src, sc.bound = None, False
            sc.notes.append(f"source not parsed: {ex!r}")
        out.append(sc)
    obj = rk.AdaptiveRK(order=5)
    sc = Scheme("rk45", "dp45", int(obj.order))
    sc.rt = {"A": np.asarray(obj._A, float), "B": np.asarray(obj._B_HIGH, float), "C": np.asarray(obj._C, float),
             "E": np.asarray(obj._E, float), "P": np.asarray(rk.RK45_P, float)}
    try:
        src = parse_coefficient_source(COEF / "rk45.py")
        sc.src = {"A": src["A"], "B": src["B_HIGH"], "C": src["C"], "E": src["E"], "P": src["P"],
                  "BLOW": src.get("B_LOW")}
        sc.bound = all(bound_bitwise(sc.src[k], sc.rt[k]) for k in ("A", "B", "C", "E", "P"))
    except Exception as ex:  # noqa
        sc.src, sc.bound = None, False
        sc.notes.append(f"source not parsed: {ex!r}")
    out.append(sc)
    obj = rk.AdaptiveRK(order=8)
    sc = Scheme("dop853", "erk", int(obj.order))
    sc.rt = {"A": np.asarray(obj._A, float), "B": np.asarray(obj._B_HIGH, float), "C": np.asarray(obj._C, float),
             "A_full": np.asarray(rk.DOP853_A, float), "C_full": np.asarray(rk.DOP853_C, float)}
    sc.notes.append("source builds the table by element assignment from 30-digit decimals: no rational source")
    out.append(sc)
    return out


def ext_dp45(A, B, C):
    """7-stage method the adaptive kernel really runs: stage 7 = f(t + h, y_high)."""
    A7 = [list(r) + [F(0)] * (7 - len(r)) for r in A] + [list(B) + [F(0)]]
    return A7, list(B) + [F(0)], list(C) + [F(1)]


def write_tableau_module(wd, schemes, primes):
    recs = []
    for sc in schemes:
        s = sc.src
        if sc.kind == "erk":
            n = len(s["B"])
            A = [list(r) + [F(0)] * (n - len(r)) for r in s["A"]]
            recs.append(f'[name |-> "{sc.name}", kind |-> "erk", declared |-> {sc.declared}, s |-> {n},\n'
                        f'  A |-> {tla_mat(A)},\n  B |-> {tla_vec(s["B"])},\n  C |-> {tla_vec(s["C"])}]')
        else:
            A = [list(r) + [F(0)] * (6 - len(r)) for r in s["A"]]
            blow = s["BLOW"] if s.get("BLOW") and len(s["BLOW"]) == 6 else [F(0)] * 6
            recs.append(f'[name |-> "{sc.name}", kind |-> "dp45", declared |-> {sc.declared}, s |-> 6,\n'
                        f'  A |-> {tla_mat(A)},\n  B |-> {tla_vec(s["B"])},\n  C |-> {tla_vec(s["C"])},\n'
                        f'  E |-> {tla_vec(s["E"])},\n  P |-> {tla_mat(s["P"])},\n  BLOW |-> {tla_vec(blow)}]')
    text = ("---- MODULE TableauData ----\n"
            "\\* GENERATED by harness/c02.py from the coefficient sources of the working tree; never committed.\n"
            "EXTENDS MCRKTableau\nSchemeData == <<\n" + ",\n".join(recs) + ">>\n"
            "PrimeData == <<" + ", ".join(map(str, primes)) + ">>\n====\n")
    (wd / "TableauData.tla").write_text(text)
    return wd / "TableauData.tla"


def part_tableaux(ck: Check):
    import hiten.algorithms.integrators.rk as rk
    schemes = collect_schemes(ck)

    # ---- trees from TLC
    r = tlc(KERN / "MCRKTrees.tla", CFG / "RKTrees.cfg", workers=1, env=JENV, timeout=300)
    ck.model("RKTrees", r)
    pr = r.printed()
    if len(pr) != 1:
        raise MachineryError("MCRKTrees did not print exactly one record")
    trees = {}          # q -> {code: (kids, gamma)}
    for qi, row in enumerate(pr[0]["trees"], start=1):
        trees[qi] = {int(c): (v["kids"], int(v["gamma"])) for c, v in row.items()}
        for c, (kids, g) in trees[qi].items():
            if tree_size(kids) != qi:
                raise MachineryError("tree table inconsistent")
    scheme_map = pr[0]["schemes"]
    ck.part("trees", per_order=[len(trees[q]) for q in sorted(trees)])

    # ---- exact verdicts from TLC on the literal sources
    exact = [sc for sc in schemes if sc.src is not None and sc.kind in ("erk", "dp45")
             and (sc.kind != "erk" or len(sc.src["B"]) <= 13)]
    # primes: avoid every denominator; enough of them to PROVE the rk4/rk6/rk45 identities
    dens = set()
    need = 1
    for sc in exact:
        for k, v in sc.src.items():
            if v is None:
                continue
            for x in (np.array(v, dtype=object).ravel()):
                dens.add(F(x).denominator)
        if sc.name in ("rk8",):
            continue   # rational approximations of irrational coefficients: refuted, never proved
        if sc.kind == "erk":
            A = [list(r) for r in sc.src["A"]]
            need = max(need, numerator_bound(A, [sc.src["B"]], min(sc.declared, 6), 720))
        else:
            A7, B7, C7 = ext_dp45(sc.src["A"], sc.src["B"], sc.src["C"])
            cols = [[sc.src["P"][r][c] for r in range(7)] for c in range(4)]
            need = max(need, numerator_bound(A7, [B7, sc.src["E"]] + cols, 5, 120))
    primes = []
    prod = 1
    for p in small_primes_desc():
        if any(d % p == 0 for d in dens):
            continue
        primes.append(p)
        prod *= p
        if prod > 2 * need and len(primes) >= 8:
            break
    wd = workdir("tableau")
    root = write_tableau_module(wd, exact, primes)
    r = tlc(root, CFG / "RKTableau.cfg", workers=8, env=JENV, timeout=900)
    ck.model("RKTableau.order_conditions", r)
    recs = r.printed()
    if len(recs) != len(exact) * len(primes):
        raise MachineryError(f"expected {len(exact) * len(primes)} residue records, got {len(recs)}")
    if not all(x["denok"] for x in recs):
        raise MachineryError("a proposed prime divides a denominator")
    ck.part("primes", count=len(primes), smallest=min(primes), product_bits=prod.bit_length(),
            needed_bits=(2 * need).bit_length())

    # aggregate: condition id -> set of residues over primes
    agg = {}
    for rec in recs:
        sname = rec["scheme"]
        p = rec["p"]

        def put(cid, val):
            agg.setdefault((sname, cid), {})[p] = int(val)
        for i, v in enumerate(rec["rowsum"]):
            put(("rowsum", i), v)
        for q, row in enumerate(rec["order"], start=1):
            for c, v in row.items():
                put(("order", q, int(c)), v)
        if rec["kind"] == "dp45":
            for q, row in enumerate(rec["loworder"], start=1):
                for c, v in row.items():
                    put(("loworder", q, int(c)), v)
            for q, row in enumerate(rec["eannih"], start=1):
                for c, v in row.items():
                    put(("eannih", q, int(c)), v)
            for jx, v in enumerate(rec["eblow"]):
                put(("eblow", jx), v)
            for rr, v in enumerate(rec["prow"]):
                put(("prow", rr), v)
            for cpow, rows in enumerate(rec["dense"], start=1):
                for q, row in enumerate(rows, start=1):
                    for c, v in row.items():
                        put(("dense", cpow, q, int(c)), v)

    # ---- cross-validate the Python evaluator against TLC on every (scheme, prime, tree)
    nx = 0
    for sc in exact:
        if sc.kind == "erk":
            A, w = [list(r) for r in sc.src["A"]], list(sc.src["B"])
        else:
            A, w, _ = ext_dp45(sc.src["A"], sc.src["B"], sc.src["C"])
        top = min(sc.declared + 1, 6)
        for q in range(1, top + 1):
            for code, (kids, g) in trees[q].items():
                res = order_residual(A, w, kids, g)
                for p in primes[:6]:
                    exp = (res.numerator * pow(res.denominator, -1, p)) % p
                    if agg[(sc.name, ("order", q, code))][p] != exp:
                        raise MachineryError(f"Python evaluator and TLC disagree on {sc.name} tree {code} mod {p}")
                    nx += 1
    ck.part("evaluator_cross_validation", residues_compared=nx)

    def exact_status(sname, cid):
        d = agg.get((sname, cid))
        if d is None:
            return "not-evaluated"
        if any(v != 0 for v in d.values()):
            return "refuted"
        return "proved" if prod > 2 * need else "zero-mod-primes"

    # ---- the verdict on the RUNTIME floats, with exact Fractions of those floats
    report = {}
    worst_ok = 0.0
    worst_rowsum = 0.0
    smallest_bad = None
    for sc in schemes:
        t0 = time.time()
        rt = sc.rt
        A = fr_of_floats(rt["A"])
        w = fr_of_floats(rt["B"])
        C = fr_of_floats(rt["C"])
        if sc.kind == "dp45":
            A, w, C = ext_dp45(A, w, C)
        s = len(w)
        info = {"declared": sc.declared, "stages": s, "source_bound_bitwise": sc.bound, "notes": sc.notes}
        # row sums
        rs = [abs(float(sum(A[i][:s], F(0)) - C[i])) for i in range(s)]
        if sc.name == "dop853":
            Af, Cf = fr_of_floats(rt["A_full"]), fr_of_floats(rt["C_full"])
            rs += [abs(float(sum(Af[i], F(0)) - Cf[i])) for i in range(len(Cf))]
        info["rowsum_max"] = max(rs)
        ck.count((sc.name, "rowsum"), True)
        if max(rs) > ROWSUM_TOL:
            ck.violation(f"tableau={sc.name}|row-sum-mismatch",
                         f"rows of A of the {sc.name} table do not sum to C (max defect {max(rs):.3e})",
                         {"kind": "rowsum", "scheme": sc.name, "defect": max(rs)})
        else:
            worst_rowsum = max(worst_rowsum, max(rs))
        # order conditions up to the declared order
        per_order = {}
        exact_refuted = 0
        for q in range(1, sc.declared + 1):
            fails = []
            for code, (kids, g) in trees[q].items():
                res = abs(float(order_residual(A, w, kids, g)))
                ck.count((sc.name, "order", code), q >= 3)
                st = exact_status(sc.name, ("order", q, code)) if sc.bound else "no-exact-source"
                if st == "refuted":
                    exact_refuted += 1
                if res > RESID_TOL:
                    fails.append({"code": code, "kids": kids, "gamma": g, "residual": res, "exact": st})
                    smallest_bad = res if smallest_bad is None else min(smallest_bad, res)
                else:
                    worst_ok = max(worst_ok, res)
            per_order[q] = {"conditions": len(trees[q]), "fail": len(fails)}
            if fails:
                ck.violation(f"tableau={sc.name}|order-{q}-conditions-fail",
                             f"{sc.name} is shipped as order {sc.declared} but {len(fails)} of {len(trees[q])} "
                             f"order-{q} conditions fail (largest residual "
                             f"{max(f['residual'] for f in fails):.3e}); it is used by "
                             f"{[k for k, v in scheme_map.items() for e in v if e['scheme'] == sc.name]}",
                             {"kind": "order", "scheme": sc.name, "declared": sc.declared, "order": q,
                              "n_fail": len(fails), "n_total": len(trees[q]), "failing": fails})
        info["per_order"] = per_order
        if sc.bound and sc.src is not None and (sc.name, ("order", 1, 2)) in agg:
            top = min(sc.declared, 6)
            sts = [exact_status(sc.name, ("order", q, c)) for q in range(1, top + 1) for c in trees[q]]
            info["exact"] = {"proved": sts.count("proved"), "refuted": sts.count("refuted"),
                             "zero_mod_primes": sts.count("zero-mod-primes"), "up_to_order": top}
            if sts.count("refuted") and not any(per_order[q]["fail"] for q in per_order):
                info["tables_not_exact"] = ("source rationals violate the identities exactly (TLC residues non-zero) "
                                            "but the runtime floats satisfy them to rounding")
        else:
            info["tables_not_exact"] = "no exactly rational source bound to the runtime table"
        # embedded pair, error weights, dense output (rk45)
        if sc.kind == "dp45":
            E = fr_of_floats(rt["E"])
            P = fr_of_floats(rt["P"])
            emb_fail = []
            for q in range(1, sc.declared):
                for code, (kids, g) in trees[q].items():
                    ph = phi_vec(A, kids, 7)
                    res = abs(float(sum((E[i] * ph[i] for i in range(7)), F(0))))
                    ck.count((sc.name, "eannih", code), True)
                    if res > RESID_TOL:
                        emb_fail.append({"code": code, "kids": kids, "residual": res})
                    else:
                        worst_ok = max(worst_ok, res)
            if emb_fail:
                ck.violation(f"tableau={sc.name}|embedded-order-{sc.declared - 1}-fail",
                             f"the error weights E of {sc.name} do not annihilate {len(emb_fail)} trees of order "
                             f"< {sc.declared}: y_low = y_high - err is not an order-{sc.declared - 1} solution",
                             {"kind": "eannih", "scheme": sc.name, "failing": emb_fail})
            # estimator must not vanish identically at the next order
            nz = sum(1 for code, (kids, g) in trees[sc.declared].items()
                     if abs(float(sum((E[i] * phi_vec(A, kids, 7)[i] for i in range(7)), F(0)))) > 1e-6)
            info["error_estimator_nonzero_trees_at_declared_order"] = nz
            if nz == 0:
                ck.violation(f"tableau={sc.name}|error-estimator-degenerate",
                             "the error weights annihilate every tree of the declared order: the estimate is blind",
                             {"kind": "edegenerate", "scheme": sc.name})
            prow = [abs(float(sum(P[r_], F(0)) - w[r_])) for r_ in range(7)]
            dense_fail = []
            for q in range(1, sc.declared):
                for code, (kids, g) in trees[q].items():
                    ph = phi_vec(A, kids, 7)
                    for c in range(4):
                        val = sum((P[r_][c] * ph[r_] for r_ in range(7)), F(0)) * g - (1 if c + 1 == q else 0)
                        ck.count((sc.name, "dense", code, c), True)
                        if abs(float(val)) > RESID_TOL:
                            dense_fail.append({"code": code, "kids": kids, "power": c + 1, "residual": abs(float(val))})
                        else:
                            worst_ok = max(worst_ok, abs(float(val)))
            info["dense_P_rowsum_max"] = max(prow)
            if max(prow) > RESID_TOL:
                ck.violation(f"tableau={sc.name}|dense-P-not-B-at-1",
                             f"dense-output matrix P does not reproduce B_HIGH at x = 1 (defect {max(prow):.3e})",
                             {"kind": "prow", "scheme": sc.name, "defect": max(prow)})
            if dense_fail:
                ck.violation(f"tableau={sc.name}|dense-P-order-{sc.declared - 1}-fail",
                             f"{len(dense_fail)} continuity conditions of the dense-output polynomial fail",
                             {"kind": "dense", "scheme": sc.name, "failing": dense_fail[:40]})
            if sc.bound:
                ex = {k: [exact_status(sc.name, cid) for (sn, cid) in agg if sn == sc.name and cid[0] == k]
                      for k in ("loworder", "eannih", "prow", "dense", "eblow", "rowsum")}
                info["exact_embedded"] = {k: {"proved": v.count("proved"), "refuted": v.count("refuted")}
                                          for k, v in ex.items()}
                # order-5 trees are expected to be 'refuted' for eannih (estimator non-degenerate)
                if ex["eblow"].count("refuted"):
                    ck.notes.append("rk45.B_LOW (module constant, never read by the integrator) is not B_HIGH + E[:6]")
        info["wall_s"] = round(time.time() - t0, 1)
        report[sc.name] = info
    ck.part("tableaux", **report)
    ck.part("float_contract", resid_tol=RESID_TOL, largest_residual_accepted=worst_ok,
            margin_low=(RESID_TOL / worst_ok if worst_ok else None),
            smallest_residual_rejected=smallest_bad,
            margin_high=(smallest_bad / RESID_TOL if smallest_bad else None),
            rowsum_tol=ROWSUM_TOL, largest_rowsum_defect_accepted=worst_rowsum,
            rowsum_margin_low=(ROWSUM_TOL / worst_rowsum if worst_rowsum else None),
            trusted_base="python-fractions (cross-validated against TLC residues)")
    if worst_ok and RESID_TOL / worst_ok < 100:
        raise MachineryError(f"float contract lost its 100x margin: largest accepted residual {worst_ok:.3e}")
    if worst_rowsum and ROWSUM_TOL / worst_rowsum < 100:
        raise MachineryError(f"row-sum contract lost its 100x margin: {worst_rowsum:.3e}")

    # ---- factories: which table a requested order selects (RKTableau.SchemeOf)
    from hiten.algorithms.poincare.centermanifold import backend as cmb
    mods = {n: importlib.import_module(f"hiten.algorithms.integrators.coefficients.{n}")
            for n in ("rk4", "rk6", "rk8", "rk45", "dop853")}

    def tables_of(name):
        m = mods[name]
        if name == "rk45":
            return m.A, m.B_HIGH, m.C
        if name == "dop853":
            n = m.N_STAGES
            return m.A[:n, :n], m.B[:n], m.C[:n]
        return m.A, m.B, m.C

    for fam, entries in scheme_map.items():
        for e in entries:
            o, want, decl = int(e["order"]), e["scheme"], int(e["declared"])
            ck.count(("factory", fam, o), True)
            try:
                if fam == "CMMap":
                    got = cmb._get_rk_coefficients(o)
                    got_order = decl
                else:
                    obj = getattr(rk, fam)(order=o)
                    got = (obj._A, obj._B_HIGH, obj._C)
                    got_order = int(obj.order)
                ok = got_order == decl and all(
                    np.asarray(g).shape == np.asarray(x).shape and np.array_equal(np.asarray(g, float), np.asarray(x, float))
                    for g, x in zip(got, tables_of(want)))
            except Exception as ex:  # noqa
                ok, got_order = False, repr(ex)
            if not ok:
                ck.violation(f"factory={fam}|order={o}|wrong-scheme",
                             f"{fam}(order={o}) does not hand out the {want} table with declared order {decl} "
                             f"(reported order {got_order})",
                             {"kind": "factory", "family": fam, "order": o, "scheme": want, "declared": decl})
    return trees



# ======================================================================================
# Part 2: the stage loops apply the table (exact replay of TLC instances)
# ======================================================================================

def rat(x) -> F:
    return F(int(x[0]), int(x[1]))


def rvec(v):
    return [rat(x) for x in v]


def fvec(v):
    """Fractions -> float64 array; every instance is dyadic, so the conversion must be exact."""
    out = np.array([float(x) for x in v], dtype=np.float64)
    for a, b in zip(out, v):
        if F(float(a)) != b:
            raise MachineryError(f"instance value {b} is not exactly representable")
    return out


def exact_eq(arr, expected) -> bool:
    """Every float of `arr` equals the expected rational exactly."""
    a = np.asarray(arr, dtype=np.float64).ravel()
    e = list(expected)
    return len(a) == len(e) and all(np.isfinite(x) and F(float(x)) == y for x, y in zip(a, e))


class StepTargets:
    """The copies of the stage loop in the working tree, behind one calling convention."""

    def __init__(self):
        import numba
        import hiten.algorithms.integrators.rk as rk
        from hiten.algorithms.poincare.centermanifold import backend as cmb
        self.rk, self.cmb = rk, cmb

        # one compiled field for all affine instances: parameters travel in the state vector
        #   y = (y1, y2, a1, a2, b1, b2, m11, m12, m21, m22),   (y1, y2)' = a + b t + M (y1, y2)
        @numba.njit(cache=False)
        def aff_field(t, y):
            out = np.zeros_like(y)
            out[0] = y[2] + y[4] * t + y[6] * y[0] + y[7] * y[1]
            out[1] = y[3] + y[5] * t + y[8] * y[0] + y[9] * y[1]
            return out
        self.aff_field = aff_field
        self._ham = {}

    def ham(self, H):
        """(jac_H, clmo_H) of the polynomial Hamiltonian given as TLC monomials [{c, e}]."""
        key = json.dumps(H, sort_keys=True)
        if key not in self._ham:
            from numba.typed import List
            from hiten.algorithms.dynamics.hamiltonian import create_hamiltonian_system
            from hiten.algorithms.polynomial.base import (_create_encode_dict_from_clmo, _encode_multiindex,
                                                          _init_index_tables)
            deg = max(3, max(sum(m["e"]) for m in H))
            psi, clmo = _init_index_tables(deg)
            enc = _create_encode_dict_from_clmo(clmo)
            blocks = [np.zeros(psi[6, d], dtype=np.complex128) for d in range(deg + 1)]
            for m in H:
                k = np.array(m["e"], dtype=np.int64)
                d = int(k.sum())
                pos = _encode_multiindex(k, d, enc)
                if pos < 0:
                    raise MachineryError("monomial not encodable")
                blocks[d][pos] += float(m["c"])
            L = List()
            for b in blocks:
                L.append(b)
            hs = create_hamiltonian_system(L, deg, psi, clmo, enc, n_dof=3)
            self._ham[key] = (hs.jac_H, hs.clmo_H)
        return self._ham[key]

    @staticmethod
    def aff_state(f, y):
        return fvec(list(y) + [F(x) for x in f["a"]] + [F(x) for x in f["b"]] + [F(x) for r in f["M"] for x in r])


def run_step_instance(T: StepTargets, inst, only=None):
    """Run one TLC instance through every applicable copy of the stage loop.
    Returns list of (target name, {output name: ndarray})."""
    rk, cmb = T.rk, T.cmb
    tab, f = inst["tab"], inst["f"]
    s = int(tab["s"])
    A = np.array([[float(rat(x)) for x in r] for r in tab["A"]], dtype=np.float64)
    B = fvec(rvec(tab["B"]))
    C = fvec(rvec(tab["C"]))
    has_low = isinstance(tab["BL"], list) and len(tab["BL"]) > 0
    BL = fvec(rvec(tab["BL"])) if has_low else np.empty(0, dtype=np.float64)
    t = float(rat(inst["t"]))
    hs = [float(rat(x)) for x in inst["hs"]]
    y = rvec(inst["y"])
    aff = f["kind"] == "aff"
    dim = len(y)
    if aff:
        y0 = T.aff_state(f, y)
        fld = T.aff_field
    else:
        y0 = fvec(y)
        jac, clmo = T.ham(f["H"])
    res = []

    def want(name):
        return only is None or only == name

    def cut(a):
        a = np.asarray(a)
        return a[..., :dim]

    if inst["fam"] == "emb":
        h = hs[0]
        if aff:
            if want("rk_embedded_step_jit_kernel"):
                hi, lo, er = rk.rk_embedded_step_jit_kernel(fld, t, y0, h, A, B, BL, C, has_low)
                res.append(("rk_embedded_step_jit_kernel", {"high": cut(hi), "low": cut(lo), "err": cut(er),
                                                            "params": np.asarray(hi)[dim:] - y0[dim:]}))
            if want("_integrate_fixed_rk"):
                st, dv = rk._FixedStepRK._integrate_fixed_rk(fld, y0, np.array([t, t + h]), A, B, BL, C, has_low)
                res.append(("_integrate_fixed_rk", {"high": cut(st[1])}))
        else:
            if want("rk_embedded_step_ham_jit_kernel"):
                hi, lo, er = rk.rk_embedded_step_ham_jit_kernel(t, y0, h, A, B, BL, C, has_low, jac, clmo, 3)
                res.append(("rk_embedded_step_ham_jit_kernel", {"high": hi, "low": lo, "err": er}))
            if want("_integrate_fixed_rk_ham"):
                st, dv = rk._FixedStepRK._integrate_fixed_rk_ham(y0, np.array([t, t + h]), A, B, BL, C, has_low,
                                                                  jac, clmo, 3)
                res.append(("_integrate_fixed_rk_ham", {"high": st[1]}))
            if want("centermanifold._integrate_rk_ham"):
                tr = cmb._integrate_rk_ham(y0, np.array([t, t + h]), A, B, C, jac, clmo)
                res.append(("centermanifold._integrate_rk_ham", {"high": tr[1]}))
    elif inst["fam"] == "fsal":
        h = hs[0]
        Es = [fvec(rvec(e)) for e in inst["Es"]]
        if s == 6 and len(Es) == 1:
            A65 = np.ascontiguousarray(A[:, :5])
            if aff:
                if want("rk45_step_jit_kernel"):
                    hi, lo, er, k = rk.rk45_step_jit_kernel(fld, t, y0, h, A65, B, C, Es[0])
                    res.append(("rk45_step_jit_kernel", {"high": cut(hi), "low": cut(lo), "err": cut(er), "k": cut(k)}))
                if want("dop853_step_jit_kernel"):
                    hi, lo, er, e5, e3, k = rk.dop853_step_jit_kernel(fld, t, y0, h, A, B, C, Es[0], Es[0])
                    res.append(("dop853_step_jit_kernel", {"high": cut(hi), "err": cut(e5), "err3": cut(e3), "k": cut(k)}))
            else:
                if want("rk45_step_ham_jit_kernel"):
                    hi, lo, er, k = rk.rk45_step_ham_jit_kernel(t, y0, h, A65, B, C, Es[0], jac, clmo, 3)
                    res.append(("rk45_step_ham_jit_kernel", {"high": hi, "low": lo, "err": er, "k": k}))
                if want("dop853_step_ham_jit_kernel"):
                    hi, lo, er, e5, e3, k = rk.dop853_step_ham_jit_kernel(t, y0, h, A, B, C, Es[0], Es[0], jac, clmo, 3)
                    res.append(("dop853_step_ham_jit_kernel", {"high": hi, "err": e5, "err3": e3, "k": k}))
        else:
            if aff:
                if want("dop853_step_jit_kernel"):
                    hi, lo, er, e5, e3, k = rk.dop853_step_jit_kernel(fld, t, y0, h, A, B, C, Es[0], Es[1])
                    res.append(("dop853_step_jit_kernel", {"high": cut(hi), "err": cut(e5), "err2": cut(e3), "k": cut(k)}))
            else:
                if want("dop853_step_ham_jit_kernel"):
                    hi, lo, er, e5, e3, k = rk.dop853_step_ham_jit_kernel(t, y0, h, A, B, C, Es[0], Es[1], jac, clmo, 3)
                    res.append(("dop853_step_ham_jit_kernel", {"high": hi, "err": e5, "err2": e3, "k": k}))
    else:   # run
        tv = [t]
        for h in hs:
            tv.append(tv[-1] + h)
        tv = np.array(tv, dtype=np.float64)
        if aff:
            if want("_integrate_fixed_rk"):
                st, dv = rk._FixedStepRK._integrate_fixed_rk(fld, y0, tv, A, B, BL, C, False)
                res.append(("_integrate_fixed_rk", {"states": cut(st)}))
        else:
            if want("_integrate_fixed_rk_ham"):
                st, dv = rk._FixedStepRK._integrate_fixed_rk_ham(y0, tv, A, B, BL, C, False, jac, clmo, 3)
                res.append(("_integrate_fixed_rk_ham", {"states": st}))
            if want("centermanifold._integrate_rk_ham"):
                tr = cmb._integrate_rk_ham(y0, tv, A, B, C, jac, clmo)
                res.append(("centermanifold._integrate_rk_ham", {"states": tr}))
    return res


def expected_outputs(rec):
    """TLC's expected values as flat lists of Fractions per output name."""
    o = rec["out"]
    e = {}
    if rec["inst"]["fam"] == "run":
        e["states"] = [rat(x) for st in o["states"] for x in st]
        return e
    e["high"] = rvec(o["high"])
    e["low"] = rvec(o["low"])
    e["err"] = rvec(o["err"])
    e["k"] = [rat(x) for row in o["k"] for x in row]
    if rec["inst"]["fam"] == "fsal":
        errs = o["errs"]
        e["err"] = rvec(errs[0])
        e["err3"] = rvec(errs[0])
        if len(errs) > 1:
            e["err2"] = rvec(errs[1])
    return e


def compare_step(rec, name, outs):
    """First output that differs from the exact expectation, or None."""
    exp = expected_outputs(rec)
    for k, arr in outs.items():
        if k == "params":
            if np.any(np.asarray(arr) != 0.0):
                return k
            continue
        if not exact_eq(arr, exp[k]):
            return k
    return None


def part_steps(ck: Check):
    r = tlc(KERN / "MCRKStep.tla", CFG / ("RKStep.quick.cfg" if ck.quick else "RKStep.thorough.cfg"),
            workers=8, env=JENV, timeout=1500)
    ck.model("RKStep." + ck.tier, r)
    recs = r.printed()
    if len(recs) != r.distinct or not recs:
        raise MachineryError(f"MCRKStep printed {len(recs)} records for {r.distinct} states")
    T = StepTargets()
    per_target = {}
    mism = {}
    for rec in recs:
        inst = rec["inst"]
        try:
            results = run_step_instance(T, inst)
        except MachineryError:
            raise
        except Exception as ex:  # noqa
            results = [("stage-loop", {"exception": repr(ex)})]
        for name, outs in results:
            per_target[name] = per_target.get(name, 0) + 1
            ck.count((name, json.dumps(inst, sort_keys=True)), True)
            bad = "exception" if "exception" in outs else compare_step(rec, name, outs)
            if bad is not None and name not in mism:
                mism[name] = (rec, bad, {k: np.asarray(v).tolist() if not isinstance(v, str) else v
                                         for k, v in outs.items()})
    for name, (rec, bad, outs) in mism.items():
        ck.violation(f"{name}|exact-step-mismatch",
                     f"{name} does not reproduce the exact Runge-Kutta step of its tableau: output '{bad}' differs on a "
                     f"{rec['inst']['tab']['s']}-stage dyadic instance (h = {rec['inst']['hs']})",
                     {"kind": "step", "target": name, "record": rec, "observed": outs, "differs": bad})
    if recs:
        rec = recs[len(recs) // 2]
        ck.sample({"step_instance": {"fam": rec["inst"]["fam"], "s": rec["inst"]["tab"]["s"], "A": rec["inst"]["tab"]["A"],
                                      "h": rec["inst"]["hs"], "field": rec["inst"]["f"]["kind"]},
                   "expected_high": rec["out"]["high"] or rec["out"]["states"]})
    ck.part("step_replay", instances=len(recs), **{k.replace(".", "_"): v for k, v in per_target.items()},
            targets_with_mismatch=sorted(mism))
    required = {"rk_embedded_step_jit_kernel", "rk_embedded_step_ham_jit_kernel", "rk45_step_jit_kernel",
                "rk45_step_ham_jit_kernel", "dop853_step_jit_kernel", "dop853_step_ham_jit_kernel",
                "_integrate_fixed_rk", "_integrate_fixed_rk_ham", "centermanifold._integrate_rk_ham"}
    if required - set(per_target):
        raise MachineryError(f"stage-loop copies not exercised: {sorted(required - set(per_target))}")


def main(tier=None, replay=None):
    ck = Check("C02", "model_checking", tier)
    part_tableaux(ck)
    part_steps(ck)
    return ck.finish()
