"""C02 -- integrators deliver their declared order and requested tolerance.

Three parts (see tools/reports/C02.md):

 1. ORDER CONDITIONS (spec/kernels/RKTableau.tla PART 2, MCRKTableau.tla, MCRKTrees.tla).
    The tableaux are extracted from the working tree at run time: coefficients/{rk4,rk6,rk45,rk8}.py
    are parsed with `ast` into Fractions, every parsed entry is bound to the runtime array element
    the integrators really use (float(Fraction) == element, bit for bit), a TableauData.tla module is
    generated in the per-run work directory and TLC evaluates every rooted-tree order condition in
    Z/p for several primes.  The verdict that is REPORTED is about the runtime floats: a condition is
    violated when its residual, evaluated exactly on the runtime floats, exceeds RESID_TOL.
 2. STAGE LOOPS APPLY THE TABLE (RKTableau.tla PART 1, MCRKStep.tla): exact dyadic instances
    enumerated and solved by TLC are replayed into every copy of the stage loop.
 3. ADAPTIVE DRIVER + DENSE OUTPUT (spec/algo/StepDriver.tla, spec/trace/StepDriverTrace.tla):
    model checking of algorithm => requirement, TLC-generated accept/reject scripts driven through
    the real driver source (.py_func with patched module globals), and real traces on random smooth
    problems validated by TLC.
"""
from __future__ import annotations

import ast
import importlib
import json
import math
import random
import sys
import time
from fractions import Fraction as F

import numpy as np

from common import REPO, SPEC, Check, MachineryError, tlc, validate_traces, workdir

CFG = SPEC / "cfg"
KERN = SPEC / "kernels"
COEF = REPO / "src" / "hiten" / "algorithms" / "integrators" / "coefficients"
JENV = {"JDK_JAVA_OPTIONS": "-Xss64m"}      # deep recursive operators need a larger thread stack

# [T]-tier thresholds (measured on the unchanged tree, see ck.part("float_contract")):
RESID_TOL = 1e-11      # order-condition residual on runtime floats; unchanged tree <= 5.2e-14
ROWSUM_TOL = 2e-13     # |sum_j a_ij - c_i| on runtime floats; unchanged tree <= 1.8e-15


# ======================================================================================
# Part 1: tableaux
# ======================================================================================

def parse_coefficient_source(path):
    """name -> nested list of Fraction for every `NAME = np.array(<literal>)` in the file.
    Integer-valued literals and quotients are exact; a decimal literal is taken at its decimal value."""
    src = path.read_text()
    tree = ast.parse(src)

    def ev(node):
        if isinstance(node, ast.Constant) and not isinstance(node.value, bool):
            if isinstance(node.value, int):
                return F(node.value)
            if isinstance(node.value, float):
                return F(ast.get_source_segment(src, node).replace("_", ""))
        if isinstance(node, ast.BinOp):
            a, b = ev(node.left), ev(node.right)
            if isinstance(node.op, ast.Div):
                return a / b
            if isinstance(node.op, ast.Mult):
                return a * b
            if isinstance(node.op, ast.Add):
                return a + b
            if isinstance(node.op, ast.Sub):
                return a - b
        if isinstance(node, ast.UnaryOp) and isinstance(node.op, ast.USub):
            return -ev(node.operand)
        if isinstance(node, ast.UnaryOp) and isinstance(node.op, ast.UAdd):
            return ev(node.operand)
        if isinstance(node, (ast.List, ast.Tuple)):
            return [ev(e) for e in node.elts]
        raise ValueError(f"not a rational literal: {ast.dump(node)[:80]}")

    out = {}
    for st in tree.body:
        if (isinstance(st, ast.Assign) and len(st.targets) == 1 and isinstance(st.targets[0], ast.Name)
                and isinstance(st.value, ast.Call) and getattr(st.value.func, "attr", "") == "array"
                and st.value.args):
            try:
                out[st.targets[0].id] = ev(st.value.args[0])
            except ValueError:
                pass
    return out


def bound_bitwise(parsed, arr) -> bool:
    """float(parsed Fraction) == runtime element for every element (and same shape)."""
    a = np.asarray(arr, dtype=np.float64)
    p = np.array(parsed, dtype=object)
    if a.shape != p.shape:
        return False
    return all(float(p[i]) == a[i] for i in np.ndindex(a.shape))


def fr_of_floats(arr):
    a = np.asarray(arr, dtype=np.float64)
    if a.ndim == 1:
        return [F(float(x)) for x in a]
    return [[F(float(x)) for x in r] for r in a]


# ---- rooted trees (shapes come from TLC, MCRKTrees) and exact evaluation with Fractions -------------

def tree_size(t):
    return 1 + sum(tree_size(c) for c in t)


def phi_vec(A, t, s):
    """Elementary weights Phi_i(t), i < s (A rows may be shorter than s: missing entries are 0)."""
    res = [F(1)] * s
    for c in t:
        pc = phi_vec(A, c, s)
        w = [sum((A[i][j] * pc[j] for j in range(min(len(A[i]), s)) if A[i][j] != 0), F(0)) for i in range(s)]
        res = [res[i] * w[i] for i in range(s)]
    return res


def order_residual(A, w, t, gamma):
    s = len(w)
    p = phi_vec(A, t, s)
    return sum((w[i] * p[i] for i in range(s)), F(0)) * gamma - 1


def limbs(n: int) -> str:
    s = str(n)
    out = []
    while s:
        out.append(int(s[-4:]))
        s = s[:-4]
    return "<<" + ", ".join(str(x) for x in reversed(out)) + ">>"


def tla_big(fr) -> str:
    fr = F(fr)
    sg = 0 if fr == 0 else (1 if fr > 0 else -1)
    return f"[sg |-> {sg}, n |-> {limbs(abs(fr.numerator))}, d |-> {limbs(fr.denominator)}]"


def tla_vec(v) -> str:
    return "<<" + ", ".join(tla_big(x) for x in v) + ">>"


def tla_mat(A) -> str:
    return "<<" + ",\n      ".join(tla_vec(r) for r in A) + ">>"


def small_primes_desc():
    n = 46340
    sieve = bytearray([1]) * (n + 1)
    sieve[0:2] = b"\0\0"
    for i in range(2, int(n ** 0.5) + 1):
        if sieve[i]:
            sieve[i * i::i] = bytearray(len(sieve[i * i::i]))
    return [i for i in range(n, 1, -1) if sieve[i]]


def numerator_bound(A, ws, qmax, gamma_max):
    """Bound on |numerator| of any condition residual  gamma * sum_i w_i Phi_i(t) - c  (|c| <= 1),
    |t| <= qmax, when written over the denominator D_w * D_A^(qmax-1)."""
    ents = [x for r in A for x in r]
    DA = 1
    for x in ents:
        DA = DA * x.denominator // math.gcd(DA, x.denominator)
    R = max([sum(abs(x) for x in r) for r in A] + [F(1)])
    best = 1
    for w in ws:
        Dw = 1
        for x in w:
            Dw = Dw * x.denominator // math.gcd(Dw, x.denominator)
        W = sum(abs(x) for x in w)
        mag = gamma_max * W * R ** (qmax - 1) + 1
        best = max(best, int(math.ceil(Dw * DA ** (qmax - 1) * mag)) + 1)
    return best


class Scheme:
    """One tableau as the integrators use it, plus the source rationals when the source is literal."""

    def __init__(self, name, kind, declared):
        self.name, self.kind, self.declared = name, kind, declared
        self.rt = {}        # runtime arrays (np.float64) actually held by the integrator objects
        self.src = None     # parsed Fractions (same keys) or None
        self.bound = False  # every parsed entry is, bit for bit, the runtime entry
        self.notes = []


def collect_schemes(ck: Check):
    """Runtime tables from the integrator objects the factories hand out + parsed sources."""
    import hiten.algorithms.integrators.rk as rk
    out = []
    for order, modname in ((4, "rk4"), (6, "rk6"), (8, "rk8")):
        obj = rk.FixedRK(order=order)
        sc = Scheme(modname, "erk", int(obj.order))
        sc.rt = {"A": np.asarray(obj._A, float), "B": np.asarray(obj._B_HIGH, float), "C": np.asarray(obj._C, float)}
        try:
            sc.src = parse_coefficient_source(COEF / f"{modname}.py")
            sc.bound = all(k in sc.src and bound_bitwise(sc.src[k], sc.rt[k]) for k in ("A", "B", "C"))
        except Exception as ex:  # noqa
            sc.src, sc.bound = None, False
            sc.notes.append(f"source not parsed: {ex!r}")
        out.append(sc)
    obj = rk.AdaptiveRK(order=5)
    sc = Scheme("rk45", "dp45", int(obj.order))
    sc.rt = {"A": np.asarray(obj._A, float), "B": np.asarray(obj._B_HIGH, float), "C": np.asarray(obj._C, float),
             "E": np.asarray(obj._E, float), "P": np.asarray(rk.RK45_P, float)}
    try:
        src = parse_coefficient_source(COEF / "rk45.py")
        sc.src = {"A": src["A"], "B": src["B_HIGH"], "C": src["C"], "E": src["E"], "P": src["P"],
                  "BLOW": src.get("B_LOW")}
        sc.bound = all(bound_bitwise(sc.src[k], sc.rt[k]) for k in ("A", "B", "C", "E", "P"))
    except Exception as ex:  # noqa
        sc.src, sc.bound = None, False
        sc.notes.append(f"source not parsed: {ex!r}")
    out.append(sc)
    obj = rk.AdaptiveRK(order=8)
    sc = Scheme("dop853", "erk", int(obj.order))
    sc.rt = {"A": np.asarray(obj._A, float), "B": np.asarray(obj._B_HIGH, float), "C": np.asarray(obj._C, float),
             "A_full": np.asarray(rk.DOP853_A, float), "C_full": np.asarray(rk.DOP853_C, float)}
    sc.notes.append("source builds the table by element assignment from 30-digit decimals: no rational source")
    out.append(sc)
    return out


def ext_dp45(A, B, C):
    """7-stage method the adaptive kernel really runs: stage 7 = f(t + h, y_high)."""
    A7 = [list(r) + [F(0)] * (7 - len(r)) for r in A] + [list(B) + [F(0)]]
    return A7, list(B) + [F(0)], list(C) + [F(1)]


def write_tableau_module(wd, schemes, primes):
    recs = []
    for sc in schemes:
        s = sc.src
        if sc.kind == "erk":
            n = len(s["B"])
            A = [list(r) + [F(0)] * (n - len(r)) for r in s["A"]]
            recs.append(f'[name |-> "{sc.name}", kind |-> "erk", declared |-> {sc.declared}, s |-> {n},\n'
                        f'  A |-> {tla_mat(A)},\n  B |-> {tla_vec(s["B"])},\n  C |-> {tla_vec(s["C"])}]')
        else:
            A = [list(r) + [F(0)] * (6 - len(r)) for r in s["A"]]
            blow = s["BLOW"] if s.get("BLOW") and len(s["BLOW"]) == 6 else [F(0)] * 6
            recs.append(f'[name |-> "{sc.name}", kind |-> "dp45", declared |-> {sc.declared}, s |-> 6,\n'
                        f'  A |-> {tla_mat(A)},\n  B |-> {tla_vec(s["B"])},\n  C |-> {tla_vec(s["C"])},\n'
                        f'  E |-> {tla_vec(s["E"])},\n  P |-> {tla_mat(s["P"])},\n  BLOW |-> {tla_vec(blow)}]')
    text = ("---- MODULE TableauData ----\n"
            "\\* GENERATED by harness/c02.py from the coefficient sources of the working tree; never committed.\n"
            "EXTENDS MCRKTableau\nSchemeData == <<\n" + ",\n".join(recs) + ">>\n"
            "PrimeData == <<" + ", ".join(map(str, primes)) + ">>\n====\n")
    (wd / "TableauData.tla").write_text(text)
    return wd / "TableauData.tla"


def part_tableaux(ck: Check):
    import hiten.algorithms.integrators.rk as rk
    schemes = collect_schemes(ck)

    # ---- trees from TLC
    r = tlc(KERN / "MCRKTrees.tla", CFG / "RKTrees.cfg", workers=1, env=JENV, timeout=300)
    ck.model("RKTrees", r)
    pr = r.printed()
    if len(pr) != 1:
        raise MachineryError("MCRKTrees did not print exactly one record")
    trees = {}          # q -> {code: (kids, gamma)}
    for qi, row in enumerate(pr[0]["trees"], start=1):
        trees[qi] = {int(c): (v["kids"], int(v["gamma"])) for c, v in row.items()}
        for c, (kids, g) in trees[qi].items():
            if tree_size(kids) != qi:
                raise MachineryError("tree table inconsistent")
    scheme_map = pr[0]["schemes"]
    ck.part("trees", per_order=[len(trees[q]) for q in sorted(trees)])

    # ---- exact verdicts from TLC on the literal sources
    exact = [sc for sc in schemes if sc.src is not None and sc.kind in ("erk", "dp45")
             and (sc.kind != "erk" or len(sc.src["B"]) <= 13)]
    # primes: avoid every denominator; enough of them to PROVE the rk4/rk6/rk45 identities
    dens = set()
    need = 1
    for sc in exact:
        for k, v in sc.src.items():
            if v is None:
                continue
            for x in (np.array(v, dtype=object).ravel()):
                dens.add(F(x).denominator)
        if sc.name in ("rk8",):
            continue   # rational approximations of irrational coefficients: refuted, never proved
        if sc.kind == "erk":
            A = [list(r) for r in sc.src["A"]]
            need = max(need, numerator_bound(A, [sc.src["B"]], min(sc.declared, 6), 720))
        else:
            A7, B7, C7 = ext_dp45(sc.src["A"], sc.src["B"], sc.src["C"])
            cols = [[sc.src["P"][r][c] for r in range(7)] for c in range(4)]
            need = max(need, numerator_bound(A7, [B7, sc.src["E"]] + cols, 5, 120))
    primes = []
    prod = 1
    for p in small_primes_desc():
        if any(d % p == 0 for d in dens):
            continue
        primes.append(p)
        prod *= p
        if prod > 2 * need and len(primes) >= 8:
            break
    wd = workdir("tableau")
    root = write_tableau_module(wd, exact, primes)
    r = tlc(root, CFG / "RKTableau.cfg", workers=8, env=JENV, timeout=900)
    ck.model("RKTableau.order_conditions", r)
    recs = r.printed()
    if len(recs) != len(exact) * len(primes):
        raise MachineryError(f"expected {len(exact) * len(primes)} residue records, got {len(recs)}")
    if not all(x["denok"] for x in recs):
        raise MachineryError("a proposed prime divides a denominator")
    ck.part("primes", count=len(primes), smallest=min(primes), product_bits=prod.bit_length(),
            needed_bits=(2 * need).bit_length())

    # aggregate: condition id -> set of residues over primes
    agg = {}
    for rec in recs:
        sname = rec["scheme"]
        p = rec["p"]

        def put(cid, val):
            agg.setdefault((sname, cid), {})[p] = int(val)
        for i, v in enumerate(rec["rowsum"]):
            put(("rowsum", i), v)
        for q, row in enumerate(rec["order"], start=1):
            for c, v in row.items():
                put(("order", q, int(c)), v)
        if rec["kind"] == "dp45":
            for q, row in enumerate(rec["loworder"], start=1):
                for c, v in row.items():
                    put(("loworder", q, int(c)), v)
            for q, row in enumerate(rec["eannih"], start=1):
                for c, v in row.items():
                    put(("eannih", q, int(c)), v)
            for jx, v in enumerate(rec["eblow"]):
                put(("eblow", jx), v)
            for rr, v in enumerate(rec["prow"]):
                put(("prow", rr), v)
            for cpow, rows in enumerate(rec["dense"], start=1):
                for q, row in enumerate(rows, start=1):
                    for c, v in row.items():
                        put(("dense", cpow, q, int(c)), v)

    # ---- cross-validate the Python evaluator against TLC on every (scheme, prime, tree)
    nx = 0
    for sc in exact:
        if sc.kind == "erk":
            A, w = [list(r) for r in sc.src["A"]], list(sc.src["B"])
        else:
            A, w, _ = ext_dp45(sc.src["A"], sc.src["B"], sc.src["C"])
        top = min(sc.declared + 1, 6)
        for q in range(1, top + 1):
            for code, (kids, g) in trees[q].items():
                res = order_residual(A, w, kids, g)
                for p in primes[:6]:
                    exp = (res.numerator * pow(res.denominator, -1, p)) % p
                    if agg[(sc.name, ("order", q, code))][p] != exp:
                        raise MachineryError(f"Python evaluator and TLC disagree on {sc.name} tree {code} mod {p}")
                    nx += 1
    ck.part("evaluator_cross_validation", residues_compared=nx)

    def exact_status(sname, cid):
        d = agg.get((sname, cid))
        if d is None:
            return "not-evaluated"
        if any(v != 0 for v in d.values()):
            return "refuted"
        return "proved" if prod > 2 * need else "zero-mod-primes"

    # ---- the verdict on the RUNTIME floats, with exact Fractions of those floats
    report = {}
    worst_ok = 0.0
    worst_rowsum = 0.0
    smallest_bad = None
    for sc in schemes:
        t0 = time.time()
        rt = sc.rt
        A = fr_of_floats(rt["A"])
        w = fr_of_floats(rt["B"])
        C = fr_of_floats(rt["C"])
        if sc.kind == "dp45":
            A, w, C = ext_dp45(A, w, C)
        s = len(w)
        info = {"declared": sc.declared, "stages": s, "source_bound_bitwise": sc.bound, "notes": sc.notes}
        # row sums
        rs = [abs(float(sum(A[i][:s], F(0)) - C[i])) for i in range(s)]
        if sc.name == "dop853":
            Af, Cf = fr_of_floats(rt["A_full"]), fr_of_floats(rt["C_full"])
            rs += [abs(float(sum(Af[i], F(0)) - Cf[i])) for i in range(len(Cf))]
        info["rowsum_max"] = max(rs)
        ck.count((sc.name, "rowsum"), True)
        if max(rs) > ROWSUM_TOL:
            ck.violation(f"tableau={sc.name}|row-sum-mismatch",
                         f"rows of A of the {sc.name} table do not sum to C (max defect {max(rs):.3e})",
                         {"kind": "rowsum", "scheme": sc.name, "defect": max(rs)})
        else:
            worst_rowsum = max(worst_rowsum, max(rs))
        # order conditions up to the declared order
        per_order = {}
        exact_refuted = 0
        for q in range(1, sc.declared + 1):
            fails = []
            for code, (kids, g) in trees[q].items():
                res = abs(float(order_residual(A, w, kids, g)))
                ck.count((sc.name, "order", code), q >= 3)
                st = exact_status(sc.name, ("order", q, code)) if sc.bound else "no-exact-source"
                if st == "refuted":
                    exact_refuted += 1
                if res > RESID_TOL:
                    fails.append({"code": code, "kids": kids, "gamma": g, "residual": res, "exact": st})
                    smallest_bad = res if smallest_bad is None else min(smallest_bad, res)
                else:
                    worst_ok = max(worst_ok, res)
            per_order[q] = {"conditions": len(trees[q]), "fail": len(fails)}
            if fails:
                ck.violation(f"tableau={sc.name}|order-{q}-conditions-fail",
                             f"{sc.name} is shipped as order {sc.declared} but {len(fails)} of {len(trees[q])} "
                             f"order-{q} conditions fail (largest residual "
                             f"{max(f['residual'] for f in fails):.3e}); it is used by "
                             f"{[k for k, v in scheme_map.items() for e in v if e['scheme'] == sc.name]}",
                             {"kind": "order", "scheme": sc.name, "declared": sc.declared, "order": q,
                              "n_fail": len(fails), "n_total": len(trees[q]), "failing": fails})
        info["per_order"] = per_order
        if sc.bound and sc.src is not None and (sc.name, ("order", 1, 2)) in agg:
            top = min(sc.declared, 6)
            sts = [exact_status(sc.name, ("order", q, c)) for q in range(1, top + 1) for c in trees[q]]
            info["exact"] = {"proved": sts.count("proved"), "refuted": sts.count("refuted"),
                             "zero_mod_primes": sts.count("zero-mod-primes"), "up_to_order": top}
            if sts.count("refuted") and not any(per_order[q]["fail"] for q in per_order):
                info["tables_not_exact"] = ("source rationals violate the identities exactly (TLC residues non-zero) "
                                            "but the runtime floats satisfy them to rounding")
        else:
            info["tables_not_exact"] = "no exactly rational source bound to the runtime table"
        # embedded pair, error weights, dense output (rk45)
        if sc.kind == "dp45":
            E = fr_of_floats(rt["E"])
            P = fr_of_floats(rt["P"])
            emb_fail = []
            for q in range(1, sc.declared):
                for code, (kids, g) in trees[q].items():
                    ph = phi_vec(A, kids, 7)
                    res = abs(float(sum((E[i] * ph[i] for i in range(7)), F(0))))
                    ck.count((sc.name, "eannih", code), True)
                    if res > RESID_TOL:
                        emb_fail.append({"code": code, "kids": kids, "residual": res})
                    else:
                        worst_ok = max(worst_ok, res)
            if emb_fail:
                ck.violation(f"tableau={sc.name}|embedded-order-{sc.declared - 1}-fail",
                             f"the error weights E of {sc.name} do not annihilate {len(emb_fail)} trees of order "
                             f"< {sc.declared}: y_low = y_high - err is not an order-{sc.declared - 1} solution",
                             {"kind": "eannih", "scheme": sc.name, "failing": emb_fail})
            # estimator must not vanish identically at the next order
            nz = sum(1 for code, (kids, g) in trees[sc.declared].items()
                     if abs(float(sum((E[i] * phi_vec(A, kids, 7)[i] for i in range(7)), F(0)))) > 1e-6)
            info["error_estimator_nonzero_trees_at_declared_order"] = nz
            if nz == 0:
                ck.violation(f"tableau={sc.name}|error-estimator-degenerate",
                             "the error weights annihilate every tree of the declared order: the estimate is blind",
                             {"kind": "edegenerate", "scheme": sc.name})
            prow = [abs(float(sum(P[r_], F(0)) - w[r_])) for r_ in range(7)]
            dense_fail = []
            for q in range(1, sc.declared):
                for code, (kids, g) in trees[q].items():
                    ph = phi_vec(A, kids, 7)
                    for c in range(4):
                        val = sum((P[r_][c] * ph[r_] for r_ in range(7)), F(0)) * g - (1 if c + 1 == q else 0)
                        ck.count((sc.name, "dense", code, c), True)
                        if abs(float(val)) > RESID_TOL:
                            dense_fail.append({"code": code, "kids": kids, "power": c + 1, "residual": abs(float(val))})
                        else:
                            worst_ok = max(worst_ok, abs(float(val)))
            info["dense_P_rowsum_max"] = max(prow)
            if max(prow) > RESID_TOL:
                ck.violation(f"tableau={sc.name}|dense-P-not-B-at-1",
                             f"dense-output matrix P does not reproduce B_HIGH at x = 1 (defect {max(prow):.3e})",
                             {"kind": "prow", "scheme": sc.name, "defect": max(prow)})
            if dense_fail:
                ck.violation(f"tableau={sc.name}|dense-P-order-{sc.declared - 1}-fail",
                             f"{len(dense_fail)} continuity conditions of the dense-output polynomial fail",
                             {"kind": "dense", "scheme": sc.name, "failing": dense_fail[:40]})
            if sc.bound:
                ex = {k: [exact_status(sc.name, cid) for (sn, cid) in agg if sn == sc.name and cid[0] == k]
                      for k in ("loworder", "eannih", "prow", "dense", "eblow", "rowsum")}
                info["exact_embedded"] = {k: {"proved": v.count("proved"), "refuted": v.count("refuted")}
                                          for k, v in ex.items()}
                # order-5 trees are expected to be 'refuted' for eannih (estimator non-degenerate)
                if ex["eblow"].count("refuted"):
                    ck.notes.append("rk45.B_LOW (module constant, never read by the integrator) is not B_HIGH + E[:6]")
        info["wall_s"] = round(time.time() - t0, 1)
        report[sc.name] = info
    ck.part("tableaux", **report)
    ck.part("float_contract", resid_tol=RESID_TOL, largest_residual_accepted=worst_ok,
            margin_low=(RESID_TOL / worst_ok if worst_ok else None),
            smallest_residual_rejected=smallest_bad,
            margin_high=(smallest_bad / RESID_TOL if smallest_bad else None),
            rowsum_tol=ROWSUM_TOL, largest_rowsum_defect_accepted=worst_rowsum,
            rowsum_margin_low=(ROWSUM_TOL / worst_rowsum if worst_rowsum else None),
            trusted_base="python-fractions (cross-validated against TLC residues)")
    if worst_ok and RESID_TOL / worst_ok < 100:
        raise MachineryError(f"float contract lost its 100x margin: largest accepted residual {worst_ok:.3e}")
    if worst_rowsum and ROWSUM_TOL / worst_rowsum < 100:
        raise MachineryError(f"row-sum contract lost its 100x margin: {worst_rowsum:.3e}")

    # ---- factories: which table a requested order selects (RKTableau.SchemeOf)
    from hiten.algorithms.poincare.centermanifold import backend as cmb
    mods = {n: importlib.import_module(f"hiten.algorithms.integrators.coefficients.{n}")
            for n in ("rk4", "rk6", "rk8", "rk45", "dop853")}

    def tables_of(name):
        m = mods[name]
        if name == "rk45":
            return m.A, m.B_HIGH, m.C
        if name == "dop853":
            n = m.N_STAGES
            return m.A[:n, :n], m.B[:n], m.C[:n]
        return m.A, m.B, m.C

    for fam, entries in scheme_map.items():
        for e in entries:
            o, want, decl = int(e["order"]), e["scheme"], int(e["declared"])
            ck.count(("factory", fam, o), True)
            try:
                if fam == "CMMap":
                    got = cmb._get_rk_coefficients(o)
                    got_order = decl
                else:
                    obj = getattr(rk, fam)(order=o)
                    got = (obj._A, obj._B_HIGH, obj._C)
                    got_order = int(obj.order)
                ok = got_order == decl and all(
                    np.asarray(g).shape == np.asarray(x).shape and np.array_equal(np.asarray(g, float), np.asarray(x, float))
                    for g, x in zip(got, tables_of(want)))
            except Exception as ex:  # noqa
                ok, got_order = False, repr(ex)
            if not ok:
                ck.violation(f"factory={fam}|order={o}|wrong-scheme",
                             f"{fam}(order={o}) does not hand out the {want} table with declared order {decl} "
                             f"(reported order {got_order})",
                             {"kind": "factory", "family": fam, "order": o, "scheme": want, "declared": decl})
    return trees



# ======================================================================================
# Part 2: the stage loops apply the table (exact replay of TLC instances)
# ======================================================================================

def rat(x) -> F:
    return F(int(x[0]), int(x[1]))


def rvec(v):
    return [rat(x) for x in v]


def fvec(v):
    """Fractions -> float64 array; every instance is dyadic, so the conversion must be exact."""
    out = np.array([float(x) for x in v], dtype=np.float64)
    for a, b in zip(out, v):
        if F(float(a)) != b:
            raise MachineryError(f"instance value {b} is not exactly representable")
    return out


def exact_eq(arr, expected) -> bool:
    """Every float of `arr` equals the expected rational exactly."""
    a = np.asarray(arr, dtype=np.float64).ravel()
    e = list(expected)
    return len(a) == len(e) and all(np.isfinite(x) and F(float(x)) == y for x, y in zip(a, e))


class StepTargets:
    """The copies of the stage loop in the working tree, behind one calling convention."""

    def __init__(self):
        import numba
        import hiten.algorithms.integrators.rk as rk
        from hiten.algorithms.poincare.centermanifold import backend as cmb
        self.rk, self.cmb = rk, cmb

        # one compiled field for all affine instances: parameters travel in the state vector
        #   y = (y1, y2, a1, a2, b1, b2, m11, m12, m21, m22),   (y1, y2)' = a + b t + M (y1, y2)
        @numba.njit(cache=False)
        def aff_field(t, y):
            out = np.zeros_like(y)
            out[0] = y[2] + y[4] * t + y[6] * y[0] + y[7] * y[1]
            out[1] = y[3] + y[5] * t + y[8] * y[0] + y[9] * y[1]
            return out
        self.aff_field = aff_field
        self._ham = {}

    def ham(self, H):
        """(jac_H, clmo_H) of the polynomial Hamiltonian given as TLC monomials [{c, e}]."""
        key = json.dumps(H, sort_keys=True)
        if key not in self._ham:
            from numba.typed import List
            from hiten.algorithms.dynamics.hamiltonian import create_hamiltonian_system
            from hiten.algorithms.polynomial.base import (_create_encode_dict_from_clmo, _encode_multiindex,
                                                          _init_index_tables)
            deg = max(3, max(sum(m["e"]) for m in H))
            psi, clmo = _init_index_tables(deg)
            enc = _create_encode_dict_from_clmo(clmo)
            blocks = [np.zeros(psi[6, d], dtype=np.complex128) for d in range(deg + 1)]
            for m in H:
                k = np.array(m["e"], dtype=np.int64)
                d = int(k.sum())
                pos = _encode_multiindex(k, d, enc)
                if pos < 0:
                    raise MachineryError("monomial not encodable")
                blocks[d][pos] += float(m["c"])
            L = List()
            for b in blocks:
                L.append(b)
            hs = create_hamiltonian_system(L, deg, psi, clmo, enc, n_dof=3)
            self._ham[key] = (hs.jac_H, hs.clmo_H)
        return self._ham[key]

    @staticmethod
    def aff_state(f, y):
        return fvec(list(y) + [F(x) for x in f["a"]] + [F(x) for x in f["b"]] + [F(x) for r in f["M"] for x in r])


def run_step_instance(T: StepTargets, inst, only=None):
    """Run one TLC instance through every applicable copy of the stage loop.
    Returns list of (target name, {output name: ndarray})."""
    rk, cmb = T.rk, T.cmb
    tab, f = inst["tab"], inst["f"]
    s = int(tab["s"])
    A = np.array([[float(rat(x)) for x in r] for r in tab["A"]], dtype=np.float64)
    B = fvec(rvec(tab["B"]))
    C = fvec(rvec(tab["C"]))
    has_low = isinstance(tab["BL"], list) and len(tab["BL"]) > 0
    BL = fvec(rvec(tab["BL"])) if has_low else np.empty(0, dtype=np.float64)
    t = float(rat(inst["t"]))
    hs = [float(rat(x)) for x in inst["hs"]]
    y = rvec(inst["y"])
    aff = f["kind"] == "aff"
    dim = len(y)
    if aff:
        y0 = T.aff_state(f, y)
        fld = T.aff_field
    else:
        y0 = fvec(y)
        jac, clmo = T.ham(f["H"])
    res = []

    def want(name):
        return only is None or only == name

    def cut(a):
        a = np.asarray(a)
        return a[..., :dim]

    if inst["fam"] == "emb":
        h = hs[0]
        if aff:
            if want("rk_embedded_step_jit_kernel"):
                hi, lo, er = rk.rk_embedded_step_jit_kernel(fld, t, y0, h, A, B, BL, C, has_low)
                res.append(("rk_embedded_step_jit_kernel", {"high": cut(hi), "low": cut(lo), "err": cut(er),
                                                            "params": np.asarray(hi)[dim:] - y0[dim:]}))
            if want("_integrate_fixed_rk"):
                st, dv = rk._FixedStepRK._integrate_fixed_rk(fld, y0, np.array([t, t + h]), A, B, BL, C, has_low)
                res.append(("_integrate_fixed_rk", {"high": cut(st[1])}))
        else:
            if want("rk_embedded_step_ham_jit_kernel"):
                hi, lo, er = rk.rk_embedded_step_ham_jit_kernel(t, y0, h, A, B, BL, C, has_low, jac, clmo, 3)
                res.append(("rk_embedded_step_ham_jit_kernel", {"high": hi, "low": lo, "err": er}))
            if want("_integrate_fixed_rk_ham"):
                st, dv = rk._FixedStepRK._integrate_fixed_rk_ham(y0, np.array([t, t + h]), A, B, BL, C, has_low,
                                                                  jac, clmo, 3)
                res.append(("_integrate_fixed_rk_ham", {"high": st[1]}))
            if want("centermanifold._integrate_rk_ham"):
                tr = cmb._integrate_rk_ham(y0, np.array([t, t + h]), A, B, C, jac, clmo)
                res.append(("centermanifold._integrate_rk_ham", {"high": tr[1]}))
    elif inst["fam"] == "fsal":
        h = hs[0]
        Es = [fvec(rvec(e)) for e in inst["Es"]]
        if s == 6 and len(Es) == 1:
            A65 = np.ascontiguousarray(A[:, :5])
            if aff:
                if want("rk45_step_jit_kernel"):
                    hi, lo, er, k = rk.rk45_step_jit_kernel(fld, t, y0, h, A65, B, C, Es[0])
                    res.append(("rk45_step_jit_kernel", {"high": cut(hi), "low": cut(lo), "err": cut(er), "k": cut(k)}))
                if want("dop853_step_jit_kernel"):
                    hi, lo, er, e5, e3, k = rk.dop853_step_jit_kernel(fld, t, y0, h, A, B, C, Es[0], Es[0])
                    res.append(("dop853_step_jit_kernel", {"high": cut(hi), "err": cut(e5), "err3": cut(e3), "k": cut(k)}))
            else:
                if want("rk45_step_ham_jit_kernel"):
                    hi, lo, er, k = rk.rk45_step_ham_jit_kernel(t, y0, h, A65, B, C, Es[0], jac, clmo, 3)
                    res.append(("rk45_step_ham_jit_kernel", {"high": hi, "low": lo, "err": er, "k": k}))
                if want("dop853_step_ham_jit_kernel"):
                    hi, lo, er, e5, e3, k = rk.dop853_step_ham_jit_kernel(t, y0, h, A, B, C, Es[0], Es[0], jac, clmo, 3)
                    res.append(("dop853_step_ham_jit_kernel", {"high": hi, "err": e5, "err3": e3, "k": k}))
        else:
            if aff:
                if want("dop853_step_jit_kernel"):
                    hi, lo, er, e5, e3, k = rk.dop853_step_jit_kernel(fld, t, y0, h, A, B, C, Es[0], Es[1])
                    res.append(("dop853_step_jit_kernel", {"high": cut(hi), "err": cut(e5), "err2": cut(e3), "k": cut(k)}))
            else:
                if want("dop853_step_ham_jit_kernel"):
                    hi, lo, er, e5, e3, k = rk.dop853_step_ham_jit_kernel(t, y0, h, A, B, C, Es[0], Es[1], jac, clmo, 3)
                    res.append(("dop853_step_ham_jit_kernel", {"high": hi, "err": e5, "err2": e3, "k": k}))
    else:   # run
        tv = [t]
        for h in hs:
            tv.append(tv[-1] + h)
        tv = np.array(tv, dtype=np.float64)
        if aff:
            if want("_integrate_fixed_rk"):
                st, dv = rk._FixedStepRK._integrate_fixed_rk(fld, y0, tv, A, B, BL, C, False)
                res.append(("_integrate_fixed_rk", {"states": cut(st)}))
        else:
            if want("_integrate_fixed_rk_ham"):
                st, dv = rk._FixedStepRK._integrate_fixed_rk_ham(y0, tv, A, B, BL, C, False, jac, clmo, 3)
                res.append(("_integrate_fixed_rk_ham", {"states": st}))
            if want("centermanifold._integrate_rk_ham"):
                tr = cmb._integrate_rk_ham(y0, tv, A, B, C, jac, clmo)
                res.append(("centermanifold._integrate_rk_ham", {"states": tr}))
    return res


def expected_outputs(rec):
    """TLC's expected values as flat lists of Fractions per output name."""
    o = rec["out"]
    e = {}
    if rec["inst"]["fam"] == "run":
        e["states"] = [rat(x) for st in o["states"] for x in st]
        return e
    e["high"] = rvec(o["high"])
    e["low"] = rvec(o["low"])
    e["err"] = rvec(o["err"])
    e["k"] = [rat(x) for row in o["k"] for x in row]
    if rec["inst"]["fam"] == "fsal":
        errs = o["errs"]
        e["err"] = rvec(errs[0])
        e["err3"] = rvec(errs[0])
        if len(errs) > 1:
            e["err2"] = rvec(errs[1])
    return e


def compare_step(rec, name, outs):
    """First output that differs from the exact expectation, or None."""
    exp = expected_outputs(rec)
    for k, arr in outs.items():
        if k == "params":
            if np.any(np.asarray(arr) != 0.0):
                return k
            continue
        if not exact_eq(arr, exp[k]):
            return k
    return None


def part_steps(ck: Check):
    r = tlc(KERN / "MCRKStep.tla", CFG / ("RKStep.quick.cfg" if ck.quick else "RKStep.thorough.cfg"),
            workers=8, env=JENV, timeout=1500)
    ck.model("RKStep." + ck.tier, r)
    recs = r.printed()
    if len(recs) != r.distinct - 16 or not recs:
        raise MachineryError(f"MCRKStep printed {len(recs)} records for {r.distinct} states")
    T = StepTargets()
    per_target = {}
    mism = {}
    for rec in recs:
        inst = rec["inst"]
        try:
            results = run_step_instance(T, inst)
        except MachineryError:
            raise
        except Exception as ex:  # noqa
            results = [("stage-loop", {"exception": repr(ex)})]
        for name, outs in results:
            per_target[name] = per_target.get(name, 0) + 1
            ck.count((name, json.dumps(inst, sort_keys=True)), True)
            bad = "exception" if "exception" in outs else compare_step(rec, name, outs)
            if bad is not None and name not in mism:
                mism[name] = (rec, bad, {k: np.asarray(v).tolist() if not isinstance(v, str) else v
                                         for k, v in outs.items()})
    for name, (rec, bad, outs) in mism.items():
        ck.violation(f"{name}|exact-step-mismatch",
                     f"{name} does not reproduce the exact Runge-Kutta step of its tableau: output '{bad}' differs on a "
                     f"{rec['inst']['tab']['s']}-stage dyadic instance (h = {rec['inst']['hs']})",
                     {"kind": "step", "target": name, "record": rec, "observed": outs, "differs": bad})
    if recs:
        rec = recs[len(recs) // 2]
        ck.sample({"step_instance": {"fam": rec["inst"]["fam"], "s": rec["inst"]["tab"]["s"], "A": rec["inst"]["tab"]["A"],
                                      "h": rec["inst"]["hs"], "field": rec["inst"]["f"]["kind"]},
                   "expected_high": rec["out"]["high"] or rec["out"]["states"]})
    ck.part("step_replay", instances=len(recs), **{k.replace(".", "_"): v for k, v in per_target.items()},
            targets_with_mismatch=sorted(mism))
    required = {"rk_embedded_step_jit_kernel", "rk_embedded_step_ham_jit_kernel", "rk45_step_jit_kernel",
                "rk45_step_ham_jit_kernel", "dop853_step_jit_kernel", "dop853_step_ham_jit_kernel",
                "_integrate_fixed_rk", "_integrate_fixed_rk_ham", "centermanifold._integrate_rk_ham"}
    if required - set(per_target):
        raise MachineryError(f"stage-loop copies not exercised: {sorted(required - set(per_target))}")
    return T



# ======================================================================================
# Part 3: adaptive driver + dense output (binding B2: .py_func with patched module globals)
# ======================================================================================
from pyfunc import patched, py_func, same_bits  # noqa: E402

EPS = np.finfo(float).eps

class _NP:
    """numpy stand-in for the driver module: records searchsorted, forwards everything else."""
    def __init__(self, log):
        self._log = log
    def __getattr__(self, name):
        return getattr(np, name)
    def searchsorted(self, a, v, side='left', sorter=None):
        r = np.searchsorted(a, v, side=side, sorter=sorter)
        self._log.append(("ss", np.array(a, dtype=float), float(v), int(r), side))
        return r

class Stall(Exception):
    pass

def run_traced(rk, kind, ham, prob, script=None, max_attempts=20000):
    """Run the Python source of an adaptive driver with recording (and optionally scripted) helpers.
    prob: dict(y0, t_eval, rtol, atol, max_step, min_step, f (compiled) | jac, clmo)
    script: None (real kernels) or dict(choices=[(ok, factor)...]) -> scripted kernel/controller."""
    log = []
    cls = rk._RK45 if kind == "rk45" else rk._DOP853
    drv = getattr(cls, "_integrate_%s%s" % (kind, "_ham" if ham else ""))
    order = cls._p
    fcomp = prob.get("f")
    nth = [0]
    att = [0]

    def f_wrap(t, y):
        out = fcomp(t, y)
        log.append(("f", float(t), np.array(y, dtype=float), np.array(out, dtype=float)))
        return out

    real_hrhs = rk._hamiltonian_rhs
    def hrhs_wrap(y, jac, clmo, n_dof):
        out = real_hrhs(y, jac, clmo, n_dof) if script is None else np.ones_like(np.asarray(y, dtype=float))
        log.append(("f", None, np.array(y, dtype=float), np.array(out, dtype=float)))
        return out

    def sel_wrap(d0, d1, mn, mx):
        h = rk._select_initial_step.__wrapped_real(d0, d1, mn, mx)
        log.append(("init", float(h), float(mn), float(mx)))
        return h
    real = {n: getattr(rk, n) for n in ("_select_initial_step", "_clamp_step", "_adjust_step_to_endpoint",
                                         "_error_scale", "_pi_accept_factor", "_pi_reject_factor",
                                         "rk45_step_jit_kernel", "rk45_step_ham_jit_kernel", "dop853_step_jit_kernel",
                                         "dop853_step_ham_jit_kernel", "_rk45_build_Q_cache", "_rk45_eval_dense",
                                         "_dop853_build_dense_cache", "_dop853_build_dense_cache_ham",
                                         "_dop853_eval_dense")}

    def w_select(d0, d1, mn, mx):
        h = real["_select_initial_step"](d0, d1, mn, mx)
        log.append(("init", float(h), float(mn), float(mx)))
        return h

    def w_clamp(h, mx, mn):
        r = real["_clamp_step"](h, mx, mn)
        log.append(("clamp", float(h), float(r), float(mx), float(mn)))
        return r

    def w_adjust(t, h, tend):
        r = real["_adjust_step_to_endpoint"](t, h, tend)
        log.append(("adjust", float(t), float(h), float(tend), float(r)))
        return r

    def w_scale(y, yh, rtol, atol):
        r = real["_error_scale"](y, yh, rtol, atol)
        log.append(("scale", np.array(r, dtype=float)))
        return r

    def w_acc(en, ep, order_):
        if script is None:
            fac = real["_pi_accept_factor"](en, ep, order_)
        else:
            fac = script["choices"][att[0] - 1][1]
        log.append(("acc", float(en), float(ep), float(fac)))
        return fac

    def w_rej(en, order_):
        if script is None:
            fac = real["_pi_reject_factor"](en, order_)
        else:
            fac = script["choices"][att[0] - 1][1]
        log.append(("rej", float(en), float(fac)))
        return fac

    def scripted_outputs(t, y, h, nrows):
        if att[0] > len(script["choices"]):
            raise Stall("script exhausted")
        ok = script["choices"][att[0] - 1][0]
        y = np.asarray(y, dtype=float)
        n = y.size
        yh = y + h
        e = (1.0 / (1.0 + att[0])) if ok else (2.0 + att[0])
        k = np.full((nrows, n), float(att[0]))
        return ok, yh, e, k

    def w_step45(*a):
        att[0] += 1
        if att[0] > max_attempts:
            raise Stall("too many attempts")
        if ham:
            t, y, h = a[0], a[1], a[2]
        else:
            t, y, h = a[1], a[2], a[3]
        if script is None:
            if ham:
                out = real["rk45_step_ham_jit_kernel"](*a)
            else:
                out = real["rk45_step_jit_kernel"](fcomp, *a[1:])
        else:
            ok, yh, e, k = scripted_outputs(t, y, h, 7)
            ev = np.full(yh.size, e)
            out = (yh, yh - ev, ev, k)
        log.append(("step", att[0], float(t), float(h), np.array(out[0], dtype=float), np.array(out[2], dtype=float),
                    None, None, np.array(out[3], dtype=float)))
        return out

    def w_step853(*a):
        att[0] += 1
        if att[0] > max_attempts:
            raise Stall("too many attempts")
        if ham:
            t, y, h = a[0], a[1], a[2]
        else:
            t, y, h = a[1], a[2], a[3]
        if script is None:
            if ham:
                out = real["dop853_step_ham_jit_kernel"](*a)
            else:
                out = real["dop853_step_jit_kernel"](fcomp, *a[1:])
        else:
            ok, yh, e, k = scripted_outputs(t, y, h, 13)
            e5 = np.full(yh.size, e / abs(h))
            out = (yh, yh - e5, e5.copy(), e5, np.zeros(yh.size), k)
        log.append(("step", att[0], float(t), float(h), np.array(out[0], dtype=float), np.array(out[2], dtype=float),
                    np.array(out[3], dtype=float), np.array(out[4], dtype=float), np.array(out[5], dtype=float)))
        return out

    def w_q(Kseg, P, dim):
        r = real["_rk45_build_Q_cache"](Kseg, P, dim)
        log.append(("build", {"Kseg": np.array(Kseg, dtype=float)}, r))
        return r

    def w_e45(y_old, Q, P, x, hseg):
        r = real["_rk45_eval_dense"](y_old, Q, P, x, hseg)
        log.append(("eval", np.array(y_old, dtype=float), Q, float(x), float(hseg), np.array(r, dtype=float)))
        return r

    def w_b853(**kw):
        kk = dict(kw)
        if "f" in kk:
            kk["f"] = fcomp
            r = real["_dop853_build_dense_cache"](**kk)
        else:
            r = real["_dop853_build_dense_cache_ham"](**kk)
        log.append(("build", {k: (np.array(v, dtype=float) if isinstance(v, np.ndarray) else v) for k, v in kw.items()
                              if k in ("t_old", "y_old", "f_old", "y_new", "f_new", "hseg", "Kseg")}, r))
        return r

    def w_e853(y_old, Fc, ipow, x):
        r = real["_dop853_eval_dense"](y_old, Fc, ipow, x)
        log.append(("eval", np.array(y_old, dtype=float), Fc, float(x), None, np.array(r, dtype=float)))
        return r

    patches = dict(_select_initial_step=w_select, _clamp_step=w_clamp, _adjust_step_to_endpoint=w_adjust,
                   _error_scale=w_scale, _pi_accept_factor=w_acc, _pi_reject_factor=w_rej, np=_NP(log))
    if kind == "rk45":
        patches["rk45_step_ham_jit_kernel" if ham else "rk45_step_jit_kernel"] = w_step45
        patches["_rk45_build_Q_cache"] = w_q
        patches["_rk45_eval_dense"] = w_e45
    else:
        patches["dop853_step_ham_jit_kernel" if ham else "dop853_step_jit_kernel"] = w_step853
        patches["_dop853_build_dense_cache_ham" if ham else "_dop853_build_dense_cache"] = w_b853
        patches["_dop853_eval_dense"] = w_e853
    if ham:
        patches["_hamiltonian_rhs"] = hrhs_wrap

    y0 = np.asarray(prob["y0"], dtype=float)
    te = np.asarray(prob["t_eval"], dtype=float)
    common_kw = dict(rtol=prob["rtol"], atol=prob["atol"], max_step=prob["max_step"], min_step=prob["min_step"], order=order)
    if kind == "rk45":
        kw = dict(y0=y0, t_eval=te, A=rk.RK45_A, B_HIGH=rk.RK45_B_HIGH, C=rk.RK45_C, E=rk.RK45_E, P=rk.RK45_P, **common_kw)
    else:
        kw = dict(y0=y0, t_eval=te, A=cls._A, B_HIGH=cls._B_HIGH, C=cls._C, E5=cls._E5, E3=cls._E3, D=rk.DOP853_D,
                  n_stages_extended=rk.DOP853_N_STAGES_EXTENDED, interpolator_power=rk.DOP853_INTERPOLATOR_POWER,
                  A_full=rk.DOP853_A, C_full=rk.DOP853_C, **common_kw)
    if ham:
        kw.update(jac_H=prob["jac"], clmo_H=prob["clmo"], n_dof=3)
        kw_c = dict(kw)
    else:
        kw_c = dict(kw, f=fcomp)
        kw["f"] = f_wrap
    err = None
    out = None
    out_c = None
    err_c = None
    if script is None or prob.get("warm"):
        # compiled run first: also makes sure every callee is compiled before names are patched
        try:
            out_c = drv(**kw_c)
        except Exception as ex:  # noqa  (a driver that raises on a valid input is reported by the caller)
            err_c = repr(ex)
    try:
        with patched(rk, **patches):
            out = py_func(drv)(**kw)
    except Stall as ex:
        err = "stall:" + str(ex)
    except Exception as ex:
        err = repr(ex)
    return dict(log=log, out=out, err=err, out_compiled=out_c, err_compiled=err_c, kw_compiled=kw_c, drv=drv, y0=y0, te=te, prob=prob, kind=kind, ham=ham)


def project(run):
    """Raw float log -> integer event trace (rank abstraction) + node list."""
    log = run["log"]
    prob = run["prob"]
    te = run["te"]
    t0, tf = float(te[0]), float(te[-1])
    kind = run["kind"]
    # ---- pass 1: raw events with floats
    ev = []
    nodes = None
    acc_steps = []      # (att id, k array, y_high) per accepted attempt, in order
    fcalls = [e for e in log if e[0] == "f"]
    cur = {}
    hmin = hmax = None
    last_scale = None
    last_step = None
    errnorm_of_att = {}
    pend_rej = None
    extra_h = []
    for e in log:
        tag = e[0]
        if tag == "init":
            hmin, hmax = e[2], e[3]
            ev.append({"e": "init", "h": ("S", e[1])})
        elif tag == "clamp":
            if pend_rej is not None:
                pend_rej["hout"] = ("S", e[2])
                pend_rej["_hin_ok"] = (e[1] == pend_rej["_hmul"])
                ev.append(pend_rej)
                pend_rej = None
            else:
                ev.append({"e": "clamp", "hin": ("S", e[1]), "hout": ("S", e[2])})
        elif tag == "adjust":
            t, hin, tend, hout = e[1], e[2], e[3], e[4]
            cur = {"t": t, "hin": hin, "tph": t + hin, "adj": (t + hin > tend), "tend": tend}
            ev.append({"e": "adjust", "t": ("T", t), "hin": ("S", hin), "tph": ("T", t + hin),
                       "d": ("S", abs(tend - t)), "hout": ("S", hout)})
        elif tag == "step":
            last_step = e
            ev.append({"e": "step", "t": ("T", e[2]), "h": ("S", e[3])})
        elif tag == "scale":
            last_scale = e[1]
        elif tag in ("acc", "rej"):
            en = e[1]
            _, a_id, t, h, yh, errv, e5, e3, k = last_step
            if kind == "rk45":
                exp = [np.linalg.norm(errv / last_scale) / np.sqrt(errv.size)]
            else:
                s5 = e5 / last_scale
                s3 = e3 / last_scale
                n5 = np.dot(s5, s5)
                n3 = np.dot(s3, s3)
                if n5 == 0.0 and n3 == 0.0:
                    exp = [0.0]
                else:
                    den = n5 + 0.01 * n3
                    code_form = np.abs(h) * n5 / np.sqrt(den * last_scale.size)
                    exp = [code_form]
                    # SciPy's DOP853 norm on an UNSCALED K (the kernel already multiplied err5/err3 by h)
                    u5 = s5 / h
                    u3 = s3 / h
                    m5 = np.dot(u5, u5)
                    m3 = np.dot(u3, u3)
                    scipy_form = np.abs(h) * m5 / np.sqrt((m5 + 0.01 * m3) * last_scale.size)
                    extra_h.append((float(en), float(code_form), float(scipy_form), float(h)))
            normok = int(any(float(x) == en for x in exp))
            fac = e[-1]
            facok = int(0.2 <= fac <= 10.0)
            if tag == "acc":
                ep = e[2]
                if ep == -1.0:
                    epid = 0
                else:
                    cands = [a for a, v in errnorm_of_att.items() if v == ep]
                    epid = max(cands) if cands else -1
                errnorm_of_att[a_id] = en
                acc_steps.append((a_id, k, yh, t, h))
                ev.append({"e": "accept", "ok": int(en <= 1.0), "normok": normok, "ep": epid, "facok": facok,
                           "_t": t, "_h": h, "_adj": cur.get("adj", False), "hnext": ("S", h * fac)})
            else:
                pend_rej = {"e": "reject", "ok": int(en <= 1.0), "normok": normok, "facok": facok,
                            "hmul": ("S", h * fac), "_hmul": h * fac}
        elif tag == "ss":
            if nodes is None:
                nodes = e[1]
                ev.append({"e": "nodes", "ts": [("T", x) for x in nodes], "segAtt": [a[0] for a in acc_steps]})
            idx = sum(1 for x in ev if x["e"] == "locate") + 1
            ev.append({"e": "locate", "idx": idx, "q": ("T", e[2]), "cnt": e[3], "_side": e[4]})
        elif tag == "build":
            kw, res = e[1], e[2]
            katt = 0
            for (a_id, k, yh, t, h) in acc_steps:
                if k.shape == kw["Kseg"].shape and np.array_equal(k, kw["Kseg"]):
                    katt = a_id
            ys = [run["y0"]] + [a[2] for a in acc_steps]
            b = {"e": "build", "katt": katt, "yold": 0, "ynew": 0, "argsok": 1, "_res": res}
            if "y_old" in kw:
                def node_of(v):
                    for i, yy in enumerate(ys):
                        if np.array_equal(yy, v):
                            return i + 1
                    return -1
                b["yold"] = node_of(kw["y_old"])
                b["ynew"] = node_of(kw["y_new"])
                jn = b["yold"]
                ok = jn >= 1 and jn < len(nodes)
                if ok:
                    dys = [c[3] for c in fcalls[: len(ys)]]
                    ok = (kw["t_old"] == nodes[jn - 1] and kw["hseg"] == nodes[jn] - nodes[jn - 1]
                          and np.array_equal(kw["f_old"], dys[jn - 1]) and np.array_equal(kw["f_new"], dys[jn]))
                b["argsok"] = int(bool(ok))
            ev.append(b)
        elif tag == "eval":
            y_old, cache, x, hseg, res = e[1], e[2], e[3], e[4], e[5]
            ys = [run["y0"]] + [a[2] for a in acc_steps]
            jn = -1
            for i, yy in enumerate(ys):
                if np.array_equal(yy, y_old):
                    jn = i + 1
            builds = [b for b in ev if b["e"] == "build"]
            cid = -1
            for b in builds:
                if b["_res"] is cache or (np.shape(b["_res"]) == np.shape(cache) and np.array_equal(b["_res"], cache)):
                    cid = b["katt"]
            if builds and builds[-1]["_res"] is cache:
                cid = builds[-1]["katt"]
            hsok = 1
            if hseg is not None:
                hsok = int(1 <= jn < len(nodes) and hseg == nodes[jn] - nodes[jn - 1])
            idx = sum(1 for x_ in ev if x_["e"] == "eval") + 1
            ev.append({"e": "eval", "idx": idx, "yold": jn, "cache": cid, "x0": int(x >= 0.0), "x1": int(x <= 1.0),
                       "xz": int(x == 0.0), "hsok": hsok})
    out = run["out"]
    if out is not None and run["err"] is None:
        y_out = np.asarray(out[0])
        ev.append({"e": "done", "m": int(y_out.shape[0]), "first": int(np.array_equal(y_out[0], run["y0"]))})
    # accepted nodes: tnew from the node list
    if nodes is not None:
        ia = 0
        for x in ev:
            if x["e"] == "accept":
                ia += 1
                tn = float(nodes[ia]) if ia < len(nodes) else float("nan")
                x["tnew"] = ("T", tn)
                x["sumok"] = int(tn == x["_t"] + x["_h"])
                lim = 128 * EPS * max(abs(x["_t"]), abs(tf), abs(tf - x["_t"]))
                x["endok"] = int((not x["_adj"]) or abs(tn - tf) <= lim)
    else:
        # driver failed before the dense phase: nodes reconstructed as t + h
        for x in ev:
            if x["e"] == "accept":
                x["tnew"] = ("T", x["_t"] + x["_h"]); x["sumok"] = 1; x["endok"] = 1
    # ---- pass 2: ranks
    Tset = {t0, tf} | {float(x) for x in te}
    Sset = set()
    if hmin is not None:
        Sset |= {hmin, hmax}
    def walk(o, fn):
        if isinstance(o, tuple) and len(o) == 2 and o[0] in ("T", "S"):
            return fn(o)
        if isinstance(o, list):
            return [walk(x, fn) for x in o]
        return o
    def collect(o):
        (Tset if o[0] == "T" else Sset).add(float(o[1])); return o
    for x in ev:
        for k, v in x.items():
            if not k.startswith("_"):
                walk(v, collect)
    if any(math.isnan(v) for v in Tset | Sset):
        raise MachineryError("NaN among recorded times/steps")
    Tr = {v: i + 1 for i, v in enumerate(sorted(Tset))}
    Sr = {v: i + 1 for i, v in enumerate(sorted(Sset))}
    def rank(o):
        return (Tr if o[0] == "T" else Sr)[float(o[1])]
    evs = [{k: walk(v, rank) for k, v in x.items() if not k.startswith("_")} for x in ev]
    cfg = {"t0": Tr[t0], "tf": Tr[tf], "hmin": Sr.get(hmin, 0), "hmax": Sr.get(hmax, 0), "h0": 0,
           "teval": [Tr[float(x)] for x in te]}
    return {"cfg": cfg, "ev": evs}, {"nodes": nodes, "extra_h": extra_h, "attempts": sum(1 for x in ev if x["e"] == "step"),
                                      "rejects": sum(1 for x in ev if x["e"] == "reject")}


DRIVERS = [("rk45", False), ("rk45", True), ("dop853", False), ("dop853", True)]
REAL_MAX_ATTEMPTS = 2000     # cap on attempted steps of a real traced run (keeps trace validation linear)
TICK = 0.125


def driver_name(kind, ham):
    return f"_integrate_{kind}{'_ham' if ham else ''}"


class DriverBench:
    """Compiled fields / Hamiltonians shared by the scripted and the real runs."""

    def __init__(self, T: StepTargets):
        import numba
        import hiten.algorithms.integrators.rk as rk
        self.rk = rk

        @numba.njit(cache=False)
        def ones(t, y):
            return np.ones_like(y)

        # y = (u, v, w, a, b, c): forced damped pendulum coupled to a relaxation variable; parameters ride along
        @numba.njit(cache=False)
        def smooth(t, y):
            out = np.zeros_like(y)
            out[0] = y[1]
            out[1] = -y[3] * np.sin(y[0]) - y[4] * y[1] + y[5] * np.cos(2.0 * t)
            out[2] = -y[2] + y[0] * y[1]
            return out
        self.ones, self.smooth = ones, smooth
        # scripted runs: any Hamiltonian will do (its value is never used by the scripted kernel)
        self.jac1, self.clmo1 = T.ham([{"c": 1, "e": [0, 0, 0, 1, 0, 0]}, {"c": 1, "e": [0, 0, 0, 0, 2, 0]},
                                       {"c": 1, "e": [0, 0, 0, 0, 0, 2]}])
        # real runs: non-separable cubic Hamiltonian in 3 dof (bounded for small states)
        H = [{"c": 1, "e": [0, 0, 0, 2, 0, 0]}, {"c": 1, "e": [0, 0, 0, 0, 2, 0]}, {"c": 1, "e": [0, 0, 0, 0, 0, 2]},
             {"c": 1, "e": [2, 0, 0, 0, 0, 0]}, {"c": 2, "e": [0, 2, 0, 0, 0, 0]}, {"c": 3, "e": [0, 0, 2, 0, 0, 0]},
             {"c": 1, "e": [2, 1, 0, 0, 0, 0]}, {"c": -1, "e": [0, 3, 0, 0, 0, 0]}, {"c": 1, "e": [1, 0, 1, 0, 1, 0]},
             {"c": 1, "e": [0, 1, 0, 1, 0, 1]}]
        self.jac2, self.clmo2 = T.ham(H)

    def scripted_problem(self, b, ham):
        c = b["cfg"]
        Y0 = 0.0 if c["h0"] == c["hmin"] else 1.0e9     # steers the REAL _select_initial_step to min_step / max_step
        p = dict(y0=[Y0] if not ham else [Y0, 0, 0, 0, 0, 0], t_eval=[x * TICK for x in c["teval"]],
                 rtol=0.0, atol=1.0, max_step=c["hmax"] * TICK, min_step=c["hmin"] * TICK)
        if ham:
            p.update(jac=self.jac1, clmo=self.clmo1)
        else:
            p["f"] = self.ones
        script = b["script"] if isinstance(b["script"], list) else []
        return p, dict(choices=[(x["k"] == "acc", x["f"][0] / x["f"][1]) for x in script])

    def real_problem(self, rnd: random.Random, ham):
        t0 = rnd.choice([0.0, -1.5, 0.75, rnd.uniform(-2, 2)])
        span = rnd.choice([0.4, 1.0, 3.0, rnd.uniform(0.5, 6.0)])
        tf = t0 + span
        m = rnd.randint(0, 10)
        inner = sorted({round(rnd.uniform(t0, tf), 6) for _ in range(m)} - {t0, tf})
        inner = [x for x in inner if t0 < x < tf]
        if rnd.random() < 0.3:
            inner = sorted(set(inner) | {t0 + 1e-9, tf - 1e-9})      # queries hugging the end points
        rtol = rnd.choice([1e-4, 1e-7, 1e-10])
        p = dict(t_eval=[t0] + inner + [tf], rtol=rtol, atol=rtol * 1e-2,
                 max_step=rnd.choice([np.inf, np.inf, span / 3.0, span / 17.0]),
                 min_step=rnd.choice([10.0 * np.finfo(float).eps, 1e-12]))
        if ham:
            p.update(y0=[rnd.uniform(-0.2, 0.2) for _ in range(6)], jac=self.jac2, clmo=self.clmo2)
        else:
            p.update(y0=[rnd.uniform(-2, 2), rnd.uniform(-1, 1), rnd.uniform(-1, 1), rnd.uniform(0.5, 3.0),
                         rnd.uniform(0.0, 0.5), rnd.uniform(0.0, 1.5)], f=self.smooth)
        return p


def classify_driver_trace(tr, run_err):
    """Name the driver clause of C02 a recorded (rank-abstracted) trace breaks, or None."""
    if run_err is not None and not str(run_err).startswith("stall"):
        return "driver-raises"
    c = tr["cfg"]
    ev = tr["ev"]
    t = c["t0"]
    h = None
    nodes = None
    seg_att = None
    builds = {}
    for e in ev:
        k = e["e"]
        if k == "init":
            if not (c["hmin"] <= e["h"] <= c["hmax"]):
                return "step-outside-limits"
            h = e["h"]
        elif k == "clamp":
            if not (c["hmin"] <= e["hout"] <= c["hmax"]):
                return "step-outside-limits"
            h = e["hout"]
        elif k == "adjust":
            if e["hout"] > c["hmax"]:
                return "step-outside-limits"
            if e["tph"] > c["tf"] and e["hout"] != e["d"]:
                return "steps-past-end"
            h = e["hout"]
        elif k == "accept":
            if e["ok"] != 1:
                return "accepted-above-tolerance"
            if e["tnew"] <= t:
                return "nodes-not-increasing"
            if e["endok"] != 1:
                return "steps-past-end"
            t = e["tnew"]
        elif k == "reject":
            if e["ok"] != 0:
                return "rejected-within-tolerance"
        elif k == "nodes":
            nodes, seg_att = e["ts"], e["segAtt"]
            if any(a >= b for a, b in zip(nodes, nodes[1:])):
                return "nodes-not-increasing"
            if nodes[0] != c["t0"] or nodes[-1] < c["tf"]:
                return "nodes-do-not-cover-interval"
            if any(x >= c["tf"] for x in nodes[:-1]):
                return "steps-past-end"
        elif k == "build":
            pass
        elif k == "eval":
            jn = e["yold"]
            q = c["teval"][e["idx"] - 1] if e["idx"] - 1 < len(c["teval"]) else None
            if e["x0"] != 1 or e["x1"] != 1 or nodes is None or q is None or not (1 <= jn < len(nodes)) \
                    or not (nodes[jn - 1] <= q <= nodes[jn]):
                return "query-outside-its-segment"
            if e["cache"] != seg_att[jn - 1] or e["hsok"] != 1:
                return "stale-dense-cache"
            if e["idx"] == 1 and e["xz"] != 1:
                return "first-sample-not-initial-state"
        elif k == "done":
            if e["m"] != len(c["teval"]) or sum(1 for x in ev if x["e"] == "eval") != len(c["teval"]):
                return "outputs-not-one-per-request"
            if e["first"] != 1:
                return "first-sample-not-initial-state"
    if not any(e["e"] == "done" for e in ev) and (run_err is None):
        return "outputs-not-one-per-request"
    return None


def compare_scripted(b, run, tr, info):
    """Observed behaviour of the real driver source under a TLC script vs. the model's terminal state."""
    if run["err"] is not None:
        return f"driver raised {run['err']}"
    exp_nodes = [x * TICK for x in b["ts"]]
    if info["nodes"] is None or [float(x) for x in info["nodes"]] != exp_nodes:
        return f"nodes {None if info['nodes'] is None else [float(x) for x in info['nodes']]} expected {exp_nodes}"
    if info["attempts"] != b["att"]:
        return f"attempts {info['attempts']} expected {b['att']}"
    evs = [e for e in tr["ev"] if e["e"] == "eval"]
    if [e["yold"] for e in evs] != list(b["locs"]):
        return f"segments used {[e['yold'] for e in evs]} expected {b['locs']}"
    bl = [e["katt"] for e in tr["ev"] if e["e"] == "build"]
    exp_b = [b["segAtt"][j - 1] for j in (b["builds"] if isinstance(b["builds"], list) else [])]
    if bl != exp_b:
        return f"cache builds from attempts {bl} expected {exp_b}"
    if np.asarray(run["out"][0]).shape[0] != len(b["cfg"]["teval"]):
        return f"{np.asarray(run['out'][0]).shape[0]} outputs for {len(b['cfg']['teval'])} requested times"
    return None


def part_driver(ck: Check, T: StepTargets):
    rnd = random.Random(ck.seed + 2)
    t_start = time.time()
    ALGO = SPEC / "algo" / "MCStepDriver.tla"
    TRACE = SPEC / "trace" / "StepDriverTrace.tla"

    # ---- 1. model: algorithm => requirement
    r = tlc(ALGO, CFG / ("StepDriver.quick.cfg" if ck.quick else "StepDriver.thorough.cfg"), env=JENV,
            workers=8, timeout=3000)
    ck.model("StepDriver." + ck.tier, r)
    if not ck.quick:
        r = tlc(ALGO, CFG / "StepDriver.live.cfg", env=JENV, workers=4, timeout=1200)
        ck.model("StepDriver.liveness", r)

    # ---- 2. behaviours for replay
    r = tlc(ALGO, CFG / "StepDriver.gen.cfg", env=JENV, workers=8, timeout=1200)
    if r.error or not r.ok:
        raise MachineryError(f"StepDriver generation failed: {r.error}\n{r.out[-1500:]}")
    beh = r.printed()
    n_sim = 200 if ck.quick else 6000
    r2 = tlc(ALGO, CFG / "StepDriver.gensim.cfg", env=JENV, workers=4, simulate=f"num={n_sim}", depth=400,
             seed=ck.seed, timeout=1200)
    if r2.error:
        raise MachineryError(f"StepDriver simulation failed: {r2.error}\n{r2.out[-1500:]}")
    seen = set()
    uniq = []
    for b in beh + r2.printed():
        k = json.dumps([b["cfg"], b["script"]], sort_keys=True)
        if k not in seen:
            seen.add(k)
            uniq.append(b)
    n_exh = len(beh)
    if ck.quick and len(uniq) > 1200:
        keep = set(rnd.sample(range(len(uniq)), 1200))
        uniq = [b for i, b in enumerate(uniq) if i in keep]
    ck.part("driver_behaviours", exhaustive=n_exh, simulated=len(r2.printed()), replayed=len(uniq))

    t_mark = time.time()
    B = DriverBench(T)
    rk = B.rk
    # compile everything un-patched first
    for kind, ham in DRIVERS:
        p, sc = B.scripted_problem(uniq[0], ham)
        p["warm"] = True
        run = run_traced(rk, kind, ham, p, script=sc)
        if run["err_compiled"] is not None:
            ck.violation(f"{driver_name(kind, ham)}|driver-raises",
                         f"compiled {driver_name(kind, ham)} raises {run['err_compiled']} on a valid constant-slope problem "
                         f"(t_eval = {p['t_eval']})",
                         {"kind": "driver-script", "driver": driver_name(kind, ham), "behaviour": uniq[0],
                          "why": run["err_compiled"]})

    tm = {"model_and_generation_and_warmup_s": round(time.time() - t_start, 1)}
    t_mark = time.time()
    # ---- 3. spec -> code: scripts through the real driver source
    traces = []
    meta = []
    n_runs = 0
    first_mismatch = {}
    for b in uniq:
        for kind, ham in DRIVERS:
            p, sc = B.scripted_problem(b, ham)
            run = run_traced(rk, kind, ham, p, script=sc)
            tr, info = project(run)
            n_runs += 1
            nsc = len(sc["choices"])
            ck.count((driver_name(kind, ham), json.dumps(b["cfg"], sort_keys=True), json.dumps(b["script"])), nsc >= 2)
            why = compare_scripted(b, run, tr, info)
            if why is not None:
                clause = classify_driver_trace(tr, run["err"])
                first_mismatch.setdefault((driver_name(kind, ham), clause), (b, why, tr))
            traces.append(tr)
            meta.append((kind, ham, "script", b, run["err"]))
    if uniq:
        b = max(uniq[:200], key=lambda x: len(x["script"]) if isinstance(x["script"], list) else 0)
        ck.sample({"driver_script": {"cfg": b["cfg"], "script": [f"{x['k']}*{x['f'][0]}/{x['f'][1]}" for x in b["script"]],
                                     "expected_nodes": b["ts"], "segments_used": b["locs"]}})
    for (dn, clause), (b, why, tr) in first_mismatch.items():
        if clause is None:
            ck.notes.append(f"{dn}: divergence from the StepDriver transcription without a C02 clause failing: {why} "
                            f"cfg={b['cfg']} script={b['script']}")
        else:
            ck.violation(f"{dn}|{clause}",
                         f"{dn} driven by a TLC accept/reject script violates the driver clause '{clause}': {why}",
                         {"kind": "driver-script", "driver": dn, "behaviour": b, "why": why})
    ck.part("driver_script_replay", runs=n_runs, mismatching_driver_clause_pairs=len(first_mismatch))

    tm["script_replay_s"] = round(time.time() - t_mark, 1)
    t_mark = time.time()
    # ---- 4. code -> spec: real traces on random smooth problems
    n_real = 5 if ck.quick else 40
    stats = {"bit_identical_to_compiled": 0, "max_abs_diff_to_compiled": 0.0, "attempts": 0, "rejects": 0,
             "last_node_exactly_tf": 0, "stalled": 0}
    extra = []
    for kind, ham in DRIVERS:
        for i in range(n_real):
            p = B.real_problem(rnd, ham)
            run = run_traced(rk, kind, ham, p, max_attempts=REAL_MAX_ATTEMPTS)
            if run["err"] is not None and str(run["err"]).startswith("stall"):
                # more attempts than any of these problems needs (unchanged tree: <= 700): not traced further
                stats["stalled"] += 1
                continue
            if run["err_compiled"] is not None:
                ck.violation(f"{driver_name(kind, ham)}|driver-raises",
                             f"compiled {driver_name(kind, ham)} raises {run['err_compiled']} on a smooth problem",
                             {"kind": "driver-trace", "driver": driver_name(kind, ham), "source": "real",
                              "what": {k: (list(v) if hasattr(v, "__len__") else (None if v == np.inf else v))
                                       for k, v in p.items() if k not in ("f", "jac", "clmo")}})
            tr, info = project(run)
            ck.count((driver_name(kind, ham), "real", i, json.dumps(tr["cfg"])), info["attempts"] >= 3)
            stats["attempts"] += info["attempts"]
            stats["rejects"] += info["rejects"]
            if run["out"] is not None and run["out_compiled"] is not None:
                if same_bits(run["out"][0], run["out_compiled"][0]):
                    stats["bit_identical_to_compiled"] += 1
                d = float(np.max(np.abs(np.asarray(run["out"][0]) - np.asarray(run["out_compiled"][0]))))
                stats["max_abs_diff_to_compiled"] = max(stats["max_abs_diff_to_compiled"], d)
                if d > 1e3 * max(p["rtol"], 1e-12):
                    ck.notes.append(f"{driver_name(kind, ham)}: .py_func and compiled outputs differ by {d:.2e} "
                                    f"(rtol {p['rtol']:.0e}) on a real problem")
            if info["nodes"] is not None and float(info["nodes"][-1]) == float(run["te"][-1]):
                stats["last_node_exactly_tf"] += 1
            extra += info["extra_h"]
            traces.append(tr)
            meta.append((kind, ham, "real", {k: (list(v) if hasattr(v, "__len__") else (None if v == np.inf else v))
                                             for k, v in p.items() if k not in ("f", "jac", "clmo")}, run["err"]))
    n_real_tr = sum(1 for m in meta if m[2] == "real")
    ck.part("driver_real_traces", traces=n_real_tr, **stats)
    if stats["stalled"] > n_real * len(DRIVERS) // 2:
        ck.notes.append(f"{stats['stalled']} of {n_real * len(DRIVERS)} real problems needed more than {REAL_MAX_ATTEMPTS} "
                        f"attempted steps and were not traced (unchanged tree: none)")
    if extra:
        ratios = [abs(en / sp / abs(h) - 1.0) for (en, cf, sp, h) in extra if sp > 0 and en > 0]
        hs = [abs(h) for (en, cf, sp, h) in extra]
        ck.part("dop853_error_norm", samples=len(ratios),
                driver_norm_equals_abs_h_times_scipy_norm=bool(ratios and max(ratios) < 1e-9),
                max_relative_deviation=max(ratios) if ratios else None, min_abs_h=min(hs), max_abs_h=max(hs))
        if ratios and max(ratios) < 1e-9:
            ck.notes.append("observation (unclaimed clause): _integrate_dop853[_ham] scales err5/err3 by h in the kernel and "
                            "multiplies the combined norm by |h| again: err_norm = |h| * (SciPy DOP853 error norm), "
                            "so the accepted local error estimate is tol/|h| rather than tol")

    tm["real_traces_s"] = round(time.time() - t_mark, 1)
    t_mark = time.time()
    # ---- 5. TLC validates every recorded trace
    n_val = len(traces)
    sel = list(range(n_val))
    if ck.quick and n_val > 1200:
        real_idx = [i for i, m in enumerate(meta) if m[2] == "real"]
        scr_idx = [i for i, m in enumerate(meta) if m[2] != "real"]
        sel = sorted(real_idx + rnd.sample(scr_idx, 1200 - len(real_idx)))
    states, rej = validate_traces(TRACE, CFG / "StepDriverTrace.Strict.cfg", [traces[i] for i in sel],
                                  timeout=3000, env=JENV)
    rej = {sel[k]: v for k, v in rej.items()}
    ck.cov["traces_validated_against_impl"] += len(sel)
    ck.cov["states"] += states
    ck.part("driver_trace_validation", traces=len(sel), states=states, strict_rejected=len(rej))
    reported = 0
    for i in sorted(rej):
        kind, ham, src, what, err = meta[i]
        clause = classify_driver_trace(traces[i], err)
        dn = driver_name(kind, ham)
        if clause is None:
            # requirement-only validation of the dense phase on the nodes the driver really produced
            evs = traces[i]["ev"]
            k0 = next((k for k, e in enumerate(evs) if e["e"] == "nodes"), None)
            loose_rej = {}
            if k0 is not None:
                _, loose_rej = validate_traces(TRACE, CFG / "StepDriverTrace.Loose.cfg",
                                               [{"cfg": traces[i]["cfg"], "ev": evs[k0:]}], env=JENV)
            if loose_rej:
                clause = "dense-output-bookkeeping"
        if clause is None:
            ck.notes.append(f"{dn}: trace ({src}) rejected by the algorithm-level trace spec at event {rej[i][0]} "
                            f"({traces[i]['ev'][rej[i][0] - 1] if isinstance(rej[i][0], int) and rej[i][0] - 1 < len(traces[i]['ev']) else rej[i][0]}) "
                            f"without a C02 driver clause failing")
            continue
        if reported < 20:
            ck.violation(f"{dn}|{clause}",
                         f"trace of the real {dn} ({src}) rejected by StepDriverTrace at event {rej[i][0]}: clause '{clause}'",
                         {"kind": "driver-trace", "driver": dn, "source": src, "what": what, "trace": traces[i],
                          "rejected_at": rej[i][0]})
            reported += 1

    tm["trace_validation_s"] = round(time.time() - t_mark, 1)
    ck.part("driver_timing", **tm)
    # ---- 6. binding self-test: corrupted traces must be rejected (including the LAST event)
    cand = [t for t in traces if len(t["ev"]) >= 12 and t["ev"][-1]["e"] == "done"]
    if cand:
        t1 = json.loads(json.dumps(rnd.choice(cand)))
        t1["ev"][-1]["m"] += 1                                   # last event corrupted
        t2 = json.loads(json.dumps(rnd.choice(cand)))
        k = next(i for i, e in enumerate(t2["ev"]) if e["e"] == "eval")
        t2["ev"][k]["cache"] += 1                                # stale cache
        t3 = json.loads(json.dumps(rnd.choice(cand)))
        k = next(i for i, e in enumerate(t3["ev"]) if e["e"] == "adjust")
        del t3["ev"][k]                                          # dropped event
        t4 = json.loads(json.dumps(rnd.choice(cand)))
        k = next(i for i, e in enumerate(t4["ev"]) if e["e"] == "locate")
        t4["ev"][k]["cnt"] += 1                                  # wrong searchsorted result
        _, rj = validate_traces(TRACE, CFG / "StepDriverTrace.Strict.cfg", [t1, t2, t3, t4], env=JENV)
        if len(rj) != 4:
            raise MachineryError(f"binding self-test: corrupted driver traces accepted ({sorted(rj)})")
        ck.part("driver_selftest", corrupted_traces_rejected=4)



class _Collector(Check):
    """Check that only collects violation keys (replay mode: known-findings matching is bypassed)."""

    def __init__(self, tier):
        super().__init__("C02", "model_checking", tier)
        self.keys = {}

    def violation(self, key, desc, data=None):
        self.keys[key] = desc
        return True


def do_replay(path, tier):
    rec = json.load(open(path))
    data, key = rec["data"], rec["key"]
    if "rejected-at-min-step" in key or (isinstance(data, dict) and "driver" in data and "case" in data and "kind" not in data):
        import c02stall
        still = c02stall.replay(data)
        if still:
            print(f"VIOLATION property=C02 replay={path}")
        return 1 if still else 0
    kind = data["kind"]
    still = False
    if kind in ("order", "rowsum", "eannih", "dense", "prow", "factory", "edegenerate"):
        col = _Collector(tier)
        part_tableaux(col)
        still = key in col.keys
        print(json.dumps({"replayed": key, "still_reported": still, "now": col.keys.get(key)}, indent=1))
    elif kind == "step":
        T = StepTargets()
        res = run_step_instance(T, data["record"]["inst"], only=data["target"])
        for name, outs in res:
            bad = compare_step(data["record"], name, outs)
            print(json.dumps({"target": name, "differs": bad,
                              "observed": {k: np.asarray(v).tolist() for k, v in outs.items()},
                              "expected": data["record"]["out"]}, indent=1)[:4000])
            still = still or bad is not None
    elif kind in ("driver-script", "driver-trace"):
        T = StepTargets()
        B = DriverBench(T)
        dn = data["driver"]
        kd = "rk45" if "rk45" in dn else "dop853"
        ham = dn.endswith("_ham")
        if kind == "driver-script":
            b = data["behaviour"]
            p, sc = B.scripted_problem(b, ham)
            p["warm"] = True
            run = run_traced(B.rk, kd, ham, p, script=sc)
            tr, info = project(run)
            why = compare_scripted(b, run, tr, info)
            clause = classify_driver_trace(tr, run["err"])
            if run["err_compiled"] is not None:
                why, clause = run["err_compiled"], "driver-raises"
            print(json.dumps({"driver": dn, "why": why, "clause": clause,
                              "nodes": None if info["nodes"] is None else [float(x) for x in info["nodes"]]}, indent=1))
            still = why is not None and clause is not None
        else:
            w = data["what"]
            p = dict(y0=w["y0"], t_eval=w["t_eval"], rtol=w["rtol"], atol=w["atol"],
                     max_step=np.inf if w["max_step"] is None else w["max_step"], min_step=w["min_step"])
            if ham:
                p.update(jac=B.jac2, clmo=B.clmo2)
            else:
                p["f"] = B.smooth
            run = run_traced(B.rk, kd, ham, p, max_attempts=REAL_MAX_ATTEMPTS)
            tr, info = project(run)
            _, rej = validate_traces(SPEC / "trace" / "StepDriverTrace.tla", CFG / "StepDriverTrace.Strict.cfg", [tr], env=JENV)
            clause = classify_driver_trace(tr, run["err"])
            if run["err_compiled"] is not None:
                clause = "driver-raises"
            print(json.dumps({"driver": dn, "rejected": {str(k): str(v[0]) for k, v in rej.items()}, "clause": clause}, indent=1))
            still = (bool(rej) and clause is not None) or run["err_compiled"] is not None
    else:
        raise MachineryError(f"unknown replay kind {kind}")
    if still:
        print(f"VIOLATION property=C02 replay={path}")
        return 1
    return 0


def main(tier=None, replay=None):
    if replay:
        return do_replay(replay, tier)
    ck = Check("C02", "model_checking", tier)
    t0 = time.time()
    part_tableaux(ck)
    t1 = time.time()
    T = part_steps(ck)
    t2 = time.time()
    part_driver(ck, T)
    ck.part("timing", tableaux_s=round(t1 - t0, 1), steps_s=round(t2 - t1, 1), driver_s=round(time.time() - t2, 1))
    ck.cov["rule"] = ("one evaluation = one case run against the working tree: (tableau, condition) for every rooted-tree / "
                      "row-sum / embedded / dense-output condition evaluated on the runtime floats; (stage-loop copy, "
                      "TLC instance) for the exact step replay; (driver, TLC behaviour) for scripted driver runs and "
                      "(driver, random problem) for real traces.  Non-trivial: trees of order >= 3; every step instance; "
                      "scripts with >= 2 attempts; real runs with >= 3 attempts")
    ck.cov["exhaustive"] = True
    ck.assumptions += [
        "order conditions are PROVED (all residues zero for primes whose product exceeds the numerator bound) for the "
        "source rationals of rk4 / rk45 (+ embedded pair, dense P); those rationals are bound bit for bit to the runtime "
        "arrays; the verdict that is reported is the exact residual of the runtime floats against RESID_TOL = 1e-11",
        "rk8.py (rational approximations) and dop853.py (decimal expansions) are not exactly rational tableaux "
        "(tables_not_exact): their conditions up to order 8 are checked only as a [T]-tier float contract (<= 1e-11, "
        "unchanged tree 5e-14); DOP853's E3/E5/D are not checked",
        "exact step instances use C[0] = 0 (the kernels evaluate stage 0 at t) and lower-triangular A",
        "driver model (StepDriver.tla): the step kernel and the PI controller are the environment; a rejected step is retried "
        "with a strictly smaller step; what happens when it cannot be (error test fails at h = min_step) is decided "
        "separately by StepStall.tla (termination) and c02stall.py (compiled drivers in sub-processes)",
        "B2 observes the driver SOURCE (.py_func); outputs are compared with the compiled driver on the same inputs "
        "(bit-identical for DOP853; within 1e-12 for RK45, whose np.linalg.norm differs in the last bit between numpy and numba)",
        "error <= K * tol and its shrinking with tol are checked as a [T] contract on closed-form problems (c02acc.py: forced "
        "time-dependent oscillator, two-frequency polynomial Hamiltonian; K = 300, observed <= 10), not as a general statement; "
        "measured O(h^p) rates and DOP853's error weights (E3, E5) are not decided"]
    import c02acc
    c02acc.run(ck)
    import c02stall
    c02stall.run(ck)
    return ck.finish()
