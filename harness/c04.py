"""C04 -- libration points are equilibria with correct linear dynamics for every mu.

[M] spec/kernels/Libration.tla: on the exact rational witness family gamma -> MuOf(gamma) TLC proves
    (in prime fields) that the witness is an equilibrium of the field as the code evaluates it, that the
    code's quintics vanish there, that the library's local->synodic map places the two masses where the
    sign table says and that the closed form c_n equals the independently derived Taylor coefficient.
    TLC emits residues of mu, x_L, c_2..c_6; the harness's Fraction evaluator is cross-validated against
    them and then extends the family to mu ~ 1e-10 (trusted_base: python-fractions).
[replay] every witness is fed to the real library (System.from_mu): existence of the point, position,
    gamma, c_n, map constants and quintic coefficients against the exact rationals.
[T] spec/objects/LibrationObject.tla via LibrationObjectTrace: reads of derived quantities (memoisation:
    computed once, same value on every read) and contract observables (equilibrium residual of the library's
    own field, gamma vs position, characteristic polynomial with exact c_2, eigenvalues of the library's own
    Jacobian, C symplectic, C^T H2 C of the stated normal form) for the witness family, all 19 catalogue pairs
    and L1..L5 -- validated by TLC.
"""
from __future__ import annotations

import json
import math
import random
import sys
from fractions import Fraction as F

import numpy as np

from common import SPEC, Check, MachineryError, tlc, validate_traces

P0 = 46337
# contract bounds in tenth-decades; must equal TBounds in spec/trace/LibrationObjectTrace.tla (checked at start)
BOUNDS = {"eq_residual": -70, "gamma_vs_position": -80, "position_vs_exact": -80, "gamma_vs_exact": -90, "cn_vs_exact": -65,
          "charpoly": -60, "jac_eig": -50, "symplectic": -80, "normal_form": -80, "mu_binding": -140,
          "map_constants": -100, "quintic_coeffs": -120}


def mu_of(i, g):
    if i == 1:
        return (1 / (1 - g) ** 2 - (1 - g)) / (1 / (1 - g) ** 2 + 1 / g ** 2 - 1)
    if i == 2:
        return (1 / (1 + g) ** 2 - (1 + g)) / (1 / (1 + g) ** 2 - 1 / g ** 2 - 1)
    return (g - 1 / g ** 2) / (1 / (1 + g) ** 2 - 1 / g ** 2 - 1)


def x_of(i, g, mu):
    return {1: 1 - mu - g, 2: 1 - mu + g, 3: -mu - g}[i]


def cn_of(i, n, g, mu):
    s = (-1) ** n
    if i == 1:
        return (mu + s * (1 - mu) * g ** (n + 1) / (1 - g) ** (n + 1)) / g ** 3
    if i == 2:
        return (s * mu + s * (1 - mu) * g ** (n + 1) / (1 + g) ** (n + 1)) / g ** 3
    return s * ((1 - mu) + mu * g ** (n + 1) / (1 + g) ** (n + 1)) / g ** 3


def quintic_of(i, mu):
    if i == 1:
        return [1, -(3 - mu), 3 - 2 * mu, -mu, 2 * mu, -mu]
    if i == 2:
        return [1, 3 - mu, 3 - 2 * mu, -mu, -2 * mu, -mu]
    m1 = 1 - mu
    return [1, 2 + mu, 1 + 2 * mu, -m1, -2 * m1, -m1]


def gamma_of(i, q):
    return F(q - 1, q) if i == 3 else F(1, q)


def modp(fr: F, p=P0):
    return fr.numerator % p * pow(fr.denominator % p, p - 2, p) % p


def mag(v: float) -> int:
    """defect magnitude in units of 0.1 decade: ceil(10*log10(v)); exact zero -> -3000."""
    v = abs(float(v))
    if not math.isfinite(v):
        return 9999
    if v == 0.0:
        return -3000
    return int(math.ceil(10 * math.log10(v)))


class PointTrace:
    """Records reads of memoised quantities of one libration point and contract observables."""

    def __init__(self, L):
        self.L = L
        self.ev = []
        self.seen = {}
        svc = L.dynamics
        self.factory_ran = []
        cache = svc._cache
        orig = cache.get_or_create

        def wrapped(key, factory):
            def f2():
                self.factory_ran.append(key)
                return factory()
            return orig(key, f2)
        cache.get_or_create = wrapped

    def read(self, name, getter):
        n0 = len(self.factory_ran)
        v = getter()
        blob = repr(np.asarray(v, dtype=float).tolist()) if not isinstance(v, tuple) else repr(
            [np.asarray(x, dtype=float).tolist() if x is not None else None for x in v])
        vals = self.seen.setdefault(name, [])
        if blob not in vals:
            vals.append(blob)
        self.ev.append({"e": "read", "q": name, "stamp": vals.index(blob) + 1,
                        "miss": 1 if len(self.factory_ran) > n0 else 0})
        return v

    def obs(self, name, value):
        self.ev.append({"e": "obs", "name": name, "mag": mag(value)})


def examine_point(ck: Check, system, idx: int, label: str, exact=None, rnd=None):
    """All reads and contracts for one point.  exact = (gamma, mu) Fractions for witness points."""
    L = system.get_libration_point(idx)
    tr = PointTrace(L)
    mu = float(system.mu)
    info = {"label": label, "idx": idx}
    pos = tr.read("position", lambda: L.position)
    # equilibrium residual of the library's own field
    st = np.array([pos[0], pos[1], pos[2], 0.0, 0.0, 0.0])
    f = np.asarray(system.dynsys.rhs(0.0, st), dtype=float)
    tr.obs("eq_residual", float(np.max(np.abs(f))))
    info["eq_residual"] = float(np.max(np.abs(f)))
    if idx <= 3:
        g = tr.read("gamma", lambda: L.dynamics.gamma)
        xg = {1: 1 - mu - g, 2: 1 - mu + g, 3: -mu - g}[idx]
        tr.obs("gamma_vs_position", abs(pos[0] - xg))
        sgn = tr.read("sign", lambda: L.dynamics.sign)
        a = tr.read("a", lambda: L.dynamics.a)
        cns = {n: tr.read(f"cn{n}", lambda n=n: L.dynamics.cn(n)) for n in range(2, 7)}
        if exact is not None:
            ge, mue = exact
            tr.obs("mu_binding", abs(mu - float(mue)) / float(mue))
            tr.obs("position_vs_exact", abs(pos[0] - float(x_of(idx, ge, mue))))
            tr.obs("gamma_vs_exact", abs(g - float(ge)))
            for n in range(2, 7):
                ce = float(cn_of(idx, n, ge, mue))
                tr.obs("cn_vs_exact", abs(cns[n] - ce) / max(abs(ce), 1.0))
            a_e = {1: -1 + ge, 2: -1 - ge, 3: ge}[idx]
            tr.obs("map_constants", abs(a - float(a_e)) / float(ge) * 1e-3 + (0.0 if sgn == (1 if idx == 3 else -1) else 1.0))
            coeffs, rng = L.dynamics._gamma_poly_def
            qe = quintic_of(idx, F(mu))
            tr.obs("quintic_coeffs", max(abs(float(c) - float(e)) for c, e in zip(coeffs, qe)) + (0 if len(coeffs) == 6 else 1))
            c2e = float(cn_of(idx, 2, ge, mue))
        else:
            c2e = cns[2]
        # linear modes against the characteristic polynomial  X^2 + (2 - c2) X + (1 + c2 - 2 c2^2), X = lam^2 | -w^2
        lam, w1, w2 = tr.read("linear_modes", lambda: L.linear_modes)
        b, c = 2 - c2e, 1 + c2e - 2 * c2e * c2e
        p = lambda X: X * X + b * X + c
        scale = max(1.0, c2e * c2e)
        tr.obs("charpoly", max(abs(p(lam * lam)), abs(p(-w1 * w1)), abs(w2 * w2 - c2e)) / scale)
        tr.obs("charpoly", 0.0 if (lam > 0 and w1 >= w2 > 0) else 1.0)
        # eigenvalues of the library's own Jacobian of the field at the point
        A = np.asarray(_jacobian(system, st))
        ev = np.linalg.eigvals(A)
        want = [lam, -lam, 1j * w1, -1j * w1, 1j * w2, -1j * w2]
        tr.obs("jac_eig", max(min(abs(e - wv) for e in ev) for wv in want) / max(1.0, lam))
        # normal-form transform
        C, Cinv = tr.read("normal_form", lambda: L.normal_form_transform)
        J = np.block([[np.zeros((3, 3)), np.eye(3)], [-np.eye(3), np.zeros((3, 3))]])
        tr.obs("symplectic", float(np.max(np.abs(C.T @ J @ C - J))))
        tr.obs("symplectic", float(np.max(np.abs(C @ Cinv - np.eye(6)))))
        c2 = cns[2]
        H = np.zeros((6, 6))       # H2 = 1/2 z^T H z, z = (x, y, z, px, py, pz)
        H[3, 3] = H[4, 4] = H[5, 5] = 1.0
        H[1, 3] = H[3, 1] = 1.0
        H[0, 4] = H[4, 0] = -1.0
        H[0, 0] = -2 * c2
        H[1, 1] = c2
        H[2, 2] = c2
        M = C.T @ H @ C
        T = np.zeros((6, 6))
        T[0, 3] = T[3, 0] = lam
        T[1, 1] = T[4, 4] = w1
        T[2, 2] = T[5, 5] = w2
        tr.obs("normal_form", float(np.max(np.abs(M - T))) / max(1.0, lam))
        # the same with the Hessian taken from the Jacobian of the field at the point instead of the library's c2
        Hx = H.copy()
        Hx[:3, :3] = np.diag([1.0, 1.0, 0.0]) - A[3:6, 0:3]
        tr.obs("normal_form", float(np.max(np.abs(C.T @ Hx @ C - T))) / max(1.0, lam, abs(c2)))
    else:
        sq = math.sqrt(3) / 2
        tr.obs("position_vs_exact", max(abs(pos[0] - (0.5 - mu)), abs(pos[1] - (sq if idx == 4 else -sq)), abs(pos[2])))
        if mu < 0.0385:
            w1, w2, wz = tr.read("linear_modes", lambda: L.linear_modes)
            A = np.asarray(_jacobian(system, st))
            ev = np.linalg.eigvals(A)
            want = [1j * w1, -1j * w1, 1j * w2, -1j * w2, 1j * wz, -1j * wz]
            tr.obs("jac_eig", max(min(abs(e - wv) for e in ev) for wv in want))
            C, Cinv = tr.read("normal_form", lambda: L.normal_form_transform)
            J = np.block([[np.zeros((3, 3)), np.eye(3)], [-np.eye(3), np.zeros((3, 3))]])
            tr.obs("symplectic", float(np.max(np.abs(C.T @ J @ C - J))))
            tr.obs("symplectic", float(np.max(np.abs(C @ Cinv - np.eye(6)))))
            # C^T Hess(H2) C = diag(w1, w2, wz, w1, w2, wz): the Hessian of the quadratic Hamiltonian is taken from the
            # (C01-verified) Jacobian of the field AT THE POINT, not from the service's own offset parameter `a`
            Hx = np.zeros((6, 6))
            Hx[3:, 3:] = np.eye(3)
            Hx[1, 3] = Hx[3, 1] = 1.0
            Hx[0, 4] = Hx[4, 0] = -1.0
            Hx[:3, :3] = np.diag([1.0, 1.0, 0.0]) - A[3:6, 0:3]
            tr.obs("normal_form", float(np.max(np.abs(C.T @ Hx @ C - np.diag([w1, w2, wz, w1, w2, wz])))))
    # other objects are built FROM the point between the two rounds of reads (orbits of every family that has an analytic seed):
    # the point is not theirs to change (LibrationObject.tla: a re-read returns the value first returned)
    if idx <= 2:
        for fam, kw in (("lyapunov", dict(amplitude_x=1e-3)), ("halo", dict(amplitude_z=1e-2, zenith="northern")),
                        ("lyapunov", dict(amplitude_x=2e-3))):
            try:
                o = L.create_orbit(fam, **kw)
                _ = np.asarray(o.initial_state, dtype=float) + 0.0
            except Exception:  # noqa -- the analytic seed is not valid for every witness (tiny gamma): not the subject here
                pass
    # second round of reads: memoisation must return identical values without recomputation
    tr.read("position", lambda: L.position)
    if idx <= 3:
        tr.read("gamma", lambda: L.dynamics.gamma)
        tr.read("cn3", lambda: L.dynamics.cn(3))
        tr.read("cn2", lambda: L.dynamics.cn(2))
        tr.read("linear_modes", lambda: L.linear_modes)
        tr.read("normal_form", lambda: L.normal_form_transform)
    return tr, info


def _jacobian(system, st):
    """The library's own Jacobian of the CR3BP field at a state (6x6)."""
    from hiten.algorithms.dynamics.rtbp import _jacobian_crtbp
    return _jacobian_crtbp(float(st[0]), float(st[1]), float(st[2]), float(system.mu))


def main(tier=None, replay=None):
    ck = Check("C04", "model_checking", tier)
    rnd = random.Random(ck.seed)
    from hiten import System
    from hiten.utils.constants import Constants

    if replay:
        d = json.load(open(replay))["data"]
        system = System.from_mu(d["mu"]) if "mu" in d else System.from_bodies(*d["pair"])
        try:
            L = system.get_libration_point(d["idx"])
            print("position", L.position)
            return 0
        except Exception as ex:
            print("raises", repr(ex)[:300])
            print(f"VIOLATION property=C04 replay={replay}")
            return 1

    # the bounds used for naming failing clauses must be the ones TLC enforces
    import re as _re
    tb = open(SPEC / "trace" / "LibrationObjectTrace.tla").read()
    spec_b = {k: int(v) for k, v in _re.findall(r"(\w+) \|-> (-?\d+)", tb[tb.index("TBounds =="):tb.index("VARIABLES tid")])}
    if spec_b != BOUNDS:
        raise MachineryError(f"BOUNDS in c04.py differ from TBounds in LibrationObjectTrace.tla: {spec_b} vs {BOUNDS}")

    # 1. model
    r = tlc(SPEC / "kernels" / "MCLibration.tla", SPEC / "cfg" / ("Libration.quick.cfg" if ck.quick else "Libration.thorough.cfg"),
            timeout=3000)
    ck.model("Libration." + ck.tier, r)
    recs = r.printed()
    if not recs:
        raise MachineryError("Libration model emitted no witnesses")
    # 2. cross-validate the Fraction evaluator against TLC's residues
    nval = 0
    for w in recs:
        if not w["usable"]:
            continue
        i, q = w["i"], w["q"]
        g = gamma_of(i, q)
        mu = mu_of(i, g)
        if mu.denominator % P0 == 0 or not (0 < mu <= F(1, 2)):
            if not (0 < mu <= F(1, 2)):
                continue
        cn = w["cn"]
        cn_list = cn if isinstance(cn, list) else [cn[str(n)] for n in range(2, 7)]
        ok = modp(mu) == w["mu"] and modp(x_of(i, g, mu)) == w["x"] and all(
            modp(cn_of(i, n, g, mu)) == cn_list[n - 2] for n in range(2, 7))
        if not ok:
            raise MachineryError(f"Fraction evaluator disagrees with Libration.tla on witness i={i} q={q}")
        nval += 1
    ck.part("evaluator_cross_validation", witnesses=nval)

    # 3. witness family replayed into the real library
    qs_small = sorted({w["q"] for w in recs})
    if ck.quick:
        base_q = [2, 3, 4, 5, 7, 10, 15, 25, 40, 60, 100, 160, 250, 400, 640, 900, 1100, 1300, 2000]
        base_q += rnd.sample(range(5, 1500), 6)
    else:
        base_q = sorted(set(qs_small) | {int(round(10 ** (k / 12))) for k in range(4, 48)} | set(rnd.sample(range(5, 4000), 40)))
    traces, infos = [], []
    for i in (1, 2, 3):
        for q in sorted(set(base_q)):
            if (i == 3 and q < 4) or q < 2:
                continue
            g = gamma_of(i, q)
            mu = mu_of(i, g)
            if not (0 < mu <= F(1, 2)):
                continue
            label = f"witness L{i} gamma={g} mu={float(mu):.6e}"
            ck.count(("witness", i, q), True)
            try:
                system = System.from_mu(float(mu))
                tr, info = examine_point(ck, system, i, label, exact=(g, mu), rnd=rnd)
            except Exception as ex:
                small = float(g) <= 1.0000001e-3 and i in (1, 2)
                key = (f"L{i}.position|root-outside-fixed-brackets-gamma<1e-3" if small and "interval" in str(ex)
                       else f"L{i}|raises:{type(ex).__name__}")
                ck.violation(key, f"{label}: point not returned: {str(ex)[:200]}", {"mu": float(mu), "idx": i, "gamma": str(g)})
                continue
            traces.append({"label": label, "ev": tr.ev})
            infos.append(info)
            if len(ck.cov["samples"]) < 3:
                ck.sample({"case": label, "events": tr.ev[:12]})
    # 4. catalogue pairs, all five points
    pairs = [(p, s) for p, d in Constants.orbital_distances.items() for s in d]
    for (p, s) in pairs:
        try:
            system = System.from_bodies(p, s)
        except Exception as ex:
            ck.violation(f"System.from_bodies|raises:{p}-{s}", repr(ex)[:200], {"pair": [p, s], "idx": 1})
            continue
        for i in (1, 2, 3, 4, 5):
            label = f"catalogue {p}-{s} L{i} mu={system.mu:.4e}"
            ck.count(("catalogue", p, s, i), True)
            try:
                tr, info = examine_point(ck, system, i, label)
            except Exception as ex:
                g_est = (system.mu / 3) ** (1 / 3)
                small = g_est < 1.05e-3 and i in (1, 2)
                key = (f"L{i}.position|root-outside-fixed-brackets-gamma<1e-3" if small and "interval" in str(ex)
                       else f"catalogue|{p}-{s}|L{i}|raises:{type(ex).__name__}")
                ck.violation(key, f"{label}: point not returned: {str(ex)[:200]}", {"pair": [p, s], "idx": i})
                continue
            traces.append({"label": label, "ev": tr.ev})
    # generic mu sweep (log-uniform), contracts only
    n_sweep = 12 if ck.quick else 80
    for k in range(n_sweep):
        mu = 10 ** rnd.uniform(-8.3, math.log10(0.5))
        system = System.from_mu(mu)
        for i in (1, 2, 3, 4, 5):
            label = f"sweep mu={mu:.6e} L{i}"
            ck.count(("sweep", round(math.log10(mu), 3), i), True)
            try:
                tr, info = examine_point(ck, system, i, label)
            except Exception as ex:
                ck.violation(f"L{i}|raises:{type(ex).__name__}", f"{label}: {str(ex)[:200]}", {"mu": mu, "idx": i})
                continue
            traces.append({"label": label, "ev": tr.ev})

    # 5. TLC decides the traces
    wire = [{"ev": t["ev"]} for t in traces]
    states, rej = validate_traces(SPEC / "trace" / "LibrationObjectTrace.tla", SPEC / "cfg" / "LibrationObjectTrace.cfg", wire,
                                  timeout=3000)
    ck.cov["traces_validated_against_impl"] += len(wire)
    worst = {}
    for t in traces:
        for e in t["ev"]:
            if e["e"] == "obs":
                worst[e["name"]] = max(worst.get(e["name"], -9999), e["mag"])
    ck.part("contracts", traces=len(wire), trace_states=states, rejected=len(rej),
            worst_magnitude_tenth_decades=worst)
    bounds = BOUNDS
    for tix, (where, _) in rej.items():
        t = traces[tix]
        # name the failing clause
        bad = [e for e in t["ev"] if e["e"] == "obs" and e["mag"] > bounds[e["name"]]]
        if isinstance(where, int) and where <= len(t["ev"]) and t["ev"][where - 1]["e"] == "read":
            e = t["ev"][where - 1]
            ck.violation(f"libration.{e['q']}|memoised-read-inconsistent",
                         f"{t['label']}: read of {e['q']} (miss={e['miss']}, stamp={e['stamp']}) is not explained by the cache model",
                         {"label": t["label"], "events": t["ev"], "rejected_at": where})
        for e in bad[:3]:
            ck.violation(f"libration|contract:{e['name']}",
                         f"{t['label']}: observable {e['name']} has magnitude 10^{e['mag'] / 10:.1f} above bound 10^{bounds[e['name']] / 10:.0f}",
                         {"label": t["label"], "events": t["ev"]})
        if not bad and not isinstance(where, int):
            ck.violation("libration|trace-invariant", f"{t['label']}: {where}", {"label": t["label"], "events": t["ev"]})
    # binding self-test
    good = [w for k, w in enumerate(wire) if k not in rej and len(w["ev"]) > 8]
    if good:
        t1 = json.loads(json.dumps(rnd.choice(good)))
        for e in t1["ev"]:
            if e["e"] == "obs":
                e["mag"] = 0
                break
        t2 = json.loads(json.dumps(rnd.choice(good)))
        for e in reversed(t2["ev"]):
            if e["e"] == "read":
                e["stamp"] += 1
                break
        _, rj = validate_traces(SPEC / "trace" / "LibrationObjectTrace.tla", SPEC / "cfg" / "LibrationObjectTrace.cfg", [t1, t2])
        if len(rj) != 2:
            raise MachineryError("binding self-test: corrupted libration traces were accepted")
        ck.part("selftest", corrupted_traces_rejected=2)
    ck.cov["rule"] = ("cases = (witness gamma in the exact rational family x L1..L3) + (19 catalogue pairs x L1..L5) + "
                      "(log-uniform mu sweep x L1..L5); each case is one object trace of reads and contract observables; "
                      "distinct = distinct (family, point, parameter)")
    ck.cov["trusted_base"] = ["TLC", "python-fractions (cross-validated against Libration.tla residues on the model's range)"]
    ck.assumptions += ["witness mu is rounded to binary64 before entering the library (relative 1e-16)",
                      "contract bounds (tenth-decades): " + json.dumps(bounds)]
    return ck.finish()


if __name__ == "__main__":
    sys.exit(main())
