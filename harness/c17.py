"""C17 -- Hamiltonian fast paths agree with the generic path.

Specs: spec/kernels/HamRhs.tla (+MCHamRhs) over spec/lib/IPoly.tla,
       spec/algo/HamTwin.tla (+MCHamTwin), spec/algo/HamTwinTrace.tla.

  1. Right-hand side.  TLC generates real integer Hamiltonians (every monomial up to a degree, seeded walks,
     three coupled "twin" Hamiltonians), checks the laws of HamRhs on each (Rhs_i = {x_i, H}, grad H . Rhs = 0,
     linearity, oscillator sign anchor) and prints Jac(H), dH/dQ, dH/dP, Rhs at integer states.  Replayed
     exactly (==) into _polynomial_jacobian (via hamsys.jac_H), _hamiltonian_rhs, _eval_dH_dQ, _eval_dH_dP,
     _eval_hamiltonian_derivative, hamsys.dH_dQ / dH_dP and the public hamsys.rhs(t, y) -- whose only
     admissible outcome is a value.
  2. Twins.  TLC model-checks the driver of HamTwin and prints the variant space
     (family x order x event x direction) with the dispatch table.  For every variant with a generic twin
     the same Hamilton equations are integrated through the public integrate() twice: as a generic
     _RHSSystem whose vector field is a compiled closure calling _hamiltonian_rhs on the same Jacobian
     (tuples of arrays, so it does not depend on hamsys.rhs), and as the _HamiltonianSystem.
       * compiled runs: kernel actually dispatched to (recorded by wrapping the kernel attributes), times,
         states, derivatives, event time/state compared bit for bit;
       * traced runs (kernel.py_func with the helpers of rk.py replaced by recording wrappers around the
         compiled originals): both event sequences, floats rank-abstracted over the union of the pair, are
         validated by TLC against ONE behaviour of the HamTwin driver (HamTwinTrace, lockstep).
     Symplectic variants have no generic twin: the event path with an event that never fires must reproduce
     the plain path bit for bit, and its derivative evaluator is covered by part 1.
"""
from __future__ import annotations

import json
import os
import random
import sys
import threading
import time
from types import SimpleNamespace

import numpy as np

import polyutil as pu
from common import SPEC, Check, MachineryError, tlc, validate_traces

os.environ.setdefault("OMP_WAIT_POLICY", "PASSIVE")
os.environ.setdefault("GOMP_SPINCOUNT", "0")
os.environ.setdefault("KMP_BLOCKTIME", "0")

CFG = SPEC / "cfg"
RHS = SPEC / "kernels" / "MCHamRhs.tla"
TWIN = SPEC / "algo" / "MCHamTwin.tla"
TRACE = SPEC / "algo" / "HamTwinTrace.tla"

_L = None


def lib():
    global _L
    if _L is None:
        import numba
        import hiten.algorithms.dynamics.base as dbase
        import hiten.algorithms.dynamics.hamiltonian as ham
        import hiten.algorithms.dynamics.rhs as drhs
        import hiten.algorithms.integrators.rk as rk
        import hiten.algorithms.integrators.symplectic as sy
        import hiten.algorithms.polynomial.base as base
        from hiten.algorithms.types.configs import EventConfig
        from hiten.algorithms.types.options import EventOptions
        numba.set_num_threads(min(2, int(numba.config.NUMBA_NUM_THREADS)))
        psi, clmo = base._init_index_tables(8)
        enc = base._create_encode_dict_from_clmo(clmo)
        _L = SimpleNamespace(numba=numba, dbase=dbase, ham=ham, drhs=drhs, rk=rk, sy=sy, base=base,
                             psi=psi, clmo=clmo, enc=enc, EventConfig=EventConfig, EventOptions=EventOptions)
    return _L


# --------------------------------------------------------------------------
# 1. exact right-hand side
# --------------------------------------------------------------------------

def make_hamsys(Hseq, deg=None):
    L = lib()
    H = pu.from_tlc(Hseq)
    d = max(pu.degree(H), 1) if deg is None else deg
    blocks = pu.to_list(H, d)
    return L.ham.create_hamiltonian_system(blocks, d, L.psi, L.clmo, L.enc, n_dof=3), d


def _ints(arr):
    return [pu.exact_int(x) for x in np.asarray(arr).ravel()]


def rhs_cases(inst, with_public):
    """(name, thunk, expected) for one TLC instance."""
    L = lib()
    hs, d = make_hamsys(inst["H"])
    jac, clmo = hs.jac_H, hs.clmo_H
    out = []
    out.append(("_polynomial_jacobian", lambda: [pu.to_tlc(pu.from_list(jac[v])) for v in range(6)],
                [sorted(x) for x in inst["jac"]], None))
    out.append(("hamsys.rhs_params", lambda: [hs.rhs_params[0] is jac, hs.rhs_params[1] is clmo, int(hs.rhs_params[2])],
                [True, True, 3], None))
    for i, x in enumerate(inst["pts"]):
        xf = np.array(x, dtype=np.float64)
        Q, P = xf[:3].copy(), xf[3:].copy()
        out.append(("_hamiltonian_rhs", lambda xf=xf: _ints(L.ham._hamiltonian_rhs(xf, jac, clmo, 3)), inst["rhs"][i], x))
        out.append(("_eval_dH_dQ", lambda Q=Q, P=P: _ints(L.sy._eval_dH_dQ(Q, P, jac, clmo)), inst["dHdQ"][i], x))
        out.append(("_eval_dH_dP", lambda Q=Q, P=P: _ints(L.sy._eval_dH_dP(Q, P, jac, clmo)), inst["dHdP"][i], x))
        out.append(("_eval_hamiltonian_derivative", lambda Q=Q, P=P: _ints(L.sy._eval_hamiltonian_derivative(Q, P, jac, clmo)),
                    inst["rhs"][i], x))
        out.append(("hamsys.dH_dQ", lambda Q=Q, P=P: _ints(hs.dH_dQ(Q, P)), inst["dHdQ"][i], x))
        out.append(("hamsys.dH_dP", lambda Q=Q, P=P: _ints(hs.dH_dP(Q, P)), inst["dHdP"][i], x))
        if with_public:
            out.append(("hamsys.rhs", lambda xf=xf: _ints(hs.rhs(0.0, xf)), inst["rhs"][i], x))
    if with_public and d >= 2:
        # the same Hamiltonian in "large units": H_s(z) = H(z / S), S = 2^10.  Every coefficient of degree k is scaled by 2^(-10 k)
        # (down to 2^-60 ~ 1e-18) and the point by S; powers of two commute with every floating operation, so S * rhs_s(S z) is
        # rhs(z) BIT FOR BIT.  (A Hamiltonian is not required to be written in units in which its coefficients are O(1).)
        S = 1024.0
        blocks = pu.to_list(pu.from_tlc(inst["H"]), d)
        for k, b in enumerate(blocks):
            b *= S ** (-k)
        hs_s = L.ham.create_hamiltonian_system(blocks, d, L.psi, L.clmo, L.enc, n_dof=3)
        for i, x in enumerate(inst["pts"][:2]):
            xs = np.array(x, dtype=np.float64) * S
            out.append(("hamsys.rhs[large-units]", lambda xs=xs: _ints(np.asarray(hs_s.rhs(0.0, xs)) * S), inst["rhs"][i], x))
            out.append(("hamsys.dH_dQ[large-units]", lambda xs=xs: _ints(np.asarray(hs_s.dH_dQ(xs[:3].copy(), xs[3:].copy())) * S), inst["dHdQ"][i], x))
            out.append(("_hamiltonian_rhs[large-units]", lambda xs=xs: _ints(np.asarray(L.ham._hamiltonian_rhs(xs, hs_s.jac_H, hs_s.clmo_H, 3)) * S),
                        inst["rhs"][i], x))
    return out


def _is_not_evaluable(ex) -> bool:
    """The public rhs failed to become a value because numba could not compile the closure."""
    n = type(ex).__name__
    return n in ("NumbaNotImplementedError", "TypingError", "LoweringError", "NumbaError", "UnsupportedError",
                 "InternalError", "NotImplementedError") or "numba" in type(ex).__module__


def check_rhs(ck: Check, bad: list, insts: list, n_public: int):
    state = {"evaluable": None}
    npub = 0
    for inst in insts:
        H = pu.from_tlc(inst["H"])
        with_public = npub < n_public and state["evaluable"] is not False and (len(H) >= 2 or npub < 2)
        if with_public:
            npub += 1
        for name, thunk, want, x in rhs_cases(inst, with_public):
            ck.count((name, json.dumps(inst["H"]), json.dumps(x)), bool(H))
            data = {"case": "rhs", "fn": name, "H": inst["H"], "x": x, "expect": want}
            try:
                got = thunk()
            except MachineryError:
                raise
            except Exception as ex:
                if name == "hamsys.rhs" and _is_not_evaluable(ex):
                    state["evaluable"] = False
                    bad.append(("hamsys.rhs|not-evaluable",
                                f"create_hamiltonian_system(H).rhs(0.0, y) raises {type(ex).__name__} instead of returning "
                                f"(dH/dP, -dH/dQ) = {want} (the compiled closure captures numba typed lists)",
                                dict(data, observed=f"{type(ex).__name__}: {str(ex)[:160]}")))
                else:
                    bad.append((f"{name}|raises", f"{name} raised {type(ex).__name__}: {str(ex)[:160]} on H={inst['H']} x={x}",
                                dict(data, observed=repr(ex)[:200])))
                continue
            if name == "hamsys.rhs":
                state["evaluable"] = True
            g = [sorted(e) for e in got] if name == "_polynomial_jacobian" else got
            if g != want:
                bad.append((f"{name}|differs-from-hamilton-equations",
                            f"{name} = {str(g)[:200]} but Hamilton's equations give {str(want)[:200]} for H={str(inst['H'])[:200]} x={x}",
                            dict(data, observed=g)))
    return state["evaluable"]


# --------------------------------------------------------------------------
# 2. twins
# --------------------------------------------------------------------------

def make_generic(hs):
    """The same Hamilton equations as a generic vector field: a compiled closure over tuples of the Jacobian
    blocks calling the library's own _hamiltonian_rhs (identical floating operations, no typed lists captured)."""
    L = lib()
    jac_t = tuple(tuple(np.asarray(b) for b in var) for var in hs.jac_H)
    clmo_t = tuple(np.asarray(a) for a in hs.clmo_H)
    hrhs = L.ham._hamiltonian_rhs

    @L.numba.njit(cache=False)
    def f(t, y):
        return hrhs(y, jac_t, clmo_t, 3)
    return L.drhs.create_rhs_system(f, 6, name="generic twin")


_EVENT = None


def event_fn():
    global _EVENT
    if _EVENT is None:
        L = lib()

        @L.numba.njit("float64(float64, float64[:])", cache=False)
        def ev(t, y):
            return y[1] - 0.03125
        _EVENT = ev
    return _EVENT


_EVENT_T = None


def event_fn_time():
    """an event that depends EXPLICITLY on time (a moving section): the drivers must evaluate it at the time of the state they test"""
    global _EVENT_T
    if _EVENT_T is None:
        L = lib()

        @L.numba.njit("float64(float64, float64[:])", cache=False)
        def ev(t, y):
            return y[1] - 0.03125 * np.cos(6.0 * t)
        _EVENT_T = ev
    return _EVENT_T


_NEVER = None


def never_event():
    global _NEVER
    if _NEVER is None:
        L = lib()

        @L.numba.njit("float64(float64, float64[:])", cache=False)
        def ev(t, y):
            return 1.0 + y[0] * y[0]
        _NEVER = ev
    return _NEVER


def make_integrator(v, cfg):
    L = lib()
    if v["family"] == "fixed":
        return L.rk.RungeKutta(order=v["order"])
    if v["family"] == "adaptive":
        return L.rk.AdaptiveRK(order=v["order"], rtol=cfg["rtol"], atol=cfg["atol"], max_step=cfg.get("max_step", np.inf))
    return L.sy._ExtendedSymplectic(order=v["order"])


KERNELS = {
    "fixed": ("_FixedStepRK", ["_integrate_fixed_rk", "_integrate_fixed_rk_ham", "_integrate_fixed_rk_until_event",
                               "_integrate_fixed_rk_until_event_ham"]),
    5: ("_RK45", ["_integrate_rk45", "_integrate_rk45_ham", "_integrate_rk45_until_event", "_integrate_rk45_until_event_ham"]),
    8: ("_DOP853", ["_integrate_dop853", "_integrate_dop853_ham", "_integrate_dop853_until_event",
                    "_integrate_dop853_until_event_ham"]),
}

# helpers of rk.py observed in traced runs.  Arguments are bound by NAME (inspect.signature of the py_func), so
# generic and `_ham` siblings, whose argument lists differ by f / jac_H, clmo_H, n_dof, log the same payload.
STEP_KERNELS = ("rk_embedded_step_jit_kernel", "rk_embedded_step_ham_jit_kernel", "rk45_step_jit_kernel",
                "rk45_step_ham_jit_kernel", "dop853_step_jit_kernel", "dop853_step_ham_jit_kernel")
OTHERS = {  # name: (canonical name, argument names logged); results are always logged
    "_select_initial_step": ("select", ("d0", "d1", "min_step", "max_step")),
    "_clamp_step": ("clamp", ("h", "max_step", "min_step")),
    "_adjust_step_to_endpoint": ("adjust", ("t", "h", "t_end")),
    "_error_scale": ("scale", ("rtol", "atol")),
    "_rk45_build_Q_cache": ("rk45cache", ()),
    "_rk45_eval_dense": ("rk45dense", ("x", "hseg")),
    "_dop853_build_dense_cache": ("dopcache", ("t_old", "hseg")),
    "_dop853_build_dense_cache_ham": ("dopcache", ("t_old", "hseg")),
    "_dop853_eval_dense": ("dopdense", ("x",)),
}
REFINES = ("_hermite_refine_in_step", "_rk45_refine_in_step", "_dop853_refine_in_step", "_dop853_refine_in_step_ham")


def _flat(x):
    out = []
    if isinstance(x, (tuple, list)):
        for e in x:
            out += _flat(e)
    elif isinstance(x, np.ndarray):
        out += [float(z) for z in x.ravel()]
    elif isinstance(x, (bool, np.bool_)):
        out.append(float(bool(x)))
    elif isinstance(x, (int, float, np.integer, np.floating)):
        out.append(float(x))
    return out


_NPP = None


def _np_proxy():
    """numpy as seen by a kernel's py_func, except that linalg.norm is the numba implementation (BLAS nrm2),
    so that the source run performs the same floating operations as the compiled kernel."""
    global _NPP
    if _NPP is None:
        nb = lib().numba

        @nb.njit(cache=False)
        def norm(x):
            return np.linalg.norm(x)

        class _LA:
            def __getattr__(self, name):
                return getattr(np.linalg, name)
        la = _LA()
        la.norm = lambda x: norm(np.ascontiguousarray(x, dtype=np.float64))

        class _NP:
            linalg = la

            def __getattr__(self, name):
                return getattr(np, name)
        _NPP = _NP()
    return _NPP


def _bind(fn, a, kw):
    """Ordered (name, value) pairs of a call of an njit function, by its Python signature."""
    import inspect
    ba = inspect.signature(fn.py_func).bind(*a, **kw)
    return list(ba.arguments.items())


class Tracer:
    """Runs integrate() through the public API with the dispatched kernel recorded; in traced mode the kernel's
    py_func is executed with the helpers of rk.py wrapped by recorders around the compiled originals."""

    def __init__(self, traced: bool, cfg: dict):
        self.traced = traced
        self.cfg = cfg
        self.events = []
        self.kernel = None
        self.grid = None
        self.nstep = 0
        self.real_f = None
        self.live = []          # (module, name, original, recorder) currently patched into rk's namespace

    def _call(self, fn, a, kw):
        """Call the compiled helper positionally, with the recording rhs wrapper swapped back for the real one.
        numba resolves a function's globals when it compiles, and a helper may compile lazily for a signature it has
        not seen yet: the recorders are therefore taken out of rk's namespace for the duration of the call."""
        args = _bind(fn, a, kw)
        vals = [self.real_f if (nm == "f" and self.real_f is not None) else val for nm, val in args]
        for owner, name, orig, new in self.live:
            setattr(owner, name, orig)
        try:
            return dict(args), fn(*vals)
        finally:
            for owner, name, orig, new in self.live:
                setattr(owner, name, new)

    def _step(self, fn):
        def w(*a, **kw):
            d, res = self._call(fn, a, kw)
            t, y, h = d["t"], d["y"], d["h"]
            if self.family == "fixed":
                tn = float(self.grid[min(self.nstep + 1, len(self.grid) - 1)])
            else:
                tn = float(t + h)
            self.nstep += 1
            self.events.append({"e": "step", "t": float(t), "h": abs(float(h)), "tn": tn,
                                "x": _flat(np.asarray(y)) + [float(h)] + _flat(res)})
            return res
        return w

    def _other(self, fn, canon, names):
        def w(*a, **kw):
            d, res = self._call(fn, a, kw)
            self.events.append({"e": "other", "n": canon, "x": _flat([d[n] for n in names]) + _flat(res)})
            return res
        return w

    def _refine(self, fn):
        def w(*a, **kw):
            d, res = self._call(fn, a, kw)
            self.events.append({"e": "refine", "th": float(res[0]), "x": _flat([d["t0"], d["t1"], d["h"]]) + _flat(res)})
            return res
        return w

    def _scalar(self, fn, kind):
        def w(*a):
            r = fn(*a)
            self.events.append({"e": kind, "x": _flat(list(a)) + [float(r)]})
            return r
        return w

    def _rhs_generic(self, f):
        def w(t, y):
            res = f(t, y)
            self.events.append({"e": "other", "n": "rhs", "x": _flat(np.asarray(y)) + _flat(res)})
            return res
        return w

    def run(self, v, system, y0, grid, ev, direction):
        """Returns (kernel name dispatched to, result arrays, events)."""
        L = lib()
        rk, sy = L.rk, L.sy
        self.family = v["family"]
        self.grid = np.asarray(grid)
        integ = make_integrator(v, self.cfg)
        saved = []
        tr = self

        def patch(owner, name, new, static=False):
            saved.append((owner, name, owner.__dict__[name] if isinstance(owner, type) else getattr(owner, name)))
            if not isinstance(owner, type):
                tr.live.append((owner, name, getattr(owner, name), new))
            setattr(owner, name, staticmethod(new) if static else new)

        def wrap_kernel(owner, name, static):
            orig = getattr(owner, name)

            def w(*a, **kw):
                tr.kernel = name
                if not tr.traced:
                    return orig(*a, **kw)
                args = _bind(orig, a, kw)
                vals = []
                for nm, val in args:
                    if nm == "f":
                        tr.real_f = val
                        val = tr._rhs_generic(val)
                    vals.append(val)
                tr.events.append({"e": "start", "k": name})
                return orig.py_func(*vals)
            patch(owner, name, w, static)

        try:
            if v["family"] == "symplectic":
                for nm in ("_integrate_symplectic", "_integrate_symplectic_until_event"):
                    wrap_kernel(sy, nm, False)
            else:
                cls_name, names = KERNELS["fixed" if v["family"] == "fixed" else v["order"]]
                for nm in names:
                    wrap_kernel(getattr(rk, cls_name), nm, True)
            if self.traced and v["family"] != "symplectic":
                for nm in STEP_KERNELS:
                    patch(rk, nm, self._step(getattr(rk, nm)))
                for nm, (canon, names) in OTHERS.items():
                    patch(rk, nm, self._other(getattr(rk, nm), canon, names))
                for nm in REFINES:
                    patch(rk, nm, self._refine(getattr(rk, nm)))
                patch(rk, "np", _np_proxy())
                patch(rk, "_pi_accept_factor", self._scalar(rk._pi_accept_factor, "acc"))
                patch(rk, "_pi_reject_factor", self._scalar(rk._pi_reject_factor, "rej"))
                orig_c = rk._event_crossed

                def crossed(gp, gn, d):
                    r = bool(orig_c(gp, gn, d))
                    tr.events.append({"e": "cross", "c": r, "x": [float(gp), float(gn), float(d)]})
                    return r
                patch(rk, "_event_crossed", crossed)
                orig_h = rk._hamiltonian_rhs

                def hrhs(y, jac, clmo, n):
                    res = orig_h(y, jac, clmo, n)
                    tr.events.append({"e": "other", "n": "rhs", "x": _flat(np.asarray(y)) + _flat(res)})
                    return res
                patch(rk, "_hamiltonian_rhs", hrhs)
            kw = {}
            if ev is not None:
                kw = dict(event_fn=ev, event_cfg=L.EventConfig(direction=direction, terminal=True),
                          event_options=L.EventOptions(xtol=1e-12, gtol=1e-12))
            sol = integ.integrate(system, np.array(y0, dtype=np.float64), np.array(grid, dtype=np.float64), **kw)
        finally:
            for owner, name, orig in reversed(saved):
                setattr(owner, name, orig)
            self.live = []
        res = {"times": np.asarray(sol.times, dtype=np.float64), "states": np.asarray(sol.states, dtype=np.float64),
               "derivs": None if getattr(sol, "derivatives", None) is None else np.asarray(sol.derivatives, dtype=np.float64)}
        if self.traced:
            hit = any(e["e"] == "refine" for e in self.events)
            self.events.append({"e": "finish", "hit": hit, "th": float(res["times"][-1]) if hit else 0.0,
                                "x": _flat(res["times"]) + _flat(res["states"])
                                + (_flat(res["derivs"]) if res["derivs"] is not None else [])})
        return self.kernel, res, self.events


# Relative output tolerance used ONLY to classify a pair that is not bit-identical but takes the same discrete
# decisions (HamTwinTrace with Strict = FALSE accepts it).  Measured on scratch trees: re-associating one sum in
# the `_ham` step kernels (harmless) moves outputs by <= 3.3e-11 (error estimates amplify 1e-16 into 1e-8 on the
# step sizes); changing the controller exponent in the `_ham` copies only (genuine) moves them by >= 1.9e-7 in
# the one configuration where the discrete sequence survives, and changes the discrete sequence in 7 of 8.
ROUND_TOL = 5e-9


def _reldiff(a, b):
    if a is None or b is None:
        return 0.0 if (a is None and b is None) else float("inf")
    if a.shape != b.shape:
        return float("inf")
    if a.size == 0:
        return 0.0
    with np.errstate(all="ignore"):
        d = np.abs(a - b) / np.maximum(np.maximum(np.abs(a), np.abs(b)), 1e-3)
    d = np.where(np.isnan(d), np.inf, d)
    return float(np.max(d))


def bits_equal(a, b):
    if a is None or b is None:
        return a is None and b is None
    return a.shape == b.shape and a.tobytes() == b.tobytes()


def _key(x):
    """Sort key that separates bit patterns: NaN last, -0.0 before +0.0."""
    x = float(x)
    if x != x:
        return (1, 0.0, 0)
    return (0, x, 0 if (x == 0.0 and np.signbit(x)) else 1)


def rank_traces(gen, ham, extra):
    """Replace every float of both traces (and of `extra`) by its rank in the sorted union of all of them:
    rank equality <-> bit equality, and the order of times is preserved."""
    vals = set()
    for tr in (gen, ham):
        for e in tr:
            for k in ("t", "h", "tn", "th"):
                if k in e:
                    vals.add(_key(e[k]))
            for z in e.get("x", ()):
                vals.add(_key(z))
    for z in extra.values():
        vals.add(_key(z))
    order = {k: i + 1 for i, k in enumerate(sorted(vals))}

    def conv(tr):
        out = []
        for e in tr:
            d = {}
            for k, val in e.items():
                if k in ("t", "h", "tn", "th"):
                    d[k] = order[_key(val)]
                elif k == "x":
                    d[k] = [order[_key(z)] for z in val]
                else:
                    d[k] = val
            out.append(d)
        return out
    return conv(gen), conv(ham), {k: order[_key(z)] for k, z in extra.items()}


def twin_configs(v, rnd, quick):
    """Problem instances for one variant: twin Hamiltonian index, initial state, grid, tolerances, event direction.
    All of them stay bounded (a NaN would make the adaptive drivers loop forever): Twin1/Twin3 have a positive
    definite quadratic part and small amplitudes; the saddle Twin2 is run from a tenth of the amplitude for T = 1."""
    base = [[0.125, -0.0625, 0.09375, 0.046875, 0.078125, -0.109375],
            [0.05, 0.11, -0.07, -0.02, 0.13, 0.03]]
    adaptive = v["family"] == "adaptive"
    plan = [(1, 0, 1.0, 0)]                                   # (twin, y0 index, amplitude scale, tolerance index)
    if adaptive:
        plan.append((1, 0, 3.0, 1))                           # tight tolerance, larger amplitude: rejected steps occur
    if not quick:
        plan += [(2, 1, 0.1, 0), (3, 1, 1.0, 1 if adaptive else 0), (3, 0, 2.0, 0), (1, 1, 2.0, 0), (2, 0, 0.1, 1 if adaptive else 0)]
    cfgs = []
    for i, (tw, yi, sc, ti) in enumerate(plan):
        T = 1.0 if tw == 2 else (3.0 if (adaptive and (ti == 0 or v["order"] == 8)) else (1.5 if adaptive else 2.0))
        ngrid = 7 if adaptive else 9
        grid = np.linspace(0.0, -T if v["dir"] == "gridrev" else T, ngrid)
        cfgs.append({"y0": [sc * z for z in base[yi]], "grid": [float(x) for x in grid], "twin": tw,
                     "rtol": [1e-6, 1e-10][ti], "atol": [1e-9, 1e-12][ti], "evdir": [0, 1, -1][(i + v["order"]) % 3],
                     "evkind": "state"})
        if v["event"] and i == 0:
            # the same problem with an explicitly time-dependent event (moving section), no direction filter
            cfgs.append(dict(cfgs[-1], evkind="time", evdir=0))
    return cfgs


_WARM: set = set()


def run_path(v, cfg, path, systems, traced):
    """One path of one variant.  Returns dict(kernel, res, events) or dict(error=...)."""
    L = lib()
    base = systems[path]
    system = L.dbase._DirectedSystem(base, -1) if v["dir"] == "directed" else base
    ev = None
    if v["event"]:
        ev = event_fn_time() if cfg.get("evkind") == "time" else event_fn()
    tr = Tracer(traced, cfg)
    try:
        wk = (v["family"], v["order"] if v["family"] == "adaptive" else 0, v["event"], v["dir"], path, id(base))
        if traced and wk not in _WARM:
            # every compiled helper must exist BEFORE rk's globals are replaced by recorders (numba resolves
            # globals at compile time): run the compiled path once first
            Tracer(False, cfg).run(v, system, cfg["y0"], cfg["grid"], ev, cfg["evdir"])
        _WARM.add(wk)
        k, res, events = tr.run(v, system, cfg["y0"], cfg["grid"], ev, cfg["evdir"])
        return {"kernel": k, "res": res, "events": events}
    except MachineryError:
        raise
    except Exception as ex:
        return {"error": ex, "kernel": tr.kernel}


def check_twins(ck: Check, bad: list, variants: list, twins: dict, rnd, rhs_evaluable):
    L = lib()
    systems_by_twin = {}
    traces, meta = [], []
    rounding: list = []
    n_rej = n_hit = n_pairs = 0
    t_compile = time.time()
    for rec in variants:
        v = rec["variant"]
        for cfg in twin_configs(v, rnd, ck.quick):
            tw = cfg["twin"]
            if tw not in systems_by_twin:
                hs, _ = make_hamsys(twins[tw]["H"])
                systems_by_twin[tw] = {"ham": hs, "generic": make_generic(hs)}
            systems = systems_by_twin[tw]
            data = {"case": "twin", "variant": v, "cfg": cfg, "H": twins[tw]["H"], "kernels": rec["kernel"]}
            ck.count(("twin", json.dumps(v, sort_keys=True), json.dumps(cfg, sort_keys=True)), True)
            if v["family"] == "symplectic":
                sym_case(ck, bad, v, cfg, systems, data)
                continue
            if rec["publicrhs"] and rhs_evaluable is False:
                # the Hamiltonian path of this variant evaluates hamsys.rhs inside the generic kernels: confirm it fails
                out = run_path(v, cfg, "ham", systems, False)
                if "error" in out and _is_not_evaluable(out["error"]):
                    bad.append(("hamsys.rhs|not-evaluable",
                                f"integrating _DirectedSystem(hamsys, -1) with {v['family']} order {v['order']} raises "
                                f"{type(out['error']).__name__}: the generic kernel cannot call hamsys.rhs", data))
                    continue
            outs = {}
            for path in ("generic", "ham"):
                outs[path] = run_path(v, cfg, path, systems, False)
            g, hm = outs["generic"], outs["ham"]
            n_pairs += 1
            if "error" in g and "error" in hm and type(g["error"]) is type(hm["error"]):
                continue          # both paths refuse the problem in the same way: they agree
            if "error" in hm or "error" in g:
                which = "ham" if "error" in hm else "generic"
                ex = outs[which]["error"]
                if which == "ham" and rec["publicrhs"] and _is_not_evaluable(ex):
                    bad.append(("hamsys.rhs|not-evaluable", f"integrating _DirectedSystem(hamsys, -1) raises {type(ex).__name__}", data))
                else:
                    bad.append((f"{rec['kernel'][which]}|one-path-raises",
                                f"{which} path raises {type(ex).__name__}: {str(ex)[:200]} while the other returns a trajectory "
                                f"(variant {v})", dict(data, observed=repr(ex)[:300])))
                continue
            # dispatch
            for path in ("generic", "ham"):
                if outs[path]["kernel"] != rec["kernel"][path]:
                    bad.append((f"dispatch|{v['family']}-{v['dir']}-{path}",
                                f"{path} path of {v} ran kernel {outs[path]['kernel']}, the dispatch model says {rec['kernel'][path]}",
                                dict(data, observed=outs[path]["kernel"])))
            # compiled outputs: bit for bit on a consistent tree.  A pair that is not bit-identical is classified after
            # trace validation (same discrete decisions + outputs within ROUND_TOL = rounding-level agreement)
            diffs = [nm for nm in ("times", "states", "derivs") if not bits_equal(g["res"][nm], hm["res"][nm])]
            dout = max([_reldiff(g["res"][nm], hm["res"][nm]) for nm in diffs], default=0.0)
            if diffs and (dout > ROUND_TOL or v["dir"] == "directed"):
                if dout > ROUND_TOL:
                    bad.append((f"{rec['kernel']['ham']}|differs-from-generic-path",
                                f"{rec['kernel']['ham']} and {rec['kernel']['generic']} disagree on {diffs} for variant {v} "
                                f"(max relative difference {dout:.3e}; bit-identical on a consistent tree)",
                                dict(data, observed={"differs": diffs, "max_rel_diff": dout})))
                else:
                    rounding.append(dout)
            # traced runs -> TLC
            if v["dir"] == "directed":
                gen_ev = [{"e": "start", "k": g["kernel"]}]
                ham_ev = [{"e": "start", "k": hm["kernel"]}]
            else:
                tg = run_path(v, cfg, "generic", systems, True)
                th = run_path(v, cfg, "ham", systems, True)
                if "error" in tg or "error" in th:
                    raise MachineryError(f"traced run failed for {v}: {tg.get('error')!r} / {th.get('error')!r}")
                for path, t_out in (("generic", tg), ("ham", th)):
                    if not all(bits_equal(t_out["res"][nm], outs[path]["res"][nm]) for nm in ("times", "states", "derivs")):
                        ck.notes.append(f"py_func run of {t_out['kernel']} is not bit-identical to the compiled kernel for {v}")
                        ck.cov["parts"].setdefault("twins", {}).setdefault("source_vs_compiled_differences", 0)
                        ck.cov["parts"]["twins"]["source_vs_compiled_differences"] += 1
                gen_ev, ham_ev = tg["events"], th["events"]
                n_rej += sum(1 for e in gen_ev if e["e"] == "rej")
                n_hit += sum(1 for e in gen_ev if e["e"] == "refine")
            gr, hr, ex = rank_traces(gen_ev, ham_ev, {"t0": cfg["grid"][0], "tf": cfg["grid"][-1]})
            traces.append({"variant": v, "t0": ex["t0"], "tf": ex["tf"], "ngrid": len(cfg["grid"]), "gen": gr, "ham": hr})
            meta.append((rec, cfg, data, gen_ev, ham_ev, dout))
    ck.part("twins", pairs=len(traces), rejected_steps_seen=n_rej, events_located=n_hit, wall_s=round(time.time() - t_compile, 1))

    # TLC decides acceptance of each pair by one behaviour of the driver: strictly (bit for bit), and for the pairs
    # rejected strictly, loosely (same discrete decisions)
    full = [i for i, t in enumerate(traces) if len(t["gen"]) > 1]
    states, rej = validate_traces(TRACE, CFG / "HamTwinTrace.Strict.cfg", traces, timeout=1500)
    ck.cov["traces_validated_against_impl"] += 2 * len(traces)
    loose = {}
    if rej:
        idx = sorted(rej)
        _, lr = validate_traces(TRACE, CFG / "HamTwinTrace.Loose.cfg", [traces[i] for i in idx], timeout=1500)
        loose = {idx[k]: val for k, val in lr.items()}
    ck.part("trace_validation", twin_traces=len(traces), with_driver_events=len(full), states=states,
            strict_rejected=len(rej), loose_rejected=len(loose))
    for i, (line, txt) in sorted(rej.items()):
        rec, cfg, data, gen_ev, ham_ev, dout = meta[i]
        v = rec["variant"]
        if isinstance(line, str):
            raise MachineryError(f"HamTwinTrace {line} on the traces of {v}:\n{txt[:1500]}")
        j = line - 1
        ge = gen_ev[j] if j < len(gen_ev) else None
        he = ham_ev[j] if j < len(ham_ev) else None
        tg, th = traces[i]["gen"], traces[i]["ham"]
        if ge and ge["e"] == "start":
            bad.append((f"dispatch|{v['family']}-{v['dir']}",
                        f"kernels dispatched for {v}: generic {ge.get('k')}, ham {he.get('k') if he else None}; dispatch model "
                        f"says {rec['kernel']}", data))
            continue
        if j < len(tg) and j < len(th) and tg[j] == th[j]:
            raise MachineryError(f"HamTwinTrace rejected two identical traces of {v} at event {line} ({ge}): the driver "
                                 f"model does not describe the code")
        kind = (ge or he or {}).get("e", "?")
        nm = (ge or he or {}).get("n", "")
        if i in loose:
            l2 = loose[i][0]
            g2 = gen_ev[l2 - 1] if isinstance(l2, int) and l2 - 1 < len(gen_ev) else None
            h2 = ham_ev[l2 - 1] if isinstance(l2, int) and l2 - 1 < len(ham_ev) else None
            errs = [e["x"][0] for e in (g2, h2) if e and e["e"] in ("acc", "rej")]
            if len(errs) == 2 and all(abs(x - 1.0) < 1e-6 for x in errs):
                ck.notes.append(f"knife-edge accept/reject (err_norm within 1e-6 of 1) at event {l2} for {v}: not compared")
                continue
            bad.append((f"{rec['kernel']['ham']}|trace-diverges-from-generic-path",
                        f"{rec['kernel']['generic']} and {rec['kernel']['ham']} take different decisions: traces first differ at "
                        f"event {line} ({kind} {nm}) and the discrete sequences at event {l2} "
                        f"(generic {str(g2)[:120]} / ham {str(h2)[:120]}) for variant {v}",
                        dict(data, observed={"event": line, "discrete_event": l2, "generic": g2, "ham": h2})))
            continue
        # same discrete behaviour, not bit-identical: rounding-level unless the outputs moved
        if dout > ROUND_TOL:
            continue                    # already reported as differs-from-generic-path
        # ... or the VALUES the two drivers computed at the first differing event are far apart (e.g. an event function evaluated
        # at another time: same decisions on this problem by luck, not the same computation)
        xg, xh = (ge or {}).get("x"), (he or {}).get("x")
        if isinstance(xg, list) and isinstance(xh, list) and len(xg) == len(xh) and xg:
            dv = max(abs(a - b) / (1.0 + max(abs(a), abs(b))) for a, b in zip(xg, xh))
            if dv > 1e-6:
                bad.append((f"{rec['kernel']['ham']}|trace-values-differ-from-generic-path",
                            f"{rec['kernel']['generic']} and {rec['kernel']['ham']} take the same decisions but compute different values at "
                            f"event {line} ({kind} {nm}): generic {str(xg)[:100]} / ham {str(xh)[:100]} (relative difference {dv:.2e}) for {v}",
                            dict(data, observed={"event": line, "generic": ge, "ham": he})))
                continue
        rounding.append(dout)
        ck.notes.append(f"{rec['kernel']['generic']} / {rec['kernel']['ham']} agree on every decision and to {dout:.1e} on the "
                        f"outputs but not bit for bit (first at event {line}, {kind} {nm}) for {v}: rounding-level")
    ck.part("twins", rounding_level_pairs=len(rounding), max_rounding_level_diff=max(rounding, default=0.0),
            rounding_tolerance=ROUND_TOL, rounding_margin_measured="harmless <= 3.3e-11, genuine >= 1.9e-7")

    # binding self-test: corrupt the LAST event, drop an event, flip an accept
    cand = [i for i in full if i not in rej]
    if cand:
        muts = []
        t1 = json.loads(json.dumps(traces[cand[0]]))
        t1["ham"][-1]["x"][-1] += 1
        muts.append(t1)
        t2 = json.loads(json.dumps(traces[cand[len(cand) // 2]]))
        del t2["ham"][len(t2["ham"]) // 2]
        muts.append(t2)
        t3 = json.loads(json.dumps(traces[cand[-1]]))
        t3["ham"][0]["k"] = t3["gen"][0]["k"] + "_x"
        muts.append(t3)
        for i in cand:
            idx = [j for j, e in enumerate(traces[i]["gen"]) if e["e"] == "acc"]
            if idx:
                t4 = json.loads(json.dumps(traces[i]))
                for side in ("gen", "ham"):
                    t4[side][idx[0]]["e"] = "rej"
                muts.append(t4)
                break
        _, rj = validate_traces(TRACE, CFG / "HamTwinTrace.Strict.cfg", muts, timeout=600)
        if len(rj) != len(muts):
            raise MachineryError(f"binding self-test: only {len(rj)} of {len(muts)} corrupted twin traces were rejected")
        # the loose specification must forgive a changed value (t1) and must not forgive a missing event (t2)
        _, lj = validate_traces(TRACE, CFG / "HamTwinTrace.Loose.cfg", muts[:2], timeout=600)
        if 0 in lj or 1 not in lj:
            raise MachineryError(f"binding self-test: loose twin validation misclassifies corrupted traces ({sorted(lj)})")
        ck.part("selftest", corrupted_twin_traces_rejected=len(muts), loose_forgives_value_only=True)


def sym_case(ck, bad, v, cfg, systems, data):
    """Symplectic family: no generic twin.  Dispatch, and event path with a never-firing event == plain path."""
    L = lib()
    hs = systems["ham"]
    system = L.dbase._DirectedSystem(hs, -1) if v["dir"] == "directed" else hs
    tr = Tracer(False, cfg)
    try:
        ev = never_event() if v["event"] else None
        k, res, _ = tr.run(v, system, cfg["y0"], cfg["grid"], ev, 0)
        tr2 = Tracer(False, cfg)
        k2, plain, _ = tr2.run(dict(v, event=False), system, cfg["y0"], cfg["grid"], None, 0)
    except Exception as ex:
        bad.append((f"_integrate_symplectic|raises", f"symplectic variant {v} raises {type(ex).__name__}: {str(ex)[:200]}",
                    dict(data, observed=repr(ex)[:300])))
        return
    want = "_integrate_symplectic" + ("_until_event" if v["event"] else "")
    if k != want:
        bad.append((f"dispatch|symplectic-{v['dir']}", f"{v} ran {k}, dispatch model says {want}", dict(data, observed=k)))
    if v["event"]:
        # until_event returns times [t0, tf] x states [y0, y_last] through _Solution only when hit; not hit: full trajectory
        if not bits_equal(res["states"], plain["states"]):
            md = float(np.max(np.abs(res["states"] - plain["states"]))) if res["states"].shape == plain["states"].shape else float("nan")
            bad.append(("_integrate_symplectic_until_event|differs-from-plain-path",
                        f"with an event that never fires the event path returns a different trajectory (max diff {md:.3e}) for {v}",
                        dict(data, observed=md)))


# --------------------------------------------------------------------------
# main
# --------------------------------------------------------------------------

def _bg(fn):
    box = {}

    def run():
        try:
            box["r"] = fn()
        except BaseException as ex:  # noqa
            box["e"] = ex
    th = threading.Thread(target=run, daemon=True)
    th.start()
    return th, box


def twin_child(inp: str, outp: str) -> int:
    """Child process: the twin integrations (a wrong tree may make an adaptive driver loop forever on a NaN; the parent
    kills this process after a timeout instead of hanging)."""
    spec = json.load(open(inp))
    ck = Check("C17", "model_checking", spec["tier"], seed=spec["seed"])
    bad: list = []
    lib()
    twins = {int(k): x for k, x in spec["twins"].items()}
    hs, _ = make_hamsys(twins[1]["H"])
    try:
        hs.rhs(0.0, np.array([0.125, -0.0625, 0.09375, 0.046875, 0.078125, -0.109375]))
        evaluable = True
    except Exception:
        evaluable = False
    import shutil
    import common
    try:
        check_twins(ck, bad, spec["variants"], twins, random.Random(spec["seed"]), evaluable)
    except MachineryError as ex:
        json.dump({"machinery": str(ex)}, open(outp, "w"))
        return 2
    finally:
        shutil.rmtree(common.WORK, ignore_errors=True)
    json.dump({"bad": bad, "parts": ck.cov["parts"], "notes": ck.notes, "evaluations": ck.cov["evaluations"],
               "distinct": [h.hex() for h in ck._distinct], "traces": ck.cov["traces_validated_against_impl"]},
              open(outp, "w"), default=str)
    return 0


def main(tier=None, replay=None):
    ck = Check("C17", "model_checking", tier)
    if replay:
        return replay_one(json.load(open(replay))["data"], replay)
    import subprocess
    from common import workdir

    # variant space + twin Hamiltonians first: the twin stage runs in a child process from the start
    box1 = {}
    th1, b1 = _bg(lambda: tlc(TWIN, CFG / f"HamTwin.{ck.tier}.cfg", coverage=ck.quick, timeout=900, workers=4))
    r_twin = tlc(RHS, CFG / "HamRhs.twin.cfg", timeout=600, workers=2)
    th1.join()
    if "e" in b1:
        raise b1["e"]
    r_model = b1["r"]
    ck.model("HamRhs.twin", r_twin)
    ck.model("HamTwin." + ck.tier, r_model, required_actions=("Start", "Reject", "RefineCore"))
    twins = {x["twin"]: x for x in r_twin.printed() if x.get("twin")}
    variants = [x for x in r_model.printed() if "variant" in x]
    if len(twins) < 3 or len(variants) < 30:
        raise MachineryError(f"generation too small: twins {len(twins)} variants {len(variants)}")
    variants.sort(key=lambda r: json.dumps(r["variant"], sort_keys=True))
    wd = workdir("c17")
    inp, outp = wd / "twin_in.json", wd / "twin_out.json"
    inp.write_text(json.dumps({"tier": ck.tier, "seed": ck.seed, "variants": variants, "twins": twins}))
    child = subprocess.Popen([sys.executable, os.path.abspath(__file__), "--twin-child", str(inp), str(outp)],
                             stdout=subprocess.PIPE, stderr=subprocess.STDOUT, text=True)

    def gen():
        out = {}
        out["mono"] = tlc(RHS, CFG / f"HamRhs.mono.{ck.tier}.cfg", timeout=900, workers=4)
        out["walk"] = tlc(RHS, CFG / "HamRhs.walk.cfg", simulate="num=%d" % (40 if ck.quick else 400), seed=ck.seed, depth=120,
                          workers=4, timeout=900)
        out["walkbig"] = tlc(RHS, CFG / "HamRhs.walkbig.cfg", simulate="num=%d" % (15 if ck.quick else 300), seed=ck.seed + 1,
                             depth=160, workers=4, timeout=900)
        return out
    try:
        th, box = _bg(gen)
        lib()
        th.join()
        if "e" in box:
            raise box["e"]
        runs = box["r"]
        ck.model("HamRhs.mono." + ck.tier, runs["mono"])
        for nm in ("walk", "walkbig"):
            if runs[nm].error or not runs[nm].ok:
                raise MachineryError(f"HamRhs {nm} generation failed: {runs[nm].error or runs[nm].invariant_violated}\n"
                                     + runs[nm].counterexample()[:3000])
        insts, seen = [], set()
        for x in list(twins.values()) + runs["mono"].printed() + runs["walk"].printed() + runs["walkbig"].printed():
            if "H" in x:
                k = json.dumps(x["H"], sort_keys=True)
                if k not in seen:
                    seen.add(k)
                    insts.append(x)
        if len(insts) < 50:
            raise MachineryError(f"generation too small: instances {len(insts)}")
        ck.part("instances", hamiltonians=len(insts), variants=len(variants))

        bad: list = []
        t0 = time.time()
        rhs_evaluable = check_rhs(ck, bad, insts, n_public=4 if ck.quick else 25)
        ck.part("rhs", wall_s=round(time.time() - t0, 1), public_rhs_evaluable=rhs_evaluable, mismatches=len(bad))
        for x in insts[:3]:
            ck.sample({"H": x["H"], "x": x["pts"][0], "rhs": x["rhs"][0]})

        # twin stage result
        # normal: 60-90 s quick on an idle machine; the limit is generous because the machine may be shared
        limit = (900 if ck.quick else 3600) - (time.time() - ck.t0)
        try:
            cout, _ = child.communicate(timeout=max(limit, 30))
        except subprocess.TimeoutExpired:
            child.kill()
            child.communicate()
            msg = ("the twin integrations did not terminate within the time limit (an integration of this tree does not "
                   "return: a driver loops, e.g. on a NaN)")
            ck.violation("twin-integrations|do-not-return",
                         msg + f" [limit {max(limit, 30):.0f} s; the same stage takes 60-90 s on the unchanged tree]",
                         {"kind": "twin-timeout"})
            ck.notes.append(msg + "; twin stage abandoned")
            cout = None
        if cout is not None:
            if not outp.exists():
                raise MachineryError("twin child failed:\n" + (cout or "")[-3000:])
            res = json.loads(outp.read_text())
            if "machinery" in res:
                raise MachineryError(res["machinery"])
            bad += [tuple(b) for b in res["bad"]]
            for k, val in res["parts"].items():
                ck.cov["parts"][k] = val
            ck.notes += res["notes"]
            ck.cov["evaluations"] += res["evaluations"]
            ck._distinct |= {bytes.fromhex(h) for h in res["distinct"]}
            ck.cov["traces_validated_against_impl"] += res["traces"]
            ck.cov["states"] += res["parts"].get("trace_validation", {}).get("states", 0)
    finally:
        if child.poll() is None:
            child.kill()

    by_key: dict = {}
    for key, desc, data in bad:
        size = len(json.dumps(data, default=str)) + (10 ** 6 if not any(data.get("expect") or [1]) else 0)
        if key not in by_key or size < by_key[key][2]:
            by_key[key] = (desc, data, size)
    for key, (desc, data, _) in sorted(by_key.items()):
        n = sum(1 for b in bad if b[0] == key)
        ck.violation(key, f"{desc}  [{n} failing case(s) with this key]", data)

    ck.cov["rule"] = ("one evaluation = one evaluator call on one TLC-generated (Hamiltonian, state) or one twin problem "
                      "(variant x Hamiltonian x initial state x grid x tolerance x event direction); distinct = distinct inputs; "
                      "non-trivial = non-zero Hamiltonian; variants = every initial state of the HamTwin model")
    ck.cov["exhaustive"] = True
    ck.assumptions += [
        "the generic twin is a compiled closure over tuples of the Jacobian blocks calling the library's _hamiltonian_rhs: "
        "both paths execute the same floating operations, so bit-equality is expected; a pair that is not bit-identical "
        "but takes the same discrete decisions (HamTwinTrace, Strict = FALSE) and agrees to 5e-9 relative on the outputs "
        "is recorded as rounding-level agreement, anything else is a violation",
        "traced runs execute the kernels' py_func (source) with compiled helpers (numpy.linalg.norm replaced by numba's); "
        "they are paired with compiled runs whose outputs must be bit-identical (differences are listed in notes)",
        "adaptive drivers with decreasing grids are outside the variant space (property C10)",
        "symplectic variants have no generic twin: event path with a never-firing event == plain path, evaluator exact (part 1)",
    ]
    return ck.finish()


def replay_one(data, path) -> int:
    if data.get("kind") == "twin-timeout":
        print("the twin stage as a whole did not return: re-run ./check C17 --tier quick (deterministic)")
        return 0
    lib()
    bad: list = []
    if data.get("case") == "rhs":
        inst = {"H": data["H"], "jac": [[]] * 6, "pts": [data["x"] or [1, 2, 3, 4, 5, 6]], "rhs": [data["expect"]],
                "dHdQ": [data["expect"]], "dHdP": [data["expect"]]}
        for name, thunk, want, x in rhs_cases(inst, True):
            if name != data["fn"]:
                continue
            try:
                got = thunk()
            except Exception as ex:
                print(json.dumps({"fn": name, "raises": f"{type(ex).__name__}: {str(ex)[:300]}", "expected": data["expect"]}))
                print(f"VIOLATION property=C17 replay={path}")
                return 1
            g = [sorted(e) for e in got] if name == "_polynomial_jacobian" else got
            print(json.dumps({"fn": name, "observed": g, "expected": data["expect"]}))
            if g != data["expect"]:
                print(f"VIOLATION property=C17 replay={path}")
                return 1
        return 0
    if data.get("case") == "twin":
        ck = Check("C17", "model_checking", "quick")
        rec = {"variant": data["variant"], "kernel": data["kernels"],
               "publicrhs": data["variant"]["dir"] == "directed" and data["variant"]["family"] != "symplectic"}
        twins = {data["cfg"]["twin"]: {"H": data["H"]}}
        global twin_configs
        orig = twin_configs
        twin_configs = lambda v, rnd, quick: [data["cfg"]]
        try:
            hs, _ = make_hamsys(data["H"])
            try:
                hs.rhs(0.0, np.array(data["cfg"]["y0"]))
                evaluable = True
            except Exception:
                evaluable = False
            check_twins(ck, bad, [rec], twins, random.Random(0), evaluable)
        finally:
            twin_configs = orig
        for k, d, _ in bad:
            print(k, "::", d[:400])
        if bad:
            print(f"VIOLATION property=C17 replay={path}")
            return 1
        return 0
    raise MachineryError("unknown replay case")


if __name__ == "__main__":
    if len(sys.argv) >= 4 and sys.argv[1] == "--twin-child":
        sys.exit(twin_child(sys.argv[2], sys.argv[3]))
    sys.exit(main())
