"""C11 add-on: event location through the PUBLIC integrators in the configurations the model-bound family of c11.py does
not reach: time running backward (strictly decreasing grids for the fixed-step drivers, backward directed systems for the
adaptive and symplectic ones) and event functions that depend explicitly on time.  Decided by TLC (Contracts.tla).

Flow: the rotation x' = y, y' = -x (generic) / the harmonic polynomial Hamiltonian (Hamiltonian drivers), so the state at
time t is known in closed form and the first admissible crossing time t* of every event function used is known exactly.
Observables per (driver, time direction, event kind, crossing direction):
   hit_time   |t_hit - t*|                      bound 1e-6   (location tolerances 1e-10 / 1e-12; integration error ~1e-9)
   g_at_hit   |g(t_hit, y_hit)|                 bound 1e-6
   on_flow    |y_hit - exact flow at t_hit|     bound 1e-6
   first      number of admissible crossings strictly before the reported one        must be 0
"""
from __future__ import annotations

import itertools
import math

import numpy as np

from common import Check, ContractSet


def run(ck: Check):
    import numba
    from numba import types
    from numba.typed import List
    import hiten.algorithms.integrators.rk as rk
    import hiten.algorithms.integrators.symplectic as sy
    from hiten.algorithms.dynamics.base import _DirectedSystem
    from hiten.algorithms.dynamics.hamiltonian import create_hamiltonian_system
    from hiten.algorithms.dynamics.rhs import create_rhs_system
    from hiten.algorithms.polynomial.base import _create_encode_dict_from_clmo, _init_index_tables
    from hiten.algorithms.types.configs import EventConfig
    from hiten.algorithms.types.options import EventOptions
    import polyutil as pu

    rot = create_rhs_system(numba.njit(cache=False)(lambda t, y: np.array([y[1], -y[0]])), 2, "rotation")
    psi, clmo = _init_index_tables(2)
    enc = _create_encode_dict_from_clmo(clmo)
    ks = pu.enum(2)
    blk = np.zeros(len(ks), dtype=np.complex128)
    for i, k in enumerate(ks):
        if tuple(k) in ((2, 0, 0, 0, 0, 0), (0, 0, 0, 2, 0, 0)):
            blk[i] = 0.5
    H = List()
    H.append(np.zeros(1, dtype=np.complex128))
    H.append(np.zeros(6, dtype=np.complex128))
    H.append(blk)
    ham = create_hamiltonian_system(H, 2, psi, clmo, enc, n_dof=3)     # q1' = p1, p1' = -q1: the same rotation in (q1, p1)

    sig = types.float64(types.float64, types.float64[:])
    ev_state_rot = numba.njit(sig, cache=False)(lambda t, y: y[0] - 0.3)        # x = 0.3
    ev_state_ham = numba.njit(sig, cache=False)(lambda t, y: y[0] - 0.3)
    ev_time = numba.njit(sig, cache=False)(lambda t, y: t * t - 0.49)            # |t| = 0.7, explicit time dependence
    th0 = 0.4                                                                  # x(t) = cos(t - th0)... state0 = (cos th0, sin th0)

    def exact(t):
        # x' = y, y' = -x with (x0, y0) = (cos th0, sin th0):  x = cos(t - th0), y = -sin(t - th0)
        return math.cos(t - th0), -math.sin(t - th0)

    def crossings_state(sgn_t, T):
        """times s in (0, T] (s = |t|) at which x(sgn_t * s) - 0.3 = 0, with the sign of d/ds of g there"""
        out = []
        a = math.acos(0.3)
        for kk in range(-3, 4):
            for root in (th0 + a + 2 * math.pi * kk, th0 - a + 2 * math.pi * kk):
                s = root * sgn_t
                if 1e-9 < s <= T:
                    dgds = -math.sin(root - th0) * sgn_t
                    out.append((s, 1 if dgds > 0 else -1))
        return sorted(out)

    cs = ContractSet(ck, "event_contracts_backward_and_time_dependent")
    T = 2.5
    drivers = [("fixed8", lambda: rk.FixedRK(order=8), "grid"), ("fixed4", lambda: rk.FixedRK(order=4), "grid"),
               ("rk45", lambda: rk._RK45(rtol=1e-11, atol=1e-11, max_step=0.2), "adaptive"),
               ("dop853", lambda: rk._DOP853(rtol=1e-11, atol=1e-11, max_step=0.2), "adaptive"),
               ("symplectic4", lambda: sy._ExtendedSymplectic(order=4), "symp")]
    if ck.quick:
        drivers = [drivers[0], drivers[2], drivers[3], drivers[4]]
    for (dname, mk, kind), hamlike, sgn_t, evkind, direction in itertools.product(drivers, (False, True), (1, -1), ("state", "time"), (0, 1, -1)):
        if kind == "symp" and not hamlike:
            continue
        if ck.quick and direction == 1 and evkind == "time":
            continue
        dim, ip = (6, 3) if hamlike else (2, 1)
        y0 = np.zeros(dim)
        y0[0], y0[ip] = math.cos(th0), math.sin(th0)
        base = ham if hamlike else rot
        h = 1e-3 if dname != "fixed4" else 2.5e-4
        # how time is made to run backward: a strictly decreasing grid for the fixed-step drivers (validate_inputs allows it),
        # a backward directed system (ascending grid, reversed field) for the adaptive and symplectic drivers
        if sgn_t == 1:
            system, t_vals, tsign = base, (np.linspace(0.0, T, int(round(T / h)) + 1) if kind != "adaptive" else np.array([0.0, T])), 1.0
        elif kind == "grid":
            system, t_vals, tsign = base, np.linspace(0.0, -T, int(round(T / h)) + 1), 1.0
        else:
            system = _DirectedSystem(base, -1)
            t_vals = np.linspace(0.0, T, int(round(T / h)) + 1) if kind != "adaptive" else np.array([0.0, T])
            tsign = -1.0            # integrator time s >= 0 corresponds to physical time -s
        if evkind == "time" and tsign == -1.0:
            continue                # a directed system keeps its own clock: a time trigger is only meaningful on the raw grid cases
        ev = ev_time if evkind == "time" else (ev_state_ham if hamlike else ev_state_rot)
        label = f"{dname}|{'ham' if hamlike else 'generic'}|time={'+' if sgn_t == 1 else '-'}|event={evkind}|dir={direction}"
        # exact first admissible crossing, in the integrator's own time variable
        if evkind == "state":
            cr = crossings_state(sgn_t, T)
            # direction of g along the integrator's time: for a decreasing grid the integrator time is t itself (dt < 0)
            # d is the sign of dg/ds along the direction of integration (s = |t| increasing); the drivers define the crossing
            # direction along the steps, so the admissible crossings are those with d == direction.  On a decreasing grid the
            # integrator's own time is t = -s.
            adm = [((-s if (kind == "grid" and sgn_t == -1) else s), d) for (s, d) in cr if direction == 0 or d == direction]
            if not adm:
                continue
            t_star = adm[0][0]
        else:
            # g = t^2 - 0.49 along the steps: increasing in |t|; crossing at |t| = 0.7 upward
            if direction == -1:
                continue
            t_star = 0.7 if not (kind == "grid" and sgn_t == -1) else -0.7
        try:
            sol = mk().integrate(system, y0.copy(), t_vals, event_fn=ev, event_cfg=EventConfig(direction=direction, terminal=True),
                                 event_options=EventOptions(xtol=1e-10, gtol=1e-12))
        except Exception as ex:
            ck.notes.append(f"event add-on: {label} raised {type(ex).__name__}: {str(ex)[:120]} (a rejection is allowed)")
            continue
        t_hit = float(sol.times[-1])
        y_hit = np.asarray(sol.states[-1], dtype=float)
        # the extended phase-space symplectic scheme is second-order accurate in practice (see the C16 known finding): 1e-4
        bnd = -35 if kind == "symp" else -60
        tr = cs.trace(label, {"hit_time": bnd, "g_at_hit": bnd, "on_flow": bnd}, {"driver": dname, "ham": hamlike, "sgn_t": sgn_t, "event": evkind, "dir": direction})
        ck.count(("event-backward", label), True)
        cs.obs(tr, "hit_time", abs(t_hit - t_star))
        phys_t = t_hit * tsign
        xe, ye = exact(phys_t)
        cs.obs(tr, "on_flow", max(abs(y_hit[0] - xe), abs(y_hit[ip] - ye)))
        gval = (t_hit * t_hit - 0.49) if evkind == "time" else (y_hit[0] - 0.3)
        cs.obs(tr, "g_at_hit", abs(gval))
        if len(ck.cov["samples"]) < 10 and sgn_t == -1:
            ck.sample({"event_case": label, "t_hit": t_hit, "t_exact": t_star, "g_at_hit": gval})
    worst = {}
    for tr in cs.traces:
        for e in tr["ev"]:
            k = (tr["data"]["driver"], e["name"])
            worst[k] = max(worst.get(k, -9999), e["mag"])
    ck.part("event_backward_worst_by_driver", **{f"{a}:{b}": v for (a, b), v in sorted(worst.items())})
    cs.decide(key_fn=lambda tr, n: f"event|{tr['data']['driver']}|{'ham' if tr['data']['ham'] else 'generic'}|time={'backward' if tr['data']['sgn_t'] == -1 else 'forward'}|{tr['data']['event']}-event|{n}")
    cs.selftest()
