"""C16 -- the symplectic integrator is symplectic, reversible, energy-bounded.

Model: spec/kernels/TaoStep.tla (MCTaoStep.tla, MCTaoOrder.tla).

 1. TLC: for a family of integer polynomial Hamiltonians (3 dof, non-separable, degree <= 4), lattice
    points and steps, every sub-flow and the full order-2 step of the SPECIFIED map is exactly
    symplectic (D^T Omega D = Omega with exact rational Jacobians), exactly reversible, and the
    Jacobians are the derivatives of the maps.  The composition schedule is palindromic, its
    coefficients sum to one step, 3^k base steps; the triple jump cancels the leading error term
    iff gamma = 1/(2 - 2^(1/m)) with m = order - 1.
 2. spec -> code (exact replay): every TLC instance goes through the compiled kernels
    _phi_H_a_update_poly, _phi_H_b_update_poly, _phi_omega_H_c_update_poly, _recursive_update_poly
    (order 2), _integrate_symplectic and _ExtendedSymplectic.integrate.  A and B are compared with ==
    (dyadic instances); everything involving cos/sin of a quarter turn to 1e-12 (cos(pi/2) = 6e-17).
 3. code -> spec (binding B2): _recursive_update_poly.py_func with the three sub-flows replaced by
    recorders yields the sequence of (kind, delta) the code really executes for orders 2..8; the
    harness solves gamma per level and the exponent m, classifies every delta symbolically and
    compares with TLC's schedule; TLC decides the order identity for the measured m.
"""
from __future__ import annotations

import json
import math
import sys
import time
from fractions import Fraction as F

import numpy as np

from common import SPEC, Check, MachineryError, tlc, workdir
from pyfunc import patched, py_func, same_bits

CFG = SPEC / "cfg"
KERN = SPEC / "kernels"
JENV = {"JDK_JAVA_OPTIONS": "-Xss64m"}
TRIG_TOL = 1e-12        # relative to the magnitude of the expected state; unchanged tree <= 1e-15


def rat(x) -> F:
    return F(int(x[0]), int(x[1]))


def fexact(v):
    out = np.array([float(x) for x in v], dtype=np.float64)
    for a, b in zip(out, v):
        if F(float(a)) != b:
            raise MachineryError(f"instance value {b} not exactly representable")
    return out


class Ham:
    """Polynomial Hamiltonian systems of the library built from TLC monomials [{c, e}]."""

    def __init__(self):
        self._c = {}

    def get(self, H):
        key = json.dumps(H, sort_keys=True)
        if key not in self._c:
            from numba.typed import List
            from hiten.algorithms.dynamics.hamiltonian import create_hamiltonian_system
            from hiten.algorithms.polynomial.base import (_create_encode_dict_from_clmo, _encode_multiindex,
                                                          _init_index_tables)
            deg = max(4, max(sum(m["e"]) for m in H))
            psi, clmo = _init_index_tables(deg)
            enc = _create_encode_dict_from_clmo(clmo)
            blocks = [np.zeros(psi[6, d], dtype=np.complex128) for d in range(deg + 1)]
            for m in H:
                k = np.array(m["e"], dtype=np.int64)
                d = int(k.sum())
                pos = _encode_multiindex(k, d, enc)
                if pos < 0:
                    raise MachineryError("monomial not encodable")
                blocks[d][pos] += float(m["c"])
            L = List()
            for b in blocks:
                L.append(b)
            self._c[key] = create_hamiltonian_system(L, deg, psi, clmo, enc, n_dof=3)
        return self._c[key]


def angle_of(cs):
    c, s = float(rat(cs[0])), float(rat(cs[1]))
    return math.atan2(s, c)


def run_instance(sy, hams: Ham, inst, only=None):
    """One TLC instance through the real kernels.  Returns [(target, observed array, exact?)]."""
    kind = inst["kind"]
    res = []

    def want(n):
        return only is None or only == n

    if kind in ("A", "B"):
        hs = hams.get(inst["H"])
        z = fexact([rat(x) for x in inst["z"]])
        d = float(rat(inst["d"]))
        fn = sy._phi_H_a_update_poly if kind == "A" else sy._phi_H_b_update_poly
        name = fn.py_func.__name__
        if want(name):
            q = z.copy()
            fn(q, d, hs.jac_H, hs.clmo_H)
            res.append((name, q, True))
    elif kind == "C":
        z = fexact([rat(x) for x in inst["z"]])
        ang = angle_of(inst["cs"])
        if want("_phi_omega_H_c_update_poly"):
            for delta in (1.0, -0.5):
                q = z.copy()
                sy._phi_omega_H_c_update_poly(q, delta, ang / (2.0 * delta))
                res.append(("_phi_omega_H_c_update_poly", q, False))
    elif kind == "step":
        hs = hams.get(inst["H"])
        z = fexact([rat(x) for x in inst["z"]])
        h = float(rat(inst["d"]))
        om = angle_of(inst["cs"]) / (2.0 * h)
        if want("_recursive_update_poly"):
            q = z.copy()
            sy._recursive_update_poly(q, h, 2, om, hs.jac_H, hs.clmo_H)
            res.append(("_recursive_update_poly", q, False))
    elif kind == "run":
        hs = hams.get(inst["H"])
        y0 = fexact([rat(x) for x in inst["z"]])
        hsz = [float(rat(x)) for x in inst["hs"]]
        tv = np.cumsum([0.0] + hsz)
        # omega = (c dt)^-2 must turn by the planned angle in every step: 2 omega dt = 2 / (c^2 dt)
        a0 = angle_of(inst["rots"][0]) % (2 * math.pi)
        if a0 <= 0:
            raise MachineryError("run plan with a zero first rotation")
        c = math.sqrt(2.0 / (a0 * hsz[0]))
        for dt, cs in zip(hsz, inst["rots"]):
            a = 2.0 / (c * c * dt)
            if abs(math.cos(a) - float(rat(cs[0]))) > 1e-13 or abs(math.sin(a) - float(rat(cs[1]))) > 1e-13:
                raise MachineryError("run plan rotations are not realisable with one c_omega_heuristic")
        if want("_integrate_symplectic"):
            tr = sy._integrate_symplectic(y0, tv, hs.jac_H, hs.clmo_H, 2, c)
            res.append(("_integrate_symplectic", np.asarray(tr).ravel(), False))
        if want("_ExtendedSymplectic.integrate"):
            sol = sy._ExtendedSymplectic(order=2, c_omega_heuristic=c).integrate(hs, y0, tv)
            ok_t = np.array_equal(np.asarray(sol.times), tv)
            st = np.asarray(sol.states).ravel()
            res.append(("_ExtendedSymplectic.integrate", st if ok_t else st * np.nan, False))
    return res


def expected_of(rec):
    out = rec["out"]
    if rec["inst"]["kind"] == "run":
        return [rat(x) for row in out for x in row]
    return [rat(x) for x in out]


def differs(obs, exp, exact):
    o = np.asarray(obs, dtype=np.float64).ravel()
    if len(o) != len(exp) or not np.all(np.isfinite(o)):
        return True, float("inf")
    e = np.array([float(x) for x in exp])
    if exact:
        bad = any(F(float(a)) != b for a, b in zip(o, exp))
        return bad, float(np.max(np.abs(o - e)))
    scale = max(1.0, float(np.max(np.abs(e))))
    err = float(np.max(np.abs(o - e))) / scale
    return err > TRIG_TOL, err


# --------------------------------------------------------------------------------------
# schedule binding
# --------------------------------------------------------------------------------------

def record_schedule(sy, order, h, omega=0.3):
    """(kind, delta) sequence executed by the source of _recursive_update_poly."""
    log = []
    pf = py_func(sy._recursive_update_poly)

    def rec_a(q, d, jac, clmo):
        log.append(("A", float(d)))

    def rec_b(q, d, jac, clmo):
        log.append(("B", float(d)))

    def rec_c(q, d, om):
        log.append(("C", float(d), float(om)))

    def recurse(q, ts, o, om, jac, clmo):
        return pf(q, ts, o, om, jac, clmo)

    with patched(sy, _phi_H_a_update_poly=rec_a, _phi_H_b_update_poly=rec_b, _phi_omega_H_c_update_poly=rec_c,
                 _recursive_update_poly=recurse):
        pf(np.zeros(12), float(h), int(order), float(omega), None, None)
    return log


def part_schedule(ck: Check, sy):
    orders = [2, 4, 6, 8]
    logs = {o: record_schedule(sy, o, 1.0) for o in orders}
    gam = {}
    for o in orders[1:]:
        first = logs[o][0]
        if first[0] != "A":
            gam[o] = float("nan")
            continue
        lower = 1.0
        for lo in range(4, o, 2):
            lower *= gam[lo]
        gam[o] = 2.0 * first[1] / lower
    ms = {}
    for o, g in gam.items():
        try:
            kap = 2.0 - 1.0 / g
            m = math.log(2.0) / math.log(kap)
        except Exception:  # noqa
            m = float("nan")
        ms[o] = m
    code_m = []
    for o in orders[1:]:
        m = ms[o]
        mi = int(round(m)) if math.isfinite(m) else 0
        integral = math.isfinite(m) and abs(m - mi) < 1e-9 and 1 <= mi <= 40
        code_m.append({"order": o, "m": mi if integral else 0})
    wd = workdir("tao")
    (wd / "tao.json").write_text(json.dumps(code_m))
    r = tlc(KERN / "MCTaoOrder.tla", CFG / "TaoOrder.cfg", workers=1, env=dict(JENV, TAO_FILE=str(wd / "tao.json")),
            timeout=300)
    ck.model("TaoOrder", r)
    pr = r.printed()
    if len(pr) != 1:
        raise MachineryError("MCTaoOrder did not print one record")
    sched, verdicts = pr[0]["sched"], pr[0]["verdicts"]

    # symbolic classification of the recorded deltas against TLC's schedule
    struct_bad = None
    for o in orders:
        for h in (1.0, -0.5):
            log = logs[o] if h == 1.0 else record_schedule(sy, o, h)
            exp = sched[str(o)]
            ck.count(("schedule", o, h), o > 2)
            levels = list(range(o, 2, -2))
            if len(log) != len(exp):
                struct_bad = struct_bad or (o, h, f"{len(log)} sub-flow calls, schedule has {len(exp)}")
                continue
            for i, (ev, ex) in enumerate(zip(log, exp)):
                val = float(rat(ex["frac"])) * h
                path = ex["path"] if isinstance(ex["path"], list) else []
                for lv, br in zip(levels, path):
                    val *= gam[lv] if br == "g" else (1.0 - 2.0 * gam[lv])
                if ev[0] != ex["kind"] or not math.isclose(ev[1], val, rel_tol=1e-12, abs_tol=0.0):
                    struct_bad = struct_bad or (o, h, f"call {i + 1} is {ev[:2]}, schedule says ({ex['kind']}, {val!r}) "
                                                      f"[{ex['frac']} * {path}]")
                    break
                if ev[0] == "C" and ev[2] != 0.3:
                    struct_bad = struct_bad or (o, h, "omega changed inside the recursion")
    if struct_bad is not None:
        o, h, why = struct_bad
        ck.violation("_recursive_update_poly|composition-schedule",
                     f"order {o}, h = {h}: the sub-flow sequence executed by _recursive_update_poly is not the symmetric "
                     f"triple-jump composition of TaoStep.Sched: {why}",
                     {"kind": "schedule", "order": o, "h": h, "why": why})
    # the order identity, decided by TLC for the exponent measured on the code
    res = {}
    failing = []
    for v in verdicts:
        o = int(v["order"])
        g = gam[o]
        coef = 2.0 * g ** (o - 1) + (1.0 - 2.0 * g) ** (o - 1)
        res[o] = {"gamma_code": g, "m_code": ms[o], "m_required": int(v["required"]), "cancels": bool(v["cancels"]),
                  "error_coefficient": coef}
        ck.count(("order-identity", o), True)
        if not v["cancels"] or abs(coef) > 1e-9:
            failing.append(o)
    ck.part("triple_jump", **{str(k): v for k, v in res.items()})
    if failing:
        o = failing[0]
        ck.violation("_recursive_update_poly|triple-jump-exponent",
                     f"the triple jump that builds order {o} uses gamma = 1/(2 - 2^(1/m)) with m = {ms[o]:.6g}; the "
                     f"order-{o - 1} error term cancels only for m = {o - 1} (2 gamma^{o - 1} + (1 - 2 gamma)^{o - 1} = "
                     f"{res[o]['error_coefficient']:.3e} instead of 0), so the scheme labelled order {o} is of order 2; "
                     f"failing levels: {failing}",
                     {"kind": "exponent", "levels": {str(k): v for k, v in res.items()}, "failing": failing})
    ck.sample({"schedule_order_4": [(k, round(d, 6)) for (k, d, *_) in logs[4]], "gamma_4": gam.get(4), "m_4": ms.get(4)})
    return res


def measured_rates(ck: Check, sy, hams: Ham):
    """Information only: observed convergence rate with the coupling constant held fixed."""
    H = [{"c": 1, "e": [0, 0, 0, 2, 0, 0]}, {"c": 1, "e": [0, 0, 0, 0, 2, 0]}, {"c": 1, "e": [0, 0, 0, 0, 0, 2]},
         {"c": 1, "e": [2, 0, 0, 0, 0, 0]}, {"c": 2, "e": [0, 2, 0, 0, 0, 0]}, {"c": 1, "e": [0, 0, 2, 0, 0, 0]},
         {"c": 1, "e": [1, 0, 0, 0, 1, 0]}, {"c": 1, "e": [1, 1, 0, 0, 0, 1]}, {"c": -1, "e": [0, 0, 1, 2, 0, 0]}]
    hs = hams.get(H)
    y0 = np.array([0.1, -0.2, 0.15, 0.05, 0.1, -0.1])
    om = 2.0

    def final(order, n):
        q = np.concatenate([y0, y0])
        h = 0.5 / n
        for _ in range(n):
            sy._recursive_update_poly(q, h, order, om, hs.jac_H, hs.clmo_H)
        return q.copy()

    out = {}
    ref = final(8, 256)
    for o in (2, 4, 6):
        e1 = np.max(np.abs(final(o, 8) - ref))
        e2 = np.max(np.abs(final(o, 16) - ref))
        out[str(o)] = round(float(np.log2(e1 / e2)), 2) if e2 > 0 else None
    ck.part("measured_rate_information_only", fixed_omega=om, rates=out)


def part_driver(ck: Check, sy, hams: Ham):
    """_integrate_symplectic: omega from the top-level dt, one step per interval, extended state carried."""
    H = [{"c": 1, "e": [0, 0, 0, 2, 0, 0]}, {"c": 1, "e": [0, 0, 0, 0, 2, 0]}, {"c": 1, "e": [0, 0, 0, 0, 0, 2]},
         {"c": 1, "e": [2, 0, 0, 0, 0, 0]}, {"c": 1, "e": [0, 2, 0, 0, 0, 0]}, {"c": 1, "e": [0, 0, 2, 0, 0, 0]},
         {"c": 1, "e": [1, 1, 0, 0, 0, 1]}]
    hs = hams.get(H)
    y0 = np.array([0.1, 0.2, -0.1, 0.0, 0.1, 0.05])
    tv = np.array([0.0, 0.01, 0.03, 0.035, 0.06])
    bad = None
    for order in (2, 4):
        comp = sy._integrate_symplectic(y0, tv, hs.jac_H, hs.clmo_H, order, 7.0)
        calls = []
        real_step, real_tao = sy._recursive_update_poly, sy._get_tao_omega

        def w_tao(dt, o, c):
            r = real_tao(dt, o, c)
            calls.append(("tao", float(dt), int(o), float(c), float(r)))
            return r

        def w_step(q, dt, o, om, jac, clmo):
            before = q.copy()
            real_step(q, dt, o, om, jac, clmo)
            calls.append(("step", float(dt), int(o), float(om), id(q), before, q.copy()))

        with patched(sy, _recursive_update_poly=w_step, _get_tao_omega=w_tao):
            src = py_func(sy._integrate_symplectic)(y0, tv, hs.jac_H, hs.clmo_H, order, 7.0)
        ck.count(("driver", order), True)
        steps = [c for c in calls if c[0] == "step"]
        taos = [c for c in calls if c[0] == "tao"]
        dts = np.diff(tv)
        ok = (len(steps) == len(dts) == len(taos)
              and all(s[1] == dt and t[1] == dt and s[3] == t[4] and s[2] == order and t[3] == 7.0
                      for s, t, dt in zip(steps, taos, dts))
              and len({s[4] for s in steps}) == 1
              and np.array_equal(steps[0][5], np.concatenate([y0, y0]))
              and all(np.array_equal(a[6], b[5]) for a, b in zip(steps, steps[1:]))
              and all(np.array_equal(src[i + 1], s[6][:6]) for i, s in enumerate(steps))
              and np.array_equal(src[0], y0) and same_bits(src, comp))
        if not ok and bad is None:
            bad = order
    if bad is not None:
        ck.violation("_integrate_symplectic|extended-state-bookkeeping",
                     f"order {bad}: the driver does not take one step per interval with omega(dt) on a carried extended state",
                     {"kind": "driver", "order": bad})
    ck.part("driver_bookkeeping", orders_checked=2, ok=bad is None)


def do_replay(path, tier):
    import hiten.algorithms.integrators.symplectic as sy
    rec = json.load(open(path))
    data, key = rec["data"], rec["key"]
    still = False

    class Col(Check):
        def __init__(self):
            super().__init__("C16", "model_checking", tier)
            self.keys = {}

        def violation(self, k, desc, data=None):
            self.keys[k] = desc
            return True
    if data["kind"] == "map":
        hams = Ham()
        for name, obs, exact in run_instance(sy, hams, data["record"]["inst"], only=data["target"]):
            bad, err = differs(obs, expected_of(data["record"]), exact)
            print(json.dumps({"target": name, "differs": bad, "error": err, "observed": np.asarray(obs).tolist(),
                              "expected": data["record"]["out"]})[:3000])
            still = still or bad
    elif data["kind"] in ("exponent", "schedule"):
        col = Col()
        part_schedule(col, sy)
        still = key in col.keys
        print(json.dumps({"replayed": key, "still_reported": still, "now": col.keys.get(key)}, indent=1))
    elif data["kind"] == "driver":
        col = Col()
        part_driver(col, sy, Ham())
        still = key in col.keys
        print(json.dumps({"replayed": key, "still_reported": still}, indent=1))
    else:
        raise MachineryError("unknown replay kind")
    if still:
        print(f"VIOLATION property=C16 replay={path}")
        return 1
    return 0


def main(tier=None, replay=None):
    if replay:
        return do_replay(replay, tier)
    ck = Check("C16", "model_checking", tier)
    import hiten.algorithms.integrators.symplectic as sy

    # ---- 1. model: the specified map is symplectic / reversible; instances
    r = tlc(KERN / "MCTaoStep.tla", CFG / ("TaoStep.quick.cfg" if ck.quick else "TaoStep.thorough.cfg"), workers=8,
            env=JENV, timeout=1500)
    ck.model("TaoStep." + ck.tier, r)
    recs = r.printed()
    if len(recs) != r.distinct - 16 or not recs:
        raise MachineryError(f"MCTaoStep printed {len(recs)} records for {r.distinct} states")

    # ---- 2. exact replay
    hams = Ham()
    per = {}
    worst = 0.0
    mism = {}
    for rec in recs:
        inst = rec["inst"]
        try:
            results = run_instance(sy, hams, inst)
        except MachineryError:
            raise
        except Exception as ex:  # noqa
            results = [("kernel-raises:" + inst["kind"], np.array([np.nan]), False)]
        exp = expected_of(rec)
        for name, obs, exact in results:
            per[name] = per.get(name, 0) + 1
            deg = max((sum(m["e"]) for m in inst["H"]), default=1) if inst["H"] else 1
            ck.count((name, json.dumps(inst, sort_keys=True)), deg >= 2 or inst["kind"] == "C")
            bad, err = differs(obs, exp, exact)
            if not exact and not bad:
                worst = max(worst, err)
            if bad and name not in mism:
                mism[name] = (rec, err, np.asarray(obs).tolist())
    for name, (rec, err, obs) in mism.items():
        ck.violation(f"{name}|exact-map-mismatch",
                     f"{name} is not the specified (symplectic, reversible) map: kind {rec['inst']['kind']} instance differs "
                     f"from the exact image by {err:.3e}",
                     {"kind": "map", "target": name, "record": rec, "observed": obs})
    ck.part("map_replay", instances=len(recs), **{k.replace(".", "_"): v for k, v in per.items()},
            trig_tol=TRIG_TOL, largest_trig_error_accepted=worst,
            margin_low=(TRIG_TOL / worst if worst else None), targets_with_mismatch=sorted(mism))
    if worst and TRIG_TOL / worst < 100:
        raise MachineryError(f"trigonometric tolerance lost its margin: {worst:.3e}")
    need = {"_phi_H_a_update_poly", "_phi_H_b_update_poly", "_phi_omega_H_c_update_poly", "_recursive_update_poly",
            "_integrate_symplectic", "_ExtendedSymplectic.integrate"}
    if need - set(per):
        raise MachineryError(f"kernels not exercised: {sorted(need - set(per))}")
    rec = recs[len(recs) // 2]
    ck.sample({"map_instance": {"kind": rec["inst"]["kind"], "d": rec["inst"]["d"], "cs": rec["inst"]["cs"],
                                "z": rec["inst"]["z"]}, "exact_image": rec["out"]})

    # ---- 3. schedule + order identity, driver bookkeeping
    part_schedule(ck, sy)
    part_driver(ck, sy, hams)
    measured_rates(ck, sy, hams)

    ck.cov["rule"] = ("map instances = TLC-enumerated (Hamiltonian x lattice point x step x rotation) records, each replayed "
                      "into every applicable kernel; non-trivial = Hamiltonian of degree >= 2 (or a rotation); schedule "
                      "cases = order x step sign; order identity = one case per triple-jump level")
    ck.cov["exhaustive"] = True
    ck.assumptions += ["rotations are realised through omega * delta = angle / 2 with angle = atan2(s, c); cos/sin of that "
                       "float are within 1e-16 of the rational (c, s) (tolerance 1e-12 relative)",
                       "symplecticity/reversibility are model-checked for the SPECIFIED map; the code is bound to it by "
                       "exact replay on a lattice (a polynomial map of bounded degree is fixed by its values there) and "
                       "by the recorded composition schedule; the order of a symmetric composition follows from "
                       "palindromy + the triple-jump identity (Yoshida/Suzuki), trusted",
                       "long-time boundedness of the energy error is not decided (theorem on symmetric symplectic "
                       "compositions trusted, not measured)"]
    import c16long
    c16long.run(ck)      # long-time energy boundedness, plain and event-enabled paths (Contracts.tla)
    return ck.finish()


if __name__ == "__main__":
    sys.exit(main())
